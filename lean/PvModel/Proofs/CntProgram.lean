/-
  The constraint-lifecycle invariant for WHOLE PROGRAMS: every goal builder of Model/Goals.lean (the atoms
  `==`, `!=`, the CLP(Z)/CLP(FD) constraints, `infd`, the library relations, `first`/`rest`, labelling and
  reification) keeps `Inv`, hence (Proofs/Pres.lean) every state any program built from them ever delivers
  satisfies `withs = takes + |store|`.
-/
import PvModel.Proofs.CntGlobal
import PvModel.Proofs.Pres
import PvModel.Model.Goals
namespace Pv
open State Goal

theorem liftRes_pres {f : State → Res State} (hf : ∀ st st', Inv st → f st = .ok st' → Inv st') :
    PresG (K := Call) Inv (.atom (liftRes f)) := by
  refine .atom fun a b ha h => ?_
  unfold liftRes at h
  split at h
  · cases h; exact ha
  · split at h
    · cases h; rename_i s e; exact hf _ _ ha e
    · cases h
    · cases h; exact SameStore.inv ⟨rfl, rfl, rfl, rfl, rfl⟩ ha
    · cases h; exact SameStore.inv ⟨rfl, rfl, rfl, rfl, rfl⟩ ha

section Atoms
variable (ord : Order)

theorem eqG_pres (u v : Term) : PresG Inv (eqG ord u v) :=
  liftRes_pres fun _ _ hi h => (unify_step ord hi h).inv
theorem diseqG_pres (u v : Term) : PresG Inv (diseqG ord u v) :=
  liftRes_pres fun _ _ hi h => (disunify_step ord hi h).inv
theorem cstG_pres (c : Cst) : PresG Inv (cstG ord c) :=
  liftRes_pres fun _ _ hi h => (postCst_step ord hi h).inv
theorem domG_pres (x : Term) (d : FD) : PresG Inv (domG ord x d) :=
  liftRes_pres fun _ _ hi h => (domFd_step ord hi h).inv

theorem assertG_pres (ok : Bool) (site : String) {g : G} (hg : PresG Inv g) : PresG Inv (assertG ok site g) := by
  unfold assertG
  split
  · exact hg
  · exact liftRes_pres fun _ _ _ h => by cases h

theorem pluszG_pres (u v w : Term) : PresG Inv (pluszG ord u v w) := assertG_pres _ _ (cstG_pres ord _)
theorem timeszG_pres (u v w : Term) : PresG Inv (timeszG ord u v w) := assertG_pres _ _ (cstG_pres ord _)
theorem plusfdG_pres (u v w : Term) : PresG Inv (plusfdG ord u v w) := assertG_pres _ _ (cstG_pres ord _)
theorem minusfdG_pres (u v w : Term) : PresG Inv (minusfdG ord u v w) := assertG_pres _ _ (cstG_pres ord _)
theorem timesfdG_pres (u v w : Term) : PresG Inv (timesfdG ord u v w) := assertG_pres _ _ (cstG_pres ord _)
theorem ltefdG_pres (u v : Term) : PresG Inv (ltefdG ord u v) := assertG_pres _ _ (cstG_pres ord _)
theorem diseqfdG_pres (u v : Term) : PresG Inv (diseqfdG ord u v) := assertG_pres _ _ (cstG_pres ord _)
theorem distinctfdG_pres (u : Term) : PresG Inv (distinctfdG ord u) := assertG_pres _ _ (cstG_pres ord _)
theorem ltfdG_pres (u v : Term) : PresG Inv (ltfdG ord u v) :=
  conjOfList_pres _ fun g hg => by
    simp only [List.mem_cons, List.not_mem_nil, or_false] at hg
    rcases hg with rfl | rfl
    · exact diseqfdG_pres ord u v
    · exact ltefdG_pres ord u v

theorem infdG_pres (u : Term) (d : FD) : PresG Inv (infdG ord u d) := by
  unfold infdG
  split
  · exact conjOfList_pres _ fun g hg => by
      obtain ⟨v, _, rfl⟩ := List.mem_map.1 hg
      exact domG_pres ord v d
  · exact domG_pres ord u d

theorem consG_pres (a b c : Term) : PresG Inv (consG ord a b c) := eqG_pres ord _ _
theorem emptyG_pres (s : Term) : PresG Inv (emptyG ord s) := eqG_pres ord _ _

theorem nextVar_inv {st : State} (k : Nat) (hi : Inv st) : Inv { st with nextVar := k } :=
  SameStore.inv ⟨rfl, rfl, rfl, rfl, rfl⟩ hi

theorem firstG_pres (dfs : Bool) (l f : Term) : PresG Inv (firstG ord dfs l f) := by
  refine .dyn (fun a ha => nextVar_inv _ ha) fun a _ => .fresh ?_
  split
  · exact conjDOfList_pres _ fun g hg => by
      simp only [List.mem_cons, List.not_mem_nil, or_false] at hg; subst hg; exact consG_pres ord _ _ _
  · exact conjOfList_pres _ fun g hg => by
      simp only [List.mem_cons, List.not_mem_nil, or_false] at hg; subst hg; exact consG_pres ord _ _ _

theorem restG_pres (dfs : Bool) (l r : Term) : PresG Inv (restG ord dfs l r) := by
  refine .dyn (fun a ha => nextVar_inv _ ha) fun a _ => .fresh ?_
  split
  · exact conjDOfList_pres _ fun g hg => by
      simp only [List.mem_cons, List.not_mem_nil, or_false] at hg; subst hg; exact consG_pres ord _ _ _
  · exact conjOfList_pres _ fun g hg => by
      simp only [List.mem_cons, List.not_mem_nil, or_false] at hg; subst hg; exact consG_pres ord _ _ _

/-- labelling -/
theorem forceAns_pres : ∀ (n : Nat) (x : Term), PresG Inv (forceAns ord n x)
  | 0, _ => liftRes_pres fun _ _ _ h => by cases h
  | n + 1, x => by
    unfold forceAns
    refine .dyn (fun _ ha => ha) fun st _ => ?_
    split
    · exact .succeed
    · split
      · split
        · exact altOfList_pres _ fun g hg => by
            obtain ⟨k, _, rfl⟩ := List.mem_map.1 hg
            exact eqG_pres ord _ _
        · exact .succeed
      · exact conjOfList_pres _ fun g hg => by
          simp only [List.mem_cons, List.not_mem_nil, or_false] at hg
          rcases hg with rfl | rfl <;> exact forceAns_pres n _
      · exact conjOfList_pres _ fun g hg => by
          obtain ⟨a, _, rfl⟩ := List.mem_map.1 hg
          exact forceAns_pres n _
      · exact .succeed

theorem enforceFd_pres (x : Term) : PresG Inv (enforceFd ord x) := by
  unfold enforceFd
  refine conjOfList_pres _ fun g hg => ?_
  simp only [List.mem_cons, List.not_mem_nil, or_false] at hg
  rcases hg with rfl | rfl
  · exact forceAns_pres ord _ _
  · refine .dyn (fun _ ha => ha) fun st _ => ?_
    split
    · exact .succeed
    · split
      · exact liftRes_pres fun _ _ _ h => by cases h
      · exact onceo_pres _ fun g hg => by
          simp only [List.mem_cons, List.not_mem_nil, or_false] at hg; subst hg
          exact forceAns_pres ord _ _

theorem takesAll_inv : ∀ (l : List (Nat × Cst)) (st : State), Inv st →
    Inv (l.foldl (fun s p => (s.takeConstraint p.1).1) st)
  | [], _, h => h
  | p :: l, st, h => takesAll_inv l _ (take_step st p.1 h).1

theorem withNews_inv : ∀ (cs : List Ext1) (st : State), Inv st →
    Inv (cs.foldl (fun s c => s.withNewConstraint ord (.diseq c)) st)
  | [], _, h => h
  | _ :: cs, st, h => withNews_inv cs _ (withNew_step (i := none) ord st _ h).inv

theorem reifyFinal_pres (x : Term) : PresG Inv (reifyFinal ord x) :=
  liftRes_pres fun st st' hi h => by
    simp only [Res.ok.injEq] at h
    subst h
    exact withNews_inv ord _ _ (SameStore.inv ⟨rfl, rfl, rfl, rfl, rfl⟩ (takesAll_inv st.store st hi))

theorem reifyG_pres (x : Term) : PresG Inv (reifyG ord x) :=
  conjOfList_pres _ fun g hg => by
    simp only [List.mem_cons, List.not_mem_nil, or_false] at hg
    rcases hg with rfl | rfl
    · exact conjOfList_pres _ fun g hg => by
        simp only [List.mem_cons, List.not_mem_nil, or_false] at hg
        rcases hg with rfl | rfl
        · exact enforceFd_pres ord x
        · exact .succeed
    · exact reifyFinal_pres ord x

theorem queryG_pres (qv : Term) (qs : List Term) (body : List G) (hb : ∀ g ∈ body, PresG Inv g) :
    PresG Inv (queryG ord qv qs body) :=
  .fresh (conjOfList_pres _ fun g hg => by
    simp only [List.mem_cons, List.not_mem_nil, or_false] at hg
    rcases hg with rfl | rfl | rfl
    · exact eqG_pres ord _ _
    · exact conjOfList_pres _ hb
    · exact reifyG_pres ord qv)

end Atoms
end Pv

namespace Pv
open State Goal

/-- closes goals of the form `PresG Inv g` for `g` assembled from the builders above -/
macro "pres_tac" ord:term : tactic => `(tactic|
  repeat (first
    | exact eqG_pres $ord _ _
    | exact diseqG_pres $ord _ _
    | exact PresG.call
    | exact PresG.succeed
    | apply PresG.fresh
    | (apply conjOfList_pres; intro g hg; simp only [List.mem_cons, List.not_mem_nil, or_false] at hg;
       rcases hg with rfl | rfl | rfl | rfl | rfl <;> try subst g)
    | (apply conjDOfList_pres; intro g hg; simp only [List.mem_cons, List.not_mem_nil, or_false] at hg;
       rcases hg with rfl | rfl | rfl | rfl | rfl <;> try subst g)
    | (apply condeOfClauses_pres; intro c hc; simp only [List.mem_cons, List.not_mem_nil, or_false] at hc;
       rcases hc with rfl | rfl | rfl | rfl <;> try subst c)
    | (apply condeDOfClauses_pres; intro c hc; simp only [List.mem_cons, List.not_mem_nil, or_false] at hc;
       rcases hc with rfl | rfl | rfl | rfl <;> try subst c)
    | (intro g hg; simp only [List.mem_cons, List.not_mem_nil, or_false] at hg;
       rcases hg with rfl | rfl | rfl | rfl | rfl <;> try subst g)
    | split))

theorem relBody_pres (ord : Order) (c : Call) (n : Nat) : PresG Inv (relBody ord c n).2 := by
  unfold relBody
  simp only
  split
  all_goals first
    | exact liftRes_pres fun _ _ _ h => by cases h
    | (simp only; pres_tac ord)

theorem defs_pres (ord : Order) : PresDefs Inv (defs ord) := fun c a ha =>
  ⟨nextVar_inv _ ha, relBody_pres ord c a.nextVar⟩

end Pv
