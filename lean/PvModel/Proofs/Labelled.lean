/-
  A FULLY LABELLED STATE IS CLOSED.  Labelling posts equalities `k == x`.  Through such steps (Proofs/Tight.lean:
  no new key, no new propagator, no stale entry) a variable with a domain stays unbound with a domain or becomes a NUMBER
  (`KN`), so every operand of every stored propagator stays "a number, or a variable with a domain" (`OpsOK`: what
  `verify_all_bound` checks before labelling, together with the documented operand kinds).  Hence, once every variable
  that had a domain is bound, the domain store is EMPTY and — by liveness (Proofs/Live.lean) — NO PROPAGATOR is left:
  the hypotheses of `C16_ground_answer_sound` hold, the answer is a solution.
-/
import PvModel.Proofs.Tight
namespace Pv
open State Term FD
attribute [local instance] Mode.strict

/-- the substitution grows, an unbound variable stays unbound or becomes a number, and keeps having a domain while unbound -/
structure KN (st st' : State) : Prop where
  ext : Ext st.σ st'.σ
  numonly : ∀ y, st.σ y = .var y → st'.σ y = .var y ∨ ∃ n, st'.σ y = Term.num n
  dom : ∀ y, st.σ y = .var y → st'.σ y = .var y → (st.dget y).isSome → (st'.dget y).isSome

theorem KN.of_keeps {st st' : State} (k : Keeps st st') : KN st st' := ⟨k.ext, k.numonly, k.dom⟩

theorem KN.refl {st : State} (h : Solved st.σ) : KN st st := ⟨Ext.refl _ h, fun _ h => .inl h, fun _ _ _ h => h⟩

theorem KN.trans {a b c : State} (h1 : KN a b) (h2 : KN b c) : KN a c := by
  have num_fix : ∀ y n, b.σ y = Term.num n → c.σ y = Term.num n := fun y n e => by
    have := h2.ext (.var y)
    simp only [apply, e] at this
    simpa [Term.num, apply] using this.symm
  refine ⟨Ext.trans h1.ext h2.ext, fun y hy => ?_, fun y hy hc hd => ?_⟩
  · rcases h1.numonly y hy with e | ⟨n, e⟩
    · exact h2.numonly y e
    · exact .inr ⟨n, num_fix y n e⟩
  · rcases h1.numonly y hy with e | ⟨n, e⟩
    · exact h2.dom y e hc (h1.dom y hy e hd)
    · rw [num_fix y n e] at hc; simp [Term.num] at hc

/-- every operand of every stored propagator is a number or a variable with a domain -/
def OpsOK (s : State) : Prop := ∀ p ∈ s.store, p.2.isDiseq = false → ∀ u ∈ operandsOf p.2,
  (∃ n, walk s.σ u = Term.num n) ∨ (∃ x, walk s.σ u = .var x ∧ (s.dget x).isSome)

theorem OpsOK.keep {s s' : State} (h : OpsOK s) (hs : Solved s.σ) (kn : KN s s') (sub : SubS (fun _ => False) s s') :
    OpsOK s' := by
  intro p hp hd u hu
  rcases sub p hp hd with ⟨q, hq, e⟩ | f
  · have hqd : q.2.isDiseq = false := by rw [e]; exact hd
    have := h q hq hqd u (by rw [e]; exact hu)
    cases u with
    | var x0 =>
      have hx0 : s'.σ x0 = apply s'.σ (s.σ x0) := by
        have := kn.ext (.var x0); simpa [apply] using this.symm
      simp only [walk] at this ⊢
      rcases this with ⟨n, e1⟩ | ⟨x, e1, hdx⟩
      · left; exact ⟨n, by rw [hx0, e1]; simp [Term.num, apply]⟩
      · have hxu : s.σ x = .var x := by
          have := hs x0; rw [e1] at this; simpa [apply] using this
        rw [hx0, e1]
        simp only [apply]
        rcases kn.numonly x hxu with e2 | ⟨n, e2⟩
        · right; exact ⟨x, e2, kn.dom x hxu e2 hdx⟩
        · left; exact ⟨n, e2⟩
    | val a => simpa [walk] using this
    | nil => simpa [walk] using this
    | cons a b => simpa [walk] using this
    | comp g a => simpa [walk] using this
  · exact f.elim

/-- CLOSED: when every variable that had a domain is bound, nothing is pending -/
theorem labelled_closed {s s' : State} (hdk : DK s') (hl : Live s') (ho : OpsOK s') (hm : KeysMono s s')
    (hall : ∀ y, (s.dget y).isSome → s'.σ y ≠ .var y) :
    s'.dstore = [] ∧ ∀ p ∈ s'.store, p.2.isDiseq = true := by
  have hnone : ∀ y, s'.dget y = none := by
    intro y
    cases hg : s'.dget y with
    | none => rfl
    | some d =>
      have h1 : (s'.dget y).isSome := by rw [hg]; rfl
      exact absurd ((hdk y h1).elim id (fun f => f.elim)) (hall y (hm y h1))
  have hd : s'.dstore = [] := by
    apply List.eq_nil_iff_forall_not_mem.2
    intro q hq
    have : (s'.dget q.1).isSome := dget_isSome_iff.2 ⟨q, hq, rfl⟩
    rw [hnone] at this; cases this
  refine ⟨hd, fun p hp => ?_⟩
  cases hpd : p.2.isDiseq with
  | true => rfl
  | false =>
    rcases hl p hp hpd with f | ⟨t, ht, hn⟩
    · exact f.elim
    · rcases ho p hp hpd t ht with ⟨n, e⟩ | ⟨x, _, hx⟩
      · rw [e] at hn; simp [Term.num, Term.isNum] at hn
      · rw [hnone] at hx; cases hx

/-- the extension of a labelling unification `k == x`: nothing, or the one binding of the walked variable to `k` -/
theorem unifyF_num_var {n : Nat} {σ σ' : Subst} {e : Ext1} {k : Int} {x : Nat} (hs : Solved σ)
    (h : unifyF (n + 1) σ [] (Term.num k) (.var x) = some (some (σ', e))) :
    (σ' = σ ∧ e = []) ∨ ∃ y, σ y = .var y ∧ σ' = bindS y (Term.num k) σ ∧ e = [(y, Term.num k)] := by
  have st := unifyF_step hs h
  have hwu : walk σ (Term.num k) = .val (.num k) := rfl
  cases st with
  | same x' hu _ => rw [hwu] at hu; cases hu
  | bindL x' hu _ _ => rw [hwu] at hu; cases hu
  | bindR y hv _ _ => exact .inr ⟨y, walk_normal hs _ y hv, rfl, rfl⟩
  | valEq a _ _ => exact .inl ⟨rfl, rfl⟩
  | nilnil hu _ => rw [hwu] at hu; cases hu
  | consOk _ _ _ _ _ _ _ hu _ _ _ => rw [hwu] at hu; cases hu
  | comp _ _ _ _ hu _ _ => rw [hwu] at hu; cases hu

section Top
variable {ord : Order} (ho : OrderOK ord)
include ho

theorem extStep_kn {snap cur s3 : State} (hsn : ∀ x d, snap.dget x = some d → WF d) (w : WFS cur) (hi : Inv cur)
    (p : Nat × Term) (hpb : cur.σ p.1 ≠ .var p.1) (h : extStep ord snap cur p = .ok s3) :
    WFS s3 ∧ Inv s3 ∧ KN cur s3 := by
  unfold extStep at h
  split at h
  · rename_i d hd
    have hwd := hsn _ _ hd
    obtain ⟨s2, e2, h⟩ := Res.bind_ok h
    have r := processDomain_sem (I := fun _ => False) (runConstraintsF_sem ho rcFuel) (fun _ h => h) w hi
      (x := p.2) (WFI.of_wf hwd) (.inl hwd)
    rw [e2] at r
    have i2 : Inv s2 := (processDomain_step (runConstraintsF_ok ord rcFuel) hi e2).inv
    split at h
    · obtain ⟨w2', i2'⟩ := dremove_ok r.1 i2 p.1
      have r3 := runConstraintsF_sem ho (rcFuel + 1) (fun _ => False) _ (fun _ h => h) w2' i2'
      rw [h] at r3
      have hb2 : s2.σ p.1 ≠ .var p.1 := fun e => hpb (r.2.1.mono _ e)
      have kdr : KN s2 (s2.dremove p.1) := ⟨Ext.refl _ r.1.solved, fun _ h => .inl h, fun y hy _ hd => by
        have hyx : y ≠ p.1 := fun e => hb2 (e ▸ hy)
        rw [dget_dremove_ne _ hyx]; exact hd⟩
      exact ⟨r3.1, (runConstraintsF_ok ord (rcFuel + 1) _ _ i2' h).inv,
        ((KN.of_keeps r.2.1).trans kdr).trans (KN.of_keeps r3.2.1)⟩
    · cases h
  · cases h; exact ⟨w, hi, KN.refl w.solved⟩

theorem extFold_kn (snap : State) (hsn : ∀ x d, snap.dget x = some d → WF d) :
    ∀ (ps : Ext1) (cur s' : State), WFS cur → Inv cur → (∀ p ∈ ps, cur.σ p.1 ≠ .var p.1) →
      ps.foldl (fun (r : Res State) p => r.bind fun cur => extStep ord snap cur p) (.ok cur) = .ok s' →
      WFS s' ∧ Inv s' ∧ KN cur s'
  | [], cur, s', w, hi, _, h => by
    simp only [List.foldl_nil, Res.ok.injEq] at h; subst h; exact ⟨w, hi, KN.refl w.solved⟩
  | p :: ps, cur, s', w, hi, hb, h => by
    simp only [List.foldl_cons] at h
    have hb0 : ((Res.ok cur).bind fun cur => extStep ord snap cur p) = extStep ord snap cur p := rfl
    rw [hb0] at h
    cases hs : extStep ord snap cur p with
    | ok s3 =>
      rw [hs] at h
      obtain ⟨w3, i3, k3⟩ := extStep_kn ho hsn w hi p (hb p List.mem_cons_self) hs
      have hb3 : ∀ q ∈ ps, s3.σ q.1 ≠ .var q.1 := fun q hq e => by
        have hq0 := hb q (List.mem_cons_of_mem _ hq)
        -- bound variables stay bound: the substitution only grows
        have := k3.ext (.var q.1)
        simp only [apply, e] at this
        cases hc : cur.σ q.1 with
        | var z =>
          rw [hc] at this
          simp only [apply] at this
          have hz : z ≠ q.1 := fun ez => hq0 (by rw [hc, ez])
          -- `cur.σ q.1 = var z` with `z` unbound in `cur` (solved): then `s3.σ z = var q.1`, but `z` stays unbound or a number
          have hzu : cur.σ z = .var z := by
            have := w.solved q.1; rw [hc] at this; simpa [apply] using this
          rcases k3.numonly z hzu with e3 | ⟨n, e3⟩
          · rw [e3] at this; cases this; exact hz rfl
          · rw [e3] at this; simp [Term.num] at this
        | val a => rw [hc] at this; simp [apply] at this
        | nil => rw [hc] at this; simp [apply] at this
        | cons a b => rw [hc] at this; simp [apply] at this
        | comp g a => rw [hc] at this; simp [apply] at this
      obtain ⟨w', i', k'⟩ := extFold_kn snap hsn ps s3 s' w3 i3 hb3 h
      exact ⟨w', i', k3.trans k'⟩
    | fail => rw [hs, foldl_bind_fail] at h; cases h
    | fuel => rw [hs, foldl_bind_fuel] at h; cases h
    | panic s => rw [hs, foldl_bind_panic] at h; cases h

/-- one labelling step `k == x` -/
theorem label_step {st st' : State} (w : WFS st) (hi : Inv st) (hz : NoZ st) (hdk : DK st) (k : Int) (x : Nat)
    (h : unify ord st (Term.num k) (.var x) = .ok st') :
    WFS st' ∧ Inv st' ∧ NoZ st' ∧ DK st' ∧ Live st' ∧ KN st st' ∧ KeysMono st st' ∧ SubS (fun _ => False) st st' ∧
      st'.σ x = Term.num k := by
  have r := unify_sem (I := NoI) ho (iok_noI st) w hi (Term.num k) (.var x)
  rw [h] at r
  obtain ⟨d', z', u', m'⟩ := unify_dk ho w hi hz hdk h
  have hl := unify_live ho w hi h
  have hshape : ∀ σ' e, unifyF unifyFuel st.σ [] (Term.num k) (.var x) = some (some (σ', e)) →
      (σ' = st.σ ∧ e = []) ∨ ∃ y, st.σ y = .var y ∧ σ' = bindS y (Term.num k) st.σ ∧ e = [(y, Term.num k)] :=
    fun σ' e hu => unifyF_num_var (n := 99999) w.solved hu
  have hm := m' (fun σ' e hu p hp => by
    rcases hshape σ' e hu with ⟨_, rfl⟩ | ⟨y, _, _, rfl⟩
    · cases hp
    · simp only [List.mem_singleton] at hp; subst hp; rfl)
  suffices hkn : KN st st' ∧ st'.σ x = Term.num k from ⟨r.1, r.2.1, z', d', hl, hkn.1, hm, u', hkn.2⟩
  -- the substitution: the labelling binding, then propagation
  unfold unify at h
  split at h
  · cases h
  · cases h
  · rename_i σ' e hu
    obtain ⟨s', x', un⟩ := unifyF_sound _ _ _ _ _ _ _ w.solved hu
    obtain ⟨hbnd, _, _⟩ := unifyF_ext_full _ _ _ _ _ _ w.solved hu
    have w0 : WFS { st with σ := σ' } := ⟨s', w.dnodup, w.dwf, w.nodist⟩
    have i0 : Inv { st with σ := σ' } := SameStore.inv ⟨rfl, rfl, rfl, rfl, rfl⟩ hi
    have hσx : σ' x = Term.num k := by
      have : apply σ' (Term.num k) = apply σ' (.var x) := un
      simpa [Term.num, apply] using this.symm
    have k0 : KN st { st with σ := σ' } := by
      refine ⟨x', fun y hy => ?_, fun y _ _ hd => hd⟩
      rcases hshape σ' e hu with ⟨rfl, _⟩ | ⟨y0, hy0, rfl, _⟩
      · exact .inl hy
      · by_cases hyy : y = y0
        · subst hyy; right; exact ⟨k, by simp [bindS, hy, apply, sub1]⟩
        · left; show apply (sub1 y0 (Term.num k)) (st.σ y) = .var y
          rw [hy]; simp [apply, sub1, hyy]
    unfold processExtension at h
    obtain ⟨s1, e1, h⟩ := Res.bind_ok h
    obtain ⟨s2, e2, h⟩ := Res.bind_ok h
    cases h
    have r1 := runConstraintsF_sem ho (rcFuel + 1) (fun _ => False) _ (fun _ h => h) w0 i0
    rw [e1] at r1
    have i1 := (runConstraintsF_ok ord (rcFuel + 1) _ _ i0 e1).inv
    rw [processExtensionFd_eq] at e2
    have hperm := ho.2.1 e
    have hkb : ∀ p ∈ ord.ps e, s1.σ p.1 ≠ .var p.1 := fun p hp e' =>
      (hbnd p (hperm.mem_iff.1 hp)).2 (r1.2.1.mono _ e')
    obtain ⟨_, _, k2⟩ := extFold_kn ho s1 (fun x d hd => r1.1.dwf _ (dget_mem hd)) (ord.ps e) s1 s2 r1.1 i1 hkb e2
    have := (k0.trans (KN.of_keeps r1.2.1)).trans k2
    have k12 : KN { st with σ := σ' } s2 := (KN.of_keeps r1.2.1).trans k2
    refine ⟨⟨this.ext, this.numonly, this.dom⟩, ?_⟩
    have e := k12.ext (.var x)
    simp only [apply] at e
    show s2.σ x = Term.num k
    rw [← e]
    show apply s2.σ (σ' x) = Term.num k
    rw [hσx]; simp [Term.num, apply]

end Top
end Pv

namespace Pv
open State Term FD
attribute [local instance] Mode.strict

/-- the equalities a labelling posts -/
def labelAtoms (ls : List (Int × Nat)) : List FAtom := ls.map fun p => .eq (Term.num p.1) (.var p.2)

theorem postAllF_append' (ord : Order) : ∀ (as bs : List FAtom) (st : State),
    postAllF ord st (as ++ bs) = (postAllF ord st as).bind fun s => postAllF ord s bs
  | [], bs, st => rfl
  | a :: as, bs, st => by
    simp only [List.cons_append, postAllF]
    cases postF ord st a with
    | ok s1 => exact postAllF_append' ord as bs s1
    | fail => rfl
    | fuel => rfl
    | panic s => rfl

section Top
variable {ord : Order} (ho : OrderOK ord)
include ho

/-- a whole labelling -/
theorem labelAll : ∀ (ls : List (Int × Nat)) (st st' : State), WFS st → Inv st → NoZ st → DK st → Live st →
    postAllF ord st (labelAtoms ls) = .ok st' →
    WFS st' ∧ Inv st' ∧ NoZ st' ∧ DK st' ∧ Live st' ∧ KN st st' ∧ KeysMono st st' ∧ SubS (fun _ => False) st st'
  | [], st, st', w, hi, hz, hdk, hl, h => by
    simp only [labelAtoms, List.map_nil, postAllF, Res.ok.injEq] at h
    subst h
    exact ⟨w, hi, hz, hdk, hl, KN.refl w.solved, fun _ h => h, fun p hp _ => .inl ⟨p, hp, rfl⟩⟩
  | l :: ls, st, st', w, hi, hz, hdk, hl, h => by
    simp only [labelAtoms, List.map_cons, postAllF] at h
    obtain ⟨s1, e1, h⟩ := Res.bind_ok h
    obtain ⟨w1, i1, z1, d1, l1, k1, m1, u1, _⟩ := label_step ho w hi hz hdk l.1 l.2 e1
    obtain ⟨w2, i2, z2, d2, l2, k2, m2, u2⟩ := labelAll ls s1 st' w1 i1 z1 d1 l1 h
    exact ⟨w2, i2, z2, d2, l2, k1.trans k2, m1.trans m2, u1.trans u2⟩

/-- THE LABELLED ANSWER IS A SOLUTION.  Post any atoms (FD constraints, domains, `==`, `!=`; any order) and then any
    labelling equalities `k == x`.  If, before labelling, every operand of every stored propagator was a number or a
    variable with a domain (`verify_all_bound` and the documented operand kinds) and, after it, every variable that had a
    domain is bound, then NOTHING IS PENDING: the domain store is empty and no propagator is stored; if no tree
    disequality is stored either, every posted atom and every labelling equality holds under the answer's own
    substitution. -/
theorem labelled_answer_sound (n : Nat) (as : List FAtom) (hok : ∀ a ∈ as, a.OK) (hnz : ∀ a ∈ as, a.NoZ)
    (ls : List (Int × Nat)) (st st' : State) (h1 : postAllF ord (State.empty n) as = .ok st) (hops : OpsOK st)
    (h2 : postAllF ord st (labelAtoms ls) = .ok st')
    (hall : ∀ y, (st.dget y).isSome → st'.σ y ≠ .var y) :
    st'.dstore = [] ∧ (∀ p ∈ st'.store, p.2.isDiseq = true) ∧
      (st'.store = [] → ∀ a ∈ as ++ labelAtoms ls, a.Sat st'.σ) := by
  obtain ⟨hdk, hz⟩ := fd_dk ho n as hok hnz st h1
  have hl := fd_live ho n as hok st h1
  have r := postAllF_sem ho as (State.empty n) (wfs_empty n) (inv_empty n) hok
  rw [h1] at r
  obtain ⟨w2, i2, z2, d2, l2, k2, m2, u2⟩ := labelAll ho ls st st' r.1 r.2.1 hz hdk hl h2
  obtain ⟨c1, c2⟩ := labelled_closed d2 l2 (hops.keep r.1.solved k2 u2) m2 hall
  refine ⟨c1, c2, fun hs => ?_⟩
  have hall' : postAllF ord (State.empty n) (as ++ labelAtoms ls) = .ok st' := by
    rw [postAllF_append', h1]; exact h2
  refine fd_closed ho n (as ++ labelAtoms ls) (fun a ha => ?_) st' hall' hs c1
  rcases List.mem_append.1 ha with ha | ha
  · exact hok a ha
  · simp only [labelAtoms, List.mem_map] at ha
    obtain ⟨p, _, rfl⟩ := ha
    trivial

end Top
end Pv
