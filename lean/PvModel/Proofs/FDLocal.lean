/-
  Local facts about the CLP(FD) propagators of Model/State.lean (`runCst`):
  * ground-exactness: with all operands numbers a propagator succeeds exactly when its arithmetic
    relation holds, and it leaves the state unchanged;
  * the interval bounds the propagators narrow to are SOUND: no value that takes part in a solution
    within the current bounds is cut off (plus, minus, lte; times: four-corner product bounds for all
    sign combinations, quotient bounds for non-negative operands).
-/
import PvModel.Model.State
namespace Pv
open Term State

section Ground
variable (rc : State → Res State) (ord : Order)

theorem walk_num (σ : Subst) (n : Int) : walk σ (Term.num n) = Term.num n := rfl

/-- an operand that walks to a number -/
def IsNumAt (st : State) (t : Term) (n : Int) : Prop := walk st.σ t = .val (.num n)

theorem plusfd_ground (k id : Nat) (st : State) (u v w : Term) (a b c : Int)
    (hu : IsNumAt st u a) (hv : IsNumAt st v b) (hw : IsNumAt st w c) :
    runCst rc ord k id (.plusfd u v w) st = if a + b = c then .ok st else .fail := by
  unfold IsNumAt at *
  cases k <;> simp only [runCst, runCstBody, runPlusFd, hu, hv, hw]

theorem minusfd_ground (k id : Nat) (st : State) (u v w : Term) (a b c : Int)
    (hu : IsNumAt st u a) (hv : IsNumAt st v b) (hw : IsNumAt st w c) :
    runCst rc ord k id (.minusfd u v w) st = if a - b = c then .ok st else .fail := by
  unfold IsNumAt at *
  cases k <;> simp only [runCst, runCstBody, runMinusFd, hu, hv, hw]

theorem timesfd_ground (k id : Nat) (st : State) (u v w : Term) (a b c : Int)
    (hu : IsNumAt st u a) (hv : IsNumAt st v b) (hw : IsNumAt st w c) :
    runCst rc ord k id (.timesfd u v w) st = if a * b = c then .ok st else .fail := by
  unfold IsNumAt at *
  cases k <;> simp only [runCst, runCstBody, runTimesFd, hu, hv, hw]

theorem ltefd_ground (k id : Nat) (st : State) (u v : Term) (a b : Int)
    (hu : IsNumAt st u a) (hv : IsNumAt st v b) :
    runCst rc ord k id (.ltefd u v) st = if a ≤ b then .ok st else .fail := by
  unfold IsNumAt at *
  cases k <;> simp only [runCst, runCstBody, runLteFd, hu, hv]

theorem diseqfd_ground (k id : Nat) (st : State) (u v : Term) (a b : Int)
    (hu : IsNumAt st u a) (hv : IsNumAt st v b) :
    runCst rc ord k id (.diseqfd u v) st = if a = b then .fail else .ok st := by
  unfold IsNumAt at *
  cases k <;>
    simp [runCst, runCstBody, runDiseqFd, hu, hv, opDomain, FD.ofInt, FD.isSingleton, FD.min?]

theorem plusz_ground (k id : Nat) (st : State) (u v w : Term) (a b c : Int)
    (hu : IsNumAt st u a) (hv : IsNumAt st v b) (hw : IsNumAt st w c) :
    runCst rc ord k id (.plusz u v w) st = if a + b = c then .ok st else .fail := by
  unfold IsNumAt at *
  cases k <;> simp only [runCst, runCstBody, runPlusZ, hu, hv, hw]

theorem timesz_ground (k id : Nat) (st : State) (u v w : Term) (a b c : Int)
    (hu : IsNumAt st u a) (hv : IsNumAt st v b) (hw : IsNumAt st w c) :
    runCst rc ord k id (.timesz u v w) st = if a * b = c then .ok st else .fail := by
  unfold IsNumAt at *
  cases k <;> simp only [runCst, runCstBody, runTimesZ, hu, hv, hw]

end Ground

/-! ### soundness of the interval bounds -/

theorem plus_bounds (u v w umin umax vmin vmax wmin wmax : Int)
    (hu : umin ≤ u ∧ u ≤ umax) (hv : vmin ≤ v ∧ v ≤ vmax) (hw : wmin ≤ w ∧ w ≤ wmax) (h : u + v = w) :
    (umin + vmin ≤ w ∧ w ≤ umax + vmax) ∧ (wmin - vmax ≤ u ∧ u ≤ wmax - vmin) ∧
    (wmin - umax ≤ v ∧ v ≤ wmax - umin) := by omega

theorem minus_bounds (u v w umin umax vmin vmax wmin wmax : Int)
    (hu : umin ≤ u ∧ u ≤ umax) (hv : vmin ≤ v ∧ v ≤ vmax) (hw : wmin ≤ w ∧ w ≤ wmax) (h : u - v = w) :
    (umin - vmax ≤ w ∧ w ≤ umax - vmin) ∧ (wmin + vmin ≤ u ∧ u ≤ wmax + vmax) ∧
    (umin - wmax ≤ v ∧ v ≤ umax - wmin) := by omega

/-- `x * k` lies between `lo * k` and `hi * k` (whichever way round) for `lo ≤ x ≤ hi` -/
theorem mul_between (x lo hi k : Int) (h1 : lo ≤ x) (h2 : x ≤ hi) :
    min (lo * k) (hi * k) ≤ x * k ∧ x * k ≤ max (lo * k) (hi * k) := by
  rcases Int.le_total 0 k with hk | hk
  · have a := Int.mul_le_mul_of_nonneg_right h1 hk
    have b := Int.mul_le_mul_of_nonneg_right h2 hk
    omega
  · have a := Int.mul_le_mul_of_nonpos_right h1 hk
    have b := Int.mul_le_mul_of_nonpos_right h2 hk
    omega

/-- FOUR-CORNER LEMMA: for `u ∈ [umin, umax]`, `v ∈ [vmin, vmax]` (any signs), the product lies between
    the smallest and the largest of the four corner products — the bounds `timesfd` narrows `w` to. -/
theorem times_corners (u v umin umax vmin vmax : Int)
    (hu : umin ≤ u ∧ u ≤ umax) (hv : vmin ≤ v ∧ v ≤ vmax) :
    min (min (umin * vmin) (umin * vmax)) (min (umax * vmin) (umax * vmax)) ≤ u * v ∧
    u * v ≤ max (max (umin * vmin) (umin * vmax)) (max (umax * vmin) (umax * vmax)) := by
  have h1 := mul_between u umin umax v hu.1 hu.2
  have h2 := mul_between v vmin vmax umin hv.1 hv.2
  have h3 := mul_between v vmin vmax umax hv.1 hv.2
  rw [Int.mul_comm v umin, Int.mul_comm vmin umin, Int.mul_comm vmax umin] at h2
  rw [Int.mul_comm v umax, Int.mul_comm vmin umax, Int.mul_comm vmax umax] at h3
  omega

/-- lower quotient bound: for non-negative operands with `u * v = w`, `wmin ≤ w`, `v ≤ vmax`:
    `checked_div(wmin, vmax).unwrap_or(umin) ≤ u` -/
theorem cdiv_low (u v w umin vmax wmin : Int) (hu0 : 0 ≤ umin) (hu : umin ≤ u) (hv0 : 0 ≤ v) (hv : v ≤ vmax)
    (hw0 : 0 ≤ wmin) (hw : wmin ≤ w) (h : u * v = w) : cdiv wmin vmax umin ≤ u := by
  unfold cdiv
  split
  · exact hu
  · rename_i hne
    have hpos : 0 < vmax := by omega
    rw [Int.tdiv_eq_ediv_of_nonneg hw0]
    apply Int.ediv_le_of_le_mul hpos
    have : u * v ≤ u * vmax := Int.mul_le_mul_of_nonneg_left hv (by omega)
    omega

/-- upper quotient bound: `u ≤ checked_div(wmax, vmin).unwrap_or(umax)` -/
theorem cdiv_high (u v w umax vmin wmax : Int) (hu0 : 0 ≤ u) (hu : u ≤ umax) (hv0 : 0 ≤ vmin) (hv : vmin ≤ v)
    (hw : w ≤ wmax) (h : u * v = w) : u ≤ cdiv wmax vmin umax := by
  unfold cdiv
  split
  · exact hu
  · rename_i hne
    have hpos : 0 < vmin := by omega
    have hw0 : 0 ≤ wmax := by
      have : 0 ≤ u * v := Int.mul_nonneg hu0 (by omega)
      omega
    rw [Int.tdiv_eq_ediv_of_nonneg hw0]
    apply Int.le_ediv_of_mul_le hpos
    have : u * vmin ≤ u * v := Int.mul_le_mul_of_nonneg_left hv hu0
    omega

/-- SOUNDNESS of the intervals `timesfd` narrows to (`timesBounds`), for ALL sign combinations:
    every `(u, v, w)` with `u * v = w` inside the current bounds stays inside the narrowed intervals. -/
theorem timesBounds_sound (u v w umin umax vmin vmax wmin wmax : Int)
    (hu : umin ≤ u ∧ u ≤ umax) (hv : vmin ≤ v ∧ v ≤ vmax) (hw : wmin ≤ w ∧ w ≤ wmax) (h : u * v = w) :
    (timesBounds umin umax vmin vmax wmin wmax).1.Mem w ∧
    (timesBounds umin umax vmin vmax wmin wmax).2.1.Mem u ∧
    (timesBounds umin umax vmin vmax wmin wmax).2.2.Mem v := by
  have hc := times_corners u v umin umax vmin vmax hu hv
  rw [h] at hc
  refine ⟨hc, ?_, ?_⟩
  · simp only [timesBounds, FD.Mem]
    split
    · rename_i hn
      simp only [Bool.and_eq_true, decide_eq_true_eq] at hn
      obtain ⟨⟨h1, h2⟩, h3⟩ := hn
      exact ⟨cdiv_low u v w umin vmax wmin h1 hu.1 (by omega) hv.2 h3 hw.1 h,
             cdiv_high u v w umax vmin wmax (by omega) hu.2 h2 hv.1 hw.2 h⟩
    · exact hu
  · simp only [timesBounds, FD.Mem]
    split
    · rename_i hn
      simp only [Bool.and_eq_true, decide_eq_true_eq] at hn
      obtain ⟨⟨h1, h2⟩, h3⟩ := hn
      have h' : v * u = w := by rw [Int.mul_comm]; exact h
      exact ⟨cdiv_low v u w vmin umax wmin h2 hv.1 (by omega) hu.2 h3 hw.1 h',
             cdiv_high v u w vmax umin wmax (by omega) hv.2 h1 hu.1 hw.2 h'⟩
    · exact hv

/-- `ltefd` bounds: `u ≤ v` within the bounds keeps `u ≤ vmax` and `umin ≤ v` -/
theorem lte_bounds (u v umin vmax : Int) (hu : umin ≤ u) (hv : v ≤ vmax) (h : u ≤ v) :
    ¬ (vmax < u) ∧ umin ≤ v := by omega

end Pv
