/-
  Auxiliary lemmas for Proofs/Tree.lean: the unifier lifted to lists of pairs, the semantics of stored
  disequalities, `subsumes`, `takeConstraint` / `withConstraint` on tree-only stores.
-/
import PvModel.Spec.Tree
import PvModel.Proofs.Unify
namespace Pv
open Term

/-! ### lists of equations -/

/-- θ unifies every pair -/
def AllUnif (θ : Subst) (ps : List (Term × Term)) : Prop := ∀ p ∈ ps, apply θ p.1 = apply θ p.2

/-- all pairs of an extension, read as equations `var x = t`, hold under θ -/
def AllEq (θ : Subst) (ps : Ext1) : Prop := ∀ q ∈ ps, apply θ (.var q.1) = apply θ q.2

theorem unifies_of_ext {σ θ : Subst} {u v : Term} (hx : Ext σ θ) (hu : Unifies σ u v) :
    apply θ u = apply θ v := by
  have hu' : apply σ u = apply σ v := hu
  rw [← hx u, ← hx v, hu']

theorem apply_id (s : Term) : apply Subst.id s = s := by
  induction s <;> simp_all [apply, Subst.id]

theorem ext_id (θ : Subst) : Ext Subst.id θ := fun s => by rw [apply_id]

theorem unifyPairsF_ok : ∀ (ps : List (Term × Term)) (n : Nat) (σ σ' : Subst) (e e' : Ext1), Solved σ →
    unifyPairsF n σ e ps = some (some (σ', e')) →
    Solved σ' ∧ Ext σ σ' ∧ (∀ θ, Ext σ θ → (Ext σ' θ ↔ AllUnif θ ps)) ∧
    ∃ δ : Ext1, e' = δ ++ e ∧ (∀ θ, Ext σ θ → (Ext σ' θ ↔ AllEq θ δ)) ∧ (δ = [] → σ' = σ) := by
  intro ps
  induction ps with
  | nil =>
    intro n σ σ' e e' hs h
    simp only [unifyPairsF, Option.some.injEq, Prod.mk.injEq] at h
    obtain ⟨rfl, rfl⟩ := h
    exact ⟨hs, Ext.refl _ hs, fun θ hx => by simp [AllUnif, hx], [], rfl,
      fun θ hx => by simp [AllEq, hx], fun _ => rfl⟩
  | cons p ps ih =>
    intro n σ σ' e e' hs h
    obtain ⟨u, v⟩ := p
    simp only [unifyPairsF] at h
    cases h1 : unifyF n σ e u v with
    | none => rw [h1] at h; simp at h
    | some r =>
      cases r with
      | none => rw [h1] at h; simp at h
      | some q =>
        obtain ⟨σ1, e1⟩ := q
        rw [h1] at h; simp only [] at h
        obtain ⟨s1, x1, un1⟩ := unifyF_sound _ _ _ _ _ _ _ hs h1
        have mg := unifyF_mgu _ _ _ _ _ _ _ hs h1
        obtain ⟨δ1, he1, hi1, _, hn1⟩ := unifyF_ext _ _ _ _ _ _ _ hs h1
        obtain ⟨s2, x2, iff2, δ2, he2, hi2, hn2⟩ := ih n σ1 σ' e1 e' s1 h
        refine ⟨s2, Ext.trans x1 x2, ?_, δ2 ++ δ1, by rw [he2, he1, List.append_assoc], ?_, ?_⟩
        · intro θ hx
          constructor
          · intro hx' p hp
            have hx1 : Ext σ1 θ := Ext.trans x2 hx'
            rcases List.mem_cons.mp hp with hp | hp
            · subst hp; exact unifies_of_ext hx1 un1
            · exact (iff2 θ hx1).mp hx' p hp
          · intro hall
            have hx1 : Ext σ1 θ := mg θ hx (hall (u, v) (List.mem_cons_self ..))
            exact (iff2 θ hx1).mpr (fun p hp => hall p (List.mem_cons_of_mem _ hp))
        · intro θ hx
          constructor
          · intro hx' p hp
            have hx1 : Ext σ1 θ := Ext.trans x2 hx'
            rcases List.mem_append.mp hp with hp | hp
            · exact (hi2 θ hx1).mp hx' p hp
            · exact (hi1 θ hx).mp hx1 p hp
          · intro hall
            have hx1 : Ext σ1 θ := (hi1 θ hx).mpr (fun p hp => hall p (List.mem_append.mpr (Or.inr hp)))
            exact (hi2 θ hx1).mpr (fun p hp => hall p (List.mem_append.mpr (Or.inl hp)))
        · intro hnil
          have := List.append_eq_nil_iff.mp hnil
          rw [hn2 this.1, hn1 this.2]

theorem unifyPairsF_fail : ∀ (ps : List (Term × Term)) (n : Nat) (σ : Subst) (e : Ext1), Solved σ →
    unifyPairsF n σ e ps = some none → ∀ θ, Ext σ θ → ¬ AllUnif θ ps := by
  intro ps
  induction ps with
  | nil => intro n σ e hs h; simp [unifyPairsF] at h
  | cons p ps ih =>
    intro n σ e hs h θ hx hall
    obtain ⟨u, v⟩ := p
    simp only [unifyPairsF] at h
    cases h1 : unifyF n σ e u v with
    | none => rw [h1] at h; simp at h
    | some r =>
      cases r with
      | none =>
        exact unifyF_fail _ _ _ _ _ hs h1 ⟨θ, hx, hall (u, v) (List.mem_cons_self ..)⟩
      | some q =>
        obtain ⟨σ1, e1⟩ := q
        rw [h1] at h; simp only [] at h
        obtain ⟨s1, _, _⟩ := unifyF_sound _ _ _ _ _ _ _ hs h1
        have hx1 := unifyF_mgu _ _ _ _ _ _ _ hs h1 θ hx (hall (u, v) (List.mem_cons_self ..))
        exact ih n σ1 e1 s1 h θ hx1 (fun p hp => hall p (List.mem_cons_of_mem _ hp))

/-! ### semantics of a disequality -/

theorem allUnif_eqsOf (θ : Subst) (ps : Ext1) : AllUnif θ (State.eqsOf ps) ↔ AllEq θ ps := by
  unfold AllUnif AllEq State.eqsOf
  constructor
  · intro h q hq
    exact h (Term.var q.1, q.2) (List.mem_map.mpr ⟨q, hq, rfl⟩)
  · intro h p hp
    obtain ⟨q, hq, rfl⟩ := List.mem_map.mp hp
    exact h q hq

theorem diseqHolds_iff (γ : Subst) (ps : Ext1) : DiseqHolds γ ps ↔ ¬ AllEq γ ps := by
  simp [DiseqHolds, AllEq]

theorem allEq_perm {γ : Subst} {ps ps' : Ext1} (h : ps.Perm ps') : AllEq γ ps ↔ AllEq γ ps' :=
  ⟨fun a q hq => a q (h.mem_iff.mpr hq), fun a q hq => a q (h.mem_iff.mp hq)⟩

theorem not_diseqHolds_nil (γ : Subst) : ¬ DiseqHolds γ [] := by simp [DiseqHolds]

/-- re-unifying the pairs of a disequality under a solved σ (success) -/
theorem reunify_ok {ord : Order} (ho : OrderOK ord) {σ σ' : Subst} {ps e : Ext1} (hs : Solved σ)
    (h : unifyPairsF unifyFuel σ [] (State.eqsOf (ord.ps ps)) = some (some (σ', e))) :
    (∀ γ, Ext σ γ → (DiseqHolds γ e ↔ DiseqHolds γ ps)) ∧ (e = [] → σ' = σ) ∧
    (∀ γ, Ext σ γ → (Ext σ' γ ↔ AllEq γ ps)) ∧ Solved σ' := by
  obtain ⟨s2, _, iff2, δ, he, hi, hn⟩ := unifyPairsF_ok _ _ _ _ _ _ hs h
  simp only [List.append_nil] at he
  subst he
  have key : ∀ γ, Ext σ γ → (Ext σ' γ ↔ AllEq γ ps) := fun γ hx => by
    rw [iff2 γ hx, allUnif_eqsOf, allEq_perm (ho.2.1 ps)]
  refine ⟨fun γ hx => ?_, hn, key, s2⟩
  rw [diseqHolds_iff, diseqHolds_iff, ← hi γ hx, ← key γ hx]

/-- re-unifying the pairs of a disequality under a solved σ (failure): the disequality is entailed -/
theorem reunify_fail {ord : Order} (ho : OrderOK ord) {σ : Subst} {ps : Ext1} (hs : Solved σ)
    (h : unifyPairsF unifyFuel σ [] (State.eqsOf (ord.ps ps)) = some none) :
    ∀ γ, Ext σ γ → DiseqHolds γ ps := by
  intro γ hx
  rw [diseqHolds_iff, ← allEq_perm (ho.2.1 ps), ← allUnif_eqsOf]
  exact unifyPairsF_fail _ _ _ _ hs h γ hx

/-! ### subsumption -/

theorem substOfPairs_spec {c : Ext1} {σ2 : Subst} (h : State.substOfPairs c = some σ2) :
    Solved σ2 ∧ ∀ γ, Ext σ2 γ ↔ AllEq γ c := by
  unfold State.substOfPairs at h
  split at h
  · rename_i σ e heq
    cases h
    obtain ⟨s2, _, iff2, _⟩ := unifyPairsF_ok _ _ _ _ _ _ solved_id heq
    refine ⟨s2, fun γ => ?_⟩
    rw [iff2 γ (ext_id γ), allUnif_eqsOf, allEq_perm (List.reverse_perm c)]
  · cases h

theorem subsumes_sound {ord : Order} (ho : OrderOK ord) {c1 c2 : Ext1}
    (h : State.subsumes ord c1 c2 = true) : ∀ γ, DiseqHolds γ c1 → DiseqHolds γ c2 := by
  unfold State.subsumes at h
  split at h
  · cases h
  · rename_i σ2 h2
    obtain ⟨s2, iffc2⟩ := substOfPairs_spec h2
    split at h
    · rename_i σ' e heq
      have he : e = [] := by simpa using h
      obtain ⟨_, hn, key, _⟩ := reunify_ok ho s2 heq
      have hσ := hn he
      subst hσ
      intro γ h1
      rw [diseqHolds_iff] at h1 ⊢
      intro hc2
      have hx := (iffc2 γ).mpr hc2
      exact h1 ((key γ hx).mp hx)
    · cases h

/-! ### the store -/

theorem nodup_fst_eq : ∀ {l : List (Nat × Cst)}, (l.map (·.1)).Nodup →
    ∀ {p q : Nat × Cst}, p ∈ l → q ∈ l → p.1 = q.1 → p = q := by
  intro l
  induction l with
  | nil => intro _ p q hp; cases hp
  | cons a l ih =>
    intro hn p q hp hq hpq
    simp only [List.map_cons, List.nodup_cons] at hn
    rcases List.mem_cons.mp hp with hp | hp <;> rcases List.mem_cons.mp hq with hq | hq
    · rw [hp, hq]
    · exact absurd (by rw [← hp, hpq]; exact List.mem_map_of_mem hq) hn.1
    · exact absurd (by rw [← hq, ← hpq]; exact List.mem_map_of_mem hp) hn.1
    · exact ih hn.2 hp hq hpq

theorem take_fields (st : State) (i : Nat) :
    (st.takeConstraint i).1.σ = st.σ ∧ (st.takeConstraint i).1.dstore = st.dstore ∧
    (st.takeConstraint i).1.nextId = st.nextId ∧
    (st.takeConstraint i).1.store = st.store.filter (fun p => p.1 != i) := by
  unfold State.takeConstraint
  split
  · simp
  · rename_i h
    refine ⟨rfl, rfl, rfl, ?_⟩
    symm
    rw [List.filter_eq_self]
    intro p hp
    have := List.find?_eq_none.mp h p hp
    simpa using this

theorem take_some {st : State} {i : Nat} {c : Cst} (h : (st.takeConstraint i).2 = some c) :
    (i, c) ∈ st.store := by
  unfold State.takeConstraint at h
  split at h
  · rename_i j c' hf
    simp only [Option.some.injEq] at h
    subst h
    have hm := List.mem_of_find?_eq_some hf
    have hp := List.find?_some hf
    simp only [beq_iff_eq] at hp
    subst hp; exact hm
  · cases h

/-- several `take_constraint`s in a row -/
def takes (l : List (Nat × Cst)) (st : State) : State := l.foldl (fun s p => (s.takeConstraint p.1).1) st

theorem takes_fields : ∀ (l : List (Nat × Cst)) (st : State),
    (takes l st).σ = st.σ ∧ (takes l st).dstore = st.dstore ∧ (takes l st).nextId = st.nextId ∧
    (takes l st).store.Sublist st.store ∧
    (∀ q, q ∈ (takes l st).store ↔ (q ∈ st.store ∧ ∀ p ∈ l, q.1 ≠ p.1)) := by
  intro l
  induction l with
  | nil => intro st; simp [takes]
  | cons a l ih =>
    intro st
    obtain ⟨h1, h2, h3, h4⟩ := take_fields st a.1
    obtain ⟨i1, i2, i3, i4, i5⟩ := ih (st.takeConstraint a.1).1
    have e : takes (a :: l) st = takes l (st.takeConstraint a.1).1 := rfl
    rw [e]
    refine ⟨i1.trans h1, i2.trans h2, i3.trans h3, ?_, ?_⟩
    · refine i4.trans ?_
      rw [h4]; exact List.filter_sublist
    · intro q
      rw [i5 q, h4, List.mem_filter]
      simp only [bne_iff_ne, ne_eq, List.mem_cons, forall_eq_or_imp]
      constructor
      · rintro ⟨⟨a1, a2⟩, a3⟩; exact ⟨a1, a2, a3⟩
      · rintro ⟨a1, a2, a3⟩; exact ⟨⟨a1, a2⟩, a3⟩

theorem take_nextVar (st : State) (i : Nat) : (st.takeConstraint i).1.nextVar = st.nextVar := by
  unfold State.takeConstraint
  split <;> rfl

theorem takes_nextVar : ∀ (l : List (Nat × Cst)) (st : State), (takes l st).nextVar = st.nextVar
  | [], _ => rfl
  | a :: l, st => by
    have e : takes (a :: l) st = takes l (st.takeConstraint a.1).1 := rfl
    rw [e, takes_nextVar l, take_nextVar]

def subBy (ord : Order) (ps : Ext1) : Nat × Cst → Bool :=
  fun p => match p.2 with | .diseq ps' => State.subsumes ord ps' ps | _ => false

def subOf (ord : Order) (ps : Ext1) : Nat × Cst → Bool :=
  fun p => match p.2 with | .diseq ps' => State.subsumes ord ps ps' | _ => false

theorem subBy_true {ord ps p} (h : subBy ord ps p = true) :
    ∃ ps', p.2 = .diseq ps' ∧ State.subsumes ord ps' ps = true := by
  unfold subBy at h
  split at h
  · rename_i ps' he; exact ⟨ps', he, h⟩
  · cases h

theorem subOf_true {ord ps p} (h : subOf ord ps p = true) :
    ∃ ps', p.2 = .diseq ps' ∧ State.subsumes ord ps ps' = true := by
  unfold subOf at h
  split at h
  · rename_i ps' he; exact ⟨ps', he, h⟩
  · cases h

theorem withConstraint_diseq_eq (ord : Order) (st : State) (id : Nat) (ps : Ext1) :
    st.withConstraint ord id (.diseq ps) =
      if st.store.any (subBy ord ps) then st
      else
        { takes ((ord.cs st.store).filter (subOf ord ps)) st with
          withs := (takes ((ord.cs st.store).filter (subOf ord ps)) st).withs + 1,
          store := (takes ((ord.cs st.store).filter (subOf ord ps)) st).store ++ [(id, .diseq ps)] } := rfl

/-- `st'` has the substitution of `st`, is a well-formed tree-only state, and describes the
    valuations of `st` that satisfy `P` -/
structure AddOK (st : State) (P : Subst → Prop) (st' : State) : Prop where
  sig : st'.σ = st.σ
  tree : TreeOnly st'
  ids : IdsOK st'
  sem : ∀ γ, Ext st.σ γ → (StoreSem γ st' ↔ (StoreSem γ st ∧ P γ))
  /-- the source of fresh variables is not touched -/
  nv : st'.nextVar = st.nextVar

theorem AddOK.of_entailed {st : State} {P : Subst → Prop} (ht : TreeOnly st) (hi : IdsOK st)
    (h : ∀ γ, Ext st.σ γ → P γ) : AddOK st P st :=
  ⟨rfl, ht, hi, fun γ hx => ⟨fun a => ⟨a, h γ hx⟩, fun a => a.1⟩, rfl⟩

theorem AddOK.trans {st st1 st2 : State} {P Q : Subst → Prop} (h1 : AddOK st P st1)
    (h2 : AddOK st1 Q st2) : AddOK st (fun γ => P γ ∧ Q γ) st2 := by
  refine ⟨h2.sig.trans h1.sig, h2.tree, h2.ids, fun γ hx => ?_, h2.nv.trans h1.nv⟩
  have hx1 : Ext st1.σ γ := by rw [h1.sig]; exact hx
  rw [h2.sem γ hx1, h1.sem γ hx, and_assoc]

theorem AddOK.congr {st st' : State} {P Q : Subst → Prop} (h : AddOK st P st')
    (hpq : ∀ γ, Ext st.σ γ → (P γ ↔ Q γ)) : AddOK st Q st' :=
  ⟨h.sig, h.tree, h.ids, fun γ hx => by rw [h.sem γ hx, hpq γ hx], h.nv⟩

/-- adding a new disequality (normalised by subsumption) -/
theorem withNew_diseq {ord : Order} (ho : OrderOK ord) {st : State} (ht : TreeOnly st) (hi : IdsOK st)
    (ps : Ext1) : AddOK st (fun γ => DiseqHolds γ ps) (st.withNewConstraint ord (.diseq ps)) := by
  unfold State.withNewConstraint
  rw [withConstraint_diseq_eq]
  simp only []
  split
  · -- the new constraint is subsumed by a stored one
    rename_i hany
    refine ⟨rfl, ht, ⟨hi.1, fun p hp => Nat.lt_succ_of_lt (hi.2 p hp)⟩, fun γ _ => ?_, rfl⟩
    refine ⟨fun a => ⟨a, ?_⟩, fun a => a.1⟩
    obtain ⟨p, hp, hsub⟩ := List.any_eq_true.mp hany
    obtain ⟨ps', he, hs⟩ := subBy_true hsub
    exact subsumes_sound ho hs γ (a p hp ps' he)
  · generalize hst0 : ({ st with nextId := st.nextId + 1 } : State) = st0
    have hstore0 : st0.store = st.store := by subst hst0; rfl
    have hσ0 : st0.σ = st.σ := by subst hst0; rfl
    have hd0 : st0.dstore = st.dstore := by subst hst0; rfl
    have hn0 : st0.nextId = st.nextId + 1 := by subst hst0; rfl
    generalize hred : (ord.cs st.store).filter (subOf ord ps) = red
    obtain ⟨t1, t2, t3, t4, t5⟩ := takes_fields red st0
    have hmem : ∀ q, q ∈ (takes red st0).store → q ∈ st.store := fun q hq => by
      rw [← hstore0]; exact ((t5 q).mp hq).1
    refine ⟨?_, ⟨?_, ?_⟩, ⟨?_, ?_⟩, fun γ _ => ?_, ?_⟩
    rotate_right
    · show (takes red st0).nextVar = st.nextVar
      rw [takes_nextVar]; subst hst0; rfl
    · exact t1.trans hσ0
    · intro p hp
      rcases List.mem_append.mp hp with hp | hp
      · exact ht.1 p (hmem p hp)
      · simp only [List.mem_singleton] at hp; subst hp; rfl
    · show (takes red st0).dstore = []
      rw [t2, hd0]; exact ht.2
    · show (List.map (·.1) ((takes red st0).store ++ [(st.nextId, Cst.diseq ps)])).Nodup
      rw [List.map_append, List.nodup_append]
      refine ⟨?_, by simp, ?_⟩
      · have := (t4.map (·.1))
        rw [hstore0] at this
        exact this.nodup hi.1
      · intro a ha b hb
        simp only [List.map_cons, List.map_nil, List.mem_singleton] at hb
        subst hb
        obtain ⟨q, hq, rfl⟩ := List.mem_map.mp ha
        exact Nat.ne_of_lt (hi.2 q (hmem q hq))
    · intro p hp
      show p.1 < (takes red st0).nextId
      rw [t3, hn0]
      rcases List.mem_append.mp hp with hp | hp
      · exact Nat.lt_succ_of_lt (hi.2 p (hmem p hp))
      · simp only [List.mem_singleton] at hp; subst hp; exact Nat.lt_succ_self _
    · constructor
      · intro a
        refine ⟨fun q hq qs he => ?_, ?_⟩
        · by_cases hin : q ∈ (takes red st0).store
          · exact a q (List.mem_append.mpr (Or.inl hin)) qs he
          · -- q was taken out: it is subsumed by the new constraint
            have hq0 : q ∈ st0.store := by rw [hstore0]; exact hq
            have : ¬ ∀ p ∈ red, q.1 ≠ p.1 := fun hall => hin ((t5 q).mpr ⟨hq0, hall⟩)
            have : ∃ p ∈ red, q.1 = p.1 := by
              apply Classical.byContradiction
              intro hne; apply this; intro p hp heq; exact hne ⟨p, hp, heq⟩
            obtain ⟨p, hp, hqp⟩ := this
            rw [← hred, List.mem_filter] at hp
            have hp0 : p ∈ st.store := (ho.1 st.store).mem_iff.mp hp.1
            have : q = p := nodup_fst_eq hi.1 hq hp0 hqp
            subst this
            obtain ⟨ps', he', hs⟩ := subOf_true hp.2
            rw [he] at he'; cases he'
            exact subsumes_sound ho hs γ
              (a (st.nextId, .diseq ps) (List.mem_append.mpr (Or.inr (List.mem_singleton.mpr rfl))) ps rfl)
        · exact a (st.nextId, .diseq ps) (List.mem_append.mpr (Or.inr (List.mem_singleton.mpr rfl))) ps rfl
      · rintro ⟨a, b⟩ q hq qs he
        rcases List.mem_append.mp hq with hq | hq
        · exact a q (hmem q hq) qs he
        · simp only [List.mem_singleton] at hq; subst hq
          simp only [Cst.diseq.injEq] at he; subst he; exact b

/-- what `DisequalityConstraint::run` and `disunify` do with the result of the unifier -/
def diseqResult (ord : Order) (st : State) : Option (Option (Subst × Ext1)) → Res State
  | none => .fuel
  | some none => .ok st
  | some (some (_, e)) => if e.isEmpty then .fail else .ok (st.withNewConstraint ord (.diseq e))

theorem runDiseq_eq (ord : Order) (st : State) (ps : Ext1) :
    State.runDiseq ord st ps =
      diseqResult ord st (unifyPairsF unifyFuel st.σ [] (State.eqsOf (ord.ps ps))) := by
  unfold State.runDiseq diseqResult; rfl

theorem disunify_eq (ord : Order) (st : State) (u v : Term) :
    State.disunify ord st u v = diseqResult ord st (unifyF unifyFuel st.σ [] u v) := by
  unfold State.disunify diseqResult; rfl

theorem diseqResult_spec {ord : Order} (ho : OrderOK ord) {st : State} (ht : TreeOnly st)
    (hi : IdsOK st) {P : Subst → Prop} {r : Option (Option (Subst × Ext1))}
    (hfail : r = some none → ∀ γ, Ext st.σ γ → P γ)
    (hok : ∀ σ' e, r = some (some (σ', e)) → ∀ γ, Ext st.σ γ → (DiseqHolds γ e ↔ P γ)) :
    (∀ st', diseqResult ord st r = .ok st' → AddOK st P st') ∧
    (diseqResult ord st r = .fail → ∀ γ, Ext st.σ γ → ¬ P γ) ∧
    (∀ s, diseqResult ord st r ≠ .panic s) := by
  cases r with
  | none => simp [diseqResult]
  | some r =>
    cases r with
    | none =>
      refine ⟨fun st' h => ?_, by simp [diseqResult], by simp [diseqResult]⟩
      simp only [diseqResult, Res.ok.injEq] at h
      subst h
      exact AddOK.of_entailed ht hi (hfail rfl)
    | some q =>
      obtain ⟨σ', e⟩ := q
      have hk := hok σ' e rfl
      simp only [diseqResult]
      by_cases he : e.isEmpty = true
      · simp only [he, if_true]
        refine ⟨by simp, fun _ γ hx hp => ?_, by simp⟩
        have : e = [] := by simpa using he
        subst this
        exact not_diseqHolds_nil γ ((hk γ hx).mpr hp)
      · simp only [he]
        refine ⟨fun st' h => ?_, by simp, by simp⟩
        simp only [Bool.false_eq_true, if_false, Res.ok.injEq] at h
        subst h
        exact (withNew_diseq ho ht hi e).congr hk

theorem runDiseq_spec {ord : Order} (ho : OrderOK ord) {st : State} (hs : Solved st.σ)
    (ht : TreeOnly st) (hi : IdsOK st) (ps : Ext1) :
    (∀ st', State.runDiseq ord st ps = .ok st' → AddOK st (fun γ => DiseqHolds γ ps) st') ∧
    (State.runDiseq ord st ps = .fail → ∀ γ, Ext st.σ γ → ¬ DiseqHolds γ ps) ∧
    (∀ s, State.runDiseq ord st ps ≠ .panic s) := by
  rw [runDiseq_eq]
  exact diseqResult_spec ho ht hi (fun h => reunify_fail ho hs h)
    (fun σ' e h => (reunify_ok ho hs h).1)

theorem disunify_spec {ord : Order} (ho : OrderOK ord) {st : State} (hs : Solved st.σ)
    (ht : TreeOnly st) (hi : IdsOK st) (u v : Term) :
    (∀ st', State.disunify ord st u v = .ok st' → AddOK st (fun γ => apply γ u ≠ apply γ v) st') ∧
    (State.disunify ord st u v = .fail → ∀ γ, Ext st.σ γ → ¬ apply γ u ≠ apply γ v) ∧
    (∀ s, State.disunify ord st u v ≠ .panic s) := by
  rw [disunify_eq]
  refine diseqResult_spec ho ht hi ?_ ?_
  · intro h γ hx heq
    exact unifyF_fail _ _ _ _ _ hs h ⟨γ, hx, heq⟩
  · intro σ' e h γ hx
    obtain ⟨_, _, un⟩ := unifyF_sound _ _ _ _ _ _ _ hs h
    have mg := unifyF_mgu _ _ _ _ _ _ _ hs h γ hx
    obtain ⟨δ, he, hiff, _, _⟩ := unifyF_ext _ _ _ _ _ _ _ hs h
    simp only [List.append_nil] at he
    subst he
    rw [diseqHolds_iff]
    have h1 : AllEq γ e ↔ Ext σ' γ := (hiff γ hx).symm
    rw [h1]
    exact ⟨fun a b => a (mg b), fun a b => a (unifies_of_ext b un)⟩

end Pv
