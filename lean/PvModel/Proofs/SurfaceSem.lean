/-
  Ground semantics of the macro translation: the elaborated goal (ids, existentially closed over the ids
  the elaboration allocates) means exactly what the surface clause is documented to mean.

  * `DenT ρ t v` : under the valuation ρ of NAMES the surface term `t` can denote the value `v`
                   (`_` may denote anything).
  * `Den ρ g`    : the documented meaning of a clause: `==` some common value, `!=` two different values,
                   `[..]` ∧, `conde` ∨, `|x| {..}` ∃ value of x, `match t { p => body, rest }`
                   (∃ values of the pattern's names such that t and p denote the same value and the body
                   holds) ∨ the remaining arms.
  * `SatE γ e`   : the elaborated goal under a valuation γ of variable IDS.
  Main theorem `elab_sem`: for every valuation γ0 of the ids below the counter,
      Den (γ0 ∘ env) g  ↔  ∃ γ agreeing with γ0 below the counter, SatE γ (elabG env g n).1.
-/
import PvModel.Proofs.Surface
import PvModel.Model.Subst
namespace Pv
namespace Surface
open STerm SGoal

abbrev Valu := Nat → Term      -- ids ↦ values
abbrev NValu := Name → Term    -- names ↦ values

inductive DenT (ρ : NValu) : STerm → Term → Prop where
  | var (x) : DenT ρ (.var x) (ρ x)
  | any (v) : DenT ρ .any v
  | val (c) : DenT ρ (.val c) (.val c)
  | nil : DenT ρ .nil .nil
  | cons {h t vh vt} : DenT ρ h vh → DenT ρ t vt → DenT ρ (.cons h t) (.cons vh vt)
  | comp {g a va} : DenT ρ a va → DenT ρ (.comp g a) (.comp g va)

def SatE (γ : Valu) : EGoal → Prop
  | .eq a b => apply γ a = apply γ b
  | .neq a b => apply γ a ≠ apply γ b
  | .succ => True
  | .fail => False
  | .conj g1 g2 => SatE γ g1 ∧ SatE γ g2
  | .disj g1 g2 => SatE γ g1 ∨ SatE γ g2
  | .fresh g => SatE γ g

def Den : NValu → SGoal → Prop
  | ρ, .eq a b => ∃ v, DenT ρ a v ∧ DenT ρ b v
  | ρ, .neq a b => ∃ va vb, DenT ρ a va ∧ DenT ρ b vb ∧ va ≠ vb
  | _, .tt => True
  | _, .ff => False
  | ρ, .conj g1 g2 => Den ρ g1 ∧ Den ρ g2
  | ρ, .disj g1 g2 => Den ρ g1 ∨ Den ρ g2
  | ρ, .fresh x g => ∃ d, Den (fun y => if y = x then d else ρ y) g
  | ρ, .mtch t p body rest =>
    (∃ ρ' : NValu, (∀ y, y ∉ p.names → ρ' y = ρ y) ∧ ∃ v, DenT ρ t v ∧ DenT ρ' p v ∧ Den ρ' body) ∨ Den ρ rest

theorem apply_congr (γ γ' : Valu) : ∀ t : Term, (∀ v ∈ t.vars, γ v = γ' v) → apply γ t = apply γ' t
  | .var x, h => h x (by simp [Term.vars])
  | .val _, _ => rfl
  | .nil, _ => rfl
  | .cons a b, h => by
    simp only [apply]
    rw [apply_congr γ γ' a (fun v hv => h v (by simp [Term.vars, hv])),
        apply_congr γ γ' b (fun v hv => h v (by simp [Term.vars, hv]))]
  | .comp g a, h => by
    simp only [apply]
    rw [apply_congr γ γ' a (fun v hv => h v (by simpa [Term.vars] using hv))]

theorem satE_congr (γ γ' : Valu) : ∀ e : EGoal, (∀ v ∈ e.vars, γ v = γ' v) → (SatE γ e ↔ SatE γ' e)
  | .eq a b, h => by
    simp only [SatE]
    rw [apply_congr γ γ' a (fun v hv => h v (by simp [EGoal.vars, hv])),
        apply_congr γ γ' b (fun v hv => h v (by simp [EGoal.vars, hv]))]
  | .neq a b, h => by
    simp only [SatE]
    rw [apply_congr γ γ' a (fun v hv => h v (by simp [EGoal.vars, hv])),
        apply_congr γ γ' b (fun v hv => h v (by simp [EGoal.vars, hv]))]
  | .succ, _ => Iff.rfl
  | .fail, _ => Iff.rfl
  | .conj g1 g2, h => by
    simp only [SatE]
    rw [satE_congr γ γ' g1 (fun v hv => h v (by simp [EGoal.vars, hv])),
        satE_congr γ γ' g2 (fun v hv => h v (by simp [EGoal.vars, hv]))]
  | .disj g1 g2, h => by
    simp only [SatE]
    rw [satE_congr γ γ' g1 (fun v hv => h v (by simp [EGoal.vars, hv])),
        satE_congr γ γ' g2 (fun v hv => h v (by simp [EGoal.vars, hv]))]
  | .fresh g, h => by
    simp only [SatE]
    exact satE_congr γ γ' g (fun v hv => h v (by simpa [EGoal.vars] using hv))

theorem denT_congr (ρ ρ' : NValu) (t : STerm) (v : Term) (h : ∀ x, t.mentions x = true → ρ x = ρ' x)
    (hd : DenT ρ t v) : DenT ρ' t v := by
  induction hd with
  | var x => rw [h x (by simp [mentions])]; exact .var x
  | any v => exact .any v
  | val c => exact .val c
  | nil => exact .nil
  | cons _ _ ih1 ih2 =>
    exact .cons (ih1 (fun x hx => h x (by simp [mentions, hx]))) (ih2 (fun x hx => h x (by simp [mentions, hx])))
  | comp _ ih => exact .comp (ih (fun x hx => h x (by simp [mentions, hx])))

/-- terms: `t` can denote `v` under `γ0 ∘ env` iff some choice of the ids allocated for its `_`s makes the
    elaborated term evaluate to `v` -/
theorem elabT_sem (env : Env) (γ0 : Valu) : ∀ (t : STerm) (n : Nat) (v : Term), (∀ x, env x < n) →
    (DenT (fun x => γ0 (env x)) t v ↔
      ∃ γ : Valu, (∀ w, w < n → γ w = γ0 w) ∧ apply γ (elabT env t n).1 = v)
  | .var x, n, v, henv => by
    constructor
    · intro h; cases h; exact ⟨γ0, fun _ _ => rfl, rfl⟩
    · rintro ⟨γ, hg, rfl⟩
      simp only [elabT, apply, hg _ (henv x)]
      exact .var x
  | .any, n, v, _ => by
    constructor
    · intro _
      exact ⟨fun w => if w = n then v else γ0 w, fun w hw => by simp [Nat.ne_of_lt hw], by simp [elabT, apply]⟩
    · intro _; exact .any v
  | .val c, n, v, _ => by
    constructor
    · intro h; cases h; exact ⟨γ0, fun _ _ => rfl, rfl⟩
    · rintro ⟨γ, _, rfl⟩; exact .val c
  | .nil, n, v, _ => by
    constructor
    · intro h; cases h; exact ⟨γ0, fun _ _ => rfl, rfl⟩
    · rintro ⟨γ, _, rfl⟩; exact .nil
  | .cons a b, n, v, henv => by
    simp only [elabT]
    generalize ha : elabT env a n = ra
    obtain ⟨a', n1⟩ := ra
    generalize hb : elabT env b n1 = rb
    obtain ⟨b', n2⟩ := rb
    obtain ⟨l1, s1⟩ := elabT_scope env a n a' n1 ha
    obtain ⟨l2, s2⟩ := elabT_scope env b n1 b' n2 hb
    have henv1 : ∀ x, env x < n1 := fun x => Nat.lt_of_lt_of_le (henv x) l1
    have va : ∀ w ∈ a'.vars, w < n1 := fun w hw => by
      rcases s1 w hw with ⟨x, _, rfl⟩ | ⟨_, h⟩
      · exact henv1 x
      · exact h
    constructor
    · intro h
      cases h with
      | cons h1 h2 =>
        rename_i vh vt
        obtain ⟨γa, ga, ea⟩ := (elabT_sem env γ0 a n vh henv).1 h1
        rw [ha] at ea
        -- continue from γa for the second component
        have h2' : DenT (fun x => γa (env x)) b vt := by
          have : (fun x => γa (env x)) = (fun x => γ0 (env x)) := funext fun x => ga _ (henv x)
          rw [this]; exact h2
        obtain ⟨γb, gb, eb⟩ := (elabT_sem env γa b n1 vt henv1).1 h2'
        rw [hb] at eb
        refine ⟨γb, fun w hw => by rw [gb w (Nat.lt_of_lt_of_le hw l1), ga w hw], ?_⟩
        simp only [apply]
        rw [apply_congr γb γa a' (fun w hw => gb w (va w hw)), ea, eb]
    · rintro ⟨γ, hg, rfl⟩
      simp only [apply]
      refine .cons ((elabT_sem env γ0 a n _ henv).2 ⟨γ, hg, by rw [ha]⟩) ?_
      have : (fun x => γ0 (env x)) = (fun x => γ (env x)) := funext fun x => (hg _ (henv x)).symm
      rw [this]
      exact (elabT_sem env γ b n1 _ henv1).2 ⟨γ, fun _ _ => rfl, by rw [hb]⟩
  | .comp g a, n, v, henv => by
    simp only [elabT]
    generalize ha : elabT env a n = ra
    obtain ⟨a', n1⟩ := ra
    constructor
    · intro h
      cases h with
      | comp h1 =>
        rename_i va
        obtain ⟨γa, ga, ea⟩ := (elabT_sem env γ0 a n va henv).1 h1
        rw [ha] at ea
        exact ⟨γa, ga, by simp only [apply, ea]⟩
    · rintro ⟨γ, hg, rfl⟩
      simp only [apply]
      exact .comp ((elabT_sem env γ0 a n _ henv).2 ⟨γ, hg, by rw [ha]⟩)

theorem nodup_eraseDups : ∀ (k : Nat) (l : List Name), l.length ≤ k → l.eraseDups.Nodup
  | _, [], _ => by simp
  | 0, _ :: _, h => by simp at h
  | k + 1, a :: as, h => by
    rw [List.eraseDups_cons]
    refine List.nodup_cons.2 ⟨fun hm => ?_, nodup_eraseDups k _ ?_⟩
    · have := (List.mem_filter.1 (List.mem_eraseDups.1 hm)).2
      simp at this
    · simp only [List.length_cons] at h
      exact Nat.le_trans (List.length_filter_le _ as) (by omega)

theorem names_nodup : ∀ t : STerm, t.names.Nodup
  | .var x => by simp [names]
  | .any => by simp [names]
  | .val _ => by simp [names]
  | .nil => by simp [names]
  | .cons a b => by simp only [names]; exact nodup_eraseDups _ _ (Nat.le_refl _)
  | .comp g a => by simp only [names]; exact names_nodup a

/-- distinct names get consecutive ids -/
theorem bindAll_idx (env : Env) : ∀ (ns : List Name) (n : Nat), ns.Nodup → ∀ (i : Nat) (h : i < ns.length),
    bindAll env ns n (ns[i]) = n + i
  | [], _, _, i, h => by simp at h
  | x :: xs, n, hn, i, h => by
    simp only [List.nodup_cons] at hn
    cases i with
    | zero =>
      simp only [List.getElem_cons_zero, bindAll]
      rw [bindAll_notin _ xs (n + 1) x hn.1]
      simp [Env.bind]
    | succ i =>
      simp only [List.getElem_cons_succ, bindAll]
      have := bindAll_idx (env.bind x n) xs (n + 1) hn.2 i (by simpa using h)
      rw [this]; omega

theorem elabG_below (g : SGoal) (env : Env) (n : Nat) (e : EGoal) (n' : Nat) (h : elabG env g n = (e, n'))
    (henv : ∀ x, env x < n) : n ≤ n' ∧ ∀ v ∈ e.vars, v < n' := by
  obtain ⟨hle, hs⟩ := elabG_scope g env n e n' h
  refine ⟨hle, fun v hv => ?_⟩
  rcases hs v hv with ⟨x, rfl⟩ | ⟨_, h2⟩
  · exact Nat.lt_of_lt_of_le (henv x) hle
  · exact h2

theorem elabT_below (env : Env) (t : STerm) (n : Nat) (t' : Term) (n' : Nat) (h : elabT env t n = (t', n'))
    (henv : ∀ x, env x < n) : n ≤ n' ∧ ∀ v ∈ t'.vars, v < n' := by
  obtain ⟨hle, hs⟩ := elabT_scope env t n t' n' h
  refine ⟨hle, fun v hv => ?_⟩
  rcases hs v hv with ⟨x, _, rfl⟩ | ⟨_, h2⟩
  · exact Nat.lt_of_lt_of_le (henv x) hle
  · exact h2

/-- THE DOCUMENTED MEANING: a clause holds under a valuation of the names in scope iff the elaborated goal
    holds for some choice of values for the variables the elaboration allocates. -/
theorem elab_sem : ∀ (g : SGoal) (env : Env) (γ0 : Valu) (n : Nat), (∀ x, env x < n) →
    (Den (fun x => γ0 (env x)) g ↔ ∃ γ : Valu, (∀ w, w < n → γ w = γ0 w) ∧ SatE γ (elabG env g n).1)
  | .eq a b, env, γ0, n, henv => by
    simp only [elabG, Den]
    generalize ha : elabT env a n = ra; obtain ⟨a', n1⟩ := ra
    generalize hb : elabT env b n1 = rb; obtain ⟨b', n2⟩ := rb
    obtain ⟨l1, va⟩ := elabT_below env a n a' n1 ha henv
    have henv1 : ∀ x, env x < n1 := fun x => Nat.lt_of_lt_of_le (henv x) l1
    simp only [SatE]
    constructor
    · rintro ⟨v, h1, h2⟩
      obtain ⟨γa, ga, ea⟩ := (elabT_sem env γ0 a n v henv).1 h1
      rw [ha] at ea
      have h2' : DenT (fun x => γa (env x)) b v := by
        have : (fun x => γa (env x)) = (fun x => γ0 (env x)) := funext fun x => ga _ (henv x)
        rw [this]; exact h2
      obtain ⟨γb, gb, eb⟩ := (elabT_sem env γa b n1 v henv1).1 h2'
      rw [hb] at eb
      refine ⟨γb, fun w hw => by rw [gb w (Nat.lt_of_lt_of_le hw l1), ga w hw], ?_⟩
      rw [apply_congr γb γa a' (fun w hw => gb w (va w hw)), ea, eb]
    · rintro ⟨γ, hg, he⟩
      refine ⟨apply γ a', (elabT_sem env γ0 a n _ henv).2 ⟨γ, hg, by rw [ha]⟩, ?_⟩
      have : (fun x => γ0 (env x)) = (fun x => γ (env x)) := funext fun x => (hg _ (henv x)).symm
      rw [this]
      exact (elabT_sem env γ b n1 _ henv1).2 ⟨γ, fun _ _ => rfl, by rw [hb]; exact he.symm⟩
  | .neq a b, env, γ0, n, henv => by
    simp only [elabG, Den]
    generalize ha : elabT env a n = ra; obtain ⟨a', n1⟩ := ra
    generalize hb : elabT env b n1 = rb; obtain ⟨b', n2⟩ := rb
    obtain ⟨l1, va⟩ := elabT_below env a n a' n1 ha henv
    have henv1 : ∀ x, env x < n1 := fun x => Nat.lt_of_lt_of_le (henv x) l1
    simp only [SatE]
    constructor
    · rintro ⟨v1, v2, h1, h2, hne⟩
      obtain ⟨γa, ga, ea⟩ := (elabT_sem env γ0 a n v1 henv).1 h1
      rw [ha] at ea
      have h2' : DenT (fun x => γa (env x)) b v2 := by
        have : (fun x => γa (env x)) = (fun x => γ0 (env x)) := funext fun x => ga _ (henv x)
        rw [this]; exact h2
      obtain ⟨γb, gb, eb⟩ := (elabT_sem env γa b n1 v2 henv1).1 h2'
      rw [hb] at eb
      refine ⟨γb, fun w hw => by rw [gb w (Nat.lt_of_lt_of_le hw l1), ga w hw], ?_⟩
      rw [apply_congr γb γa a' (fun w hw => gb w (va w hw)), ea, eb]
      exact hne
    · rintro ⟨γ, hg, he⟩
      refine ⟨apply γ a', apply γ b', (elabT_sem env γ0 a n _ henv).2 ⟨γ, hg, by rw [ha]⟩, ?_, he⟩
      have : (fun x => γ0 (env x)) = (fun x => γ (env x)) := funext fun x => (hg _ (henv x)).symm
      rw [this]
      exact (elabT_sem env γ b n1 _ henv1).2 ⟨γ, fun _ _ => rfl, by rw [hb]⟩
  | .tt, env, γ0, n, _ => by simp only [elabG, Den, SatE]; exact ⟨fun _ => ⟨γ0, fun _ _ => rfl, trivial⟩, fun _ => trivial⟩
  | .ff, env, γ0, n, _ => by simp only [elabG, Den, SatE]; exact ⟨fun h => h.elim, fun ⟨_, _, h⟩ => h⟩
  | .conj g1 g2, env, γ0, n, henv => by
    simp only [elabG, Den]
    generalize h1 : elabG env g1 n = r1; obtain ⟨e1, n1⟩ := r1
    generalize h2 : elabG env g2 n1 = r2; obtain ⟨e2, n2⟩ := r2
    obtain ⟨l1, v1⟩ := elabG_below g1 env n e1 n1 h1 henv
    have henv1 : ∀ x, env x < n1 := fun x => Nat.lt_of_lt_of_le (henv x) l1
    simp only [SatE]
    constructor
    · rintro ⟨d1, d2⟩
      obtain ⟨γ1, g1a, s1⟩ := (elab_sem g1 env γ0 n henv).1 d1
      rw [h1] at s1
      have d2' : Den (fun x => γ1 (env x)) g2 := by
        have : (fun x => γ1 (env x)) = (fun x => γ0 (env x)) := funext fun x => g1a _ (henv x)
        rw [this]; exact d2
      obtain ⟨γ2, g2a, s2⟩ := (elab_sem g2 env γ1 n1 henv1).1 d2'
      rw [h2] at s2
      refine ⟨γ2, fun w hw => by rw [g2a w (Nat.lt_of_lt_of_le hw l1), g1a w hw], ?_, s2⟩
      exact (satE_congr γ2 γ1 e1 (fun w hw => g2a w (v1 w hw))).2 s1
    · rintro ⟨γ, hg, s1, s2⟩
      refine ⟨(elab_sem g1 env γ0 n henv).2 ⟨γ, hg, by rw [h1]; exact s1⟩, ?_⟩
      have : (fun x => γ0 (env x)) = (fun x => γ (env x)) := funext fun x => (hg _ (henv x)).symm
      rw [this]
      exact (elab_sem g2 env γ n1 henv1).2 ⟨γ, fun _ _ => rfl, by rw [h2]; exact s2⟩
  | .disj g1 g2, env, γ0, n, henv => by
    simp only [elabG, Den]
    generalize h1 : elabG env g1 n = r1; obtain ⟨e1, n1⟩ := r1
    generalize h2 : elabG env g2 n1 = r2; obtain ⟨e2, n2⟩ := r2
    obtain ⟨l1, _⟩ := elabG_below g1 env n e1 n1 h1 henv
    have henv1 : ∀ x, env x < n1 := fun x => Nat.lt_of_lt_of_le (henv x) l1
    simp only [SatE]
    constructor
    · rintro (d1 | d2)
      · obtain ⟨γ1, g1a, s1⟩ := (elab_sem g1 env γ0 n henv).1 d1
        rw [h1] at s1
        exact ⟨γ1, g1a, .inl s1⟩
      · obtain ⟨γ2, g2a, s2⟩ := (elab_sem g2 env γ0 n1 henv1).1 d2
        rw [h2] at s2
        exact ⟨γ2, fun w hw => g2a w (Nat.lt_of_lt_of_le hw l1), .inr s2⟩
    · rintro ⟨γ, hg, s1 | s2⟩
      · exact .inl ((elab_sem g1 env γ0 n henv).2 ⟨γ, hg, by rw [h1]; exact s1⟩)
      · right
        have : (fun x => γ0 (env x)) = (fun x => γ (env x)) := funext fun x => (hg _ (henv x)).symm
        rw [this]
        exact (elab_sem g2 env γ n1 henv1).2 ⟨γ, fun _ _ => rfl, by rw [h2]; exact s2⟩
  | .fresh x g, env, γ0, n, henv => by
    simp only [elabG, Den]
    generalize h1 : elabG (env.bind x n) g (n + 1) = r1; obtain ⟨e1, n1⟩ := r1
    have henv' : ∀ y, (env.bind x n) y < n + 1 := fun y => by
      simp only [Env.bind]; split
      · omega
      · exact Nat.lt_succ_of_lt (henv y)
    simp only [SatE]
    have key : ∀ (γ' : Valu) (d : Term), γ' n = d → (∀ w, w < n → γ' w = γ0 w) →
        (fun y => γ' ((env.bind x n) y)) = (fun y => if y = x then d else γ0 (env y)) := by
      intro γ' d hd hlt
      funext y
      simp only [Env.bind]
      split
      · exact hd
      · exact hlt _ (henv y)
    constructor
    · rintro ⟨d, hd⟩
      let γ0' : Valu := fun w => if w = n then d else γ0 w
      have e := key γ0' d (by simp [γ0']) (fun w hw => by simp [γ0', Nat.ne_of_lt hw])
      rw [← e] at hd
      obtain ⟨γ, hg, hs⟩ := (elab_sem g (env.bind x n) γ0' (n + 1) henv').1 hd
      rw [h1] at hs
      exact ⟨γ, fun w hw => by rw [hg w (Nat.lt_succ_of_lt hw)]; simp [γ0', Nat.ne_of_lt hw], hs⟩
    · rintro ⟨γ, hg, hs⟩
      refine ⟨γ n, ?_⟩
      rw [← key γ (γ n) rfl hg]
      exact (elab_sem g (env.bind x n) γ (n + 1) henv').2 ⟨γ, fun _ _ => rfl, by rw [h1]; exact hs⟩
  | .mtch t p body rest, env, γ0, n, henv => by
    simp only [elabG, Den]
    generalize ht : elabT env t n = rt; obtain ⟨t', n1⟩ := rt
    generalize hp : elabT (bindAll env p.names n1) p (n1 + p.names.length) = rp; obtain ⟨p', n2⟩ := rp
    generalize hb : elabG (bindAll env p.names n1) body n2 = rb; obtain ⟨b, n3⟩ := rb
    generalize hr : elabG env rest n3 = rr; obtain ⟨r, n4⟩ := rr
    simp only [SatE]
    obtain ⟨l1, vt⟩ := elabT_below env t n t' n1 ht henv
    have henvE : ∀ y, bindAll env p.names n1 y < n1 + p.names.length := fun y => by
      rcases bindAll_range env p.names n1 y with h | ⟨_, h⟩
      · rw [h]; exact Nat.lt_of_lt_of_le (henv y) (by omega)
      · exact h
    obtain ⟨l2, vp⟩ := elabT_below _ p _ p' n2 hp henvE
    have henvE2 : ∀ y, bindAll env p.names n1 y < n2 := fun y => Nat.lt_of_lt_of_le (henvE y) l2
    obtain ⟨l3, _⟩ := elabG_below body _ n2 b n3 hb henvE2
    have henv3 : ∀ x, env x < n3 := fun x => Nat.lt_of_lt_of_le (henv x) (by omega)
    -- a valuation of ids composed with the arm's environment is a valuation of names that agrees with the
    -- outer one outside the pattern's names
    have outside : ∀ (γ' : Valu), (∀ w, w < n → γ' w = γ0 w) → ∀ y, y ∉ p.names →
        γ' (bindAll env p.names n1 y) = γ0 (env y) := fun γ' hg y hy => by
      rw [bindAll_notin env p.names n1 y hy]; exact hg _ (henv y)
    constructor
    · rintro (⟨ρ', hout, v, dt, dp, dbody⟩ | drest)
      · obtain ⟨γt, gt, et⟩ := (elabT_sem env γ0 t n v henv).1 dt
        rw [ht] at et
        -- values of the pattern's ids: ρ' of the corresponding name
        let γ0' : Valu := fun w =>
          if h : n1 ≤ w ∧ w < n1 + p.names.length then ρ' (p.names[w - n1]'(by omega)) else γt w
        have hρ : (fun y => γ0' (bindAll env p.names n1 y)) = ρ' := by
          funext y
          by_cases hy : y ∈ p.names
          · obtain ⟨i, hi, rfl⟩ := List.getElem_of_mem hy
            rw [bindAll_idx env p.names n1 (names_nodup p) i hi]
            have hc : n1 ≤ n1 + i ∧ n1 + i < n1 + p.names.length := ⟨by omega, by omega⟩
            simp only [γ0', hc, and_self, dif_pos]
            congr 2; omega
          · rw [bindAll_notin env p.names n1 y hy]
            have hlt := henv y
            have hc : ¬ (n1 ≤ env y ∧ env y < n1 + p.names.length) := by omega
            simp only [γ0', hc, dif_neg, not_false_eq_true]
            rw [gt _ hlt, hout y hy]
        have dp' : DenT (fun y => γ0' (bindAll env p.names n1 y)) p v := by rw [hρ]; exact dp
        obtain ⟨γp, gp, ep⟩ := (elabT_sem (bindAll env p.names n1) γ0' p (n1 + p.names.length) v henvE).1 dp'
        rw [hp] at ep
        have db' : Den (fun y => γp (bindAll env p.names n1 y)) body := by
          have : (fun y => γp (bindAll env p.names n1 y)) = ρ' := by
            rw [← hρ]; funext y; exact gp _ (henvE y)
          rw [this]; exact dbody
        obtain ⟨γb, gb, sb⟩ := (elab_sem body (bindAll env p.names n1) γp n2 henvE2).1 db'
        rw [hb] at sb
        have low : ∀ w, w < n1 → γb w = γt w := fun w hw => by
          rw [gb w (by omega), gp w (by omega)]
          have hc : ¬ (n1 ≤ w ∧ w < n1 + p.names.length) := by omega
          simp only [γ0', hc, dif_neg, not_false_eq_true]
        refine ⟨γb, fun w hw => by rw [low w (by omega), gt w hw], .inl ⟨?_, sb⟩⟩
        rw [apply_congr γb γt t' (fun w hw => low w (vt w hw)), et,
            apply_congr γb γp p' (fun w hw => gb w (vp w hw)), ep]
      · obtain ⟨γr, gr, sr⟩ := (elab_sem rest env γ0 n3 henv3).1 drest
        rw [hr] at sr
        exact ⟨γr, fun w hw => gr w (by omega), .inr sr⟩
    · rintro ⟨γ, hg, (⟨heq, sb⟩ | sr)⟩
      · left
        refine ⟨fun y => γ (bindAll env p.names n1 y), fun y hy => outside γ hg y hy, apply γ t', ?_, ?_, ?_⟩
        · exact (elabT_sem env γ0 t n _ henv).2 ⟨γ, hg, by rw [ht]⟩
        · exact (elabT_sem (bindAll env p.names n1) γ p (n1 + p.names.length) _ henvE).2
            ⟨γ, fun _ _ => rfl, by rw [hp]; exact heq.symm⟩
        · exact (elab_sem body (bindAll env p.names n1) γ n2 henvE2).2 ⟨γ, fun _ _ => rfl, by rw [hb]; exact sb⟩
      · right
        have : (fun x => γ0 (env x)) = (fun x => γ (env x)) := funext fun x => (hg _ (henv x)).symm
        rw [this]
        exact (elab_sem rest env γ n3 henv3).2 ⟨γ, fun _ _ => rfl, by rw [hr]; exact sr⟩

end Surface
end Pv
