/-
  DECLARATIVE SEMANTICS of the library relations (member, member1, append, rember, permute, distinct) and the
  soundness of the engine for them — in EVERY argument mode: the arguments are arbitrary terms (ground,
  partial, fresh), the start state is any good state.

  Method: a goal `g` "denotes `D`" up to derivation height `N` (`DenN`): every big-step answer `b` of `g` from
  a good unpoisoned state `a` is good and describes only valuations that `a` describes and that satisfy `D`.
  `DenN` is compositional (atoms by `postAtom_spec`; conjunction = ∧, conde = ∨, fresh, relation call =
  unfold); the relations' specifications (`AppT`, `MemT`, …) are inductive predicates on terms whose rules are
  the clauses, so "the body denotes the spec" is one rule application per clause, and the induction on the
  height closes the recursion.  By `mem_iff_big` (Proofs/BigStep.lean) the statement is about every state
  the engine's stream holds, at every nesting level, for the interleaving and the depth-first variant.
-/
import PvModel.Proofs.BigStep
import PvModel.Proofs.Tree
import PvModel.Model.Goals
namespace Pv
open Strm Goal State Term

/-! ### specifications: the documented relations, on terms -/

/-- `append(l, s, ls)`: `ls` is `l` followed by `s` -/
inductive AppT : Term → Term → Term → Prop
  | nil (s) : AppT .nil s s
  | cons {x t s r} : AppT t s r → AppT (.cons x t) s (.cons x r)

/-- `member(x, l)`: `x` is at some position of `l` -/
inductive MemT : Term → Term → Prop
  | head (x t) : MemT x (.cons x t)
  | tail {x h t} : MemT x t → MemT x (.cons h t)

/-- `member1(x, l)`: `x` is in `l`, reached at its first occurrence (everything before differs from `x`) -/
inductive Mem1T : Term → Term → Prop
  | head (x t) : Mem1T x (.cons x t)
  | tail {x h t} : h ≠ x → Mem1T x t → Mem1T x (.cons h t)

/-- `rember(x, ls, out)`: `out` is `ls` without the first occurrence of `x` -/
inductive RemT : Term → Term → Term → Prop
  | nil (x) : RemT x .nil .nil
  | hit (x d) : RemT x (.cons x d) d
  | skip {x y ys zs} : y ≠ x → RemT x ys zs → RemT x (.cons y ys) (.cons y zs)

/-- `permute(xl, yl)` as its clauses define it: remove the elements of `xl` one after the other from `yl` -/
inductive PermT : Term → Term → Prop
  | nil : PermT .nil .nil
  | cons {x xs yl ys} : PermT xs ys → RemT x yl ys → PermT (.cons x xs) yl

/-- `distinct(l)` as its clauses define it -/
inductive DistT : Term → Prop
  | nil : DistT .nil
  | one (a) : DistT (.cons a .nil)
  | more {f s r} : f ≠ s → DistT (.cons f r) → DistT (.cons s r) → DistT (.cons f (.cons s r))

/-- the specification of a call under a valuation -/
def RelSem (c : Call) (γ : Subst) : Prop :=
  match c.rel, c.args with
  | .member, [x, l] => MemT (apply γ x) (apply γ l)
  | .member1, [x, l] => Mem1T (apply γ x) (apply γ l)
  | .append, [l, s, ls] => AppT (apply γ l) (apply γ s) (apply γ ls)
  | .rember, [x, ls, out] => RemT (apply γ x) (apply γ ls) (apply γ out)
  | .permute, [xl, yl] => PermT (apply γ xl) (apply γ yl)
  | .distinct, [l] => DistT (apply γ l)
  | _, _ => False

section
variable (ord : Order)

/-! ### the soundness contract -/

/-- the contract between a start state and an answer: poison is kept; an unpoisoned answer of a good state is
    good and describes only valuations the start state describes and that satisfy `D` -/
def SC (D : Subst → Prop) (a b : State) : Prop :=
  (a.panic.isSome = true → b.panic.isSome = true) ∧
  (b.panic.isSome = false → Good a → Good b ∧ ∀ γ, StateSem γ b → StateSem γ a ∧ D γ)

/-- goal `g` denotes `D`, for derivations of height ≤ `N` -/
def DenN (N : Nat) (g : G) (D : Subst → Prop) : Prop :=
  ∀ n, n ≤ N → ∀ a b, BigF (defs ord) n g a b → SC D a b

variable {ord}

theorem SC.trans {D1 D2 : Subst → Prop} {a c b : State} (h1 : SC D1 a c) (h2 : SC D2 c b) :
    SC (fun γ => D1 γ ∧ D2 γ) a b := by
  refine ⟨fun ha => h2.1 (h1.1 ha), fun hb hg => ?_⟩
  have hc : c.panic.isSome = false := by
    cases hc : c.panic.isSome with
    | false => rfl
    | true => rw [h2.1 hc] at hb; cases hb
  obtain ⟨gc, s1⟩ := h1.2 hc hg
  obtain ⟨gb, s2⟩ := h2.2 hb gc
  exact ⟨gb, fun γ hγ => ⟨(s1 γ (s2 γ hγ).1).1, (s1 γ (s2 γ hγ).1).2, (s2 γ hγ).2⟩⟩

theorem den_weaken {N : Nat} {g : G} {D D' : Subst → Prop} (h : DenN ord N g D) (w : ∀ γ, D γ → D' γ) :
    DenN ord N g D' := fun n hn a b hb =>
  ⟨(h n hn a b hb).1, fun hp hg => ⟨((h n hn a b hb).2 hp hg).1, fun γ hγ =>
    ⟨(((h n hn a b hb).2 hp hg).2 γ hγ).1, w γ (((h n hn a b hb).2 hp hg).2 γ hγ).2⟩⟩⟩

theorem den_succeed (N : Nat) : DenN ord N .succeed fun _ => True := by
  intro n _ a b h
  cases n with
  | zero => exact h.elim
  | succ n => simp only [BigF] at h; subst h; exact ⟨id, fun _ hg => ⟨hg, fun γ hγ => ⟨hγ, trivial⟩⟩⟩

theorem den_fail (N : Nat) (D : Subst → Prop) : DenN ord N .fail D := by
  intro n _ a b h
  cases n with
  | zero => exact h.elim
  | succ n => exact h.elim

/-- `==` and `!=` denote their documented meaning -/
theorem den_atom (ho : OrderOK ord) (N : Nat) (t : TAtom) :
    DenN ord N (.atom (liftRes fun st => postAtom ord st t)) fun γ => t.Sat γ := by
  intro n _ a b h
  cases n with
  | zero => exact h.elim
  | succ n =>
    simp only [BigF, liftRes] at h
    cases hp : a.panic.isSome with
    | true =>
      simp only [hp, if_true, Option.some.injEq] at h
      subst h
      exact ⟨id, fun hb => by rw [hp] at hb; cases hb⟩
    | false =>
      refine ⟨fun x => (by rw [hp] at x; cases x), fun hb hg => ?_⟩
      simp only [hp, Bool.false_eq_true, if_false] at h
      cases hr : postAtom ord a t with
      | ok s =>
        rw [hr] at h
        simp only [Option.some.injEq] at h
        subst h
        obtain ⟨g1, sem⟩ := postAtom_ok ord ho a s t hg hr
        exact ⟨g1, fun γ hγ => (sem γ).1 hγ⟩
      | fail => rw [hr] at h; cases h
      | fuel =>
        rw [hr] at h
        simp only [Option.some.injEq] at h
        subst h
        cases hb
      | panic s =>
        rw [hr] at h
        simp only [Option.some.injEq] at h
        subst h
        cases hb

theorem den_eq (ho : OrderOK ord) (N : Nat) (u v : Term) : DenN ord N (eqG ord u v) fun γ => apply γ u = apply γ v :=
  den_atom ho N (.eq u v)

theorem den_neq (ho : OrderOK ord) (N : Nat) (u v : Term) : DenN ord N (diseqG ord u v) fun γ => apply γ u ≠ apply γ v :=
  den_atom ho N (.neq u v)

theorem den_conj {N : Nat} {g1 g2 : G} {D1 D2 : Subst → Prop} (h1 : DenN ord N g1 D1) (h2 : DenN ord N g2 D2) :
    DenN ord N (.conj g1 g2) fun γ => D1 γ ∧ D2 γ := by
  intro n hn a b h
  cases n with
  | zero => exact h.elim
  | succ n =>
    obtain ⟨c, b1, b2⟩ := h
    exact (h1 n (by omega) a c b1).trans (h2 n (by omega) c b b2)

theorem den_conjD {N : Nat} {g1 g2 : G} {D1 D2 : Subst → Prop} (h1 : DenN ord N g1 D1) (h2 : DenN ord N g2 D2) :
    DenN ord N (.conjD g1 g2) fun γ => D1 γ ∧ D2 γ := by
  intro n hn a b h
  cases n with
  | zero => exact h.elim
  | succ n =>
    obtain ⟨c, b1, b2⟩ := h
    exact (h1 n (by omega) a c b1).trans (h2 n (by omega) c b b2)

/-- what a goal that is literally `succeed` denotes holds of every valuation a good unpoisoned state describes -/
theorem den_of_succeed {N : Nat} {D : Subst → Prop} (h : DenN ord (N + 1) .succeed D) {a : State}
    (hp : a.panic.isSome = false) (hg : Good a) : ∀ γ, StateSem γ a → D γ := fun γ hγ =>
  (((h 1 (by omega) a a (by simp [BigF])).2 hp hg).2 γ hγ).2

theorem den_mkConj {N : Nat} {g1 g2 : G} {D1 D2 : Subst → Prop} (h1 : DenN ord N g1 D1) (h2 : DenN ord N g2 D2) :
    DenN ord N (mkConj g1 g2) fun γ => D1 γ ∧ D2 γ := by
  unfold mkConj
  split
  · rename_i h
    simp only [Bool.and_eq_true, isSucceed_iff] at h
    obtain ⟨rfl, rfl⟩ := h
    intro n hn a b hb
    cases n with
    | zero => exact hb.elim
    | succ n =>
      simp only [BigF] at hb; subst hb
      refine ⟨id, fun hp hg => ⟨hg, fun γ hγ => ⟨hγ, ?_, ?_⟩⟩⟩
      · exact (((h1 (n + 1) hn a a (by simp [BigF])).2 hp hg).2 γ hγ).2
      · exact (((h2 (n + 1) hn a a (by simp [BigF])).2 hp hg).2 γ hγ).2
  · split
    · exact den_fail _ _
    · exact den_conj h1 h2

theorem den_mkConjD {N : Nat} {g1 g2 : G} {D1 D2 : Subst → Prop} (h1 : DenN ord N g1 D1) (h2 : DenN ord N g2 D2) :
    DenN ord N (mkConjD g1 g2) fun γ => D1 γ ∧ D2 γ := by
  unfold mkConjD
  split
  · rename_i h
    simp only [Bool.and_eq_true, isSucceed_iff] at h
    obtain ⟨rfl, rfl⟩ := h
    intro n hn a b hb
    cases n with
    | zero => exact hb.elim
    | succ n =>
      simp only [BigF] at hb; subst hb
      refine ⟨id, fun hp hg => ⟨hg, fun γ hγ => ⟨hγ, ?_, ?_⟩⟩⟩
      · exact (((h1 (n + 1) hn a a (by simp [BigF])).2 hp hg).2 γ hγ).2
      · exact (((h2 (n + 1) hn a a (by simp [BigF])).2 hp hg).2 γ hγ).2
  · split
    · exact den_fail _ _
    · exact den_conjD h1 h2

theorem den_alt {N : Nat} {g1 g2 : G} {D1 D2 : Subst → Prop} (h1 : DenN ord N g1 D1) (h2 : DenN ord N g2 D2) :
    DenN ord N (.alt g1 g2) fun γ => D1 γ ∨ D2 γ := by
  intro n hn a b h
  cases n with
  | zero => exact h.elim
  | succ n =>
    rcases h with h | h
    · exact den_weaken h1 (fun _ => .inl) n (by omega) a b h
    · exact den_weaken h2 (fun _ => .inr) n (by omega) a b h

theorem den_altD {N : Nat} {g1 g2 : G} {D1 D2 : Subst → Prop} (h1 : DenN ord N g1 D1) (h2 : DenN ord N g2 D2) :
    DenN ord N (.altD g1 g2) fun γ => D1 γ ∨ D2 γ := by
  intro n hn a b h
  cases n with
  | zero => exact h.elim
  | succ n =>
    rcases h with h | h
    · exact den_weaken h1 (fun _ => .inl) n (by omega) a b h
    · exact den_weaken h2 (fun _ => .inr) n (by omega) a b h

theorem den_fresh {N : Nat} {g : G} {D : Subst → Prop} (h : DenN ord N g D) : DenN ord N (.fresh g) D := by
  intro n hn a b hb
  cases n with
  | zero => exact hb.elim
  | succ n => exact h n (by omega) a b hb

/-- a relation call denotes what its body denotes, whatever fresh variables the body is built with -/
theorem den_call {N : Nat} {c : Call} {D : Subst → Prop} (h : ∀ m, DenN ord N (relBody ord c m).2 D) :
    DenN ord (N + 1) (.call c) D := by
  intro n hn a b hb
  cases n with
  | zero => exact hb.elim
  | succ n =>
    simp only [BigF] at hb
    have := h a.nextVar n (by omega) _ b hb
    exact ⟨this.1, fun hp hg => this.2 hp hg⟩

/-! ### lists of goals with their denotations -/

abbrev GD := G × (Subst → Prop)

theorem den_conjOfList {N : Nat} : ∀ (ps : List GD), (∀ p ∈ ps, DenN ord N p.1 p.2) →
    DenN ord N (conjOfList (ps.map Prod.fst)) fun γ => ∀ p ∈ ps, p.2 γ
  | [], _ => den_weaken (den_succeed N) fun _ _ _ h => nomatch h
  | p :: ps, h =>
    den_weaken (den_mkConj (h p List.mem_cons_self) (den_conjOfList ps fun q hq => h q (List.mem_cons_of_mem _ hq)))
      fun γ ⟨h1, h2⟩ q hq => by
        rcases List.mem_cons.1 hq with rfl | hq
        · exact h1
        · exact h2 q hq

theorem den_conjDOfList {N : Nat} : ∀ (ps : List GD), (∀ p ∈ ps, DenN ord N p.1 p.2) →
    DenN ord N (conjDOfList (ps.map Prod.fst)) fun γ => ∀ p ∈ ps, p.2 γ
  | [], _ => den_weaken (den_succeed N) fun _ _ _ h => nomatch h
  | p :: ps, h =>
    den_weaken (den_mkConjD (h p List.mem_cons_self) (den_conjDOfList ps fun q hq => h q (List.mem_cons_of_mem _ hq)))
      fun γ ⟨h1, h2⟩ q hq => by
        rcases List.mem_cons.1 hq with rfl | hq
        · exact h1
        · exact h2 q hq

theorem den_altOfList {N : Nat} : ∀ (ps : List GD), (∀ p ∈ ps, DenN ord N p.1 p.2) →
    DenN ord N (altOfList (ps.map Prod.fst)) fun γ => ∃ p ∈ ps, p.2 γ
  | [], _ => den_fail _ _
  | p :: ps, h =>
    den_weaken (den_alt (h p List.mem_cons_self) (den_altOfList ps fun q hq => h q (List.mem_cons_of_mem _ hq)))
      fun γ hγ => by
        rcases hγ with h1 | ⟨q, hq, h2⟩
        · exact ⟨p, List.mem_cons_self, h1⟩
        · exact ⟨q, List.mem_cons_of_mem _ hq, h2⟩

theorem den_altDOfList {N : Nat} : ∀ (ps : List GD), (∀ p ∈ ps, DenN ord N p.1 p.2) →
    DenN ord N (altDOfList (ps.map Prod.fst)) fun γ => ∃ p ∈ ps, p.2 γ
  | [], _ => den_fail _ _
  | p :: ps, h =>
    den_weaken (den_altD (h p List.mem_cons_self) (den_altDOfList ps fun q hq => h q (List.mem_cons_of_mem _ hq)))
      fun γ hγ => by
        rcases hγ with h1 | ⟨q, hq, h2⟩
        · exact ⟨p, List.mem_cons_self, h1⟩
        · exact ⟨q, List.mem_cons_of_mem _ hq, h2⟩

/-- the body shape of every library relation: one `conde` of clauses (interleaving or depth-first) -/
def oneOf (dfs : Bool) (clauses : List (List G)) : G :=
  if dfs then Goal.conjDOfList [Goal.condeDOfClauses clauses] else Goal.conjOfList [Goal.condeOfClauses clauses]

def conjLOf (dfs : Bool) (gs : List G) : G := if dfs then Goal.conjDOfList gs else Goal.conjOfList gs

theorem den_conjL {N : Nat} (dfs : Bool) (ps : List GD) (h : ∀ p ∈ ps, DenN ord N p.1 p.2) :
    DenN ord N (conjLOf dfs (ps.map Prod.fst)) fun γ => ∀ p ∈ ps, p.2 γ := by
  unfold conjLOf
  cases dfs with
  | true => exact den_conjDOfList ps h
  | false => exact den_conjOfList ps h

theorem den_condeOfClauses {N : Nat} : ∀ (css : List (List GD)), (∀ c ∈ css, ∀ p ∈ c, DenN ord N p.1 p.2) →
    DenN ord N (condeOfClauses (css.map fun c => c.map Prod.fst)) fun γ => ∃ c ∈ css, ∀ p ∈ c, p.2 γ
  | [], _ => den_fail _ _
  | c :: css, h => by
    have h1 := den_conjOfList (ord := ord) (N := N) c (h c List.mem_cons_self)
    have h2 := den_condeOfClauses css fun d hd => h d (List.mem_cons_of_mem _ hd)
    show DenN ord N (.alt (conjOfList (c.map Prod.fst)) (condeOfClauses (css.map fun c => c.map Prod.fst))) _
    refine den_weaken (den_alt h1 h2) fun γ hγ => ?_
    rcases hγ with h1 | ⟨d, hd, h2⟩
    · exact ⟨c, List.mem_cons_self, h1⟩
    · exact ⟨d, List.mem_cons_of_mem _ hd, h2⟩

theorem den_condeDOfClauses {N : Nat} : ∀ (css : List (List GD)), (∀ c ∈ css, ∀ p ∈ c, DenN ord N p.1 p.2) →
    DenN ord N (condeDOfClauses (css.map fun c => c.map Prod.fst)) fun γ => ∃ c ∈ css, ∀ p ∈ c, p.2 γ
  | [], _ => den_fail _ _
  | c :: css, h => by
    have h1 := den_conjDOfList (ord := ord) (N := N) c (h c List.mem_cons_self)
    have h2 := den_condeDOfClauses css fun d hd => h d (List.mem_cons_of_mem _ hd)
    show DenN ord N (.altD (conjDOfList (c.map Prod.fst)) (condeDOfClauses (css.map fun c => c.map Prod.fst))) _
    refine den_weaken (den_altD h1 h2) fun γ hγ => ?_
    rcases hγ with h1 | ⟨d, hd, h2⟩
    · exact ⟨c, List.mem_cons_self, h1⟩
    · exact ⟨d, List.mem_cons_of_mem _ hd, h2⟩

theorem den_one {N : Nat} (dfs : Bool) (css : List (List GD)) (h : ∀ c ∈ css, ∀ p ∈ c, DenN ord N p.1 p.2) :
    DenN ord N (oneOf dfs (css.map fun c => c.map Prod.fst)) fun γ => ∃ c ∈ css, ∀ p ∈ c, p.2 γ := by
  unfold oneOf
  cases dfs with
  | true => exact den_weaken (den_mkConjD (den_condeDOfClauses css h) (den_succeed N)) fun γ hγ => hγ.1
  | false => exact den_weaken (den_mkConj (den_condeOfClauses css h) (den_succeed N)) fun γ hγ => hγ.1

/-! ### the bodies of the library relations denote their specifications -/

theorem den_bad (N : Nat) (D : Subst → Prop) (msg : String) : DenN ord N (.atom (liftRes fun _ => .panic msg)) D := by
  intro n _ a b h
  cases n with
  | zero => exact h.elim
  | succ n =>
    simp only [BigF, liftRes] at h
    cases hp : a.panic.isSome with
    | true =>
      simp only [hp, if_true, Option.some.injEq] at h
      subst h
      exact ⟨id, fun hb => by rw [hp] at hb; cases hb⟩
    | false =>
      simp only [hp, Bool.false_eq_true, if_false, Option.some.injEq] at h
      subst h
      exact ⟨fun _ => rfl, fun hb => by cases hb⟩

section Bodies
variable (ho : OrderOK ord) (N : Nat) (ih : ∀ c, DenN ord N (.call c) (RelSem c))
include ho ih

theorem den_member (x l : Term) (d : Bool) (m : Nat) :
    DenN ord N (relBody ord ⟨.member, [x, l], d⟩ m).2 (RelSem ⟨.member, [x, l], d⟩) := by
  let v (i : Nat) : Term := .var (m + i)
  have e : (relBody ord ⟨.member, [x, l], d⟩ m).2 = oneOf d (([
      [(eqG ord l (.cons (v 0) (v 1)), fun γ => apply γ l = apply γ (.cons (v 0) (v 1))),
       (eqG ord (v 0) x, fun γ => apply γ (v 0) = apply γ x)],
      [(eqG ord l (.cons (v 3) (v 2)), fun γ => apply γ l = apply γ (.cons (v 3) (v 2))),
       (.call ⟨.member, [x, v 2], d⟩, RelSem ⟨.member, [x, v 2], d⟩)]] : List (List GD)).map fun c => c.map Prod.fst) := rfl
  rw [e]
  refine den_weaken (den_one d _ ?_) ?_
  · intro c hc p hp
    simp only [List.mem_cons, List.not_mem_nil, or_false] at hc
    rcases hc with rfl | rfl <;> simp only [List.mem_cons, List.not_mem_nil, or_false] at hp <;>
      rcases hp with rfl | rfl <;> first | exact den_eq ho N _ _ | exact ih _
  · rintro γ ⟨c, hc, hall⟩
    simp only [List.mem_cons, List.not_mem_nil, or_false] at hc
    simp only [RelSem]
    rcases hc with rfl | rfl
    · have h1 := hall _ List.mem_cons_self
      have h2 := hall _ (List.mem_cons_of_mem _ List.mem_cons_self)
      simp only [apply, v] at h1 h2
      rw [h1, ← h2]
      exact .head _ _
    · have h1 := hall _ List.mem_cons_self
      have h2 := hall _ (List.mem_cons_of_mem _ List.mem_cons_self)
      simp only [apply, RelSem, v] at h1 h2
      rw [h1]
      exact .tail h2

theorem den_member1 (x l : Term) (d : Bool) (m : Nat) :
    DenN ord N (relBody ord ⟨.member1, [x, l], d⟩ m).2 (RelSem ⟨.member1, [x, l], d⟩) := by
  let v (i : Nat) : Term := .var (m + i)
  let inner : List GD := [(diseqG ord (v 3) x, fun γ => apply γ (v 3) ≠ apply γ x),
      (.call ⟨.member1, [x, v 2], d⟩, RelSem ⟨.member1, [x, v 2], d⟩)]
  have e : (relBody ord ⟨.member1, [x, l], d⟩ m).2 = oneOf d (([
      [(eqG ord l (.cons (v 0) (v 1)), fun γ => apply γ l = apply γ (.cons (v 0) (v 1))),
       (eqG ord (v 0) x, fun γ => apply γ (v 0) = apply γ x)],
      [(eqG ord l (.cons (v 3) (v 2)), fun γ => apply γ l = apply γ (.cons (v 3) (v 2))),
       (conjLOf d (inner.map Prod.fst), fun γ => ∀ p ∈ inner, p.2 γ)]] : List (List GD)).map
      fun c => c.map Prod.fst) := rfl
  rw [e]
  refine den_weaken (den_one d _ ?_) ?_
  · intro c hc p hp
    simp only [List.mem_cons, List.not_mem_nil, or_false] at hc
    rcases hc with rfl | rfl <;> simp only [List.mem_cons, List.not_mem_nil, or_false] at hp <;>
      rcases hp with rfl | rfl <;> first
        | exact den_eq ho N _ _
        | (refine den_conjL d _ ?_
           intro q hq
           simp only [inner, List.mem_cons, List.not_mem_nil, or_false] at hq
           rcases hq with rfl | rfl
           · exact den_neq ho N _ _
           · exact ih _)
  · rintro γ ⟨c, hc, hall⟩
    simp only [List.mem_cons, List.not_mem_nil, or_false] at hc
    simp only [RelSem]
    rcases hc with rfl | rfl
    · have h1 := hall _ List.mem_cons_self
      have h2 := hall _ (List.mem_cons_of_mem _ List.mem_cons_self)
      simp only [apply, v] at h1 h2
      rw [h1, ← h2]
      exact .head _ _
    · have h1 := hall _ List.mem_cons_self
      have h2 := hall _ (List.mem_cons_of_mem _ List.mem_cons_self)
      have h3 := h2 _ List.mem_cons_self
      have h4 := h2 _ (List.mem_cons_of_mem _ List.mem_cons_self)
      simp only [apply, RelSem, v] at h1 h3 h4
      rw [h1]
      exact .tail h3 h4

theorem den_append (l s ls : Term) (d : Bool) (m : Nat) :
    DenN ord N (relBody ord ⟨.append, [l, s, ls], d⟩ m).2 (RelSem ⟨.append, [l, s, ls], d⟩) := by
  let v (i : Nat) : Term := .var (m + i)
  let t := Term.ofList [l, s, ls]
  have e : (relBody ord ⟨.append, [l, s, ls], d⟩ m).2 = oneOf d (([
      [(eqG ord t (Term.ofList [.nil, v 0, v 0]), fun γ => apply γ t = apply γ (Term.ofList [.nil, v 0, v 0]))],
      [(eqG ord t (Term.ofList [.cons (v 1) (v 2), v 4, .cons (v 1) (v 3)]),
          fun γ => apply γ t = apply γ (Term.ofList [.cons (v 1) (v 2), v 4, .cons (v 1) (v 3)])),
       (.call ⟨.append, [v 2, v 4, v 3], d⟩, RelSem ⟨.append, [v 2, v 4, v 3], d⟩)]] : List (List GD)).map
      fun c => c.map Prod.fst) := rfl
  rw [e]
  refine den_weaken (den_one d _ ?_) ?_
  · intro c hc p hp
    simp only [List.mem_cons, List.not_mem_nil, or_false] at hc
    rcases hc with rfl | rfl <;> simp only [List.mem_cons, List.not_mem_nil, or_false] at hp <;>
      rcases hp with rfl | rfl <;> first | exact den_eq ho N _ _ | exact ih _
  · rintro γ ⟨c, hc, hall⟩
    simp only [List.mem_cons, List.not_mem_nil, or_false] at hc
    simp only [RelSem]
    rcases hc with rfl | rfl
    · have h1 := hall _ List.mem_cons_self
      simp only [apply, Term.ofList, t, v, Term.cons.injEq, and_true] at h1
      obtain ⟨a1, a2, a3⟩ := h1
      rw [a1, a2, a3]
      exact .nil _
    · have h1 := hall _ List.mem_cons_self
      have h2 := hall _ (List.mem_cons_of_mem _ List.mem_cons_self)
      simp only [apply, Term.ofList, t, v, Term.cons.injEq, and_true, RelSem] at h1 h2
      obtain ⟨a1, a2, a3⟩ := h1
      rw [a1, a2, a3]
      exact .cons h2

theorem den_rember (x ls out : Term) (d : Bool) (m : Nat) :
    DenN ord N (relBody ord ⟨.rember, [x, ls, out], d⟩ m).2 (RelSem ⟨.rember, [x, ls, out], d⟩) := by
  let v (i : Nat) : Term := .var (m + i)
  let t := Term.ofList [ls, out]
  have e : (relBody ord ⟨.rember, [x, ls, out], d⟩ m).2 = oneOf d (([
      [(eqG ord t (Term.ofList [.nil, .nil]), fun γ => apply γ t = apply γ (Term.ofList [.nil, .nil]))],
      [(eqG ord t (Term.ofList [.cons (v 0) (v 1), v 1]), fun γ => apply γ t = apply γ (Term.ofList [.cons (v 0) (v 1), v 1])),
       (eqG ord (v 0) x, fun γ => apply γ (v 0) = apply γ x)],
      [(eqG ord t (Term.ofList [.cons (v 2) (v 3), .cons (v 2) (v 4)]),
          fun γ => apply γ t = apply γ (Term.ofList [.cons (v 2) (v 3), .cons (v 2) (v 4)])),
       (diseqG ord (v 2) x, fun γ => apply γ (v 2) ≠ apply γ x),
       (.call ⟨.rember, [x, v 3, v 4], d⟩, RelSem ⟨.rember, [x, v 3, v 4], d⟩)]] : List (List GD)).map
      fun c => c.map Prod.fst) := rfl
  rw [e]
  refine den_weaken (den_one d _ ?_) ?_
  · intro c hc p hp
    simp only [List.mem_cons, List.not_mem_nil, or_false] at hc
    rcases hc with rfl | rfl | rfl <;> simp only [List.mem_cons, List.not_mem_nil, or_false] at hp <;>
      rcases hp with rfl | rfl | rfl | rfl <;> first | exact den_eq ho N _ _ | exact den_neq ho N _ _ | exact ih _
  · rintro γ ⟨c, hc, hall⟩
    simp only [List.mem_cons, List.not_mem_nil, or_false] at hc
    simp only [RelSem]
    rcases hc with rfl | rfl | rfl
    · have h1 := hall _ List.mem_cons_self
      simp only [apply, Term.ofList, t, Term.cons.injEq, and_true] at h1
      rw [h1.1, h1.2]
      exact .nil _
    · have h1 := hall _ List.mem_cons_self
      have h2 := hall _ (List.mem_cons_of_mem _ List.mem_cons_self)
      simp only [apply, Term.ofList, t, v, Term.cons.injEq, and_true] at h1 h2
      rw [h1.1, h1.2, h2]
      exact .hit _ _
    · have h1 := hall _ List.mem_cons_self
      have h2 := hall _ (List.mem_cons_of_mem _ List.mem_cons_self)
      have h3 := hall _ (List.mem_cons_of_mem _ (List.mem_cons_of_mem _ List.mem_cons_self))
      simp only [apply, Term.ofList, t, v, Term.cons.injEq, and_true, RelSem] at h1 h2 h3
      rw [h1.1, h1.2]
      exact .skip h2 h3

theorem den_permute (xl yl : Term) (d : Bool) (m : Nat) :
    DenN ord N (relBody ord ⟨.permute, [xl, yl], d⟩ m).2 (RelSem ⟨.permute, [xl, yl], d⟩) := by
  let v (i : Nat) : Term := .var (m + i)
  let t := Term.ofList [xl, yl]
  let inner : List GD := [(.call ⟨.permute, [v 0, v 3], d⟩, RelSem ⟨.permute, [v 0, v 3], d⟩),
      (.call ⟨.rember, [v 1, yl, v 3], d⟩, RelSem ⟨.rember, [v 1, yl, v 3], d⟩)]
  have e : (relBody ord ⟨.permute, [xl, yl], d⟩ m).2 = oneOf d (([
      [(eqG ord t (Term.ofList [.nil, .nil]), fun γ => apply γ t = apply γ (Term.ofList [.nil, .nil]))],
      [(eqG ord t (Term.ofList [.cons (v 1) (v 0), v 2]), fun γ => apply γ t = apply γ (Term.ofList [.cons (v 1) (v 0), v 2])),
       (.fresh (conjLOf d (inner.map Prod.fst)), fun γ => ∀ p ∈ inner, p.2 γ)]] : List (List GD)).map
      fun c => c.map Prod.fst) := rfl
  rw [e]
  refine den_weaken (den_one d _ ?_) ?_
  · intro c hc p hp
    simp only [List.mem_cons, List.not_mem_nil, or_false] at hc
    rcases hc with rfl | rfl <;> simp only [List.mem_cons, List.not_mem_nil, or_false] at hp <;>
      rcases hp with rfl | rfl <;> first
        | exact den_eq ho N _ _
        | (refine den_fresh (den_conjL d _ ?_)
           intro q hq
           simp only [inner, List.mem_cons, List.not_mem_nil, or_false] at hq
           rcases hq with rfl | rfl <;> exact ih _)
  · rintro γ ⟨c, hc, hall⟩
    simp only [List.mem_cons, List.not_mem_nil, or_false] at hc
    simp only [RelSem]
    rcases hc with rfl | rfl
    · have h1 := hall _ List.mem_cons_self
      simp only [apply, Term.ofList, t, Term.cons.injEq, and_true] at h1
      rw [h1.1, h1.2]
      exact .nil
    · have h1 := hall _ List.mem_cons_self
      have h2 := hall _ (List.mem_cons_of_mem _ List.mem_cons_self)
      have h3 := h2 _ List.mem_cons_self
      have h4 := h2 _ (List.mem_cons_of_mem _ List.mem_cons_self)
      simp only [apply, Term.ofList, t, v, Term.cons.injEq, and_true, RelSem] at h1 h3 h4
      rw [h1.1]
      exact .cons h3 h4

theorem den_distinct (l : Term) (d : Bool) (m : Nat) :
    DenN ord N (relBody ord ⟨.distinct, [l], d⟩ m).2 (RelSem ⟨.distinct, [l], d⟩) := by
  let v (i : Nat) : Term := .var (m + i)
  have e : (relBody ord ⟨.distinct, [l], d⟩ m).2 = oneOf d (([
      [(eqG ord l .nil, fun γ => apply γ l = apply γ .nil)],
      [(eqG ord l (.cons (v 0) .nil), fun γ => apply γ l = apply γ (.cons (v 0) .nil))],
      [(eqG ord l (.cons (v 3) (.cons (v 2) (v 1))), fun γ => apply γ l = apply γ (.cons (v 3) (.cons (v 2) (v 1)))),
       (diseqG ord (v 3) (v 2), fun γ => apply γ (v 3) ≠ apply γ (v 2)),
       (.call ⟨.distinct, [.cons (v 3) (v 1)], d⟩, RelSem ⟨.distinct, [.cons (v 3) (v 1)], d⟩),
       (.call ⟨.distinct, [.cons (v 2) (v 1)], d⟩, RelSem ⟨.distinct, [.cons (v 2) (v 1)], d⟩)]] : List (List GD)).map
      fun c => c.map Prod.fst) := rfl
  rw [e]
  refine den_weaken (den_one d _ ?_) ?_
  · intro c hc p hp
    simp only [List.mem_cons, List.not_mem_nil, or_false] at hc
    rcases hc with rfl | rfl | rfl <;> simp only [List.mem_cons, List.not_mem_nil, or_false] at hp <;>
      rcases hp with rfl | rfl | rfl | rfl <;> first | exact den_eq ho N _ _ | exact den_neq ho N _ _ | exact ih _
  · rintro γ ⟨c, hc, hall⟩
    simp only [List.mem_cons, List.not_mem_nil, or_false] at hc
    simp only [RelSem]
    rcases hc with rfl | rfl | rfl
    · have h1 := hall _ List.mem_cons_self
      simp only [apply] at h1
      rw [h1]
      exact .nil
    · have h1 := hall _ List.mem_cons_self
      simp only [apply] at h1
      rw [h1]
      exact .one _
    · have h1 := hall _ List.mem_cons_self
      have h2 := hall _ (List.mem_cons_of_mem _ List.mem_cons_self)
      have h3 := hall _ (List.mem_cons_of_mem _ (List.mem_cons_of_mem _ List.mem_cons_self))
      have h4 := hall _ (List.mem_cons_of_mem _ (List.mem_cons_of_mem _ (List.mem_cons_of_mem _ List.mem_cons_self)))
      simp only [apply, v, RelSem] at h1 h2 h3 h4
      rw [h1]
      exact .more h2 h3 h4

omit ho in
theorem den_spin0 (d : Bool) (m : Nat) : DenN ord N (relBody ord ⟨.spin, [], d⟩ m).2 (RelSem ⟨.spin, [], d⟩) := by
  have e : (relBody ord ⟨.spin, [], d⟩ m).2 =
      conjLOf d (([(.call ⟨.spin, [], d⟩, RelSem ⟨.spin, [], d⟩)] : List GD).map Prod.fst) := rfl
  rw [e]
  refine den_weaken (den_conjL d _ ?_) fun γ h => h _ List.mem_cons_self
  intro q hq
  simp only [List.mem_cons, List.not_mem_nil, or_false] at hq
  subst hq
  exact ih _

omit ho in
theorem den_spin1 (a : Term) (d : Bool) (m : Nat) : DenN ord N (relBody ord ⟨.spin, [a], d⟩ m).2 (RelSem ⟨.spin, [a], d⟩) := by
  let inner : List GD := [(.call ⟨.spin, [a], d⟩, RelSem ⟨.spin, [a], d⟩)]
  let outer : List GD := [(.fresh (conjLOf d (inner.map Prod.fst)), fun γ => ∀ p ∈ inner, p.2 γ)]
  have e : (relBody ord ⟨.spin, [a], d⟩ m).2 = conjLOf d (outer.map Prod.fst) := rfl
  rw [e]
  refine den_weaken (den_conjL d _ ?_) fun γ h => (h _ List.mem_cons_self) _ List.mem_cons_self
  intro q hq
  simp only [outer, List.mem_cons, List.not_mem_nil, or_false] at hq
  subst hq
  refine den_fresh (den_conjL d _ ?_)
  intro q hq
  simp only [inner, List.mem_cons, List.not_mem_nil, or_false] at hq
  subst hq
  exact ih _

/-- every relation body denotes the relation's specification, given that the calls inside do -/
theorem den_body (c : Call) (m : Nat) : DenN ord N (relBody ord c m).2 (RelSem c) := by
  obtain ⟨rel, args, d⟩ := c
  cases rel with
  | member =>
    rcases args with _ | ⟨a1, _ | ⟨a2, _ | ⟨a3, rest⟩⟩⟩
    · exact den_bad N _ _
    · exact den_bad N _ _
    · exact den_member ho N ih _ _ _ _
    · exact den_bad N _ _
  | member1 =>
    rcases args with _ | ⟨a1, _ | ⟨a2, _ | ⟨a3, rest⟩⟩⟩
    · exact den_bad N _ _
    · exact den_bad N _ _
    · exact den_member1 ho N ih _ _ _ _
    · exact den_bad N _ _
  | append =>
    rcases args with _ | ⟨a1, _ | ⟨a2, _ | ⟨a3, _ | ⟨a4, rest⟩⟩⟩⟩
    · exact den_bad N _ _
    · exact den_bad N _ _
    · exact den_bad N _ _
    · exact den_append ho N ih _ _ _ _ _
    · exact den_bad N _ _
  | rember =>
    rcases args with _ | ⟨a1, _ | ⟨a2, _ | ⟨a3, _ | ⟨a4, rest⟩⟩⟩⟩
    · exact den_bad N _ _
    · exact den_bad N _ _
    · exact den_bad N _ _
    · exact den_rember ho N ih _ _ _ _ _
    · exact den_bad N _ _
  | permute =>
    rcases args with _ | ⟨a1, _ | ⟨a2, _ | ⟨a3, rest⟩⟩⟩
    · exact den_bad N _ _
    · exact den_bad N _ _
    · exact den_permute ho N ih _ _ _ _
    · exact den_bad N _ _
  | distinct =>
    rcases args with _ | ⟨a1, _ | ⟨a2, rest⟩⟩
    · exact den_bad N _ _
    · exact den_distinct ho N ih _ _ _
    · exact den_bad N _ _
  | spin =>
    rcases args with _ | ⟨a1, _ | ⟨a2, rest⟩⟩
    · exact den_spin0 N ih _ _
    · exact den_spin1 N ih _ _ _
    · exact den_bad N _ _

end Bodies

/-- SOUNDNESS OF THE LIBRARY RELATIONS, every height: a call denotes the relation's specification -/
theorem den_rel (ho : OrderOK ord) : ∀ (N : Nat) (c : Call), DenN ord N (.call c) (RelSem c)
  | 0, _ => fun n hn a b h => by
    have : n = 0 := by omega
    subst this
    exact h.elim
  | N + 1, c => den_call fun m => den_body ho N (den_rel ho N) c m

/-- … for big-step answers -/
theorem rel_sound_big (ho : OrderOK ord) (c : Call) (a b : State) (h : Big (defs ord) (.call c) a b)
    (hp : b.panic.isSome = false) (hg : Good a) : Good b ∧ ∀ γ, StateSem γ b → StateSem γ a ∧ RelSem c γ := by
  obtain ⟨n, hn⟩ := h
  exact (den_rel ho n c n (Nat.le_refl _) a b hn).2 hp hg

end
end Pv

namespace Pv
open Strm Goal State Term

/-! ### the library relations are committed-choice free -/

section PlainLists
variable {St K : Type}

theorem plain_mkConjD {g1 g2 : Goal St K} (h1 : Plain g1) (h2 : Plain g2) : Plain (mkConjD g1 g2) := by
  unfold mkConjD
  split
  · exact .succeed
  · split
    · exact .fail
    · exact .conjD h1 h2

theorem plain_conjOfList : ∀ (gs : List (Goal St K)), (∀ g ∈ gs, Plain g) → Plain (conjOfList gs)
  | [], _ => .succeed
  | g :: gs, h => plain_mkConj (h g List.mem_cons_self) (plain_conjOfList gs fun x hx => h x (List.mem_cons_of_mem _ hx))

theorem plain_conjDOfList : ∀ (gs : List (Goal St K)), (∀ g ∈ gs, Plain g) → Plain (conjDOfList gs)
  | [], _ => .succeed
  | g :: gs, h => plain_mkConjD (h g List.mem_cons_self) (plain_conjDOfList gs fun x hx => h x (List.mem_cons_of_mem _ hx))

theorem plain_altOfList : ∀ (gs : List (Goal St K)), (∀ g ∈ gs, Plain g) → Plain (altOfList gs)
  | [], _ => .fail
  | g :: gs, h => .alt (h g List.mem_cons_self) (plain_altOfList gs fun x hx => h x (List.mem_cons_of_mem _ hx))

theorem plain_altDOfList : ∀ (gs : List (Goal St K)), (∀ g ∈ gs, Plain g) → Plain (altDOfList gs)
  | [], _ => .fail
  | g :: gs, h => .altD (h g List.mem_cons_self) (plain_altDOfList gs fun x hx => h x (List.mem_cons_of_mem _ hx))

theorem plain_condeOfClauses (cs : List (List (Goal St K))) (h : ∀ c ∈ cs, ∀ g ∈ c, Plain g) : Plain (condeOfClauses cs) :=
  plain_altOfList _ fun g hg => by
    obtain ⟨c, hc, rfl⟩ := List.mem_map.1 hg
    exact plain_conjOfList c (h c hc)

theorem plain_condeDOfClauses (cs : List (List (Goal St K))) (h : ∀ c ∈ cs, ∀ g ∈ c, Plain g) : Plain (condeDOfClauses cs) :=
  plain_altDOfList _ fun g hg => by
    obtain ⟨c, hc, rfl⟩ := List.mem_map.1 hg
    exact plain_conjDOfList c (h c hc)

end PlainLists

macro "plain_tac" : tactic => `(tactic|
  repeat (first
    | exact Plain.atom _
    | exact Plain.call _
    | exact Plain.succeed
    | apply Plain.fresh
    | (apply plain_conjOfList; intro g hg; simp only [List.mem_cons, List.not_mem_nil, or_false] at hg;
       rcases hg with rfl | rfl | rfl | rfl | rfl <;> try subst g)
    | (apply plain_conjDOfList; intro g hg; simp only [List.mem_cons, List.not_mem_nil, or_false] at hg;
       rcases hg with rfl | rfl | rfl | rfl | rfl <;> try subst g)
    | (apply plain_condeOfClauses; intro c hc; simp only [List.mem_cons, List.not_mem_nil, or_false] at hc;
       rcases hc with rfl | rfl | rfl | rfl <;> try subst c)
    | (apply plain_condeDOfClauses; intro c hc; simp only [List.mem_cons, List.not_mem_nil, or_false] at hc;
       rcases hc with rfl | rfl | rfl | rfl <;> try subst c)
    | (intro g hg; simp only [List.mem_cons, List.not_mem_nil, or_false] at hg;
       rcases hg with rfl | rfl | rfl | rfl | rfl <;> try subst g)
    | split))

theorem relBody_plain (ord : Order) (c : Call) (n : Nat) : Plain (relBody ord c n).2 := by
  unfold relBody
  simp only
  split
  all_goals first
    | exact Plain.atom _
    | (simp only; plain_tac)

theorem defs_plain (ord : Order) : PlainDefs (defs ord) := fun c a => relBody_plain ord c a.nextVar

/-- SOUNDNESS OF THE LIBRARY RELATIONS ON THE ENGINE: every state in the engine's stream for a call of a
    library relation — any argument terms, from any good state, at any solver nesting level, interleaving or
    depth-first variant — is good and describes only valuations that the start state describes and under which
    the arguments are in the documented relation. -/
theorem rel_sound (ord : Order) (ho : OrderOK ord) (pf M j : Nat) (c : Call) (a b : State)
    (h : MemS (solveAt (defs ord) pf (M + 1)) b (solveAt (defs ord) pf j (.call c) a))
    (hp : b.panic.isSome = false) (hg : Good a) : Good b ∧ ∀ γ, StateSem γ b → StateSem γ a ∧ RelSem c γ :=
  rel_sound_big ho c a b ((mem_iff_big (defs_plain ord) pf M j (.call c) a b).1 h) hp hg

end Pv
