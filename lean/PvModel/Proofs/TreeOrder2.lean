/-
  The ANSWER SEQUENCE of a program of `==`, `!=`, conjunction, `conde`, fresh AND (interleaving) calls of the
  library relations does not depend on the hash-iteration order — instance of Proofs/Param2.lean.
-/
import PvModel.Proofs.Param2
import PvModel.Proofs.TreeOrder
import PvModel.Proofs.RelCount
namespace Pv
open Strm Goal State Term

/-- related states: as in Proofs/TreeOrder.lean, and the same source of fresh variables -/
structure TR2 (st st' : State) : Prop where
  tr : TR st st'
  nv : st.nextVar = st'.nextVar

/-- an interleaving call of a library relation with the right number of arguments -/
def CallOK (c : Call) : Prop := c.Valid ∧ c.dfs = false

section
variable {ord ord' : Order}

theorem liftRes_nv (ho : OrderOK ord) (t : TAtom) {a s : State} (hg : Good a)
    (h : (liftRes fun st => postAtom ord st t) a = some s) : s.nextVar = a.nextVar := by
  simp only [liftRes] at h
  split at h
  · simp only [Option.some.injEq] at h; subst h; rfl
  · cases hr : postAtom ord a t with
    | ok b => rw [hr] at h; simp only [Option.some.injEq] at h; subst h; exact postAtom_nv ho t hg hr
    | fail => rw [hr] at h; cases h
    | fuel => rw [hr] at h; simp only [Option.some.injEq] at h; subst h; rfl
    | panic m => rw [hr] at h; simp only [Option.some.injEq] at h; subst h; rfl

theorem atom_rel2 (ho : OrderOK ord) (ho' : OrderOK ord') (t : TAtom) :
    AtomRel TR2 Poisoned (liftRes fun st => postAtom ord st t) (liftRes fun st => postAtom ord' st t) := by
  intro a a' h
  rcases atom_rel ho ho' t a a' h.tr with r | b
  · generalize e1 : (liftRes fun st => postAtom ord st t) a = r1 at r
    generalize e2 : (liftRes fun st => postAtom ord' st t) a' = r2 at r
    cases r with
    | none => exact .inl .none
    | some hr =>
      refine .inl (.some ⟨hr, ?_⟩)
      rw [liftRes_nv ho t h.tr.good e1, liftRes_nv ho' t h.tr.good' e2, h.nv]
  · exact .inr b

theorem relBody_fst (c : Call) (hv : c.Valid) (n n' : Nat) : (relBody ord c n).1 = (relBody ord' c n').1 := by
  obtain ⟨rel, args, d⟩ := c
  cases rel <;> rcases args with _ | ⟨a1, _ | ⟨a2, _ | ⟨a3, _ | ⟨a4, rest⟩⟩⟩⟩ <;> simp only [Call.Valid] at hv <;> rfl

/-! ### building related goals -/

theorem grel_mkConj {g g' r r' : G} (hg : GRel2 TR2 Poisoned CallOK g g') (hr : GRel2 TR2 Poisoned CallOK r r')
    (ng : NF Poisoned CallOK g) (ng' : NF Poisoned CallOK g') (nr : NF Poisoned CallOK r) (nr' : NF Poisoned CallOK r') :
    GRel2 TR2 Poisoned CallOK (mkConj g r) (mkConj g' r') ∧ NF Poisoned CallOK (mkConj g r) ∧ NF Poisoned CallOK (mkConj g' r') := by
  unfold mkConj
  rw [← hg.isSucceed, ← hr.isSucceed, ← hg.isFail, ← hr.isFail]
  split
  · exact ⟨.succeed, .succeed, .succeed⟩
  · split
    · rename_i h
      rw [ng.notFail, nr.notFail] at h
      cases h
    · exact ⟨.conj hg hr nr nr', .conj ng nr, .conj ng' nr'⟩

/-- goal lists related element by element, every element passing poison on -/
abbrev GZ (gs gs' : List G) : Prop :=
  Zip2 (fun g g' => GRel2 TR2 Poisoned CallOK g g' ∧ NF Poisoned CallOK g ∧ NF Poisoned CallOK g') gs gs'

theorem grel_conjOfList : ∀ {gs gs' : List G}, GZ gs gs' →
    GRel2 TR2 Poisoned CallOK (conjOfList gs) (conjOfList gs') ∧ NF Poisoned CallOK (conjOfList gs) ∧ NF Poisoned CallOK (conjOfList gs')
  | _, _, .nil => ⟨.succeed, .succeed, .succeed⟩
  | _, _, .cons h t => by
    obtain ⟨ir, in1, in2⟩ := grel_conjOfList t
    exact grel_mkConj h.1 ir h.2.1 h.2.2 in1 in2

theorem grel_altOfList : ∀ {gs gs' : List G}, GZ gs gs' → gs ≠ [] →
    GRel2 TR2 Poisoned CallOK (altOfList gs) (altOfList gs') ∧ NF Poisoned CallOK (altOfList gs) ∧ NF Poisoned CallOK (altOfList gs')
  | _, _, .nil, h => (h rfl).elim
  | _, _, @Zip2.cons _ _ _ g g' gs gs' h t, _ => by
    have tail : GRel2 TR2 Poisoned CallOK (altOfList gs) (altOfList gs') := by
      cases t with
      | nil => exact .fail
      | cons h2 t2 => exact (grel_altOfList (.cons h2 t2) (by simp)).1
    exact ⟨.alt h.1 tail, .alt h.2.1, .alt h.2.2⟩

/-- clause lists related clause by clause -/
abbrev CZ (cs cs' : List (List G)) : Prop := Zip2 GZ cs cs'

theorem gz_map_conj : ∀ {cs cs' : List (List G)}, CZ cs cs' → GZ (cs.map conjOfList) (cs'.map conjOfList)
  | _, _, .nil => .nil
  | _, _, .cons h t => .cons (grel_conjOfList h) (gz_map_conj t)

theorem grel_oneOf {cs cs' : List (List G)} (h : CZ cs cs') (hne : cs ≠ []) :
    GRel2 TR2 Poisoned CallOK (oneOf false cs) (oneOf false cs') := by
  unfold oneOf
  simp only [Bool.false_eq_true, if_false, conjOfList, condeOfClauses]
  have hne' : cs.map conjOfList ≠ [] := by
    cases cs with
    | nil => exact (hne rfl).elim
    | cons _ _ => simp
  obtain ⟨r, n1, n2⟩ := grel_altOfList (gz_map_conj h) hne'
  exact (grel_mkConj r .succeed n1 n2 .succeed .succeed).1

theorem gz_eq (ho : OrderOK ord) (ho' : OrderOK ord') (u v : Term) :
    GRel2 TR2 Poisoned CallOK (eqG ord u v) (eqG ord' u v) ∧ NF Poisoned CallOK (eqG ord u v) ∧ NF Poisoned CallOK (eqG ord' u v) :=
  ⟨.atom (atom_rel2 ho ho' (.eq u v)), .atom (atomPass _), .atom (atomPass _)⟩

theorem gz_neq (ho : OrderOK ord) (ho' : OrderOK ord') (u v : Term) :
    GRel2 TR2 Poisoned CallOK (diseqG ord u v) (diseqG ord' u v) ∧ NF Poisoned CallOK (diseqG ord u v) ∧ NF Poisoned CallOK (diseqG ord' u v) :=
  ⟨.atom (atom_rel2 ho ho' (.neq u v)), .atom (atomPass _), .atom (atomPass _)⟩

theorem gz_call (c : Call) (hc : CallOK c) :
    GRel2 TR2 Poisoned CallOK (.call c : G) (.call c) ∧ NF Poisoned CallOK (.call c : G) ∧ NF Poisoned CallOK (.call c : G) :=
  ⟨.call hc, .call hc, .call hc⟩

/-- the bodies of an interleaving library call under the two orders are related -/
theorem relBody_grel (ho : OrderOK ord) (ho' : OrderOK ord') (c : Call) (hc : CallOK c) (n : Nat) :
    GRel2 TR2 Poisoned CallOK (relBody ord c n).2 (relBody ord' c n).2 := by
  obtain ⟨rel, args, d⟩ := c
  obtain ⟨hv, hd⟩ := hc
  simp only at hd
  subst hd
  cases rel <;> rcases args with _ | ⟨a1, _ | ⟨a2, _ | ⟨a3, _ | ⟨a4, rest⟩⟩⟩⟩ <;> simp only [Call.Valid] at hv
  · rw [body_member, body_member]
    exact grel_oneOf (.cons (.cons (gz_eq ho ho' _ _) (.cons (gz_eq ho ho' _ _) .nil))
      (.cons (.cons (gz_eq ho ho' _ _) (.cons (gz_call ⟨.member, [a1, .var (n + 2)], false⟩ ⟨trivial, rfl⟩) .nil)) .nil)) (by simp)
  · rw [body_member1, body_member1]
    refine grel_oneOf (.cons (.cons (gz_eq ho ho' _ _) (.cons (gz_eq ho ho' _ _) .nil))
      (.cons (.cons (gz_eq ho ho' _ _) (.cons ?_ .nil)) .nil)) (by simp)
    exact grel_conjOfList (.cons (gz_neq ho ho' _ _) (.cons (gz_call ⟨.member1, [a1, .var (n + 2)], false⟩ ⟨trivial, rfl⟩) .nil))
  · rw [body_append, body_append]
    exact grel_oneOf (.cons (.cons (gz_eq ho ho' _ _) .nil)
      (.cons (.cons (gz_eq ho ho' _ _) (.cons (gz_call ⟨.append, [.var (n + 2), .var (n + 4), .var (n + 3)], false⟩ ⟨trivial, rfl⟩) .nil)) .nil)) (by simp)
  · rw [body_rember, body_rember]
    exact grel_oneOf (.cons (.cons (gz_eq ho ho' _ _) .nil)
      (.cons (.cons (gz_eq ho ho' _ _) (.cons (gz_eq ho ho' _ _) .nil))
        (.cons (.cons (gz_eq ho ho' _ _) (.cons (gz_neq ho ho' _ _) (.cons (gz_call ⟨.rember, [a1, .var (n + 3), .var (n + 4)], false⟩ ⟨trivial, rfl⟩) .nil))) .nil))) (by simp)
  · rw [body_permute, body_permute]
    refine grel_oneOf (.cons (.cons (gz_eq ho ho' _ _) .nil)
      (.cons (.cons (gz_eq ho ho' _ _) (.cons ?_ .nil)) .nil)) (by simp)
    obtain ⟨r, n1, n2⟩ := grel_conjOfList
      (.cons (gz_call ⟨.permute, [.var (n + 0), .var (n + 3)], false⟩ ⟨trivial, rfl⟩)
        (.cons (gz_call ⟨.rember, [.var (n + 1), a2, .var (n + 3)], false⟩ ⟨trivial, rfl⟩) .nil))
    exact ⟨.fresh r, .fresh n1, .fresh n2⟩
  · rw [body_distinct, body_distinct]
    exact grel_oneOf (.cons (.cons (gz_eq ho ho' _ _) .nil)
      (.cons (.cons (gz_eq ho ho' _ _) .nil)
        (.cons (.cons (gz_eq ho ho' _ _) (.cons (gz_neq ho ho' _ _)
          (.cons (gz_call ⟨.distinct, [.cons (.var (n + 3)) (.var (n + 1))], false⟩ ⟨trivial, rfl⟩)
            (.cons (gz_call ⟨.distinct, [.cons (.var (n + 2)) (.var (n + 1))], false⟩ ⟨trivial, rfl⟩) .nil)))) .nil))) (by simp)

theorem tr2_bump {a a' : State} (k : Nat) (h : TR2 a a') : TR2 { a with nextVar := a.nextVar + k } { a' with nextVar := a'.nextVar + k } :=
  ⟨⟨h.tr.good, h.tr.good', h.tr.dnf, h.tr.dnf', h.tr.sig, h.tr.sem⟩, by show a.nextVar + k = a'.nextVar + k; rw [h.nv]⟩

/-- the relation tables under the two orders are related -/
theorem defs_rel (ho : OrderOK ord) (ho' : OrderOK ord') (c : Call) (hc : CallOK c) (a a' : State) (h : TR2 a a') :
    TR2 (defs ord c a).1 (defs ord' c a').1 ∧ GRel2 TR2 Poisoned CallOK (defs ord c a).2 (defs ord' c a').2 := by
  refine ⟨⟨⟨h.tr.good, h.tr.good', h.tr.dnf, h.tr.dnf', h.tr.sig, h.tr.sem⟩, ?_⟩, ?_⟩
  · show a.nextVar + (relBody ord c a.nextVar).1 = a'.nextVar + (relBody ord' c a'.nextVar).1
    rw [h.nv, relBody_fst (ord := ord) (ord' := ord') c hc.1 a'.nextVar a'.nextVar]
  · show GRel2 TR2 Poisoned CallOK (relBody ord c a.nextVar).2 (relBody ord' c a'.nextVar).2
    rw [← h.nv]
    exact relBody_grel ho ho' c hc a.nextVar

/-! ### poison flows through `NF` goals -/

theorem nf_flow_big {g : G} (h : NF Poisoned CallOK g) : ∀ {p : State}, Poisoned p → ∃ p', Poisoned p' ∧ Big (defs ord) g p p' := by
  induction h with
  | succeed => intro p hp; exact ⟨p, hp, big_succeed.2 rfl⟩
  | atom hf => intro p hp; exact ⟨p, hp, big_atom.2 (hf p hp)⟩
  | conj _ _ i1 i2 =>
    intro p hp
    obtain ⟨c, hc, b1⟩ := i1 hp
    obtain ⟨b, hb, b2⟩ := i2 hc
    exact ⟨b, hb, big_conj.2 ⟨c, b1, b2⟩⟩
  | alt _ i1 =>
    intro p hp
    obtain ⟨b, hb, b1⟩ := i1 hp
    exact ⟨b, hb, big_alt.2 (.inl b1)⟩
  | fresh _ i =>
    intro p hp
    obtain ⟨b, hb, b1⟩ := i hp
    exact ⟨b, hb, big_fresh.2 b1⟩
  | @call c hc =>
    intro p hp
    obtain ⟨b, b1, hb⟩ := flow_valid (ord := ord) c hc.1 hp
    exact ⟨b, hb, b1⟩

theorem nf_flow (pf M : Nat) {g : G} (h : NF Poisoned CallOK g) (p : State) (hp : Poisoned p) :
    ∃ p', Poisoned p' ∧ MemS (solveAt (defs ord) pf (M + 1)) p' (solveAt (defs ord) pf (M + 1) g p) := by
  obtain ⟨p', hp', n, hn⟩ := nf_flow_big (ord := ord) h hp
  exact ⟨p', hp', bigF_mem pf M n g p p' hn M⟩

/-! ### programs -/

/-- every call of the program is an interleaving call, and there is no literal `fail` -/
def RProg.Inter : RProg → Prop
  | .succeed => True
  | .fail => False
  | .atom _ => True
  | .conj p q => p.Inter ∧ q.Inter
  | .alt p q => p.Inter ∧ q.Inter
  | .fresh p => p.Inter
  | .call c => c.dfs = false

theorem prog_grel (ho : OrderOK ord) (ho' : OrderOK ord') {m : Nat} : ∀ (p : RProg), p.WF m → p.Inter →
    GRel2 TR2 Poisoned CallOK (p.goal ord) (p.goal ord') ∧ NF Poisoned CallOK (p.goal ord) ∧ NF Poisoned CallOK (p.goal ord')
  | .succeed, _, _ => ⟨.succeed, .succeed, .succeed⟩
  | .fail, _, hi => hi.elim
  | .atom t, _, _ => ⟨.atom (atom_rel2 ho ho' t), .atom (atomPass _), .atom (atomPass _)⟩
  | .conj p q, w, hi => by
    obtain ⟨r1, n1, n1'⟩ := prog_grel ho ho' p w.1 hi.1
    obtain ⟨r2, n2, n2'⟩ := prog_grel ho ho' q w.2 hi.2
    exact ⟨.conj r1 r2 n2 n2', .conj n1 n2, .conj n1' n2'⟩
  | .alt p q, w, hi => by
    obtain ⟨r1, n1, n1'⟩ := prog_grel ho ho' p w.1 hi.1
    obtain ⟨r2, _, _⟩ := prog_grel ho ho' q w.2 hi.2
    exact ⟨.alt r1 r2, .alt n1, .alt n1'⟩
  | .fresh p, w, hi => by
    obtain ⟨r, n1, n1'⟩ := prog_grel ho ho' p w hi
    exact ⟨.fresh r, .fresh n1, .fresh n1'⟩
  | .call c, w, hi => ⟨.call ⟨w.1, hi⟩, .call ⟨w.1, hi⟩, .call ⟨w.1, hi⟩⟩

theorem tr2_empty (n : Nat) : TR2 (State.empty n) (State.empty n) := ⟨tr_empty n, rfl⟩

/-- THE ANSWER SEQUENCE IS ORDER-FREE, relation calls included -/
theorem rel_sequence_order_free (ho : OrderOK ord) (ho' : OrderOK ord') (pf M nv : Nat) (p : RProg) (w : p.WF nv)
    (hi : p.Inter) (n : Nat) :
    Pointwise TR2 (runF (solveAt (defs ord) pf (M + 1)) n (solveAt (defs ord) pf (M + 1) (p.goal ord) (State.empty nv)))
        (runF (solveAt (defs ord') pf (M + 1)) n (solveAt (defs ord') pf (M + 1) (p.goal ord') (State.empty nv))) ∨
      ∃ s, Poisoned s ∧ (MemS (solveAt (defs ord) pf (M + 1)) s (solveAt (defs ord) pf (M + 1) (p.goal ord) (State.empty nv)) ∨
        MemS (solveAt (defs ord') pf (M + 1)) s (solveAt (defs ord') pf (M + 1) (p.goal ord') (State.empty nv))) :=
  engine_rel2 (defs ord) (defs ord') pf M (fun c hc a a' h => defs_rel ho ho' c hc a a' h)
    (fun g hg p hp => nf_flow pf M hg p hp) (fun g hg p hp => nf_flow pf M hg p hp)
    (prog_grel ho ho' p w hi).1 (tr2_empty nv) n

end
end Pv
