/-
  Auxiliary lemmas for Proofs/Stream.lean: stream algebra (`mplus`, `bind`, …) against the reference
  predicates, cost-indexed answer derivations (termination measure of draining), rank-indexed
  membership derivations (fairness measure).
-/
import PvModel.Spec.Stream
namespace Pv
open Strm Goal

variable {St K : Type}

/-- the solver used for paused goals solves `succeed`/`fail` at once (this is what makes the
    `is_succeed`/`is_fail` short-cuts of `Stream::bind` semantically neutral) -/
def TopOK (top : Goal St K → St → Strm St K) : Prop :=
  ∀ a, top .succeed a = .unit a ∧ top .fail a = .empty

theorem topOK_start (defs : K → St → St × Goal St K) (top : Goal St K → St → Strm St K) (pf : Nat) :
    TopOK (start defs top pf) := fun _ => ⟨by simp [start], by simp [start]⟩

theorem topOK_solveAt (defs : K → St → St × Goal St K) (pf n : Nat) : TopOK (solveAt defs pf (n + 1)) :=
  topOK_start defs _ pf

theorem isSucceed_iff {g : Goal St K} : g.isSucceed = true ↔ g = .succeed := by
  cases g <;> simp [isSucceed]

theorem isFail_iff {g : Goal St K} : g.isFail = true ↔ g = .fail := by
  cases g <;> simp [isFail]

section Ans
variable {top : Goal St K → St → Strm St K}

theorem ansB_succeed (hT : TopOK top) : ∀ {xs ys : List St}, AnsB top .succeed xs ys → ys = xs
  | _, _, .nil => rfl
  | _, _, .cons h t => by
    have := ansB_succeed hT t
    rw [(hT _).1] at h
    cases h; simp [this]

theorem ansB_fail (hT : TopOK top) : ∀ {xs ys : List St}, AnsB top .fail xs ys → ys = []
  | _, _, .nil => rfl
  | _, _, .cons h t => by
    have := ansB_fail hT t
    rw [(hT _).2] at h
    cases h; simp [this]

theorem mplus_ans {s : Strm St K} {l xs ys} (hs : AnsS top s xs) (hl : AnsL top l ys) :
    ∃ zs, AnsS top (mplus s l) zs ∧ List.Perm (xs ++ ys) zs := by
  cases hs with
  | empty => exact ⟨ys, .lazy hl, by simp⟩
  | unit a => exact ⟨a :: ys, .cons hl, by simp⟩
  | cons h => exact ⟨_, .cons (.mplus hl h), by simpa using List.perm_append_comm⟩
  | lazy h => exact ⟨_, .lazy (.mplus hl h), List.perm_append_comm⟩

theorem mplus_ans_inv {s : Strm St K} {l zs} (h : AnsS top (mplus s l) zs) :
    ∃ xs ys, AnsS top s xs ∧ AnsL top l ys ∧ List.Perm (xs ++ ys) zs := by
  cases s with
  | empty => cases h with | lazy hl => exact ⟨[], zs, .empty, hl, by simp⟩
  | unit a => cases h with | cons hl => exact ⟨[a], _, .unit a, hl, by simp⟩
  | cons a lh =>
    cases h with | cons hm => cases hm with | mplus hl hh =>
      exact ⟨_, _, .cons hh, hl, by simpa using List.perm_append_comm⟩
  | lazy lh =>
    cases h with | lazy hm => cases hm with | mplus hl hh =>
      exact ⟨_, _, .lazy hh, hl, List.perm_append_comm⟩

theorem mplusD_ans {s : Strm St K} {l xs ys} (hs : AnsS top s xs) (hl : AnsL top l ys) :
    AnsS top (mplusD s l) (xs ++ ys) := by
  cases hs with
  | empty => exact .lazy hl
  | unit a => exact .cons hl
  | cons h => exact .cons (.mplusD h hl)
  | lazy h => exact .lazy (.mplusD h hl)

theorem bind_ans (hT : TopOK top) {s : Strm St K} {g xs ys} (hs : AnsS top s xs) (hb : AnsB top g xs ys) :
    AnsS top (bind s g) ys := by
  unfold Strm.bind
  split
  · rename_i h; rw [isSucceed_iff] at h; subst h
    rw [ansB_succeed hT hb]; exact hs
  split
  · rename_i h; rw [isFail_iff] at h; subst h
    rw [ansB_fail hT hb]; exact .empty
  cases hs with
  | empty => cases hb; exact .empty
  | unit a => cases hb with | cons h t => cases t; simpa using AnsS.lazy (.pause h)
  | cons h => cases hb with | cons h1 t => exact .lazy (.mplus (.pause h1) (.bind h t))
  | lazy h => exact .lazy (.bind h hb)

theorem bindD_ans (hT : TopOK top) {s : Strm St K} {g xs ys} (hs : AnsS top s xs) (hb : AnsB top g xs ys) :
    AnsS top (bindD s g) ys := by
  unfold Strm.bindD
  split
  · rename_i h; rw [isSucceed_iff] at h; subst h
    rw [ansB_succeed hT hb]; exact hs
  split
  · rename_i h; rw [isFail_iff] at h; subst h
    rw [ansB_fail hT hb]; exact .empty
  cases hs with
  | empty => cases hb; exact .empty
  | unit a => cases hb with | cons h t => cases t; simpa using AnsS.lazy (.pause h)
  | cons h => cases hb with | cons h1 t => exact .lazy (.mplusD (.pause h1) (.bindD h t))
  | lazy h => exact .lazy (.bindD h hb)

theorem lazyBind_ans (hT : TopOK top) {l : Lz St K} {g xs ys} (hl : AnsL top l xs) (hb : AnsB top g xs ys) :
    AnsS top (lazyBind l g) ys := by
  unfold Strm.lazyBind
  split
  · rename_i h; rw [isSucceed_iff] at h; subst h
    rw [ansB_succeed hT hb]; exact .lazy hl
  split
  · rename_i h; rw [isFail_iff] at h; subst h
    rw [ansB_fail hT hb]; exact .empty
  exact .lazy (.bind hl hb)

theorem lazyBindD_ans (hT : TopOK top) {l : Lz St K} {g xs ys} (hl : AnsL top l xs) (hb : AnsB top g xs ys) :
    AnsS top (lazyBindD l g) ys := by
  unfold Strm.lazyBindD
  split
  · rename_i h; rw [isSucceed_iff] at h; subst h
    rw [ansB_succeed hT hb]; exact .lazy hl
  split
  · rename_i h; rw [isFail_iff] at h; subst h
    rw [ansB_fail hT hb]; exact .empty
  exact .lazy (.bindD hl hb)

theorem ansB_perm {g : Goal St K} : ∀ {xs xs' ys}, List.Perm xs xs' → AnsB top g xs ys →
    ∃ ys', AnsB top g xs' ys' ∧ List.Perm ys ys' := by
  intro xs xs' ys hp
  induction hp generalizing ys with
  | nil => intro h; exact ⟨ys, h, .refl _⟩
  | cons a _ ih => intro h; cases h with | cons h t =>
      obtain ⟨zs, hz, hp⟩ := ih t
      exact ⟨_, .cons h hz, List.Perm.append_left _ hp⟩
  | swap a b l => intro h; cases h with | cons h1 t => cases t with | cons h2 t2 =>
      refine ⟨_, .cons h2 (.cons h1 t2), ?_⟩
      simp only [← List.append_assoc]
      exact List.Perm.append_right _ List.perm_append_comm
  | trans _ _ ih1 ih2 =>
    intro h
    obtain ⟨a, ha, pa⟩ := ih1 h
    obtain ⟨b, hb, pb⟩ := ih2 ha
    exact ⟨b, hb, pa.trans pb⟩

theorem step_perm_aux (hT : TopOK top) : ∀ {l : Lz St K} {xs}, AnsL top l xs →
    ∃ ys, AnsS top (step top l) ys ∧ List.Perm xs ys
  | _, _, .mplus h1 h2 => by
    obtain ⟨ys, hy, py⟩ := step_perm_aux hT h1
    obtain ⟨zs, hz, pz⟩ := mplus_ans hy h2
    exact ⟨zs, hz, (List.Perm.append_right _ py).trans pz⟩
  | _, _, .mplusD h1 h2 => by
    obtain ⟨ys, hy, py⟩ := step_perm_aux hT h1
    exact ⟨_, mplusD_ans hy h2, List.Perm.append_right _ py⟩
  | _, _, .pause h => ⟨_, h, .refl _⟩
  | _, _, .delay h => ⟨_, h, .refl _⟩
  | _, _, .bind hl hb => by
    obtain ⟨ys, hy, py⟩ := step_perm_aux hT hl
    obtain ⟨zs, hz, pz⟩ := ansB_perm py hb
    exact ⟨zs, bind_ans hT hy hz, pz⟩
  | _, _, .bindD hl hb => by
    obtain ⟨ys, hy, py⟩ := step_perm_aux hT hl
    obtain ⟨zs, hz, pz⟩ := ansB_perm py hb
    exact ⟨zs, bindD_ans hT hy hz, pz⟩

end Ans

section Mem
variable {top : Goal St K → St → Strm St K}

theorem memS_empty {a : St} : ¬ MemS top a (.empty : Strm St K) := fun h => nomatch h

theorem memS_unit_iff {a b : St} : MemS top a (.unit b : Strm St K) ↔ a = b :=
  ⟨fun h => by cases h; rfl, fun h => h ▸ .unit _⟩

theorem memS_cons_iff {a b : St} {l : Lz St K} : MemS top a (.cons b l) ↔ a = b ∨ MemL top a l :=
  ⟨fun h => by
    cases h with
    | head => exact .inl rfl
    | tail h => exact .inr h,
   fun h => by
    rcases h with h | h
    · exact h ▸ .head _ _
    · exact .tail h⟩

theorem memS_lazy_iff {a : St} {l : Lz St K} : MemS top a (.lazy l) ↔ MemL top a l :=
  ⟨fun h => by cases h with | lazy h => exact h, .lazy⟩

theorem memL_mplus_iff {a : St} {l1 l2 : Lz St K} :
    MemL top a (.mplus l1 l2) ↔ MemL top a l1 ∨ MemL top a l2 :=
  ⟨fun h => by
    cases h with
    | mplusL h => exact .inl h
    | mplusR h => exact .inr h,
   fun h => h.elim .mplusL .mplusR⟩

theorem memL_mplusD_iff {a : St} {l1 l2 : Lz St K} :
    MemL top a (.mplusD l1 l2) ↔ MemL top a l1 ∨ MemL top a l2 :=
  ⟨fun h => by
    cases h with
    | mplusDL h => exact .inl h
    | mplusDR h => exact .inr h,
   fun h => h.elim .mplusDL .mplusDR⟩

theorem memL_pause_iff {a b : St} {g : Goal St K} : MemL top a (.pause b g) ↔ MemS top a (top g b) :=
  ⟨fun h => by cases h with | pause h => exact h, .pause⟩

theorem memL_delay_iff {a : St} {s : Strm St K} : MemL top a (.delay s) ↔ MemS top a s :=
  ⟨fun h => by cases h with | delay h => exact h, .delay⟩

theorem memL_bind_iff {a : St} {l : Lz St K} {g : Goal St K} :
    MemL top a (.bind l g) ↔ ∃ b, MemL top b l ∧ MemS top a (top g b) :=
  ⟨fun h => by cases h with | bind h1 h2 => exact ⟨_, h1, h2⟩, fun ⟨_, h1, h2⟩ => .bind h1 h2⟩

theorem memL_bindD_iff {a : St} {l : Lz St K} {g : Goal St K} :
    MemL top a (.bindD l g) ↔ ∃ b, MemL top b l ∧ MemS top a (top g b) :=
  ⟨fun h => by cases h with | bindD h1 h2 => exact ⟨_, h1, h2⟩, fun ⟨_, h1, h2⟩ => .bindD h1 h2⟩

theorem mem_mplus_iff {a : St} {s : Strm St K} {l : Lz St K} :
    MemS top a (mplus s l) ↔ MemS top a s ∨ MemL top a l := by
  cases s with
  | empty => simp [Strm.mplus, memS_lazy_iff, memS_empty]
  | unit b => simp [Strm.mplus, memS_cons_iff, memS_unit_iff]
  | cons b lh =>
    simp only [Strm.mplus, memS_cons_iff, memL_mplus_iff]
    constructor
    · rintro (h | h | h)
      · exact .inl (.inl h)
      · exact .inr h
      · exact .inl (.inr h)
    · rintro ((h | h) | h)
      · exact .inl h
      · exact .inr (.inr h)
      · exact .inr (.inl h)
  | lazy lh =>
    simp only [Strm.mplus, memS_lazy_iff, memL_mplus_iff]
    exact Or.comm

theorem mem_mplusD_iff {a : St} {s : Strm St K} {l : Lz St K} :
    MemS top a (mplusD s l) ↔ MemS top a s ∨ MemL top a l := by
  cases s with
  | empty => simp [Strm.mplusD, memS_lazy_iff, memS_empty]
  | unit b => simp [Strm.mplusD, memS_cons_iff, memS_unit_iff]
  | cons b lh =>
    simp only [Strm.mplusD, memS_cons_iff, memL_mplusD_iff]
    exact (or_assoc).symm
  | lazy lh =>
    simp only [Strm.mplusD, memS_lazy_iff, memL_mplusD_iff]

theorem mem_bind_iff (hT : TopOK top) {a : St} {s : Strm St K} {g : Goal St K} :
    MemS top a (bind s g) ↔ ∃ b, MemS top b s ∧ MemS top a (top g b) := by
  unfold Strm.bind
  split
  · rename_i h; rw [isSucceed_iff] at h; subst h
    simp only [(hT _).1, memS_unit_iff]
    exact ⟨fun h => ⟨a, h, rfl⟩, fun ⟨b, h, e⟩ => e ▸ h⟩
  split
  · rename_i h; rw [isFail_iff] at h; subst h
    simp [(hT _).2, memS_empty]
  cases s with
  | empty => simp [memS_empty]
  | unit b => simp [memS_lazy_iff, memL_pause_iff, memS_unit_iff]
  | cons b lh =>
    simp only [memS_lazy_iff, memL_mplus_iff, memL_pause_iff, memL_bind_iff, memS_cons_iff]
    constructor
    · rintro (h | ⟨c, h1, h2⟩)
      · exact ⟨b, .inl rfl, h⟩
      · exact ⟨c, .inr h1, h2⟩
    · rintro ⟨c, h1 | h1, h2⟩
      · exact .inl (h1 ▸ h2)
      · exact .inr ⟨c, h1, h2⟩
  | lazy lh => simp only [memS_lazy_iff, memL_bind_iff]

theorem mem_bindD_iff (hT : TopOK top) {a : St} {s : Strm St K} {g : Goal St K} :
    MemS top a (bindD s g) ↔ ∃ b, MemS top b s ∧ MemS top a (top g b) := by
  unfold Strm.bindD
  split
  · rename_i h; rw [isSucceed_iff] at h; subst h
    simp only [(hT _).1, memS_unit_iff]
    exact ⟨fun h => ⟨a, h, rfl⟩, fun ⟨b, h, e⟩ => e ▸ h⟩
  split
  · rename_i h; rw [isFail_iff] at h; subst h
    simp [(hT _).2, memS_empty]
  cases s with
  | empty => simp [memS_empty]
  | unit b => simp [memS_lazy_iff, memL_pause_iff, memS_unit_iff]
  | cons b lh =>
    simp only [memS_lazy_iff, memL_mplusD_iff, memL_pause_iff, memL_bindD_iff, memS_cons_iff]
    constructor
    · rintro (h | ⟨c, h1, h2⟩)
      · exact ⟨b, .inl rfl, h⟩
      · exact ⟨c, .inr h1, h2⟩
    · rintro ⟨c, h1 | h1, h2⟩
      · exact .inl (h1 ▸ h2)
      · exact .inr ⟨c, h1, h2⟩
  | lazy lh => simp only [memS_lazy_iff, memL_bindD_iff]

theorem step_mem_iff_aux (hT : TopOK top) : ∀ (l : Lz St K) (a : St), MemS top a (step top l) ↔ MemL top a l
  | .mplus l1 l2, a => by
    simp only [step, mem_mplus_iff, memL_mplus_iff, step_mem_iff_aux hT l1]
  | .mplusD l1 l2, a => by
    simp only [step, mem_mplusD_iff, memL_mplusD_iff, step_mem_iff_aux hT l1]
  | .pause b g, a => by simp only [step, memL_pause_iff]
  | .delay s, a => by simp only [step, memL_delay_iff]
  | .bind l g, a => by
    simp only [step, mem_bind_iff hT, memL_bind_iff, step_mem_iff_aux hT l]
  | .bindD l g, a => by
    simp only [step, mem_bindD_iff hT, memL_bindD_iff, step_mem_iff_aux hT l]

end Mem

section Shape
variable {defs : K → St → St × Goal St K}

theorem mplusD_dfs {s : Strm St K} {l : Lz St K} (hs : DfsS defs s) (hl : DfsL defs l) :
    DfsS defs (mplusD s l) := by
  cases hs with
  | empty => exact .lazy hl
  | unit a => exact .cons hl
  | cons h => exact .cons (.mplusD h hl)
  | lazy h => exact .lazy (.mplusD h hl)

theorem bindD_dfs {s : Strm St K} {g : Goal St K} (hs : DfsS defs s) (hg : DfsG defs g) :
    DfsS defs (bindD s g) := by
  unfold Strm.bindD
  split
  · exact hs
  split
  · exact .empty
  cases hs with
  | empty => exact .empty
  | unit a => exact .lazy (.pause hg)
  | cons h => exact .lazy (.mplusD (.pause hg) (.bindD h hg))
  | lazy h => exact .lazy (.bindD h hg)

theorem lazyBindD_dfs {l : Lz St K} {g : Goal St K} (hl : DfsL defs l) (hg : DfsG defs g) :
    DfsS defs (lazyBindD l g) := by
  unfold Strm.lazyBindD
  split
  · exact .lazy hl
  split
  · exact .empty
  exact .lazy (.bindD hl hg)

theorem mplus_bfs {s : Strm St K} {l : Lz St K} (hs : BfsS defs s) (hl : BfsL defs l) :
    BfsS defs (mplus s l) := by
  cases hs with
  | empty => exact .lazy hl
  | unit a => exact .cons hl
  | cons h => exact .cons (.mplus hl h)
  | lazy h => exact .lazy (.mplus hl h)

theorem bind_bfs {s : Strm St K} {g : Goal St K} (hs : BfsS defs s) (hg : BfsG defs g) :
    BfsS defs (bind s g) := by
  unfold Strm.bind
  split
  · exact hs
  split
  · exact .empty
  cases hs with
  | empty => exact .empty
  | unit a => exact .lazy (.pause hg)
  | cons h => exact .lazy (.mplus (.pause hg) (.bind h hg))
  | lazy h => exact .lazy (.bind h hg)

theorem lazyBind_bfs {l : Lz St K} {g : Goal St K} (hl : BfsL defs l) (hg : BfsG defs g) :
    BfsS defs (lazyBind l g) := by
  unfold Strm.lazyBind
  split
  · exact .lazy hl
  split
  · exact .empty
  exact .lazy (.bind hl hg)

variable {top : Goal St K → St → Strm St K}

theorem step_bfs_aux (hTop : ∀ g a, BfsG defs g → BfsS defs (top g a)) :
    ∀ (l : Lz St K), BfsL defs l → BfsS defs (step top l)
  | .mplus l1 _, .mplus d1 d2 => mplus_bfs (step_bfs_aux hTop l1 d1) d2
  | .bind l _, .bind d dg => bind_bfs (step_bfs_aux hTop l d) dg
  | .pause a g, .pause dg => hTop g a dg
  | .delay _, .delay ds => ds

theorem step_dfs_aux (hT : TopOK top) (hTop : ∀ g a, DfsG defs g → DfsS defs (top g a)) :
    ∀ (l : Lz St K) {xs : List St}, DfsL defs l → AnsL top l xs →
      AnsS top (step top l) xs ∧ DfsS defs (step top l)
  | .mplusD l1 _, _, .mplusD d1 d2, .mplusD h1 h2 =>
    have ⟨a1, b1⟩ := step_dfs_aux hT hTop l1 d1 h1
    ⟨mplusD_ans a1 h2, mplusD_dfs b1 d2⟩
  | .bindD l _, _, .bindD d dg, .bindD h hb =>
    have ⟨a1, b1⟩ := step_dfs_aux hT hTop l d h
    ⟨bindD_ans hT a1 hb, bindD_dfs b1 dg⟩
  | .pause a g, _, .pause dg, .pause h => ⟨h, hTop g a dg⟩
  | .delay _, _, .delay ds, .delay h => ⟨h, ds⟩

end Shape

section Peek
variable {top : Goal St K → St → Strm St K}

theorem peekF_perm (hT : TopOK top) : ∀ (n : Nat) {s s' : Strm St K} {xs : List St},
    peekF top n s = some s' → AnsS top s xs → ∃ ys, AnsS top s' ys ∧ xs.Perm ys := by
  intro n
  induction n with
  | zero =>
    intro s s' xs h hs
    cases s with
    | lazy l => simp [peekF] at h
    | empty => simp only [peekF, Option.some.injEq] at h; subst h; exact ⟨_, hs, .refl _⟩
    | unit b => simp only [peekF, Option.some.injEq] at h; subst h; exact ⟨_, hs, .refl _⟩
    | cons b l => simp only [peekF, Option.some.injEq] at h; subst h; exact ⟨_, hs, .refl _⟩
  | succ n ih =>
    intro s s' xs h hs
    cases s with
    | lazy l =>
      simp only [peekF] at h
      cases hs with | lazy hl =>
      obtain ⟨ys, hy, py⟩ := step_perm_aux hT hl
      obtain ⟨zs, hz, pz⟩ := ih h hy
      exact ⟨zs, hz, py.trans pz⟩
    | empty => simp only [peekF, Option.some.injEq] at h; subst h; exact ⟨_, hs, .refl _⟩
    | unit b => simp only [peekF, Option.some.injEq] at h; subst h; exact ⟨_, hs, .refl _⟩
    | cons b l => simp only [peekF, Option.some.injEq] at h; subst h; exact ⟨_, hs, .refl _⟩

theorem peekF_mature_aux : ∀ (n : Nat) {s s' : Strm St K}, peekF top n s = some s' → s'.isMature = true := by
  intro n
  induction n with
  | zero =>
    intro s s' h
    cases s with
    | lazy l => simp [peekF] at h
    | empty => simp only [peekF, Option.some.injEq] at h; subst h; rfl
    | unit b => simp only [peekF, Option.some.injEq] at h; subst h; rfl
    | cons b l => simp only [peekF, Option.some.injEq] at h; subst h; rfl
  | succ n ih =>
    intro s s' h
    cases s with
    | lazy l => simp only [peekF] at h; exact ih h
    | empty => simp only [peekF, Option.some.injEq] at h; subst h; rfl
    | unit b => simp only [peekF, Option.some.injEq] at h; subst h; rfl
    | cons b l => simp only [peekF, Option.some.injEq] at h; subst h; rfl

/-- for a mature stream with a finite answer list: it has a head iff the list is not empty -/
theorem head_of_mature {s : Strm St K} {ys : List St} (hm : s.isMature = true) (h : AnsS top s ys) :
    s.head?.isSome = !ys.isEmpty := by
  cases h with
  | empty => rfl
  | unit a => rfl
  | cons h => rfl
  | lazy h => simp [Strm.isMature] at hm

end Peek

/-! ### cost-indexed answer derivations: the index bounds the number of engine steps (plus delivered
    answers) needed to exhaust the stream -/

section Cost
variable (top : Goal St K → St → Strm St K)

mutual
inductive AnsSc : Nat → Strm St K → List St → Prop where
  | empty {c} : AnsSc c .empty []
  | unit {c} (a : St) : AnsSc c (.unit a) [a]
  | cons {c c' a l xs} : AnsLc c' l xs → c' + 1 ≤ c → AnsSc c (.cons a l) (a :: xs)
  | lazy {c c' l xs} : AnsLc c' l xs → c' ≤ c → AnsSc c (.lazy l) xs
inductive AnsLc : Nat → Lz St K → List St → Prop where
  | mplus {c c1 c2 l1 l2 xs ys} : AnsLc c1 l1 xs → AnsLc c2 l2 ys → c1 + c2 + 1 ≤ c →
      AnsLc c (.mplus l1 l2) (xs ++ ys)
  | mplusD {c c1 c2 l1 l2 xs ys} : AnsLc c1 l1 xs → AnsLc c2 l2 ys → c1 + c2 + 1 ≤ c →
      AnsLc c (.mplusD l1 l2) (xs ++ ys)
  | pause {c c' a g xs} : AnsSc c' (top g a) xs → c' + 1 ≤ c → AnsLc c (.pause a g) xs
  | delay {c c' s xs} : AnsSc c' s xs → c' + 1 ≤ c → AnsLc c (.delay s) xs
  | bind {c c1 c2 l g xs ys} : AnsLc c1 l xs → AnsBc c2 g xs ys → c1 + c2 + 1 ≤ c → AnsLc c (.bind l g) ys
  | bindD {c c1 c2 l g xs ys} : AnsLc c1 l xs → AnsBc c2 g xs ys → c1 + c2 + 1 ≤ c → AnsLc c (.bindD l g) ys
inductive AnsBc : Nat → Goal St K → List St → List St → Prop where
  | nil {c g} : AnsBc c g [] []
  | cons {c c1 c2 g a xs ys zs} : AnsSc c1 (top g a) ys → AnsBc c2 g xs zs → c1 + c2 + 1 ≤ c →
      AnsBc c g (a :: xs) (ys ++ zs)
end
end Cost

section CostLemmas
variable {top : Goal St K → St → Strm St K}

theorem AnsSc.mono {c c' : Nat} {s : Strm St K} {xs} (h : AnsSc top c s xs) (hc : c ≤ c') :
    AnsSc top c' s xs := by
  cases h with
  | empty => exact .empty
  | unit a => exact .unit a
  | cons h h' => exact .cons h (by omega)
  | lazy h h' => exact .lazy h (by omega)

theorem AnsLc.mono {c c' : Nat} {l : Lz St K} {xs} (h : AnsLc top c l xs) (hc : c ≤ c') :
    AnsLc top c' l xs := by
  cases h with
  | mplus h1 h2 h' => exact .mplus h1 h2 (by omega)
  | mplusD h1 h2 h' => exact .mplusD h1 h2 (by omega)
  | pause h h' => exact .pause h (by omega)
  | delay h h' => exact .delay h (by omega)
  | bind h1 h2 h' => exact .bind h1 h2 (by omega)
  | bindD h1 h2 h' => exact .bindD h1 h2 (by omega)

theorem AnsBc.mono {c c' : Nat} {g : Goal St K} {xs ys} (h : AnsBc top c g xs ys) (hc : c ≤ c') :
    AnsBc top c' g xs ys := by
  cases h with
  | nil => exact .nil
  | cons h1 h2 h' => exact .cons h1 h2 (by omega)

mutual
theorem AnsS.toC : ∀ {s : Strm St K} {xs}, AnsS top s xs → ∃ c, AnsSc top c s xs
  | _, _, .empty => ⟨0, .empty⟩
  | _, _, .unit a => ⟨0, .unit a⟩
  | _, _, .cons h => let ⟨_, hc⟩ := AnsL.toC h; ⟨_, .cons hc (Nat.le_refl _)⟩
  | _, _, .lazy h => let ⟨_, hc⟩ := AnsL.toC h; ⟨_, .lazy hc (Nat.le_refl _)⟩
theorem AnsL.toC : ∀ {l : Lz St K} {xs}, AnsL top l xs → ∃ c, AnsLc top c l xs
  | _, _, .mplus h1 h2 =>
    let ⟨_, hc1⟩ := AnsL.toC h1; let ⟨_, hc2⟩ := AnsL.toC h2; ⟨_, .mplus hc1 hc2 (Nat.le_refl _)⟩
  | _, _, .mplusD h1 h2 =>
    let ⟨_, hc1⟩ := AnsL.toC h1; let ⟨_, hc2⟩ := AnsL.toC h2; ⟨_, .mplusD hc1 hc2 (Nat.le_refl _)⟩
  | _, _, .pause h => let ⟨_, hc⟩ := AnsS.toC h; ⟨_, .pause hc (Nat.le_refl _)⟩
  | _, _, .delay h => let ⟨_, hc⟩ := AnsS.toC h; ⟨_, .delay hc (Nat.le_refl _)⟩
  | _, _, .bind h1 h2 =>
    let ⟨_, hc1⟩ := AnsL.toC h1; let ⟨_, hc2⟩ := AnsB.toC h2; ⟨_, .bind hc1 hc2 (Nat.le_refl _)⟩
  | _, _, .bindD h1 h2 =>
    let ⟨_, hc1⟩ := AnsL.toC h1; let ⟨_, hc2⟩ := AnsB.toC h2; ⟨_, .bindD hc1 hc2 (Nat.le_refl _)⟩
theorem AnsB.toC : ∀ {g : Goal St K} {xs ys}, AnsB top g xs ys → ∃ c, AnsBc top c g xs ys
  | _, _, _, .nil => ⟨0, .nil⟩
  | _, _, _, .cons h1 h2 =>
    let ⟨_, hc1⟩ := AnsS.toC h1; let ⟨_, hc2⟩ := AnsB.toC h2; ⟨_, .cons hc1 hc2 (Nat.le_refl _)⟩
end

mutual
theorem AnsSc.ofC : ∀ {c} {s : Strm St K} {xs}, AnsSc top c s xs → AnsS top s xs
  | _, _, _, .empty => .empty
  | _, _, _, .unit a => .unit a
  | _, _, _, .cons h _ => .cons (AnsLc.ofC h)
  | _, _, _, .lazy h _ => .lazy (AnsLc.ofC h)
theorem AnsLc.ofC : ∀ {c} {l : Lz St K} {xs}, AnsLc top c l xs → AnsL top l xs
  | _, _, _, .mplus h1 h2 _ => .mplus (AnsLc.ofC h1) (AnsLc.ofC h2)
  | _, _, _, .mplusD h1 h2 _ => .mplusD (AnsLc.ofC h1) (AnsLc.ofC h2)
  | _, _, _, .pause h _ => .pause (AnsSc.ofC h)
  | _, _, _, .delay h _ => .delay (AnsSc.ofC h)
  | _, _, _, .bind h1 h2 _ => .bind (AnsLc.ofC h1) (AnsBc.ofC h2)
  | _, _, _, .bindD h1 h2 _ => .bindD (AnsLc.ofC h1) (AnsBc.ofC h2)
theorem AnsBc.ofC : ∀ {c} {g : Goal St K} {xs ys}, AnsBc top c g xs ys → AnsB top g xs ys
  | _, _, _, _, .nil => .nil
  | _, _, _, _, .cons h1 h2 _ => .cons (AnsSc.ofC h1) (AnsBc.ofC h2)
end

theorem mplus_ansc {c1 c2} {s : Strm St K} {l xs ys} (hs : AnsSc top c1 s xs) (hl : AnsLc top c2 l ys) :
    ∃ zs, AnsSc top (c1 + c2 + 1) (mplus s l) zs ∧ List.Perm (xs ++ ys) zs := by
  cases hs with
  | empty => exact ⟨ys, .lazy hl (by omega), by simp⟩
  | unit a => exact ⟨a :: ys, .cons hl (by omega), by simp⟩
  | cons h h' =>
    exact ⟨_, .cons (.mplus hl h (Nat.le_refl _)) (by omega), by simpa using List.perm_append_comm⟩
  | lazy h h' => exact ⟨_, .lazy (.mplus hl h (Nat.le_refl _)) (by omega), List.perm_append_comm⟩

theorem mplusD_ansc {c1 c2} {s : Strm St K} {l xs ys} (hs : AnsSc top c1 s xs) (hl : AnsLc top c2 l ys) :
    AnsSc top (c1 + c2 + 1) (mplusD s l) (xs ++ ys) := by
  cases hs with
  | empty => exact .lazy hl (by omega)
  | unit a => exact .cons hl (by omega)
  | cons h h' => exact .cons (.mplusD h hl (Nat.le_refl _)) (by omega)
  | lazy h h' => exact .lazy (.mplusD h hl (Nat.le_refl _)) (by omega)

theorem bind_ansc (hT : TopOK top) {c1 c2} {s : Strm St K} {g xs ys} (hs : AnsSc top c1 s xs)
    (hb : AnsBc top c2 g xs ys) : AnsSc top (c1 + c2 + 1) (bind s g) ys := by
  unfold Strm.bind
  split
  · rename_i h; rw [isSucceed_iff] at h; subst h
    rw [ansB_succeed hT hb.ofC]; exact hs.mono (by omega)
  split
  · exact (by rename_i h; rw [isFail_iff] at h; subst h; rw [ansB_fail hT hb.ofC]; exact .empty)
  cases hs with
  | empty => cases hb; exact .empty
  | unit a =>
    cases hb with | cons h t h' =>
    cases t
    simpa using AnsSc.lazy (.pause h (Nat.le_refl _)) (by omega)
  | cons h hh =>
    cases hb with | cons h1 t h' =>
    exact .lazy (.mplus (.pause h1 (Nat.le_refl _)) (.bind h t (Nat.le_refl _)) (Nat.le_refl _)) (by omega)
  | lazy h hh => exact .lazy (.bind h hb (Nat.le_refl _)) (by omega)

theorem bindD_ansc (hT : TopOK top) {c1 c2} {s : Strm St K} {g xs ys} (hs : AnsSc top c1 s xs)
    (hb : AnsBc top c2 g xs ys) : AnsSc top (c1 + c2 + 1) (bindD s g) ys := by
  unfold Strm.bindD
  split
  · rename_i h; rw [isSucceed_iff] at h; subst h
    rw [ansB_succeed hT hb.ofC]; exact hs.mono (by omega)
  split
  · exact (by rename_i h; rw [isFail_iff] at h; subst h; rw [ansB_fail hT hb.ofC]; exact .empty)
  cases hs with
  | empty => cases hb; exact .empty
  | unit a =>
    cases hb with | cons h t h' =>
    cases t
    simpa using AnsSc.lazy (.pause h (Nat.le_refl _)) (by omega)
  | cons h hh =>
    cases hb with | cons h1 t h' =>
    exact .lazy (.mplusD (.pause h1 (Nat.le_refl _)) (.bindD h t (Nat.le_refl _)) (Nat.le_refl _)) (by omega)
  | lazy h hh => exact .lazy (.bindD h hb (Nat.le_refl _)) (by omega)

theorem ansBc_perm {g : Goal St K} : ∀ {xs xs' : List St}, List.Perm xs xs' → ∀ {c ys}, AnsBc top c g xs ys →
    ∃ ys', AnsBc top c g xs' ys' ∧ List.Perm ys ys' := by
  intro xs xs' hp
  induction hp with
  | nil => intro c ys h; exact ⟨ys, h, .refl _⟩
  | cons a _ ih =>
    intro c ys h
    cases h with | cons h t h' =>
    obtain ⟨zs, hz, hp⟩ := ih t
    exact ⟨_, .cons h hz h', List.Perm.append_left _ hp⟩
  | swap a b l =>
    intro c ys h
    cases h with | cons h1 t h' =>
    cases t with | cons h2 t2 h'' =>
    refine ⟨_, .cons h2 (.cons h1 t2 (Nat.le_refl _)) (by omega), ?_⟩
    simp only [← List.append_assoc]
    exact List.Perm.append_right _ List.perm_append_comm
  | trans _ _ ih1 ih2 =>
    intro c ys h
    obtain ⟨a, ha, pa⟩ := ih1 h
    obtain ⟨b, hb, pb⟩ := ih2 ha
    exact ⟨b, hb, pa.trans pb⟩

/-- one engine step strictly decreases the cost bound -/
theorem step_cost (hT : TopOK top) : ∀ {c} {l : Lz St K} {xs}, AnsLc top c l xs →
    ∃ c' ys, c' < c ∧ AnsSc top c' (step top l) ys ∧ List.Perm xs ys
  | _, _, _, .mplus h1 h2 h' => by
    obtain ⟨c', ys, hc, hy, py⟩ := step_cost hT h1
    obtain ⟨zs, hz, pz⟩ := mplus_ansc hy h2
    exact ⟨_, zs, by omega, hz, (List.Perm.append_right _ py).trans pz⟩
  | _, _, _, .mplusD h1 h2 h' => by
    obtain ⟨c', ys, hc, hy, py⟩ := step_cost hT h1
    exact ⟨_, _, by omega, mplusD_ansc hy h2, List.Perm.append_right _ py⟩
  | _, _, _, .pause h h' => ⟨_, _, by omega, h, .refl _⟩
  | _, _, _, .delay h h' => ⟨_, _, by omega, h, .refl _⟩
  | _, _, _, .bind hl hb h' => by
    obtain ⟨c', ys, hc, hy, py⟩ := step_cost hT hl
    obtain ⟨zs, hz, pz⟩ := ansBc_perm py hb
    exact ⟨_, zs, by omega, bind_ansc hT hy hz, pz⟩
  | _, _, _, .bindD hl hb h' => by
    obtain ⟨c', ys, hc, hy, py⟩ := step_cost hT hl
    obtain ⟨zs, hz, pz⟩ := ansBc_perm py hb
    exact ⟨_, zs, by omega, bindD_ansc hT hy hz, pz⟩

theorem drain_cost (hT : TopOK top) : ∀ (n : Nat) {c} {s : Strm St K} {xs}, AnsSc top c s xs → c < n →
    ∃ ys, drainF top n s = some ys ∧ List.Perm xs ys := by
  intro n
  induction n with
  | zero => intro c s xs _ hc; omega
  | succ n ih =>
    intro c s xs h hc
    cases h with
    | empty => exact ⟨[], by simp [drainF], .refl _⟩
    | unit a => exact ⟨[a], by simp [drainF], .refl _⟩
    | cons h h' =>
      obtain ⟨ys, hy, py⟩ := ih (AnsSc.lazy h (Nat.le_refl _)) (by omega)
      exact ⟨_, by simp [drainF, hy], List.Perm.cons _ py⟩
    | lazy h h' =>
      obtain ⟨c', ys, hc', hy, py⟩ := step_cost hT h
      obtain ⟨zs, hz, pz⟩ := ih hy (by omega)
      exact ⟨zs, by simpa [drainF] using hz, py.trans pz⟩

theorem peek_cost (hT : TopOK top) : ∀ (n : Nat) {c} {s : Strm St K} {xs}, AnsSc top c s xs → c < n →
    ∃ s' ys, peekF top n s = some s' ∧ AnsS top s' ys ∧ List.Perm xs ys := by
  intro n
  induction n with
  | zero => intro c s xs _ hc; omega
  | succ n ih =>
    intro c s xs h hc
    cases h with
    | empty => exact ⟨_, [], by simp [peekF], .empty, .refl _⟩
    | unit a => exact ⟨_, [a], by simp [peekF], .unit a, .refl _⟩
    | cons h h' => exact ⟨_, _, by simp [peekF], .cons h.ofC, .refl _⟩
    | lazy h h' =>
      obtain ⟨c', ys, hc', hy, py⟩ := step_cost hT h
      obtain ⟨s', zs, hz, hz', pz⟩ := ih hy (by omega)
      exact ⟨s', zs, by simpa [peekF] using hz, hz', py.trans pz⟩

end CostLemmas

section DrainDfs
variable {defs : K → St → St × Goal St K} {top : Goal St K → St → Strm St K}

theorem drain_dfs_exact (hT : TopOK top) (hTop : ∀ g a, DfsG defs g → DfsS defs (top g a)) :
    ∀ (n : Nat) {s : Strm St K} {xs ys : List St}, DfsS defs s → AnsS top s xs →
      drainF top n s = some ys → ys = xs := by
  intro n
  induction n with
  | zero => intro s xs ys _ _ h; simp [drainF] at h
  | succ n ih =>
    intro s xs ys hd hs h
    cases hs with
    | empty => simpa [drainF] using h.symm
    | unit a => simpa [drainF] using h.symm
    | cons hl =>
      simp only [drainF, Option.map_eq_some_iff] at h
      obtain ⟨zs, hz, rfl⟩ := h
      cases hd with | cons hd =>
      rw [ih (.lazy hd) (.lazy hl) hz]
    | lazy hl =>
      simp only [drainF] at h
      cases hd with | lazy hd =>
      obtain ⟨h1, h2⟩ := step_dfs_aux hT hTop _ hd hl
      exact ih h2 h1 h

end DrainDfs

section Ref
variable {top : Goal St K → St → Strm St K}

theorem flatMapM_cons_some {α β : Type} {f : α → Option (List β)} {x : α} {xs : List α} {zs : List β}
    (h : flatMapM f (x :: xs) = some zs) :
    ∃ ys ws, f x = some ys ∧ flatMapM f xs = some ws ∧ zs = ys ++ ws := by
  simp only [flatMapM] at h
  split at h
  · rename_i ys ws h1 h2
    exact ⟨ys, ws, h1, h2, by simpa using h.symm⟩
  · simp at h

theorem flatMapM_ansB {g : Goal St K} {f : St → Option (List St)}
    (hf : ∀ x ys, f x = some ys → AnsS top (top g x) ys) :
    ∀ {xs zs}, flatMapM f xs = some zs → AnsB top g xs zs := by
  intro xs
  induction xs with
  | nil => intro zs h; simp only [flatMapM, Option.some.injEq] at h; subst h; exact .nil
  | cons x xs ih =>
    intro zs h
    obtain ⟨ys, ws, h1, h2, rfl⟩ := flatMapM_cons_some h
    exact .cons (hf _ _ h1) (ih h2)

theorem flatMapM_ansB_perm {g : Goal St K} {f : St → Option (List St)}
    (hf : ∀ x ys, f x = some ys → ∃ ys', AnsS top (top g x) ys' ∧ ys.Perm ys') :
    ∀ {xs zs}, flatMapM f xs = some zs → ∃ zs', AnsB top g xs zs' ∧ zs.Perm zs' := by
  intro xs
  induction xs with
  | nil => intro zs h; simp only [flatMapM, Option.some.injEq] at h; subst h; exact ⟨[], .nil, .refl _⟩
  | cons x xs ih =>
    intro zs h
    obtain ⟨ys, ws, h1, h2, rfl⟩ := flatMapM_cons_some h
    obtain ⟨ys', hy, py⟩ := hf _ _ h1
    obtain ⟨ws', hw, pw⟩ := ih h2
    exact ⟨_, .cons hy hw, List.Perm.append py pw⟩

end Ref

/-! ### rank-indexed membership derivations: the index bounds the number of engine steps before the
    answer is delivered by an interleaving stream (fairness measure).

    `step (mplus l1 l2) = mplus (step l1) l2` and `Stream::mplus` swaps its lazy arguments, so a witness
    on the right (rank `2r+2`) moves to the left (rank `2r+1`) after one step, and a witness on the left
    moves to the right after its own stream has made one step of progress (`2r'+2` with `r' < r`).
    For `bind l g` (witness `b ∈ l` of rank `p`, `a ∈ top g b` of rank `q`) the rank is `4^p * (2q+4)`:
    each step of `l` may wrap the remaining `bind` into the right branch of a new `mplus`. -/

def bRank (p q : Nat) : Nat := 4 ^ p * (2 * q + 4)

theorem bRank_mono {p' p : Nat} (q : Nat) (h : p' ≤ p) : bRank p' q ≤ bRank p q :=
  Nat.mul_le_mul_right _ (Nat.pow_le_pow_right (by omega) h)

theorem bRank_ge (p q : Nat) : 2 * q + 4 ≤ bRank p q :=
  Nat.le_mul_of_pos_left _ (Nat.pow_pos (by omega))

theorem bRank_ge_self (p q : Nat) : p ≤ bRank p q := by
  have h1 : p < 4 ^ p := Nat.lt_pow_self (by omega)
  have h2 : 4 ^ p ≤ 4 ^ p * (2 * q + 4) := Nat.le_mul_of_pos_right _ (by omega)
  unfold bRank; omega

theorem bRank_step {p' p : Nat} (q : Nat) (h : p' < p) : 4 * bRank p' q ≤ bRank p q := by
  have h1 : bRank (p' + 1) q = 4 * bRank p' q := by
    unfold bRank; rw [Nat.pow_succ, Nat.mul_comm (4 ^ p') 4, Nat.mul_assoc]
  rw [← h1]; exact bRank_mono q h

section Rank
variable (top : Goal St K → St → Strm St K)

mutual
inductive MemSc : Nat → St → Strm St K → Prop where
  | unit {r} (a : St) : MemSc r a (.unit a)
  | head {r} (a : St) (l : Lz St K) : MemSc r a (.cons a l)
  | tail {r r' a b l} : MemLc r' a l → r' ≤ r → MemSc r a (.cons b l)
  | lazy {r r' a l} : MemLc r' a l → r' ≤ r → MemSc r a (.lazy l)
inductive MemLc : Nat → St → Lz St K → Prop where
  | mplusL {r r' a l1 l2} : MemLc r' a l1 → 2 * r' + 1 ≤ r → MemLc r a (.mplus l1 l2)
  | mplusR {r r' a l1 l2} : MemLc r' a l2 → 2 * r' + 2 ≤ r → MemLc r a (.mplus l1 l2)
  | mplusDL {r r' a l1 l2} : MemLc r' a l1 → r' + 1 ≤ r → MemLc r a (.mplusD l1 l2)
  | mplusDR {r r' a l1 l2} : MemLc r' a l2 → r' + 1 ≤ r → MemLc r a (.mplusD l1 l2)
  | pause {r r' a b g} : MemSc r' a (top g b) → r' + 1 ≤ r → MemLc r a (.pause b g)
  | delay {r r' a s} : MemSc r' a s → r' + 1 ≤ r → MemLc r a (.delay s)
  | bind {r p q a b l g} : MemLc p b l → MemSc q a (top g b) → bRank p q ≤ r → MemLc r a (.bind l g)
  | bindD {r p q a b l g} : MemLc p b l → MemSc q a (top g b) → p + q + 1 ≤ r → MemLc r a (.bindD l g)
end
end Rank

section RankLemmas
variable {top : Goal St K → St → Strm St K}

theorem MemSc.mono {r r' : Nat} {a : St} {s : Strm St K} (h : MemSc top r a s) (hr : r ≤ r') :
    MemSc top r' a s := by
  cases h with
  | unit a => exact .unit a
  | head a l => exact .head a l
  | tail h h' => exact .tail h (by omega)
  | lazy h h' => exact .lazy h (by omega)

mutual
theorem MemS.toC : ∀ {a : St} {s : Strm St K}, MemS top a s → ∃ r, MemSc top r a s
  | _, _, .unit a => ⟨0, .unit a⟩
  | _, _, .head a l => ⟨0, .head a l⟩
  | _, _, .tail h => let ⟨_, hc⟩ := MemL.toC h; ⟨_, .tail hc (Nat.le_refl _)⟩
  | _, _, .lazy h => let ⟨_, hc⟩ := MemL.toC h; ⟨_, .lazy hc (Nat.le_refl _)⟩
theorem MemL.toC : ∀ {a : St} {l : Lz St K}, MemL top a l → ∃ r, MemLc top r a l
  | _, _, .mplusL h => let ⟨_, hc⟩ := MemL.toC h; ⟨_, .mplusL hc (Nat.le_refl _)⟩
  | _, _, .mplusR h => let ⟨_, hc⟩ := MemL.toC h; ⟨_, .mplusR hc (Nat.le_refl _)⟩
  | _, _, .mplusDL h => let ⟨_, hc⟩ := MemL.toC h; ⟨_, .mplusDL hc (Nat.le_refl _)⟩
  | _, _, .mplusDR h => let ⟨_, hc⟩ := MemL.toC h; ⟨_, .mplusDR hc (Nat.le_refl _)⟩
  | _, _, .pause h => let ⟨_, hc⟩ := MemS.toC h; ⟨_, .pause hc (Nat.le_refl _)⟩
  | _, _, .delay h => let ⟨_, hc⟩ := MemS.toC h; ⟨_, .delay hc (Nat.le_refl _)⟩
  | _, _, .bind h1 h2 =>
    let ⟨_, hc1⟩ := MemL.toC h1; let ⟨_, hc2⟩ := MemS.toC h2; ⟨_, .bind hc1 hc2 (Nat.le_refl _)⟩
  | _, _, .bindD h1 h2 =>
    let ⟨_, hc1⟩ := MemL.toC h1; let ⟨_, hc2⟩ := MemS.toC h2; ⟨_, .bindD hc1 hc2 (Nat.le_refl _)⟩
end

theorem mplus_rank_left {r : Nat} {a : St} {s : Strm St K} (l : Lz St K) (h : MemSc top r a s) :
    MemSc top (2 * r + 2) a (mplus s l) := by
  cases h with
  | unit a => exact .head _ _
  | head a lh => exact .head _ _
  | tail h h' => exact .tail (.mplusR h (Nat.le_refl _)) (by omega)
  | lazy h h' => exact .lazy (.mplusR h (Nat.le_refl _)) (by omega)

theorem mplus_rank_right {r : Nat} {a : St} (s : Strm St K) {l : Lz St K} (h : MemLc top r a l) :
    MemSc top (2 * r + 1) a (mplus s l) := by
  cases s with
  | empty => exact .lazy h (by omega)
  | unit b => exact .tail h (by omega)
  | cons b lh => exact .tail (.mplusL h (Nat.le_refl _)) (Nat.le_refl _)
  | lazy lh => exact .lazy (.mplusL h (Nat.le_refl _)) (Nat.le_refl _)

theorem bind_rank (hT : TopOK top) {p q : Nat} {a b : St} {s : Strm St K} {g : Goal St K}
    (hb : MemSc top p b s) (ha : MemSc top q a (top g b)) :
    MemSc top (2 * bRank p q + 2) a (bind s g) := by
  have e1 := bRank_ge p q
  unfold Strm.bind
  split
  · rename_i h; rw [isSucceed_iff] at h; subst h
    rw [(hT b).1] at ha
    cases ha
    have := bRank_ge_self p q
    exact hb.mono (by omega)
  split
  · rename_i h; rw [isFail_iff] at h; subst h
    rw [(hT b).2] at ha
    cases ha
  cases hb with
  | unit b => exact .lazy (.pause ha (Nat.le_refl _)) (by omega)
  | head b lh => exact .lazy (.mplusL (.pause ha (Nat.le_refl _)) (Nat.le_refl _)) (by omega)
  | tail h h' =>
    have := bRank_mono q h'
    exact .lazy (.mplusR (.bind h ha (Nat.le_refl _)) (Nat.le_refl _)) (by omega)
  | lazy h h' =>
    have := bRank_mono q h'
    exact .lazy (.bind h ha (Nat.le_refl _)) (by omega)

variable {defs : K → St → St × Goal St K}

/-- one engine step of an interleaving node strictly decreases the rank of every member -/
theorem step_rank (hT : TopOK top) : ∀ (l : Lz St K) {r : Nat} {a : St}, BfsL defs l → MemLc top r a l →
    ∃ r', r' < r ∧ MemSc top r' a (step top l)
  | .mplus l1 l2, _, _, .mplus d1 _, .mplusL h h' =>
    let ⟨_, hr, hm⟩ := step_rank hT l1 d1 h
    ⟨_, by omega, mplus_rank_left l2 hm⟩
  | .mplus l1 _, _, _, .mplus _ _, .mplusR h h' => ⟨_, by omega, mplus_rank_right (step top l1) h⟩
  | .bind l g, _, _, .bind d _, .bind (q := q) hb ha h' =>
    let ⟨p', hr, hm⟩ := step_rank hT l d hb
    have := bRank_step q hr
    have := bRank_ge p' q
    ⟨_, by omega, bind_rank hT hm ha⟩
  | .pause _ _, _, _, .pause _, .pause h h' => ⟨_, by omega, h⟩
  | .delay _, _, _, .delay _, .delay h h' => ⟨_, by omega, h⟩

theorem runF_prefix : ∀ (n k : Nat) (s : Strm St K), (runF top n s).IsPrefix (runF top (n + k) s) := by
  intro n k
  induction n with
  | zero => intro s; simp [runF]
  | succ n ih =>
    intro s
    rw [Nat.add_right_comm]
    cases s with
    | empty => simp [runF]
    | unit b => simp [runF]
    | cons b l => simp only [runF, List.prefix_cons_inj]; exact ih _
    | lazy l => simp only [runF]; exact ih _

theorem fair_rank (hT : TopOK top) (hTop : ∀ g a, BfsG defs g → BfsS defs (top g a)) {a : St} :
    ∀ (n r : Nat) (s : Strm St K), r < n → BfsS defs s → MemSc top r a s → a ∈ runF top (2 * n) s := by
  intro n
  induction n with
  | zero => intro r s hr; omega
  | succ n ih =>
    intro r s hr hs hm
    have e : 2 * (n + 1) = 2 * n + 1 + 1 := by omega
    rw [e]
    cases hm with
    | unit a => simp [runF]
    | head a l => simp [runF]
    | tail h h' =>
      cases hs with | cons hl =>
      obtain ⟨r'', hr'', hm''⟩ := step_rank hT _ hl h
      simp only [runF, List.mem_cons]
      exact .inr (ih r'' _ (by omega) (step_bfs_aux hTop _ hl) hm'')
    | lazy h h' =>
      cases hs with | lazy hl =>
      obtain ⟨r'', hr'', hm''⟩ := step_rank hT _ hl h
      simp only [runF]
      exact List.IsPrefix.mem (ih r'' _ (by omega) (step_bfs_aux hTop _ hl) hm'') (runF_prefix (2 * n) 1 _)

end RankLemmas

end Pv
