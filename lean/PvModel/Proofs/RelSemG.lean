/-
  Proofs/RelSem.lean once more, GENERIC in the notion of well-formed state (`GP`) and described valuation (`SP`):
  whatever `==` and `!=` are exact for.  Instantiated in Proofs/RelSemFD.lean with the finite-domain state
  invariants, so that relation calls from states carrying domains and FD / CLP(Z) constraints are covered.
  (Kept as a separate file so that the tree instance and everything built on it stay untouched.)
-/
import PvModel.Proofs.RelSem
namespace Pv
open Strm Goal State Term
set_option linter.unusedSectionVars false

section
variable (ord : Order) (GP : State → Prop) (SP : Subst → State → Prop)

/-! ### the soundness contract -/

/-- the contract between a start state and an answer: poison is kept; an unpoisoned answer of a good state is
    good and describes only valuations the start state describes and that satisfy `D` -/
def SCG (D : Subst → Prop) (a b : State) : Prop :=
  (a.panic.isSome = true → b.panic.isSome = true) ∧
  (b.panic.isSome = false → GP a → GP b ∧ ∀ γ, SP γ b → SP γ a ∧ D γ)

/-- goal `g` denotes `D`, for derivations of height ≤ `N` -/
def DenG (N : Nat) (g : G) (D : Subst → Prop) : Prop :=
  ∀ n, n ≤ N → ∀ a b, BigF (defs ord) n g a b → SCG GP SP D a b

variable {ord GP SP}

theorem SCG.trans {D1 D2 : Subst → Prop} {a c b : State} (h1 : SCG GP SP D1 a c) (h2 : SCG GP SP D2 c b) :
    SCG GP SP (fun γ => D1 γ ∧ D2 γ) a b := by
  refine ⟨fun ha => h2.1 (h1.1 ha), fun hb hg => ?_⟩
  have hc : c.panic.isSome = false := by
    cases hc : c.panic.isSome with
    | false => rfl
    | true => rw [h2.1 hc] at hb; cases hb
  obtain ⟨gc, s1⟩ := h1.2 hc hg
  obtain ⟨gb, s2⟩ := h2.2 hb gc
  exact ⟨gb, fun γ hγ => ⟨(s1 γ (s2 γ hγ).1).1, (s1 γ (s2 γ hγ).1).2, (s2 γ hγ).2⟩⟩

theorem gden_weaken {N : Nat} {g : G} {D D' : Subst → Prop} (h : DenG ord GP SP N g D) (w : ∀ γ, D γ → D' γ) :
    DenG ord GP SP N g D' := fun n hn a b hb =>
  ⟨(h n hn a b hb).1, fun hp hg => ⟨((h n hn a b hb).2 hp hg).1, fun γ hγ =>
    ⟨(((h n hn a b hb).2 hp hg).2 γ hγ).1, w γ (((h n hn a b hb).2 hp hg).2 γ hγ).2⟩⟩⟩

theorem gden_succeed (N : Nat) : DenG ord GP SP N .succeed fun _ => True := by
  intro n _ a b h
  cases n with
  | zero => exact h.elim
  | succ n => simp only [BigF] at h; subst h; exact ⟨id, fun _ hg => ⟨hg, fun γ hγ => ⟨hγ, trivial⟩⟩⟩

theorem gden_fail (N : Nat) (D : Subst → Prop) : DenG ord GP SP N .fail D := by
  intro n _ a b h
  cases n with
  | zero => exact h.elim
  | succ n => exact h.elim

theorem gden_conj {N : Nat} {g1 g2 : G} {D1 D2 : Subst → Prop} (h1 : DenG ord GP SP N g1 D1) (h2 : DenG ord GP SP N g2 D2) :
    DenG ord GP SP N (.conj g1 g2) fun γ => D1 γ ∧ D2 γ := by
  intro n hn a b h
  cases n with
  | zero => exact h.elim
  | succ n =>
    obtain ⟨c, b1, b2⟩ := h
    exact (h1 n (by omega) a c b1).trans (h2 n (by omega) c b b2)

theorem gden_conjD {N : Nat} {g1 g2 : G} {D1 D2 : Subst → Prop} (h1 : DenG ord GP SP N g1 D1) (h2 : DenG ord GP SP N g2 D2) :
    DenG ord GP SP N (.conjD g1 g2) fun γ => D1 γ ∧ D2 γ := by
  intro n hn a b h
  cases n with
  | zero => exact h.elim
  | succ n =>
    obtain ⟨c, b1, b2⟩ := h
    exact (h1 n (by omega) a c b1).trans (h2 n (by omega) c b b2)

/-- what a goal that is literally `succeed` denotes holds of every valuation a good unpoisoned state describes -/
theorem gden_of_succeed {N : Nat} {D : Subst → Prop} (h : DenG ord GP SP (N + 1) .succeed D) {a : State}
    (hp : a.panic.isSome = false) (hg : GP a) : ∀ γ, SP γ a → D γ := fun γ hγ =>
  (((h 1 (by omega) a a (by simp [BigF])).2 hp hg).2 γ hγ).2

theorem gden_mkConj {N : Nat} {g1 g2 : G} {D1 D2 : Subst → Prop} (h1 : DenG ord GP SP N g1 D1) (h2 : DenG ord GP SP N g2 D2) :
    DenG ord GP SP N (mkConj g1 g2) fun γ => D1 γ ∧ D2 γ := by
  unfold mkConj
  split
  · rename_i h
    simp only [Bool.and_eq_true, isSucceed_iff] at h
    obtain ⟨rfl, rfl⟩ := h
    intro n hn a b hb
    cases n with
    | zero => exact hb.elim
    | succ n =>
      simp only [BigF] at hb; subst hb
      refine ⟨id, fun hp hg => ⟨hg, fun γ hγ => ⟨hγ, ?_, ?_⟩⟩⟩
      · exact (((h1 (n + 1) hn a a (by simp [BigF])).2 hp hg).2 γ hγ).2
      · exact (((h2 (n + 1) hn a a (by simp [BigF])).2 hp hg).2 γ hγ).2
  · split
    · exact gden_fail _ _
    · exact gden_conj h1 h2

theorem gden_mkConjD {N : Nat} {g1 g2 : G} {D1 D2 : Subst → Prop} (h1 : DenG ord GP SP N g1 D1) (h2 : DenG ord GP SP N g2 D2) :
    DenG ord GP SP N (mkConjD g1 g2) fun γ => D1 γ ∧ D2 γ := by
  unfold mkConjD
  split
  · rename_i h
    simp only [Bool.and_eq_true, isSucceed_iff] at h
    obtain ⟨rfl, rfl⟩ := h
    intro n hn a b hb
    cases n with
    | zero => exact hb.elim
    | succ n =>
      simp only [BigF] at hb; subst hb
      refine ⟨id, fun hp hg => ⟨hg, fun γ hγ => ⟨hγ, ?_, ?_⟩⟩⟩
      · exact (((h1 (n + 1) hn a a (by simp [BigF])).2 hp hg).2 γ hγ).2
      · exact (((h2 (n + 1) hn a a (by simp [BigF])).2 hp hg).2 γ hγ).2
  · split
    · exact gden_fail _ _
    · exact gden_conjD h1 h2

theorem gden_alt {N : Nat} {g1 g2 : G} {D1 D2 : Subst → Prop} (h1 : DenG ord GP SP N g1 D1) (h2 : DenG ord GP SP N g2 D2) :
    DenG ord GP SP N (.alt g1 g2) fun γ => D1 γ ∨ D2 γ := by
  intro n hn a b h
  cases n with
  | zero => exact h.elim
  | succ n =>
    rcases h with h | h
    · exact gden_weaken h1 (fun _ => .inl) n (by omega) a b h
    · exact gden_weaken h2 (fun _ => .inr) n (by omega) a b h

theorem gden_altD {N : Nat} {g1 g2 : G} {D1 D2 : Subst → Prop} (h1 : DenG ord GP SP N g1 D1) (h2 : DenG ord GP SP N g2 D2) :
    DenG ord GP SP N (.altD g1 g2) fun γ => D1 γ ∨ D2 γ := by
  intro n hn a b h
  cases n with
  | zero => exact h.elim
  | succ n =>
    rcases h with h | h
    · exact gden_weaken h1 (fun _ => .inl) n (by omega) a b h
    · exact gden_weaken h2 (fun _ => .inr) n (by omega) a b h

theorem gden_fresh {N : Nat} {g : G} {D : Subst → Prop} (h : DenG ord GP SP N g D) : DenG ord GP SP N (.fresh g) D := by
  intro n hn a b hb
  cases n with
  | zero => exact hb.elim
  | succ n => exact h n (by omega) a b hb

/-- a relation call denotes what its body denotes, whatever fresh variables the body is built with -/
theorem gden_call (hbump : ∀ (a : State) (k : Nat), (GP a → GP { a with nextVar := k }) ∧ ∀ γ, SP γ { a with nextVar := k } → SP γ a)
    {N : Nat} {c : Call} {D : Subst → Prop} (h : ∀ m, DenG ord GP SP N (relBody ord c m).2 D) :
    DenG ord GP SP (N + 1) (.call c) D := by
  intro n hn a b hb
  cases n with
  | zero => exact hb.elim
  | succ n =>
    simp only [BigF] at hb
    have := h a.nextVar n (by omega) _ b hb
    exact ⟨this.1, fun hp hg => ⟨(this.2 hp ((hbump a _).1 hg)).1, fun γ hγ =>
      ⟨(hbump a _).2 γ ((this.2 hp ((hbump a _).1 hg)).2 γ hγ).1, ((this.2 hp ((hbump a _).1 hg)).2 γ hγ).2⟩⟩⟩

/-! ### lists of goals with their denotations -/


theorem gden_conjOfList {N : Nat} : ∀ (ps : List GD), (∀ p ∈ ps, DenG ord GP SP N p.1 p.2) →
    DenG ord GP SP N (conjOfList (ps.map Prod.fst)) fun γ => ∀ p ∈ ps, p.2 γ
  | [], _ => gden_weaken (gden_succeed N) fun _ _ _ h => nomatch h
  | p :: ps, h =>
    gden_weaken (gden_mkConj (h p List.mem_cons_self) (gden_conjOfList ps fun q hq => h q (List.mem_cons_of_mem _ hq)))
      fun γ ⟨h1, h2⟩ q hq => by
        rcases List.mem_cons.1 hq with rfl | hq
        · exact h1
        · exact h2 q hq

theorem gden_conjDOfList {N : Nat} : ∀ (ps : List GD), (∀ p ∈ ps, DenG ord GP SP N p.1 p.2) →
    DenG ord GP SP N (conjDOfList (ps.map Prod.fst)) fun γ => ∀ p ∈ ps, p.2 γ
  | [], _ => gden_weaken (gden_succeed N) fun _ _ _ h => nomatch h
  | p :: ps, h =>
    gden_weaken (gden_mkConjD (h p List.mem_cons_self) (gden_conjDOfList ps fun q hq => h q (List.mem_cons_of_mem _ hq)))
      fun γ ⟨h1, h2⟩ q hq => by
        rcases List.mem_cons.1 hq with rfl | hq
        · exact h1
        · exact h2 q hq

theorem gden_altOfList {N : Nat} : ∀ (ps : List GD), (∀ p ∈ ps, DenG ord GP SP N p.1 p.2) →
    DenG ord GP SP N (altOfList (ps.map Prod.fst)) fun γ => ∃ p ∈ ps, p.2 γ
  | [], _ => gden_fail _ _
  | p :: ps, h =>
    gden_weaken (gden_alt (h p List.mem_cons_self) (gden_altOfList ps fun q hq => h q (List.mem_cons_of_mem _ hq)))
      fun γ hγ => by
        rcases hγ with h1 | ⟨q, hq, h2⟩
        · exact ⟨p, List.mem_cons_self, h1⟩
        · exact ⟨q, List.mem_cons_of_mem _ hq, h2⟩

theorem gden_altDOfList {N : Nat} : ∀ (ps : List GD), (∀ p ∈ ps, DenG ord GP SP N p.1 p.2) →
    DenG ord GP SP N (altDOfList (ps.map Prod.fst)) fun γ => ∃ p ∈ ps, p.2 γ
  | [], _ => gden_fail _ _
  | p :: ps, h =>
    gden_weaken (gden_altD (h p List.mem_cons_self) (gden_altDOfList ps fun q hq => h q (List.mem_cons_of_mem _ hq)))
      fun γ hγ => by
        rcases hγ with h1 | ⟨q, hq, h2⟩
        · exact ⟨p, List.mem_cons_self, h1⟩
        · exact ⟨q, List.mem_cons_of_mem _ hq, h2⟩

theorem gden_conjL {N : Nat} (dfs : Bool) (ps : List GD) (h : ∀ p ∈ ps, DenG ord GP SP N p.1 p.2) :
    DenG ord GP SP N (conjLOf dfs (ps.map Prod.fst)) fun γ => ∀ p ∈ ps, p.2 γ := by
  unfold conjLOf
  cases dfs with
  | true => exact gden_conjDOfList ps h
  | false => exact gden_conjOfList ps h

theorem gden_condeOfClauses {N : Nat} : ∀ (css : List (List GD)), (∀ c ∈ css, ∀ p ∈ c, DenG ord GP SP N p.1 p.2) →
    DenG ord GP SP N (condeOfClauses (css.map fun c => c.map Prod.fst)) fun γ => ∃ c ∈ css, ∀ p ∈ c, p.2 γ
  | [], _ => gden_fail _ _
  | c :: css, h => by
    have h1 := gden_conjOfList (ord := ord) (N := N) c (h c List.mem_cons_self)
    have h2 := gden_condeOfClauses css fun d hd => h d (List.mem_cons_of_mem _ hd)
    show DenG ord GP SP N (.alt (conjOfList (c.map Prod.fst)) (condeOfClauses (css.map fun c => c.map Prod.fst))) _
    refine gden_weaken (gden_alt h1 h2) fun γ hγ => ?_
    rcases hγ with h1 | ⟨d, hd, h2⟩
    · exact ⟨c, List.mem_cons_self, h1⟩
    · exact ⟨d, List.mem_cons_of_mem _ hd, h2⟩

theorem gden_condeDOfClauses {N : Nat} : ∀ (css : List (List GD)), (∀ c ∈ css, ∀ p ∈ c, DenG ord GP SP N p.1 p.2) →
    DenG ord GP SP N (condeDOfClauses (css.map fun c => c.map Prod.fst)) fun γ => ∃ c ∈ css, ∀ p ∈ c, p.2 γ
  | [], _ => gden_fail _ _
  | c :: css, h => by
    have h1 := gden_conjDOfList (ord := ord) (N := N) c (h c List.mem_cons_self)
    have h2 := gden_condeDOfClauses css fun d hd => h d (List.mem_cons_of_mem _ hd)
    show DenG ord GP SP N (.altD (conjDOfList (c.map Prod.fst)) (condeDOfClauses (css.map fun c => c.map Prod.fst))) _
    refine gden_weaken (gden_altD h1 h2) fun γ hγ => ?_
    rcases hγ with h1 | ⟨d, hd, h2⟩
    · exact ⟨c, List.mem_cons_self, h1⟩
    · exact ⟨d, List.mem_cons_of_mem _ hd, h2⟩

theorem gden_one {N : Nat} (dfs : Bool) (css : List (List GD)) (h : ∀ c ∈ css, ∀ p ∈ c, DenG ord GP SP N p.1 p.2) :
    DenG ord GP SP N (oneOf dfs (css.map fun c => c.map Prod.fst)) fun γ => ∃ c ∈ css, ∀ p ∈ c, p.2 γ := by
  unfold oneOf
  cases dfs with
  | true => exact gden_weaken (gden_mkConjD (gden_condeDOfClauses css h) (gden_succeed N)) fun γ hγ => hγ.1
  | false => exact gden_weaken (gden_mkConj (gden_condeOfClauses css h) (gden_succeed N)) fun γ hγ => hγ.1

/-! ### the bodies of the library relations denote their specifications -/

theorem gden_bad (N : Nat) (D : Subst → Prop) (msg : String) : DenG ord GP SP N (.atom (liftRes fun _ => .panic msg)) D := by
  intro n _ a b h
  cases n with
  | zero => exact h.elim
  | succ n =>
    simp only [BigF, liftRes] at h
    cases hp : a.panic.isSome with
    | true =>
      simp only [hp, if_true, Option.some.injEq] at h
      subst h
      exact ⟨id, fun hb => by rw [hp] at hb; cases hb⟩
    | false =>
      simp only [hp, Bool.false_eq_true, if_false, Option.some.injEq] at h
      subst h
      exact ⟨fun _ => rfl, fun hb => by cases hb⟩

section Bodies
variable (N : Nat) (heq : ∀ u v, DenG ord GP SP N (eqG ord u v) fun γ => apply γ u = apply γ v)
  (hneq : ∀ u v, DenG ord GP SP N (diseqG ord u v) fun γ => apply γ u ≠ apply γ v)
  (ih : ∀ c, DenG ord GP SP N (.call c) (RelSem c))
include heq hneq ih

theorem gden_member (x l : Term) (d : Bool) (m : Nat) :
    DenG ord GP SP N (relBody ord ⟨.member, [x, l], d⟩ m).2 (RelSem ⟨.member, [x, l], d⟩) := by
  let v (i : Nat) : Term := .var (m + i)
  have e : (relBody ord ⟨.member, [x, l], d⟩ m).2 = oneOf d (([
      [(eqG ord l (.cons (v 0) (v 1)), fun γ => apply γ l = apply γ (.cons (v 0) (v 1))),
       (eqG ord (v 0) x, fun γ => apply γ (v 0) = apply γ x)],
      [(eqG ord l (.cons (v 3) (v 2)), fun γ => apply γ l = apply γ (.cons (v 3) (v 2))),
       (.call ⟨.member, [x, v 2], d⟩, RelSem ⟨.member, [x, v 2], d⟩)]] : List (List GD)).map fun c => c.map Prod.fst) := rfl
  rw [e]
  refine gden_weaken (gden_one d _ ?_) ?_
  · intro c hc p hp
    simp only [List.mem_cons, List.not_mem_nil, or_false] at hc
    rcases hc with rfl | rfl <;> simp only [List.mem_cons, List.not_mem_nil, or_false] at hp <;>
      rcases hp with rfl | rfl <;> first | exact heq _ _ | exact ih _
  · rintro γ ⟨c, hc, hall⟩
    simp only [List.mem_cons, List.not_mem_nil, or_false] at hc
    simp only [RelSem]
    rcases hc with rfl | rfl
    · have h1 := hall _ List.mem_cons_self
      have h2 := hall _ (List.mem_cons_of_mem _ List.mem_cons_self)
      simp only [apply, v] at h1 h2
      rw [h1, ← h2]
      exact .head _ _
    · have h1 := hall _ List.mem_cons_self
      have h2 := hall _ (List.mem_cons_of_mem _ List.mem_cons_self)
      simp only [apply, RelSem, v] at h1 h2
      rw [h1]
      exact .tail h2

theorem gden_member1 (x l : Term) (d : Bool) (m : Nat) :
    DenG ord GP SP N (relBody ord ⟨.member1, [x, l], d⟩ m).2 (RelSem ⟨.member1, [x, l], d⟩) := by
  let v (i : Nat) : Term := .var (m + i)
  let inner : List GD := [(diseqG ord (v 3) x, fun γ => apply γ (v 3) ≠ apply γ x),
      (.call ⟨.member1, [x, v 2], d⟩, RelSem ⟨.member1, [x, v 2], d⟩)]
  have e : (relBody ord ⟨.member1, [x, l], d⟩ m).2 = oneOf d (([
      [(eqG ord l (.cons (v 0) (v 1)), fun γ => apply γ l = apply γ (.cons (v 0) (v 1))),
       (eqG ord (v 0) x, fun γ => apply γ (v 0) = apply γ x)],
      [(eqG ord l (.cons (v 3) (v 2)), fun γ => apply γ l = apply γ (.cons (v 3) (v 2))),
       (conjLOf d (inner.map Prod.fst), fun γ => ∀ p ∈ inner, p.2 γ)]] : List (List GD)).map
      fun c => c.map Prod.fst) := rfl
  rw [e]
  refine gden_weaken (gden_one d _ ?_) ?_
  · intro c hc p hp
    simp only [List.mem_cons, List.not_mem_nil, or_false] at hc
    rcases hc with rfl | rfl <;> simp only [List.mem_cons, List.not_mem_nil, or_false] at hp <;>
      rcases hp with rfl | rfl <;> first
        | exact heq _ _
        | (refine gden_conjL d _ ?_
           intro q hq
           simp only [inner, List.mem_cons, List.not_mem_nil, or_false] at hq
           rcases hq with rfl | rfl
           · exact hneq _ _
           · exact ih _)
  · rintro γ ⟨c, hc, hall⟩
    simp only [List.mem_cons, List.not_mem_nil, or_false] at hc
    simp only [RelSem]
    rcases hc with rfl | rfl
    · have h1 := hall _ List.mem_cons_self
      have h2 := hall _ (List.mem_cons_of_mem _ List.mem_cons_self)
      simp only [apply, v] at h1 h2
      rw [h1, ← h2]
      exact .head _ _
    · have h1 := hall _ List.mem_cons_self
      have h2 := hall _ (List.mem_cons_of_mem _ List.mem_cons_self)
      have h3 := h2 _ List.mem_cons_self
      have h4 := h2 _ (List.mem_cons_of_mem _ List.mem_cons_self)
      simp only [apply, RelSem, v] at h1 h3 h4
      rw [h1]
      exact .tail h3 h4

theorem gden_append (l s ls : Term) (d : Bool) (m : Nat) :
    DenG ord GP SP N (relBody ord ⟨.append, [l, s, ls], d⟩ m).2 (RelSem ⟨.append, [l, s, ls], d⟩) := by
  let v (i : Nat) : Term := .var (m + i)
  let t := Term.ofList [l, s, ls]
  have e : (relBody ord ⟨.append, [l, s, ls], d⟩ m).2 = oneOf d (([
      [(eqG ord t (Term.ofList [.nil, v 0, v 0]), fun γ => apply γ t = apply γ (Term.ofList [.nil, v 0, v 0]))],
      [(eqG ord t (Term.ofList [.cons (v 1) (v 2), v 4, .cons (v 1) (v 3)]),
          fun γ => apply γ t = apply γ (Term.ofList [.cons (v 1) (v 2), v 4, .cons (v 1) (v 3)])),
       (.call ⟨.append, [v 2, v 4, v 3], d⟩, RelSem ⟨.append, [v 2, v 4, v 3], d⟩)]] : List (List GD)).map
      fun c => c.map Prod.fst) := rfl
  rw [e]
  refine gden_weaken (gden_one d _ ?_) ?_
  · intro c hc p hp
    simp only [List.mem_cons, List.not_mem_nil, or_false] at hc
    rcases hc with rfl | rfl <;> simp only [List.mem_cons, List.not_mem_nil, or_false] at hp <;>
      rcases hp with rfl | rfl <;> first | exact heq _ _ | exact ih _
  · rintro γ ⟨c, hc, hall⟩
    simp only [List.mem_cons, List.not_mem_nil, or_false] at hc
    simp only [RelSem]
    rcases hc with rfl | rfl
    · have h1 := hall _ List.mem_cons_self
      simp only [apply, Term.ofList, t, v, Term.cons.injEq, and_true] at h1
      obtain ⟨a1, a2, a3⟩ := h1
      rw [a1, a2, a3]
      exact .nil _
    · have h1 := hall _ List.mem_cons_self
      have h2 := hall _ (List.mem_cons_of_mem _ List.mem_cons_self)
      simp only [apply, Term.ofList, t, v, Term.cons.injEq, and_true, RelSem] at h1 h2
      obtain ⟨a1, a2, a3⟩ := h1
      rw [a1, a2, a3]
      exact .cons h2

theorem gden_rember (x ls out : Term) (d : Bool) (m : Nat) :
    DenG ord GP SP N (relBody ord ⟨.rember, [x, ls, out], d⟩ m).2 (RelSem ⟨.rember, [x, ls, out], d⟩) := by
  let v (i : Nat) : Term := .var (m + i)
  let t := Term.ofList [ls, out]
  have e : (relBody ord ⟨.rember, [x, ls, out], d⟩ m).2 = oneOf d (([
      [(eqG ord t (Term.ofList [.nil, .nil]), fun γ => apply γ t = apply γ (Term.ofList [.nil, .nil]))],
      [(eqG ord t (Term.ofList [.cons (v 0) (v 1), v 1]), fun γ => apply γ t = apply γ (Term.ofList [.cons (v 0) (v 1), v 1])),
       (eqG ord (v 0) x, fun γ => apply γ (v 0) = apply γ x)],
      [(eqG ord t (Term.ofList [.cons (v 2) (v 3), .cons (v 2) (v 4)]),
          fun γ => apply γ t = apply γ (Term.ofList [.cons (v 2) (v 3), .cons (v 2) (v 4)])),
       (diseqG ord (v 2) x, fun γ => apply γ (v 2) ≠ apply γ x),
       (.call ⟨.rember, [x, v 3, v 4], d⟩, RelSem ⟨.rember, [x, v 3, v 4], d⟩)]] : List (List GD)).map
      fun c => c.map Prod.fst) := rfl
  rw [e]
  refine gden_weaken (gden_one d _ ?_) ?_
  · intro c hc p hp
    simp only [List.mem_cons, List.not_mem_nil, or_false] at hc
    rcases hc with rfl | rfl | rfl <;> simp only [List.mem_cons, List.not_mem_nil, or_false] at hp <;>
      rcases hp with rfl | rfl | rfl | rfl <;> first | exact heq _ _ | exact hneq _ _ | exact ih _
  · rintro γ ⟨c, hc, hall⟩
    simp only [List.mem_cons, List.not_mem_nil, or_false] at hc
    simp only [RelSem]
    rcases hc with rfl | rfl | rfl
    · have h1 := hall _ List.mem_cons_self
      simp only [apply, Term.ofList, t, Term.cons.injEq, and_true] at h1
      rw [h1.1, h1.2]
      exact .nil _
    · have h1 := hall _ List.mem_cons_self
      have h2 := hall _ (List.mem_cons_of_mem _ List.mem_cons_self)
      simp only [apply, Term.ofList, t, v, Term.cons.injEq, and_true] at h1 h2
      rw [h1.1, h1.2, h2]
      exact .hit _ _
    · have h1 := hall _ List.mem_cons_self
      have h2 := hall _ (List.mem_cons_of_mem _ List.mem_cons_self)
      have h3 := hall _ (List.mem_cons_of_mem _ (List.mem_cons_of_mem _ List.mem_cons_self))
      simp only [apply, Term.ofList, t, v, Term.cons.injEq, and_true, RelSem] at h1 h2 h3
      rw [h1.1, h1.2]
      exact .skip h2 h3

theorem gden_permute (xl yl : Term) (d : Bool) (m : Nat) :
    DenG ord GP SP N (relBody ord ⟨.permute, [xl, yl], d⟩ m).2 (RelSem ⟨.permute, [xl, yl], d⟩) := by
  let v (i : Nat) : Term := .var (m + i)
  let t := Term.ofList [xl, yl]
  let inner : List GD := [(.call ⟨.permute, [v 0, v 3], d⟩, RelSem ⟨.permute, [v 0, v 3], d⟩),
      (.call ⟨.rember, [v 1, yl, v 3], d⟩, RelSem ⟨.rember, [v 1, yl, v 3], d⟩)]
  have e : (relBody ord ⟨.permute, [xl, yl], d⟩ m).2 = oneOf d (([
      [(eqG ord t (Term.ofList [.nil, .nil]), fun γ => apply γ t = apply γ (Term.ofList [.nil, .nil]))],
      [(eqG ord t (Term.ofList [.cons (v 1) (v 0), v 2]), fun γ => apply γ t = apply γ (Term.ofList [.cons (v 1) (v 0), v 2])),
       (.fresh (conjLOf d (inner.map Prod.fst)), fun γ => ∀ p ∈ inner, p.2 γ)]] : List (List GD)).map
      fun c => c.map Prod.fst) := rfl
  rw [e]
  refine gden_weaken (gden_one d _ ?_) ?_
  · intro c hc p hp
    simp only [List.mem_cons, List.not_mem_nil, or_false] at hc
    rcases hc with rfl | rfl <;> simp only [List.mem_cons, List.not_mem_nil, or_false] at hp <;>
      rcases hp with rfl | rfl <;> first
        | exact heq _ _
        | (refine gden_fresh (gden_conjL d _ ?_)
           intro q hq
           simp only [inner, List.mem_cons, List.not_mem_nil, or_false] at hq
           rcases hq with rfl | rfl <;> exact ih _)
  · rintro γ ⟨c, hc, hall⟩
    simp only [List.mem_cons, List.not_mem_nil, or_false] at hc
    simp only [RelSem]
    rcases hc with rfl | rfl
    · have h1 := hall _ List.mem_cons_self
      simp only [apply, Term.ofList, t, Term.cons.injEq, and_true] at h1
      rw [h1.1, h1.2]
      exact .nil
    · have h1 := hall _ List.mem_cons_self
      have h2 := hall _ (List.mem_cons_of_mem _ List.mem_cons_self)
      have h3 := h2 _ List.mem_cons_self
      have h4 := h2 _ (List.mem_cons_of_mem _ List.mem_cons_self)
      simp only [apply, Term.ofList, t, v, Term.cons.injEq, and_true, RelSem] at h1 h3 h4
      rw [h1.1]
      exact .cons h3 h4

theorem gden_distinct (l : Term) (d : Bool) (m : Nat) :
    DenG ord GP SP N (relBody ord ⟨.distinct, [l], d⟩ m).2 (RelSem ⟨.distinct, [l], d⟩) := by
  let v (i : Nat) : Term := .var (m + i)
  have e : (relBody ord ⟨.distinct, [l], d⟩ m).2 = oneOf d (([
      [(eqG ord l .nil, fun γ => apply γ l = apply γ .nil)],
      [(eqG ord l (.cons (v 0) .nil), fun γ => apply γ l = apply γ (.cons (v 0) .nil))],
      [(eqG ord l (.cons (v 3) (.cons (v 2) (v 1))), fun γ => apply γ l = apply γ (.cons (v 3) (.cons (v 2) (v 1)))),
       (diseqG ord (v 3) (v 2), fun γ => apply γ (v 3) ≠ apply γ (v 2)),
       (.call ⟨.distinct, [.cons (v 3) (v 1)], d⟩, RelSem ⟨.distinct, [.cons (v 3) (v 1)], d⟩),
       (.call ⟨.distinct, [.cons (v 2) (v 1)], d⟩, RelSem ⟨.distinct, [.cons (v 2) (v 1)], d⟩)]] : List (List GD)).map
      fun c => c.map Prod.fst) := rfl
  rw [e]
  refine gden_weaken (gden_one d _ ?_) ?_
  · intro c hc p hp
    simp only [List.mem_cons, List.not_mem_nil, or_false] at hc
    rcases hc with rfl | rfl | rfl <;> simp only [List.mem_cons, List.not_mem_nil, or_false] at hp <;>
      rcases hp with rfl | rfl | rfl | rfl <;> first | exact heq _ _ | exact hneq _ _ | exact ih _
  · rintro γ ⟨c, hc, hall⟩
    simp only [List.mem_cons, List.not_mem_nil, or_false] at hc
    simp only [RelSem]
    rcases hc with rfl | rfl | rfl
    · have h1 := hall _ List.mem_cons_self
      simp only [apply] at h1
      rw [h1]
      exact .nil
    · have h1 := hall _ List.mem_cons_self
      simp only [apply] at h1
      rw [h1]
      exact .one _
    · have h1 := hall _ List.mem_cons_self
      have h2 := hall _ (List.mem_cons_of_mem _ List.mem_cons_self)
      have h3 := hall _ (List.mem_cons_of_mem _ (List.mem_cons_of_mem _ List.mem_cons_self))
      have h4 := hall _ (List.mem_cons_of_mem _ (List.mem_cons_of_mem _ (List.mem_cons_of_mem _ List.mem_cons_self)))
      simp only [apply, v, RelSem] at h1 h2 h3 h4
      rw [h1]
      exact .more h2 h3 h4

omit heq hneq in
theorem gden_spin0 (d : Bool) (m : Nat) : DenG ord GP SP N (relBody ord ⟨.spin, [], d⟩ m).2 (RelSem ⟨.spin, [], d⟩) := by
  have e : (relBody ord ⟨.spin, [], d⟩ m).2 =
      conjLOf d (([(.call ⟨.spin, [], d⟩, RelSem ⟨.spin, [], d⟩)] : List GD).map Prod.fst) := rfl
  rw [e]
  refine gden_weaken (gden_conjL d _ ?_) fun γ h => h _ List.mem_cons_self
  intro q hq
  simp only [List.mem_cons, List.not_mem_nil, or_false] at hq
  subst hq
  exact ih _

omit heq hneq in
theorem gden_spin1 (a : Term) (d : Bool) (m : Nat) : DenG ord GP SP N (relBody ord ⟨.spin, [a], d⟩ m).2 (RelSem ⟨.spin, [a], d⟩) := by
  let inner : List GD := [(.call ⟨.spin, [a], d⟩, RelSem ⟨.spin, [a], d⟩)]
  let outer : List GD := [(.fresh (conjLOf d (inner.map Prod.fst)), fun γ => ∀ p ∈ inner, p.2 γ)]
  have e : (relBody ord ⟨.spin, [a], d⟩ m).2 = conjLOf d (outer.map Prod.fst) := rfl
  rw [e]
  refine gden_weaken (gden_conjL d _ ?_) fun γ h => (h _ List.mem_cons_self) _ List.mem_cons_self
  intro q hq
  simp only [outer, List.mem_cons, List.not_mem_nil, or_false] at hq
  subst hq
  refine gden_fresh (gden_conjL d _ ?_)
  intro q hq
  simp only [inner, List.mem_cons, List.not_mem_nil, or_false] at hq
  subst hq
  exact ih _

/-- every relation body denotes the relation's specification, given that the calls inside do -/
theorem gden_body (c : Call) (m : Nat) : DenG ord GP SP N (relBody ord c m).2 (RelSem c) := by
  obtain ⟨rel, args, d⟩ := c
  cases rel with
  | member =>
    rcases args with _ | ⟨a1, _ | ⟨a2, _ | ⟨a3, rest⟩⟩⟩
    · exact gden_bad N _ _
    · exact gden_bad N _ _
    · exact gden_member N heq hneq ih _ _ _ _
    · exact gden_bad N _ _
  | member1 =>
    rcases args with _ | ⟨a1, _ | ⟨a2, _ | ⟨a3, rest⟩⟩⟩
    · exact gden_bad N _ _
    · exact gden_bad N _ _
    · exact gden_member1 N heq hneq ih _ _ _ _
    · exact gden_bad N _ _
  | append =>
    rcases args with _ | ⟨a1, _ | ⟨a2, _ | ⟨a3, _ | ⟨a4, rest⟩⟩⟩⟩
    · exact gden_bad N _ _
    · exact gden_bad N _ _
    · exact gden_bad N _ _
    · exact gden_append N heq hneq ih _ _ _ _ _
    · exact gden_bad N _ _
  | rember =>
    rcases args with _ | ⟨a1, _ | ⟨a2, _ | ⟨a3, _ | ⟨a4, rest⟩⟩⟩⟩
    · exact gden_bad N _ _
    · exact gden_bad N _ _
    · exact gden_bad N _ _
    · exact gden_rember N heq hneq ih _ _ _ _ _
    · exact gden_bad N _ _
  | permute =>
    rcases args with _ | ⟨a1, _ | ⟨a2, _ | ⟨a3, rest⟩⟩⟩
    · exact gden_bad N _ _
    · exact gden_bad N _ _
    · exact gden_permute N heq hneq ih _ _ _ _
    · exact gden_bad N _ _
  | distinct =>
    rcases args with _ | ⟨a1, _ | ⟨a2, rest⟩⟩
    · exact gden_bad N _ _
    · exact gden_distinct N heq hneq ih _ _ _
    · exact gden_bad N _ _
  | spin =>
    rcases args with _ | ⟨a1, _ | ⟨a2, rest⟩⟩
    · exact gden_spin0 N ih _ _
    · exact gden_spin1 N ih _ _ _
    · exact gden_bad N _ _

end Bodies

/-- SOUNDNESS OF THE LIBRARY RELATIONS for any notion of well-formed state and described valuation that `==`/`!=`
    respect and the variable counter does not touch -/
theorem gden_rel (hbump : ∀ (a : State) (k : Nat), (GP a → GP { a with nextVar := k }) ∧ ∀ γ, SP γ { a with nextVar := k } → SP γ a)
    (heq : ∀ N u v, DenG ord GP SP N (eqG ord u v) fun γ => apply γ u = apply γ v)
    (hneq : ∀ N u v, DenG ord GP SP N (diseqG ord u v) fun γ => apply γ u ≠ apply γ v) :
    ∀ (N : Nat) (c : Call), DenG ord GP SP N (.call c) (RelSem c)
  | 0, _ => fun n hn a b h => by
    have : n = 0 := by omega
    subst this
    exact h.elim
  | N + 1, c => gden_call hbump fun m => gden_body N (heq N) (hneq N) (gden_rel hbump heq hneq N) c m

end
end Pv
