/-
  `reify(x)` AS A GOAL, ON THE ENGINE, from a state without finite domains: `enforce_constraints_fd` does nothing
  (`force_ans` finds no domain, `verify_all_bound` has nothing to check, the `onceo` over the — empty — list of domain
  variables succeeds once) and the final atom computes `reifyState`.  So the goal delivers EXACTLY ONE state, the one
  `C02_reported_answer` (Props/C02Answer.lean) speaks about.
-/
import PvModel.Proofs.EnforceKeys
import PvModel.Proofs.Reify
namespace Pv
open State Term Goal FD

section Id
variable [Mode]
variable (dfs : Call → State → State × G)

/-- a goal that, from a state without domains, delivers that state and nothing else (unless it runs out of the model's
    fuel, which poisons a result), and lets a poisoned state through -/
def IdOK (g : G) : Prop :=
  (∀ N s zs, s.dstore = [] → s.panic = none → evalRef dfs N g s = some zs → (∀ t ∈ zs, t.panic = none) → zs = [s]) ∧
  (∀ N s zs, s.panic ≠ none → evalRef dfs N g s = some zs → s ∈ zs) ∧
  g.isFail = false

theorem idOK_succeed : IdOK dfs (.succeed : G) := by
  refine ⟨fun N s zs _ _ h _ => ?_, fun N s zs _ h => ?_, rfl⟩
  · cases N with
    | zero => simp [evalRef] at h
    | succ N => simp only [evalRef, Option.some.injEq] at h; exact h.symm
  · cases N with
    | zero => simp [evalRef] at h
    | succ N => simp only [evalRef, Option.some.injEq] at h; subst h; exact List.mem_singleton.2 rfl

theorem idOK_conj {g1 g2 : G} (h1 : IdOK dfs g1) (h2 : IdOK dfs g2) : IdOK dfs (.conj g1 g2) := by
  refine ⟨fun N s zs hd hp h hall => ?_, fun N s zs hp h => ?_, rfl⟩
  · cases N with
    | zero => simp [evalRef] at h
    | succ N =>
      simp only [evalRef] at h
      cases hx : evalRef dfs N g1 s with
      | none => rw [hx] at h; simp at h
      | some xs =>
        rw [hx] at h
        simp only at h
        have hxs : ∀ t ∈ xs, t.panic = none := fun t ht => by
          cases hpt : t.panic with
          | none => rfl
          | some site =>
            obtain ⟨ys, e⟩ := flatMapM_some_of_mem h t ht
            have : t ∈ ys := h2.2.1 N t ys (by rw [hpt]; simp) e
            have := hall t ((flatMapM_mem h t).2 ⟨t, ht, ys, e, this⟩)
            rw [hpt] at this; cases this
        have e1 := h1.1 N s xs hd hp hx hxs
        subst e1
        obtain ⟨ys, ws, f1, f2, rfl⟩ := flatMapM_cons_some h
        simp only [flatMapM, Option.some.injEq] at f2
        subst f2
        rw [List.append_nil] at hall ⊢
        exact h2.1 N s ys hd hp f1 hall
  · cases N with
    | zero => simp [evalRef] at h
    | succ N =>
      simp only [evalRef] at h
      cases hx : evalRef dfs N g1 s with
      | none => rw [hx] at h; simp at h
      | some xs =>
        rw [hx] at h
        simp only at h
        have hs1 := h1.2.1 N s xs hp hx
        obtain ⟨ys, e⟩ := flatMapM_some_of_mem h s hs1
        exact (flatMapM_mem h s).2 ⟨s, hs1, ys, e, h2.2.1 N s ys hp e⟩

theorem idOK_mkConj {g1 g2 : G} (h1 : IdOK dfs g1) (h2 : IdOK dfs g2) : IdOK dfs (mkConj g1 g2) := by
  unfold mkConj
  split
  · exact idOK_succeed dfs
  · split
    · rename_i hf
      rw [h1.2.2, h2.2.2] at hf
      simp at hf
    · exact idOK_conj dfs h1 h2

theorem idOK_conjOfList : ∀ gs : List G, (∀ g ∈ gs, IdOK dfs g) → IdOK dfs (Goal.conjOfList gs)
  | [], _ => idOK_succeed dfs
  | g :: gs, h => idOK_mkConj dfs (h g (List.mem_cons_self ..))
      (idOK_conjOfList gs fun x hx => h x (List.mem_cons_of_mem _ hx))

/-- `force_ans` on any term does nothing when no variable has a domain -/
theorem forceAns_idOK (ord : Order) : ∀ (n : Nat) (t : Term), IdOK dfs (forceAns ord n t)
  | 0, t => by
    refine ⟨fun N s zs _ hp h hall => ?_, fun N s zs hp h => ?_, rfl⟩
    · cases N with
      | zero => simp [evalRef] at h
      | succ N =>
        simp only [forceAns, evalRef, liftRes, hp, Option.isSome_none, Bool.false_eq_true, if_false,
          Option.toList_some, Option.some.injEq] at h
        subst h
        have := hall _ (List.mem_singleton.2 rfl)
        simp at this
    · cases N with
      | zero => simp [evalRef] at h
      | succ N =>
        have hps : s.panic.isSome = true := by cases hq : s.panic with | none => exact absurd hq hp | some _ => rfl
        simp only [forceAns, evalRef, liftRes, hps, if_true, Option.toList_some, Option.some.injEq] at h
        subst h
        exact List.mem_singleton.2 rfl
  | n + 1, t => by
    have ihn := forceAns_idOK ord n
    refine ⟨fun N s zs hd hp h hall => ?_, fun N s zs hp h => ?_, rfl⟩
    · cases N with
      | zero => simp [forceAns, evalRef] at h
      | succ N =>
        simp only [forceAns, evalRef, id, hp, Option.isSome_none, Bool.false_eq_true, if_false] at h
        split at h
        · rename_i xv hw
          have hg : s.dget xv = none := by simp [State.dget, hd]
          rw [hg] at h
          exact (idOK_succeed dfs).1 N s zs hd hp h hall
        · rename_i hd' tl hw
          exact (idOK_conjOfList dfs [forceAns ord n hd', forceAns ord n tl] (fun g hg => by
            simp only [List.mem_cons, List.not_mem_nil, or_false] at hg
            rcases hg with rfl | rfl
            · exact ihn hd'
            · exact ihn tl)).1 N s zs hd hp h hall
        · rename_i tag args hw
          exact (idOK_conjOfList dfs ((compFields args).map (forceAns ord n)) (fun g hg => by
            obtain ⟨x, _, rfl⟩ := List.mem_map.1 hg
            exact ihn x)).1 N s zs hd hp h hall
        · exact (idOK_succeed dfs).1 N s zs hd hp h hall
    · cases N with
      | zero => simp [forceAns, evalRef] at h
      | succ N =>
        have hps : s.panic.isSome = true := by cases hq : s.panic with | none => exact absurd hq hp | some _ => rfl
        simp only [forceAns, evalRef, id, hps, if_true] at h
        exact (idOK_succeed dfs).2.1 N s zs hp h

end Id
section Engine
variable [Mode] {ord : Order} (ho : OrderOK ord) (dfs : Call → State → State × G) (pf M : Nat)

theorem ansS_conj {g1 g2 : G} {s : State} {xs zs : List State}
    (h1 : AnsS (solveAt dfs pf (M + 1)) (solveAt dfs pf (M + 1) g1 s) xs)
    (hb : AnsB (solveAt dfs pf (M + 1)) g2 xs zs) :
    AnsS (solveAt dfs pf (M + 1)) (solveAt dfs pf (M + 1) (.conj g1 g2) s) zs := by
  show AnsS _ (Strm.lazyBind (.pause s g1) g2) zs
  exact lazyBind_ans (topOK_solveAt dfs pf M) (.pause h1) hb

theorem ansB_single {g : G} {a : State} {ys : List State}
    (h : AnsS (solveAt dfs pf (M + 1)) (solveAt dfs pf (M + 1) g a) ys) :
    AnsB (solveAt dfs pf (M + 1)) g [a] ys := by
  have := AnsB.cons (top := solveAt dfs pf (M + 1)) h (AnsB.nil (g := g))
  rwa [List.append_nil] at this

theorem ansS_conj_single {g1 g2 : G} {s b : State} {zs : List State}
    (h1 : AnsS (solveAt dfs pf (M + 1)) (solveAt dfs pf (M + 1) g1 s) [b])
    (h2 : AnsS (solveAt dfs pf (M + 1)) (solveAt dfs pf (M + 1) g2 b) zs) :
    AnsS (solveAt dfs pf (M + 1)) (solveAt dfs pf (M + 1) (.conj g1 g2) s) zs :=
  ansS_conj dfs pf M h1 (ansB_single dfs pf M h2)

theorem ansS_succeed (s : State) : AnsS (solveAt dfs pf (M + 1)) (solveAt dfs pf (M + 1) (.succeed : G) s) [s] := .unit s

include ho in
/-- the second goal of `enforce_constraints_fd` from a state without domains and without finite-domain propagators:
    one answer, the state itself -/
theorem enforce_dyn_tree (s : State) (hd : s.dstore = []) (hp : s.panic = none)
    (hst : ∀ p ∈ s.store, p.2.isFD = false) :
    AnsS (solveAt dfs (pf + 2) (M + 2))
      (solveAt dfs (pf + 2) (M + 2) (.dyn id fun st =>
        if st.panic.isSome then .succeed
        else if !st.allBound then .atom (liftRes fun _ => .panic "unbound-domain")
        else Goal.onceo [forceAns ord forceFuel (Term.ofList ((ord.ds st.dstore).map fun p => Term.var p.1))]) s) [s] := by
  have hab : s.allBound = true := by
    unfold State.allBound
    rw [List.all_eq_true]
    intro p hp'
    simp [hst p hp']
  have hds : ord.ds s.dstore = [] := by
    have := ho.2.2 s.dstore
    rw [hd] at this ⊢
    exact this.eq_nil
  have hdrain : drainF (solveAt dfs (pf + 2) (M + 1)) (pf + 2)
      (start dfs (solveAt dfs (pf + 2) (M + 1)) (pf + 2) (Goal.conjOfList [forceAns ord forceFuel .nil]) s) = some [s] := by
    have e1 : Goal.conjOfList [forceAns ord forceFuel .nil] = .conj (forceAns ord forceFuel .nil) .succeed := by
      show mkConj _ .succeed = _
      unfold mkConj; rfl
    rw [e1]
    show drainF _ (pf + 2) (Strm.lazyBind (.pause s (forceAns ord forceFuel .nil)) .succeed) = _
    simp only [Strm.lazyBind, Goal.isSucceed, if_true, drainF, step, solveAt]
    show drainF _ (pf + 1) (start dfs _ (pf + 2) (forceAns ord (999 + 1) .nil) s) = _
    simp only [forceAns, start, id, hp, Option.isSome_none, Bool.false_eq_true, if_false, walk, drainF]
  have hon := onceo_of_drain (solveAt dfs (pf + 2) (M + 1)) dfs (pf + 2) [forceAns ord forceFuel .nil] s [s] hdrain
  show AnsS _ (start dfs (solveAt dfs (pf + 2) (M + 1)) (pf + 2) (.dyn id _) s) [s]
  simp only [start, id, hp, Option.isSome_none, Bool.false_eq_true, if_false, hab, Bool.not_true, hds, List.map_nil, Term.ofList]
  rw [hon]
  exact .unit s

include ho in
/-- `reify(x)` as a goal, on the engine (nesting level ≥ 2, peek fuel ≥ 2), from an unpoisoned state without finite
    domains and finite-domain propagators, whenever `force_ans` finishes within the model's fuel: EXACTLY ONE answer,
    the reified state -/
theorem reifyG_tree (s : State) (hd : s.dstore = []) (hp : s.panic = none) (hst : ∀ p ∈ s.store, p.2.isFD = false)
    (x : Term)
    (hfa : ∃ N zs, evalRef dfs N (forceAns ord forceFuel x) s = some zs ∧ ∀ t ∈ zs, t.panic = none) :
    AnsS (solveAt dfs (pf + 2) (M + 2)) (solveAt dfs (pf + 2) (M + 2) (reifyG ord x) s) [reifyState ord s x] := by
  obtain ⟨N, zs, hev, hall⟩ := hfa
  have hz := (forceAns_idOK dfs ord forceFuel x).1 N s zs hd hp hev hall
  subst hz
  obtain ⟨ys, hys, py⟩ := ref_perm dfs (pf + 2) (M + 1) N _ s [s] hev (M + 1)
  have : ys = [s] := (List.singleton_perm.1 py).symm ▸ rfl
  subst this
  -- enforce_constraints_fd
  have hdyn := enforce_dyn_tree ho dfs pf M s hd hp hst
  have hdyn' := ansS_conj_single dfs (pf + 2) (M + 1) hdyn (ansS_succeed dfs (pf + 2) (M + 1) s)
  have hE := ansS_conj_single dfs (pf + 2) (M + 1) hys hdyn'
  have eE : enforceFd ord x = .conj (forceAns ord forceFuel x) (.conj (.dyn id fun st =>
        if st.panic.isSome then .succeed
        else if !st.allBound then .atom (liftRes fun _ => .panic "unbound-domain")
        else Goal.onceo [forceAns ord forceFuel (Term.ofList ((ord.ds st.dstore).map fun p => Term.var p.1))]) .succeed) := by
    unfold enforceFd
    show mkConj _ (mkConj _ .succeed) = _
    unfold mkConj
    rfl
  have hE' := ansS_conj_single dfs (pf + 2) (M + 1) hE (ansS_succeed dfs (pf + 2) (M + 1) s)
  -- the final atom
  have hRF : AnsS (solveAt dfs (pf + 2) (M + 2)) (solveAt dfs (pf + 2) (M + 2) (reifyFinal ord x) s) [reifyState ord s x] := by
    rw [reifyFinal_eq]
    show AnsS _ (start dfs _ (pf + 2) (.atom _) s) _
    simp only [start, liftRes, hp, Option.isSome_none, Bool.false_eq_true, if_false]
    exact .unit _
  have hRF' := ansS_conj_single dfs (pf + 2) (M + 1) hRF (ansS_succeed dfs (pf + 2) (M + 1) _)
  have eR : reifyG ord x = .conj (.conj (enforceFd ord x) .succeed) (.conj (reifyFinal ord x) .succeed) := by
    unfold reifyG
    show mkConj (mkConj _ (mkConj .succeed .succeed)) (mkConj _ .succeed) = _
    rw [eE, reifyFinal_eq]
    unfold mkConj
    rfl
  rw [eR, eE]
  exact ansS_conj_single dfs (pf + 2) (M + 1) hE' hRF'

/-- the goal `enforce_constraints_fd` runs after labelling the query term -/
def enforceDyn (ord : Order) : G :=
  .dyn id fun st =>
    if st.panic.isSome then .succeed
    else if !st.allBound then .atom (liftRes fun _ => .panic "unbound-domain")
    else Goal.onceo [forceAns ord forceFuel (Term.ofList ((ord.ds st.dstore).map fun p => Term.var p.1))]

omit [Mode] in
theorem enforceFd_eq (ord : Order) (x : Term) :
    enforceFd ord x = .conj (forceAns ord forceFuel x) (.conj (enforceDyn ord) .succeed) := by
  unfold enforceFd enforceDyn
  show mkConj _ (mkConj _ .succeed) = _
  unfold mkConj
  rfl

/-- ASSEMBLY OF `enforce_constraints_fd` ON THE ENGINE.  Let the labelling of the query term deliver the blocks `xs`
    (textbook order), and let `o c` be what the `onceo` over the remaining domain variables delivers from block `c`
    (`C17_hidden_onceo`: at most one closed state; one iff the block has a solution).  Then the whole goal delivers, for
    some engine order `xs'` of the blocks, exactly the states `o c` — one per block that has one, none for the others. -/
theorem enforce_compose (ord : Order) (x : Term) (s : State) (N : Nat) (xs : List State) (o : State → Option State)
    (h1 : evalRef dfs N (forceAns ord forceFuel x) s = some xs)
    (hb : ∀ c ∈ xs, c.panic = none ∧ c.allBound = true ∧
      start dfs (solveAt dfs pf (M + 1)) pf
        (Goal.onceo [forceAns ord forceFuel (Term.ofList ((ord.ds c.dstore).map fun p => Term.var p.1))]) c = firstStrm (o c)) :
    ∃ xs', xs.Perm xs' ∧
      AnsS (solveAt dfs pf (M + 2)) (solveAt dfs pf (M + 2) (enforceFd ord x) s) (xs'.flatMap fun c => (o c).toList) := by
  obtain ⟨xs', hxs, px⟩ := ref_perm dfs pf (M + 1) N _ s xs h1 (M + 1)
  refine ⟨xs', px, ?_⟩
  rw [enforceFd_eq]
  refine ansS_conj dfs pf (M + 1) hxs ?_
  have hb' : ∀ c ∈ xs', c.panic = none ∧ c.allBound = true ∧
      start dfs (solveAt dfs pf (M + 1)) pf
        (Goal.onceo [forceAns ord forceFuel (Term.ofList ((ord.ds c.dstore).map fun p => Term.var p.1))]) c = firstStrm (o c) :=
    fun c hc => hb c (px.mem_iff.2 hc)
  clear hxs px hb h1
  induction xs' with
  | nil => exact .nil
  | cons c rest ih =>
    simp only [List.flatMap_cons]
    refine .cons ?_ (ih fun c' hc' => hb' c' (List.mem_cons_of_mem _ hc'))
    obtain ⟨hp, hab, hst⟩ := hb' c List.mem_cons_self
    show AnsS _ (Strm.lazyBind (.pause c (enforceDyn ord)) .succeed) _
    simp only [Strm.lazyBind, Goal.isSucceed, if_true]
    refine .lazy (.pause ?_)
    show AnsS _ (start dfs (solveAt dfs pf (M + 1)) pf (enforceDyn ord) c) _
    unfold enforceDyn
    simp only [start, id, hp, Option.isSome_none, Bool.false_eq_true, if_false, hab, Bool.not_true]
    rw [hst]
    cases o c with
    | none => exact .empty
    | some b => exact .unit b

end Engine

end Pv
