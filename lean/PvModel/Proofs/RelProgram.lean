/-
  PROGRAMS OVER THE LIBRARY RELATIONS: `==`, `!=`, conjunction, `conde`, fresh and calls of member / member1 /
  append / rember / permute / distinct, nested in any way.  The engine is EXACT for them: the states in its
  stream describe (on the variables that existed when the program started) exactly the valuations of the start
  state that satisfy the program's declarative meaning `RProg.Sem` — soundness from the compositional
  denotation (Proofs/RelSem.lean), completeness from the relations' completeness (Proofs/RelComplete.lean).
  Because `Sem` of a conjunction / disjunction is ∧ / ∨, the described solutions do not depend on the order of
  conjuncts or clauses, also through recursive relation calls with infinitely many answers.
-/
import PvModel.Proofs.RelComplete
namespace Pv
open Strm Goal State Term

inductive RProg where
  | succeed
  | fail
  | atom (t : TAtom)
  | conj (p q : RProg)
  | alt (p q : RProg)
  | fresh (p : RProg)
  | call (c : Call)

/-- a call of a library relation with the right number of arguments -/
def Call.Valid (c : Call) : Prop :=
  match c.rel, c.args with
  | .member, [_, _] | .member1, [_, _] | .append, [_, _, _] | .rember, [_, _, _] | .permute, [_, _] | .distinct, [_] => True
  | _, _ => False

namespace RProg

def goal (ord : Order) : RProg → G
  | succeed => .succeed
  | fail => .fail
  | atom t => .atom (liftRes fun st => postAtom ord st t)
  | conj p q => .conj (goal ord p) (goal ord q)
  | alt p q => .alt (goal ord p) (goal ord q)
  | fresh p => .fresh (goal ord p)
  | call c => .call c

/-- the declarative meaning -/
def Sem : RProg → Subst → Prop
  | succeed, _ => True
  | fail, _ => False
  | atom t, γ => t.Sat γ
  | conj p q, γ => Sem p γ ∧ Sem q γ
  | alt p q, γ => Sem p γ ∨ Sem q γ
  | fresh p, γ => Sem p γ
  | call c, γ => RelSem c γ

/-- every term of the program is over variables below `m`; every call is a valid library call -/
def WF (m : Nat) : RProg → Prop
  | succeed => True
  | fail => True
  | atom (.eq u v) => Below m u ∧ Below m v
  | atom (.neq u v) => Below m u ∧ Below m v
  | conj p q => WF m p ∧ WF m q
  | alt p q => WF m p ∧ WF m q
  | fresh p => WF m p
  | call c => c.Valid ∧ ∀ t ∈ c.args, Below m t

theorem WF.mono {m m' : Nat} (hm : m ≤ m') : ∀ (p : RProg), WF m p → WF m' p
  | succeed, _ => trivial
  | fail, _ => trivial
  | atom (.eq _ _), h => ⟨h.1.mono hm, h.2.mono hm⟩
  | atom (.neq _ _), h => ⟨h.1.mono hm, h.2.mono hm⟩
  | conj p q, h => ⟨WF.mono hm p h.1, WF.mono hm q h.2⟩
  | alt p q, h => ⟨WF.mono hm p h.1, WF.mono hm q h.2⟩
  | fresh p, h => WF.mono hm p h
  | call _, h => ⟨h.1, fun t ht => (h.2 t ht).mono hm⟩

theorem relSem_agree {m : Nat} {γ γ' : Subst} (c : Call) (hb : ∀ t ∈ c.args, Below m t) (hag : Agree m γ γ')
    (h : RelSem c γ) : RelSem c γ' := by
  obtain ⟨rel, args, d⟩ := c
  have ea : ∀ t ∈ args, apply γ t = apply γ' t := fun t ht => apply_of_agree (hb t ht) hag
  cases rel <;> rcases args with _ | ⟨a1, _ | ⟨a2, _ | ⟨a3, _ | ⟨a4, rest⟩⟩⟩⟩ <;> simp only [RelSem] at h ⊢ <;>
    first
      | exact h
      | (rw [← ea a1 (by simp)]; exact h)
      | (rw [← ea a1 (by simp), ← ea a2 (by simp)]; exact h)
      | (rw [← ea a1 (by simp), ← ea a2 (by simp), ← ea a3 (by simp)]; exact h)

/-- the meaning only looks at the program's variables -/
theorem sem_agree {m : Nat} {γ γ' : Subst} (hag : Agree m γ γ') : ∀ (p : RProg), WF m p → Sem p γ → Sem p γ'
  | succeed, _, _ => trivial
  | fail, _, h => h
  | atom (.eq u v), w, h => sat_agree (.eq u v) w hag h
  | atom (.neq u v), w, h => sat_agree (.neq u v) w hag h
  | conj p q, w, h => ⟨sem_agree hag p w.1 h.1, sem_agree hag q w.2 h.2⟩
  | alt p q, w, h => h.imp (sem_agree hag p w.1) (sem_agree hag q w.2)
  | fresh p, w, h => sem_agree hag p w h
  | call c, w, h => relSem_agree c w.2 hag h

theorem plain (ord : Order) : ∀ (p : RProg), Plain (p.goal ord)
  | succeed => .succeed
  | fail => .fail
  | atom _ => .atom _
  | conj p q => .conj (plain ord p) (plain ord q)
  | alt p q => .alt (plain ord p) (plain ord q)
  | fresh p => .fresh (plain ord p)
  | call c => .call c

end RProg

section
variable {ord : Order}

/-- SOUNDNESS for programs: the goal denotes the declarative meaning -/
theorem prog_den (ho : OrderOK ord) (N : Nat) : ∀ (p : RProg), DenN ord N (p.goal ord) p.Sem
  | .succeed => den_succeed N
  | .fail => den_fail N _
  | .atom t => den_atom ho N t
  | .conj p q => den_conj (prog_den ho N p) (prog_den ho N q)
  | .alt p q => den_alt (prog_den ho N p) (prog_den ho N q)
  | .fresh p => den_fresh (prog_den ho N p)
  | .call c => den_rel ho N c

/-- a poisoned state runs through a valid library call -/
theorem flow_valid (c : Call) (hv : c.Valid) {a : State} (hp : a.panic.isSome = true) :
    ∃ b, Big (defs ord) (.call c) a b ∧ b.panic.isSome = true := by
  obtain ⟨rel, args, d⟩ := c
  cases rel <;> rcases args with _ | ⟨a1, _ | ⟨a2, _ | ⟨a3, _ | ⟨a4, rest⟩⟩⟩⟩ <;> simp only [Call.Valid] at hv
  · exact flow_member _ _ _ hp
  · exact flow_member1 _ _ _ hp
  · exact flow_append _ _ _ _ hp
  · exact flow_rember _ _ _ _ hp
  · exact flow_permute _ _ _ hp
  · exact flow_distinct _ _ hp

/-- … and through a program that has a solution (a literal `fail` on every path would stop it, but then the
    program has no solution) -/
theorem flow_prog : ∀ (p : RProg) {m : Nat}, p.WF m → ∀ {γ : Subst}, p.Sem γ → ∀ {a : State}, a.panic.isSome = true →
    ∃ b, Big (defs ord) (p.goal ord) a b ∧ b.panic.isSome = true
  | .succeed, _, _, _, _, a, hp => ⟨a, big_succeed.2 rfl, hp⟩
  | .fail, _, _, _, h, _, _ => h.elim
  | .atom t, _, _, _, _, a, hp => ⟨a, flow_atom _ hp, hp⟩
  | .conj p q, _, w, _, h, a, hp => by
    obtain ⟨c, hc, pc⟩ := flow_prog p w.1 h.1 hp
    obtain ⟨b, hb, pb⟩ := flow_prog q w.2 h.2 pc
    exact ⟨b, big_conj.2 ⟨c, hc, hb⟩, pb⟩
  | .alt p q, _, w, _, h, a, hp => by
    rcases h with h | h
    · obtain ⟨b, hb, pb⟩ := flow_prog p w.1 h hp
      exact ⟨b, big_alt.2 (.inl hb), pb⟩
    · obtain ⟨b, hb, pb⟩ := flow_prog q w.2 h hp
      exact ⟨b, big_alt.2 (.inr hb), pb⟩
  | .fresh p, m, w, _, h, a, hp => by
    obtain ⟨b, hb, pb⟩ := flow_prog p (m := m) w h hp
    exact ⟨b, big_fresh.2 hb, pb⟩
  | .call c, _, w, _, _, a, hp => flow_valid c w.1 hp

/-- COMPLETENESS for programs -/
theorem prog_complete (ho : OrderOK ord) : ∀ (p : RProg) (a : State) (γ : Subst), p.WF a.nextVar →
    a.panic.isSome = false → RInv a → StateSem γ a → p.Sem γ → ∃ b, Big (defs ord) (p.goal ord) a b ∧ Post a γ b
  | .succeed, a, γ, _, _, hi, hγ, _ => ⟨a, big_succeed.2 rfl, .inr ⟨hi, Nat.le_refl _, γ, Agree.refl _ _, hγ⟩⟩
  | .fail, _, _, _, _, _, _, h => h.elim
  | .atom (.eq u v), a, γ, w, hp, hi, hγ, h => by
    obtain ⟨b, hb, post⟩ := comp_atom ho (.eq u v) w hp hi hγ h
    refine ⟨b, hb, ?_⟩
    rcases post with p | ⟨ib, nvb, sb⟩
    · exact .inl p
    · exact .inr ⟨ib, by rw [nvb]; exact Nat.le_refl _, γ, Agree.refl _ _, sb⟩
  | .atom (.neq u v), a, γ, w, hp, hi, hγ, h => by
    obtain ⟨b, hb, post⟩ := comp_atom ho (.neq u v) w hp hi hγ h
    refine ⟨b, hb, ?_⟩
    rcases post with p | ⟨ib, nvb, sb⟩
    · exact .inl p
    · exact .inr ⟨ib, by rw [nvb]; exact Nat.le_refl _, γ, Agree.refl _ _, sb⟩
  | .conj p q, a, γ, w, hp, hi, hγ, h => by
    obtain ⟨c, hc, pc⟩ := prog_complete ho p a γ w.1 hp hi hγ h.1
    cases hpc : c.panic.isSome with
    | true =>
      obtain ⟨b, hb, pb⟩ := flow_prog (ord := ord) q w.2 h.2 hpc
      exact ⟨b, big_conj.2 ⟨c, hc, hb⟩, .inl pb⟩
    | false =>
      rcases pc with x | ⟨ic, nvc, γ', hag, sc⟩
      · rw [hpc] at x; cases x
      · obtain ⟨b, hb, pb⟩ := prog_complete ho q c γ' (RProg.WF.mono nvc q w.2) hpc ic sc (RProg.sem_agree hag q w.2 h.2)
        exact ⟨b, big_conj.2 ⟨c, hc, hb⟩, post_trans nvc hag pb⟩
  | .alt p q, a, γ, w, hp, hi, hγ, h => by
    rcases h with h | h
    · obtain ⟨b, hb, pb⟩ := prog_complete ho p a γ w.1 hp hi hγ h
      exact ⟨b, big_alt.2 (.inl hb), pb⟩
    · obtain ⟨b, hb, pb⟩ := prog_complete ho q a γ w.2 hp hi hγ h
      exact ⟨b, big_alt.2 (.inr hb), pb⟩
  | .fresh p, a, γ, w, hp, hi, hγ, h => by
    obtain ⟨b, hb, pb⟩ := prog_complete ho p a γ w hp hi hγ h
    exact ⟨b, big_fresh.2 hb, pb⟩
  | .call c, a, γ, w, hp, hi, hγ, h => rel_complete_big ho c a γ w.2 hp hi hγ h

/-- PROGRAMS ARE EXACT ON THE ENGINE: from the empty state over `nv` variables, a program over those variables —
    `==`, `!=`, conjunction, `conde`, fresh, calls of the six library relations, any nesting, recursion with
    infinitely many answers included — at every nesting level of the solver and under every hash-iteration
    order:
    (1) every unpoisoned state in the engine's stream describes only valuations that satisfy the program;
    (2) every valuation that satisfies the program agrees on the program's variables with a valuation described
        by a state in the stream (or the stream holds a FUEL-poisoned state). -/
theorem prog_exact (ho : OrderOK ord) (pf M j nv : Nat) (p : RProg) (w : p.WF nv) :
    (∀ b, MemS (solveAt (defs ord) pf (M + 1)) b (solveAt (defs ord) pf j (p.goal ord) (State.empty nv)) →
      b.panic.isSome = false → ∀ γ, StateSem γ b → p.Sem γ) ∧
    (∀ γ, p.Sem γ → ∃ b, MemS (solveAt (defs ord) pf (M + 1)) b (solveAt (defs ord) pf j (p.goal ord) (State.empty nv)) ∧
      (b.panic.isSome = true ∨ ∃ γ', Agree nv γ γ' ∧ StateSem γ' b)) := by
  constructor
  · intro b hm hp γ hγ
    obtain ⟨n, hn⟩ := (mem_iff_big (defs_plain ord) pf M j (p.plain ord) _ b).1 hm
    exact (((prog_den ho n p n (Nat.le_refl _) _ b hn).2 hp (good_empty nv)).2 γ hγ).2
  · intro γ h
    obtain ⟨b, hb, post⟩ := prog_complete ho p (State.empty nv) γ w rfl (rinv_empty nv) (stateSem_empty nv γ) h
    refine ⟨b, (mem_iff_big (defs_plain ord) pf M j (p.plain ord) _ b).2 hb, ?_⟩
    rcases post with x | ⟨_, _, γ', hag, sb⟩
    · exact .inl x
    · exact .inr ⟨γ', hag, sb⟩

end
end Pv
