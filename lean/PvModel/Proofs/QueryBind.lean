/-
  THE SUBSTITUTION ONLY GROWS, AND A UNIFICATION UNIFIES.  For tree states: `State::unify` leaves a substitution that is an
  instance of the old one and unifies the two terms; `State::disunify` leaves the substitution alone; hence along any list
  of `==` / `!=` atoms the final substitution is an instance of every intermediate one, and two terms unified by an atom of
  the list are syntactically equal under it.  (Used for `__query__ == [q0, …]`: every path state binds `__query__` to the
  list of the query terms.)
-/
import PvModel.Proofs.Tree
namespace Pv
open Term

theorem unify_sigma {ord : Order} (ho : OrderOK ord) {st st' : State} (hg : Good st) (u v : Term)
    (h : st.unify ord u v = .ok st') : Ext st.σ st'.σ ∧ Unifies st'.σ u v := by
  obtain ⟨hs, ht, hi⟩ := hg
  unfold State.unify at h
  cases hu : unifyF unifyFuel st.σ [] u v with
  | none => rw [hu] at h; simp at h
  | some r =>
    rw [hu] at h
    cases r with
    | none => simp at h
    | some q =>
      obtain ⟨σ', e⟩ := q
      simp only [] at h
      obtain ⟨s', x', un⟩ := unifyF_sound _ _ _ _ _ _ _ hs hu
      generalize hst1 : ({ st with σ := σ' } : State) = st1 at h
      have hσ1 : st1.σ = σ' := by subst hst1; rfl
      have ht1 : TreeOnly st1 := by subst hst1; exact ht
      have hi1 : IdsOK st1 := by subst hst1; exact hi
      unfold State.processExtension at h
      rw [runConstraintsF_succ] at h
      obtain ⟨lok, _, _⟩ :=
        loop_spec (State.runConstraintsF ord State.rcFuel) ho (ord.cs st1.store) st1
          (by rw [hσ1]; exact s') ht1 hi1
      cases hl : State.runSnapshot (State.runConstraintsF ord State.rcFuel) ord st1 (ord.cs st1.store) with
      | ok st2 =>
        have a := lok st2 hl
        rw [hl] at h
        simp only [Res.bind, processExtensionFd_tree ord st2 e a.tree.2, Res.ok.injEq] at h
        subst h
        rw [a.sig, hσ1]
        exact ⟨x', un⟩
      | fail => rw [hl] at h; simp [Res.bind] at h
      | fuel => rw [hl] at h; simp [Res.bind] at h
      | panic s => rw [hl] at h; simp [Res.bind] at h

theorem postAtom_ext {ord : Order} (ho : OrderOK ord) {st st' : State} (hg : Good st) (a : TAtom)
    (h : postAtom ord st a = .ok st') : Ext st.σ st'.σ := by
  cases a with
  | eq u v => exact (unify_sigma ho hg u v h).1
  | neq u v =>
    obtain ⟨hs, ht, hi⟩ := hg
    have a := (disunify_spec ho hs ht hi u v).1 st' h
    rw [a.sig]
    exact Ext.refl _ hs

theorem postAll_ext {ord : Order} (ho : OrderOK ord) : ∀ (as : List TAtom) (st st' : State), Good st →
    postAll ord st as = .ok st' → Ext st.σ st'.σ
  | [], st, st', hg, h => by
    simp only [postAll, Res.ok.injEq] at h; subst h; exact Ext.refl _ hg.1
  | a :: as, st, st', hg, h => by
    simp only [postAll] at h
    cases hr : postAtom ord st a with
    | ok s2 =>
      rw [hr] at h
      exact (postAtom_ext ho hg a hr).trans (postAll_ext ho as s2 st' (postAtom_ok ord ho st s2 a hg hr).1 h)
    | fail => rw [hr] at h; cases h
    | fuel => rw [hr] at h; cases h
    | panic m => rw [hr] at h; cases h

/-- after `u == v` and any further `==` / `!=` atoms, the two terms are equal under the final substitution -/
theorem postAll_unified {ord : Order} (ho : OrderOK ord) (u v : Term) (as : List TAtom) (st st' : State) (hg : Good st)
    (h : postAll ord st (.eq u v :: as) = .ok st') : apply st'.σ u = apply st'.σ v := by
  simp only [postAll] at h
  cases hr : postAtom ord st (.eq u v) with
  | ok s2 =>
    rw [hr] at h
    have un := (unify_sigma ho hg u v hr).2
    exact unifies_of_ext (postAll_ext ho as s2 st' (postAtom_ok ord ho st s2 _ hg hr).1 h) un
  | fail => rw [hr] at h; cases h
  | fuel => rw [hr] at h; cases h
  | panic m => rw [hr] at h; cases h

end Pv
