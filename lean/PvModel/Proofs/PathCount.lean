/-
  ANSWER LISTS, PATH BY PATH.  For programs of atoms, conjunction, `conde` and fresh (`FProg`), the reference answer list
  (to which the interleaving engine's answers are a permutation and which the depth-first engine delivers in order) is
  EXACTLY one state per path that does not fail, in the order of the paths (`evalRef_paths_exact`).  For `==`/`!=`
  programs a path either fails or ends in a SATISFIABLE state (disequality normal form), so: swapping the two sides of
  a conjunction is a bijection between the answers under which corresponding answers describe the same valuations —
  the MULTISET statement of C04, not only the set statement.
-/
import PvModel.Proofs.FDProgram
import PvModel.Proofs.DiseqNF
import PvModel.Proofs.RelCount
import PvModel.Props.C02
import PvModel.Props.C02Program
namespace Pv
open Strm Goal State Term

section
variable (ord : Order)

/-- posting a path the way the goal layer does it: a poisoned state passes through every atom -/
def postL : State → List FAtom → Option State
  | st, [] => some st
  | st, a :: as => ((liftRes fun s => postF ord s a) st).bind fun s => postL s as

variable {ord}

theorem postL_append : ∀ (x y : List FAtom) (st : State), postL ord st (x ++ y) = (postL ord st x).bind fun s => postL ord s y
  | [], _, _ => rfl
  | a :: x, y, st => by
    simp only [List.cons_append, postL]
    cases (liftRes fun s => postF ord s a) st with
    | none => rfl
    | some s => simp only [Option.bind_some]; exact postL_append x y s

theorem flatMapM_of_forall {α β : Type} {f : α → Option (List β)} {F : α → List β} : ∀ (xs : List α),
    (∀ s ∈ xs, f s = some (F s)) → flatMapM f xs = some (xs.flatMap F)
  | [], _ => rfl
  | x :: xs, h => by
    simp only [flatMapM, h x List.mem_cons_self, flatMapM_of_forall xs fun s hs => h s (List.mem_cons_of_mem _ hs),
      List.flatMap_cons]

theorem flatMapM_each {α β : Type} {f : α → Option (List β)} : ∀ {xs : List α} {zs : List β}, flatMapM f xs = some zs →
    ∀ s ∈ xs, ∃ ys, f s = some ys
  | [], _, _, _, hs => nomatch hs
  | x :: xs, zs, h, s, hs => by
    obtain ⟨ys, ws, h1, h2, _⟩ := flatMapM_cons_some h
    rcases List.mem_cons.1 hs with rfl | hs
    · exact ⟨ys, h1⟩
    · exact flatMapM_each h2 s hs

theorem filterMap_product (f : List FAtom → Option State) (g : State → List FAtom → Option State)
    (hfg : ∀ x y, f (x ++ y) = (f x).bind fun s => g s y) (Q : List (List FAtom)) : ∀ (P : List (List FAtom)),
    (P.flatMap fun x => Q.map fun y => x ++ y).filterMap f = (P.filterMap f).flatMap fun s => Q.filterMap (g s)
  | [] => rfl
  | x :: P => by
    simp only [List.flatMap_cons, List.filterMap_append, filterMap_product f g hfg Q P, List.filterMap_cons]
    have : (Q.map fun y => x ++ y).filterMap f = match f x with | some s => Q.filterMap (g s) | none => [] := by
      rw [List.filterMap_map]
      cases hx : f x with
      | none =>
        simp only [Function.comp_def, hfg, hx, Option.bind_none]
        induction Q with
        | nil => rfl
        | cons _ _ ih => simpa using ih
      | some s => simp only [Function.comp_def, hfg, hx, Option.bind_some]
    rw [this]
    cases f x with
    | none => rfl
    | some s => simp only [List.flatMap_cons]

/-- THE REFERENCE ANSWER LIST IS ONE STATE PER NON-FAILING PATH, IN PATH ORDER -/
theorem evalRef_paths_exact (dfs : Call → State → State × G) : ∀ (p : FProg) (n : Nat) (st : State) (xs : List State),
    evalRef dfs n (p.goal ord) st = some xs → xs = p.paths.filterMap (postL ord st) := by
  intro p
  induction p with
  | succeed =>
    intro n st xs h
    cases n with
    | zero => simp [evalRef] at h
    | succ n => simp only [FProg.goal, evalRef, Option.some.injEq] at h; subst h; rfl
  | fail =>
    intro n st xs h
    cases n with
    | zero => simp [evalRef] at h
    | succ n => simp only [FProg.goal, evalRef, Option.some.injEq] at h; subst h; rfl
  | atom a =>
    intro n st xs h
    cases n with
    | zero => simp [evalRef] at h
    | succ n =>
      simp only [FProg.goal, evalRef, Option.some.injEq] at h
      subst h
      simp only [FProg.paths, List.filterMap_cons, List.filterMap_nil, postL]
      cases (liftRes fun s => postF ord s a) st <;> rfl
  | conj p q ihp ihq =>
    intro n st xs h
    cases n with
    | zero => simp [evalRef] at h
    | succ n =>
      simp only [FProg.goal, evalRef] at h
      cases h1 : evalRef dfs n (p.goal ord) st with
      | none => rw [h1] at h; cases h
      | some xs1 =>
        rw [h1] at h
        simp only [] at h
        have e1 := ihp n st xs1 h1
        have hF : ∀ s ∈ xs1, evalRef dfs n (q.goal ord) s = some (q.paths.filterMap (postL ord s)) := by
          intro s hs
          obtain ⟨ys, hy⟩ := flatMapM_each h s hs
          rw [hy, ihq n s ys hy]
        rw [flatMapM_of_forall xs1 hF] at h
        simp only [Option.some.injEq] at h
        subst h
        rw [e1]
        simp only [FProg.paths]
        exact (filterMap_product (postL ord st) (postL ord) (fun x y => postL_append x y st) q.paths p.paths).symm
  | alt p q ihp ihq =>
    intro n st xs h
    cases n with
    | zero => simp [evalRef] at h
    | succ n =>
      simp only [FProg.goal, evalRef] at h
      cases h1 : evalRef dfs n (p.goal ord) st with
      | none => rw [h1] at h; cases h
      | some xs1 =>
        cases h2 : evalRef dfs n (q.goal ord) st with
        | none => rw [h1, h2] at h; cases h
        | some xs2 =>
          rw [h1, h2] at h
          simp only [Option.some.injEq] at h
          subst h
          rw [ihp n st xs1 h1, ihq n st xs2 h2]
          simp only [FProg.paths, List.filterMap_append]
  | fresh p ih =>
    intro n st xs h
    cases n with
    | zero => simp [evalRef] at h
    | succ n => simp only [FProg.goal, evalRef] at h; exact ih n st xs h

/-! ### `==` / `!=` programs: a path fails or ends in a satisfiable state -/

attribute [local instance] Mode.strict

/-- the tree atom behind a `==` / `!=` atom -/
def tOf : FAtom → TAtom
  | .eq u v => .eq u v
  | .neq u v => .neq u v
  | _ => .eq .nil .nil

def IsTree : FAtom → Prop
  | .eq _ _ => True
  | .neq _ _ => True
  | _ => False

theorem postAllF_tree : ∀ (path : List FAtom) (st : State), (∀ a ∈ path, IsTree a) →
    postAllF ord st path = postAll ord st (path.map tOf)
  | [], _, _ => rfl
  | a :: as, st, h => by
    have ha := h a List.mem_cons_self
    have e : postF ord st a = postAtom ord st (tOf a) := by
      cases a with
      | eq u v => rfl
      | neq u v => rfl
      | cst c => exact ha.elim
      | dom x d => exact ha.elim
    simp only [postAllF, List.map_cons, postAll, e]
    cases postAtom ord st (tOf a) with
    | ok s => simp only [Res.bind]; exact postAllF_tree as s fun b hb => h b (List.mem_cons_of_mem _ hb)
    | fail => rfl
    | fuel => rfl
    | panic m => rfl

theorem treeOnly_paths : ∀ (p : FProg), p.TreeOnly → ∀ path ∈ p.paths, ∀ a ∈ path, IsTree a
  | .succeed, _, path, hp, a, ha => by simp [FProg.paths] at hp; subst hp; cases ha
  | .fail, _, path, hp, _, _ => by simp [FProg.paths] at hp
  | .atom (.eq _ _), _, path, hp, a, ha => by simp [FProg.paths] at hp; subst hp; simp at ha; subst ha; trivial
  | .atom (.neq _ _), _, path, hp, a, ha => by simp [FProg.paths] at hp; subst hp; simp at ha; subst ha; trivial
  | .atom (.cst _), h, _, _, _, _ => h.elim
  | .atom (.dom _ _), h, _, _, _, _ => h.elim
  | .conj p q, h, path, hp, a, ha => by
    simp only [FProg.paths, List.mem_flatMap, List.mem_map] at hp
    obtain ⟨x, hx, y, hy, rfl⟩ := hp
    rcases List.mem_append.1 ha with ha | ha
    · exact treeOnly_paths p h.1 x hx a ha
    · exact treeOnly_paths q h.2 y hy a ha
  | .alt p q, h, path, hp, a, ha => by
    simp only [FProg.paths, List.mem_append] at hp
    rcases hp with hp | hp
    · exact treeOnly_paths p h.1 path hp a ha
    · exact treeOnly_paths q h.2 path hp a ha
  | .fresh p, h, path, hp, a, ha => treeOnly_paths p h path hp a ha

/-- the goal layer and the state layer agree on a path that runs to a state or fails (from an unpoisoned state) -/
theorem postL_of_postAllF : ∀ (path : List FAtom) (st : State), Inv st → st.panic = none →
    (∀ s, postAllF ord st path = .ok s → postL ord st path = some s) ∧
    (postAllF ord st path = .fail → postL ord st path = none)
  | [], st, _, _ => ⟨fun s h => by simp only [postAllF, Res.ok.injEq] at h; subst h; rfl, fun h => by simp [postAllF] at h⟩
  | a :: as, st, hi, hp => by
    have hps : st.panic.isSome = false := by rw [hp]; rfl
    simp only [postAllF, postL, liftRes, hps, Bool.false_eq_true, if_false]
    cases hr : postF ord st a with
    | ok s1 =>
      obtain ⟨pan, inv1⟩ := postF_pan ord hi hr
      simp only [Res.bind, Option.bind_some]
      exact postL_of_postAllF as s1 inv1 (pan.trans hp)
    | fail => exact ⟨fun s h => by simp [Res.bind] at h, fun _ => rfl⟩
    | fuel => exact ⟨fun s h => by simp [Res.bind] at h, fun h => by simp [Res.bind] at h⟩
    | panic m => exact ⟨fun s h => by simp [Res.bind] at h, fun h => by simp [Res.bind] at h⟩

theorem product_swap {α β γ : Type} (f : α → β → γ) : ∀ (P : List α) (Q : List β),
    (Q.flatMap fun y => P.map fun x => f x y).Perm (P.flatMap fun x => Q.map fun y => f x y)
  | [], Q => by
    have : (Q.flatMap fun _ => ([] : List γ)) = [] := by induction Q with | nil => rfl | cons _ _ ih => simp
    simp
  | x :: P, Q => by
    have step : (Q.flatMap fun y => f x y :: P.map fun x' => f x' y).Perm (Q.map (f x) ++ Q.flatMap fun y => P.map fun x' => f x' y) := by
      induction Q with
      | nil => exact .refl _
      | cons y Q ih =>
        simp only [List.flatMap_cons, List.map_cons, List.cons_append]
        refine .cons _ ?_
        refine ((List.Perm.append_left _ ih).trans ?_)
        simp only [← List.append_assoc]
        exact List.Perm.append_right _ List.perm_append_comm
    simp only [List.map_cons, List.flatMap_cons]
    exact step.trans (List.Perm.append_left _ (product_swap f P Q))

theorem zip2_filterMap {α β γ : Type} {R : β → γ → Prop} {h1 : α → Option β} {h2 : α → Option γ} : ∀ (L : List α),
    (∀ e ∈ L, (h1 e = none ∧ h2 e = none) ∨ ∃ a b, h1 e = some a ∧ h2 e = some b ∧ R a b) →
    Zip2 R (L.filterMap h1) (L.filterMap h2)
  | [], _ => .nil
  | e :: L, h => by
    have ih := zip2_filterMap (R := R) (h1 := h1) (h2 := h2) L fun e' he' => h e' (List.mem_cons_of_mem _ he')
    rcases h e List.mem_cons_self with ⟨n1, n2⟩ | ⟨a, b, s1, s2, r⟩
    · simp only [List.filterMap_cons, n1, n2]; exact ih
    · simp only [List.filterMap_cons, s1, s2]; exact .cons r ih

/-- SWAPPING THE SIDES OF A CONJUNCTION IS A BIJECTION BETWEEN THE ANSWERS (C04, multiset level, `==`/`!=` programs):
    the reference answer lists `xs` of `p, q` and `ys` of `q, p` from the empty state — when no path runs out of the
    model's unification fuel — have the same number of states, and `ys` can be reordered so that corresponding
    states describe the same valuations -/
theorem tree_conj_bijection (ho : OrderOK ord) (dfs : Call → State → State × G) (p q : FProg) (hp : p.TreeOnly) (hq : q.TreeOnly)
    (nv n m : Nat) (xs ys : List State)
    (hx : evalRef dfs n ((FProg.conj p q).goal ord) (State.empty nv) = some xs)
    (hy : evalRef dfs m ((FProg.conj q p).goal ord) (State.empty nv) = some ys)
    (hnf : ∀ x ∈ p.paths, ∀ y ∈ q.paths, postAllF ord (State.empty nv) (x ++ y) ≠ .fuel ∧ postAllF ord (State.empty nv) (y ++ x) ≠ .fuel) :
    ∃ ys', ys'.Perm ys ∧ Zip2 (fun a b => ∀ γ, StateSem γ a ↔ StateSem γ b) xs ys' := by
  have ex := evalRef_paths_exact dfs (.conj p q) n _ xs hx
  have ey := evalRef_paths_exact dfs (.conj q p) m _ ys hy
  -- both path lists over the list of pairs
  let L : List (List FAtom × List FAtom) := p.paths.flatMap fun x => q.paths.map fun y => (x, y)
  have hL : ∀ e ∈ L, e.1 ∈ p.paths ∧ e.2 ∈ q.paths := by
    intro e he
    simp only [L, List.mem_flatMap, List.mem_map] at he
    obtain ⟨x, hx', y, hy', rfl⟩ := he
    exact ⟨hx', hy'⟩
  have e1 : (FProg.conj p q).paths = L.map fun e => e.1 ++ e.2 := by
    simp only [FProg.paths, L, List.map_flatMap, List.map_map, Function.comp_def]
  have e2 : (L.map fun e => e.2 ++ e.1).Perm (FProg.conj q p).paths := by
    simp only [FProg.paths, L, List.map_flatMap, List.map_map, Function.comp_def]
    exact (product_swap (fun x y => y ++ x) p.paths q.paths).symm
  refine ⟨(L.map fun e => e.2 ++ e.1).filterMap (postL ord (State.empty nv)), ?_, ?_⟩
  · rw [ey]; exact e2.filterMap _
  · rw [ex, e1, List.filterMap_map, List.filterMap_map]
    refine zip2_filterMap L fun e he => ?_
    obtain ⟨hx', hy'⟩ := hL e he
    obtain ⟨x, y⟩ := e
    simp only [Function.comp_def]
    have tx := treeOnly_paths p hp x hx'
    have ty := treeOnly_paths q hq y hy'
    have t1 : ∀ a ∈ x ++ y, IsTree a := fun a ha => (List.mem_append.1 ha).elim (tx a) (ty a)
    have t2 : ∀ a ∈ y ++ x, IsTree a := fun a ha => (List.mem_append.1 ha).elim (ty a) (tx a)
    have perm : ((x ++ y).map tOf).Perm ((y ++ x).map tOf) := List.perm_append_comm.map _
    obtain ⟨o1, o2, o3⟩ := C02_order_free ord ord ho ho nv _ _ perm
    obtain ⟨nf1, nf2⟩ := hnf x hx' y hy'
    have l1 := postL_of_postAllF (ord := ord) (x ++ y) (State.empty nv) (inv_empty nv) rfl
    have l2 := postL_of_postAllF (ord := ord) (y ++ x) (State.empty nv) (inv_empty nv) rfl
    rw [postAllF_tree _ _ t1] at nf1 l1
    rw [postAllF_tree _ _ t2] at nf2 l2
    have sat : ∀ {as : List TAtom} {s : State}, postAll ord (State.empty nv) as = .ok s → ∃ γ, StateSem γ s := by
      intro as s h
      have hg := (postAll_ok ord ho _ _ as (good_empty nv) h).1
      have hd := postAll_dnf ho as (State.empty nv) s (good_empty nv) (fun _ hq0 => nomatch hq0) h
      obtain ⟨γ, hγ, _⟩ := dnf_sat hg.1 hd
      exact ⟨γ, hγ⟩
    cases r1 : postAll ord (State.empty nv) ((x ++ y).map tOf) with
    | ok s1 =>
      cases r2 : postAll ord (State.empty nv) ((y ++ x).map tOf) with
      | ok s2 => exact .inr ⟨s1, s2, l1.1 s1 r1, l2.1 s2 r2, o1 s1 s2 r1 r2⟩
      | fail =>
        obtain ⟨γ, hγ⟩ := sat r1
        exact (o2 s1 r1 r2 γ hγ).elim
      | fuel => exact (nf2 r2).elim
      | panic s => exact absurd r2 (postAll_no_panic_of_good ord ho _ _ (good_empty nv) s)
    | fail =>
      cases r2 : postAll ord (State.empty nv) ((y ++ x).map tOf) with
      | ok s2 =>
        obtain ⟨γ, hγ⟩ := sat r2
        exact (o3 r1 s2 r2 γ hγ).elim
      | fail => exact .inl ⟨l1.2 r1, l2.2 r2⟩
      | fuel => exact (nf2 r2).elim
      | panic s => exact absurd r2 (postAll_no_panic_of_good ord ho _ _ (good_empty nv) s)
    | fuel => exact (nf1 r1).elim
    | panic s => exact absurd r1 (postAll_no_panic_of_good ord ho _ _ (good_empty nv) s)

theorem zip2_perm_left {α β : Type} {R : α → β → Prop} : ∀ {xs zs : List α}, xs.Perm zs → ∀ {ys : List β}, Zip2 R xs ys →
    ∃ ws, ws.Perm ys ∧ Zip2 R zs ws := by
  intro xs zs h
  induction h with
  | nil => intro ys z; exact ⟨ys, .refl _, z⟩
  | cons a _ ih =>
    intro ys z
    cases z with
    | cons r t =>
      obtain ⟨ws, pw, zw⟩ := ih t
      exact ⟨_ :: ws, .cons _ pw, .cons r zw⟩
  | swap a b l =>
    intro ys z
    cases z with
    | cons r1 t1 =>
      cases t1 with
      | cons r2 t2 => exact ⟨_ :: _ :: _, .swap _ _ _, .cons r2 (.cons r1 t2)⟩
  | trans _ _ ih1 ih2 =>
    intro ys z
    obtain ⟨w1, p1, z1⟩ := ih1 z
    obtain ⟨w2, p2, z2⟩ := ih2 z1
    exact ⟨w2, p2.trans p1, z2⟩

/-! ### any reordering, at any depth -/

/-- `p'` is `p` with the sides of some conjunctions and the clauses of some disjunctions swapped, at any depth, any
    number of times -/
inductive Reorder : FProg → FProg → Prop
  | refl (p) : Reorder p p
  | conjSwap (p q) : Reorder (.conj p q) (.conj q p)
  | altSwap (p q) : Reorder (.alt p q) (.alt q p)
  | conj {p p' q q'} : Reorder p p' → Reorder q q' → Reorder (.conj p q) (.conj p' q')
  | alt {p p' q q'} : Reorder p p' → Reorder q q' → Reorder (.alt p q) (.alt p' q')
  | fresh {p p'} : Reorder p p' → Reorder (.fresh p) (.fresh p')
  | trans {p q r} : Reorder p q → Reorder q r → Reorder p r

theorem Reorder.treeOnly {p p' : FProg} (h : Reorder p p') : p.TreeOnly → p'.TreeOnly := by
  induction h with
  | refl _ => exact id
  | conjSwap _ _ => exact fun h => ⟨h.2, h.1⟩
  | altSwap _ _ => exact fun h => ⟨h.2, h.1⟩
  | conj _ _ i1 i2 => exact fun h => ⟨i1 h.1, i2 h.2⟩
  | alt _ _ i1 i2 => exact fun h => ⟨i1 h.1, i2 h.2⟩
  | fresh _ i => exact i
  | trans _ _ i1 i2 => exact fun h => i2 (i1 h)

theorem zip2_refl {α : Type} {R : α → α → Prop} (hr : ∀ a, R a a) : ∀ (l : List α), Zip2 R l l
  | [] => .nil
  | a :: l => .cons (hr a) (zip2_refl hr l)

theorem zip2_append' {α β : Type} {R : α → β → Prop} : ∀ {as as' : List α} {bs bs' : List β},
    Zip2 R as bs → Zip2 R as' bs' → Zip2 R (as ++ as') (bs ++ bs')
  | _, _, _, _, .nil, h => h
  | _, _, _, _, .cons r t, h => .cons r (zip2_append' t h)

theorem zip2_map2 {α β γ δ : Type} {R : α → β → Prop} {S : γ → δ → Prop} (f : α → γ) (g : β → δ) (h : ∀ a b, R a b → S (f a) (g b)) :
    ∀ {as : List α} {bs : List β}, Zip2 R as bs → Zip2 S (as.map f) (bs.map g)
  | _, _, .nil => .nil
  | _, _, .cons r t => .cons (h _ _ r) (zip2_map2 f g h t)

theorem zip2_trans_perm {α : Type} : ∀ {xs ys zs : List (List α)}, Zip2 List.Perm xs ys → Zip2 List.Perm ys zs → Zip2 List.Perm xs zs
  | _, _, _, .nil, .nil => .nil
  | _, _, _, .cons r t, .cons r' t' => .cons (r.trans r') (zip2_trans_perm t t')

/-- products of path lists related pairwise -/
theorem zip2_product {α : Type} : ∀ {P P' Q Q' : List (List α)}, Zip2 List.Perm P P' → Zip2 List.Perm Q Q' →
    Zip2 List.Perm (P.flatMap fun x => Q.map fun y => x ++ y) (P'.flatMap fun x => Q'.map fun y => x ++ y)
  | _, _, _, _, .nil, _ => .nil
  | _, _, _, _, .cons r t, hq => by
    simp only [List.flatMap_cons]
    exact zip2_append' (zip2_map2 _ _ (fun _ _ h => List.Perm.append r h) hq) (zip2_product t hq)

theorem perm_product {α : Type} {P P' Q Q' : List (List α)} (hp : P.Perm P') (hq : Q.Perm Q') :
    (P.flatMap fun x => Q.map fun y => x ++ y).Perm (P'.flatMap fun x => Q'.map fun y => x ++ y) := by
  have h1 : (P.flatMap fun x => Q.map fun y => x ++ y).Perm (P'.flatMap fun x => Q.map fun y => x ++ y) :=
    List.Perm.flatMap_right _ hp
  have h2 : (P'.flatMap fun x => Q.map fun y => x ++ y).Perm (P'.flatMap fun x => Q'.map fun y => x ++ y) := by
    clear h1 hp
    induction P' with
    | nil => exact .refl _
    | cons x P' ih => simp only [List.flatMap_cons]; exact (hq.map _).append ih
  exact h1.trans h2

/-- the paths of a reordered program are, up to the order of the paths, the paths of the original with their atoms
    permuted -/
theorem reorder_paths {p p' : FProg} (h : Reorder p p') : ∃ L, L.Perm p'.paths ∧ Zip2 List.Perm p.paths L := by
  induction h with
  | refl p => exact ⟨p.paths, .refl _, zip2_refl (fun a => .refl a) _⟩
  | conjSwap p q =>
    refine ⟨p.paths.flatMap fun x => q.paths.map fun y => y ++ x, ?_, ?_⟩
    · simp only [FProg.paths]
      exact (product_swap (fun x y => y ++ x) p.paths q.paths).symm
    · simp only [FProg.paths]
      generalize p.paths = P
      induction P with
      | nil => exact .nil
      | cons x P ih =>
        simp only [List.flatMap_cons]
        refine zip2_append' ?_ ih
        generalize q.paths = Q
        induction Q with
        | nil => exact .nil
        | cons y Q ihq => exact .cons List.perm_append_comm ihq
  | altSwap p q =>
    exact ⟨p.paths ++ q.paths, by simp only [FProg.paths]; exact List.perm_append_comm, by
      simp only [FProg.paths]; exact zip2_refl (fun a => .refl a) _⟩
  | @conj p p' q q' _ _ i1 i2 =>
    obtain ⟨L1, p1, z1⟩ := i1
    obtain ⟨L2, p2, z2⟩ := i2
    exact ⟨L1.flatMap fun x => L2.map fun y => x ++ y, by simp only [FProg.paths]; exact perm_product p1 p2, by
      simp only [FProg.paths]; exact zip2_product z1 z2⟩
  | @alt p p' q q' _ _ i1 i2 =>
    obtain ⟨L1, p1, z1⟩ := i1
    obtain ⟨L2, p2, z2⟩ := i2
    exact ⟨L1 ++ L2, by simp only [FProg.paths]; exact p1.append p2, by simp only [FProg.paths]; exact zip2_append' z1 z2⟩
  | fresh _ i => exact i
  | @trans p q r _ _ i1 i2 =>
    obtain ⟨L1, p1, z1⟩ := i1
    obtain ⟨L2, p2, z2⟩ := i2
    -- transport the second zip along the permutation L1 ~ q.paths
    obtain ⟨L3, p3, z3⟩ := zip2_perm_left p1.symm z2
    exact ⟨L3, p3.trans p2, zip2_trans_perm z1 z3⟩

theorem zip2_filterMap2 {α β γ : Type} {S : α → α → Prop} {R : β → γ → Prop} {h1 : α → Option β} {h2 : α → Option γ} :
    ∀ {as bs : List α}, Zip2 S as bs →
    (∀ a b, a ∈ as → b ∈ bs → S a b → (h1 a = none ∧ h2 b = none) ∨ ∃ u v, h1 a = some u ∧ h2 b = some v ∧ R u v) →
    Zip2 R (as.filterMap h1) (bs.filterMap h2)
  | _, _, .nil, _ => .nil
  | _, _, @Zip2.cons _ _ _ a b as bs r t, h => by
    have ih := zip2_filterMap2 (R := R) (h1 := h1) (h2 := h2) t fun a' b' ha hb s =>
      h a' b' (List.mem_cons_of_mem _ ha) (List.mem_cons_of_mem _ hb) s
    rcases h a b List.mem_cons_self List.mem_cons_self r with ⟨n1, n2⟩ | ⟨u, v, s1, s2, ruv⟩
    · simp only [List.filterMap_cons, n1, n2]; exact ih
    · simp only [List.filterMap_cons, s1, s2]; exact .cons ruv ih

/-- ANY REORDERING IS A BIJECTION BETWEEN THE ANSWERS (C04, multiset level, `==`/`!=` programs, any depth): the reference
    answer lists of a program and of any reordering of it have the same number of states, and can be matched so that
    corresponding states describe the same valuations (when no path runs out of the model's unification fuel) -/
theorem tree_reorder_bijection (ho : OrderOK ord) (dfs : Call → State → State × G) {p p' : FProg} (hr : Reorder p p')
    (hp : p.TreeOnly) (nv n m : Nat) (xs ys : List State)
    (hx : evalRef dfs n (p.goal ord) (State.empty nv) = some xs)
    (hy : evalRef dfs m (p'.goal ord) (State.empty nv) = some ys)
    (hnf : ∀ path, path ∈ p.paths ∨ path ∈ p'.paths → postAllF ord (State.empty nv) path ≠ .fuel) :
    ∃ ys', ys'.Perm ys ∧ Zip2 (fun a b => ∀ γ, StateSem γ a ↔ StateSem γ b) xs ys' := by
  have ex := evalRef_paths_exact dfs p n _ xs hx
  have ey := evalRef_paths_exact dfs p' m _ ys hy
  have hp' := hr.treeOnly hp
  obtain ⟨L, pL, zL⟩ := reorder_paths hr
  refine ⟨L.filterMap (postL ord (State.empty nv)), ?_, ?_⟩
  · rw [ey]; exact pL.filterMap _
  · rw [ex]
    refine zip2_filterMap2 zL fun x y hx' hy' perm0 => ?_
    have hy'' : y ∈ p'.paths := pL.mem_iff.1 hy'
    have t1 := treeOnly_paths p hp x hx'
    have t2 := treeOnly_paths p' hp' y hy''
    have perm : (x.map tOf).Perm (y.map tOf) := perm0.map _
    obtain ⟨o1, o2, o3⟩ := C02_order_free ord ord ho ho nv _ _ perm
    have nf1 := hnf x (.inl hx')
    have nf2 := hnf y (.inr hy'')
    have l1 := postL_of_postAllF (ord := ord) x (State.empty nv) (inv_empty nv) rfl
    have l2 := postL_of_postAllF (ord := ord) y (State.empty nv) (inv_empty nv) rfl
    rw [postAllF_tree _ _ t1] at nf1 l1
    rw [postAllF_tree _ _ t2] at nf2 l2
    have sat : ∀ {as : List TAtom} {s : State}, postAll ord (State.empty nv) as = .ok s → ∃ γ, StateSem γ s := by
      intro as s h
      have hg := (postAll_ok ord ho _ _ as (good_empty nv) h).1
      have hd := postAll_dnf ho as (State.empty nv) s (good_empty nv) (fun _ hq0 => nomatch hq0) h
      obtain ⟨γ, hγ, _⟩ := dnf_sat hg.1 hd
      exact ⟨γ, hγ⟩
    cases r1 : postAll ord (State.empty nv) (x.map tOf) with
    | ok s1 =>
      cases r2 : postAll ord (State.empty nv) (y.map tOf) with
      | ok s2 => exact .inr ⟨s1, s2, l1.1 s1 r1, l2.1 s2 r2, o1 s1 s2 r1 r2⟩
      | fail =>
        obtain ⟨γ, hγ⟩ := sat r1
        exact (o2 s1 r1 r2 γ hγ).elim
      | fuel => exact (nf2 r2).elim
      | panic s => exact absurd r2 (postAll_no_panic_of_good ord ho _ _ (good_empty nv) s)
    | fail =>
      cases r2 : postAll ord (State.empty nv) (y.map tOf) with
      | ok s2 =>
        obtain ⟨γ, hγ⟩ := sat r2
        exact (o3 r1 s2 r2 γ hγ).elim
      | fail => exact .inl ⟨l1.2 r1, l2.2 r2⟩
      | fuel => exact (nf2 r2).elim
      | panic s => exact absurd r2 (postAll_no_panic_of_good ord ho _ _ (good_empty nv) s)
    | fuel => exact (nf1 r1).elim
    | panic s => exact absurd r1 (postAll_no_panic_of_good ord ho _ _ (good_empty nv) s)

end
end Pv
