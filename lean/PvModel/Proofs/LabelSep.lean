/-
  LABELLING SEPARATES: two states `force_ans(x)` delivers at different positions of its answer list give the labelled
  term `x` DIFFERENT values — under any valuation the one describes and any the other describes.  (Proofs/Label.lean shows
  they describe no common valuation; this is stronger: they do not even agree on `x`.)  With the cover half of the
  partition theorem: the delivered states are in bijection with the values `x` takes under the valuations of the labelled
  state that … no: with the BLOCKS of valuations; and blocks differ on `x`.  This is "each assignment is returned ONCE".
-/
import PvModel.Proofs.Label
namespace Pv
open State Term Goal FD

variable [Mode]

/-- the two states give the terms `fs` different values -/
def SepL (fs : List Term) (a b : State) : Prop :=
  ∀ γa γb, Sem NoI γa a → Sem NoI γb b → fs.map (apply γa) ≠ fs.map (apply γb)

theorem SepL.symm {fs : List Term} {a b : State} (h : SepL fs a b) : SepL fs b a :=
  fun γa γb ha hb e => h γb γa hb ha e.symm

/-- sub-states inherit separation -/
theorem SepL.sub {fs : List Term} {a b a' b' : State} (h : SepL fs a b) (ha : ∀ γ, Sem NoI γ a' → Sem NoI γ a)
    (hb : ∀ γ, Sem NoI γ b' → Sem NoI γ b) : SepL fs a' b' :=
  fun γa γb sa sb => h γa γb (ha γa sa) (hb γb sb)

theorem iterItems_cons (h t : Term) : (Term.cons h t).iterItems = h :: t.iterItems := by
  simp only [Term.iterItems, Term.listElems]
  cases hl : t.listElems with
  | mk es tl =>
    simp only
    cases tl <;> rfl

theorem iterItems_apply_congr {γa γb : Subst} : ∀ (t : Term), apply γa t = apply γb t →
    t.iterItems.map (apply γa) = t.iterItems.map (apply γb)
  | .cons h t, e => by
    simp only [apply, Term.cons.injEq] at e
    rw [iterItems_cons]
    simp only [List.map_cons, e.1, iterItems_apply_congr t e.2]
  | .nil, _ => rfl
  | .var x, e => by simp only [Term.iterItems, Term.listElems, List.nil_append, List.map_cons, List.map_nil, e]
  | .val v, e => by simp only [Term.iterItems, Term.listElems, List.nil_append, List.map_cons, List.map_nil, e]
  | .comp g a, e => by simp only [Term.iterItems, Term.listElems, List.nil_append, List.map_cons, List.map_nil, e]

theorem compFields_apply_congr {γa γb : Subst} (args : Term) (e : apply γa args = apply γb args) :
    (compFields args).map (apply γa) = (compFields args).map (apply γb) := by
  have hi := iterItems_apply_congr args e
  unfold compFields
  generalize args.iterItems = items at hi
  induction items with
  | nil => rfl
  | cons it rest ih =>
    simp only [List.map_cons, List.cons.injEq] at hi
    simp only [List.flatMap_cons, List.map_append]
    rw [ih hi.2]
    congr 1
    have e1 := hi.1
    cases it with
    | comp g kids =>
      by_cases hg : g = 4
      · subst hg
        simp only [apply, Term.comp.injEq, true_and] at e1
        exact iterItems_apply_congr kids e1
      · split
        · rename_i k he; cases he; exact absurd rfl hg
        · simp only [List.map_cons, List.map_nil, e1]
    | var x => simp only [List.map_cons, List.map_nil, e1]
    | val v => simp only [List.map_cons, List.map_nil, e1]
    | nil => simp only [List.map_cons, List.map_nil, e1]
    | cons a b => simp only [List.map_cons, List.map_nil, e1]

section Goals
variable (dfs : Call → State → State × G)

/-- a labelling goal separates its answers on the terms `fs` -/
def SepOK (g : G) (fs : List Term) : Prop :=
  ∀ N s zs, WFS s → Inv s → s.panic = none → evalRef dfs N g s = some zs → (∀ t ∈ zs, t.panic = none) →
    zs.Pairwise (SepL fs)

theorem sepOK_succeed (fs : List Term) : SepOK dfs (.succeed : G) fs := by
  intro N s zs _ _ _ h _
  cases N with
  | zero => simp [evalRef] at h
  | succ N => simp only [evalRef, Option.some.injEq] at h; subst h; exact List.pairwise_singleton _ _

/-- pairwise separation through a `flatMapM`: the parents are separated on `fs1`, the children of one parent on `fs2`,
    children describe only valuations of their parent -/
theorem pairwise_flatMapM {f : State → Option (List State)} {fs1 fs2 fs : List Term}
    (h1 : ∀ a b, SepL fs1 a b → SepL fs a b) (h2 : ∀ a b, SepL fs2 a b → SepL fs a b) :
    ∀ {zs ws : List State}, zs.Pairwise (SepL fs1) → flatMapM f zs = some ws →
      (∀ t ∈ zs, ∀ ys, f t = some ys → ys.Pairwise (SepL fs2) ∧ ∀ y ∈ ys, ∀ γ, Sem NoI γ y → Sem NoI γ t) →
      ws.Pairwise (SepL fs) := by
  intro zs
  induction zs with
  | nil => intro ws _ hf _; simp only [flatMapM, Option.some.injEq] at hf; subst hf; exact List.Pairwise.nil
  | cons a zs ihz =>
    intro ws hp hf hh
    obtain ⟨ya, wa, e1, e2, rfl⟩ := flatMapM_cons_some' hf
    have hpa := List.pairwise_cons.1 hp
    refine List.pairwise_append.2 ⟨((hh a (List.mem_cons_self ..) ya e1).1).imp (h2 _ _),
      ihz hpa.2 e2 (fun t ht ys e => hh t (List.mem_cons_of_mem _ ht) ys e), fun x hx y hy => ?_⟩
    obtain ⟨t', ht', ys', e, hy'⟩ := (flatMapM_mem e2 y).1 hy
    exact h1 _ _ ((hpa.1 t' ht').sub ((hh a (List.mem_cons_self ..) ya e1).2 x hx)
      ((hh t' (List.mem_cons_of_mem _ ht') ys' e).2 y hy'))

theorem sepOK_conj {g1 g2 : G} {f1 : Term} {fs2 : List Term} (l1 : LabelOK dfs g1) (l2 : LabelOK dfs g2)
    (h1 : SepOK dfs g1 [f1]) (h2 : SepOK dfs g2 fs2) : SepOK dfs (.conj g1 g2) (f1 :: fs2) := by
  intro N s zs w hi hp h hall
  cases N with
  | zero => simp [evalRef] at h
  | succ N =>
    simp only [evalRef] at h
    cases hx : evalRef dfs N g1 s with
    | none => rw [hx] at h; simp at h
    | some xs =>
      rw [hx] at h
      simp only at h
      have hxs : ∀ t ∈ xs, t.panic = none := fun t ht => by
        cases hpt : t.panic with
        | none => rfl
        | some site =>
          obtain ⟨ys, e⟩ := flatMapM_some_of_mem h t ht
          have : t ∈ ys := l2.2.1 N t ys (by rw [hpt]; simp) e
          have := hall t ((flatMapM_mem h t).2 ⟨t, ht, ys, e, this⟩)
          rw [hpt] at this; cases this
      have p1 := l1.1 N s xs w hi hp hx hxs
      have s1 := h1 N s xs w hi hp hx hxs
      refine pairwise_flatMapM (fs1 := [f1]) (fs2 := fs2) (fun a b hab γa γb sa sb e => ?_) (fun a b hab γa γb sa sb e => ?_)
        s1 h fun t ht ys e => ?_
      · simp only [List.map_cons, List.cons.injEq] at e
        exact hab γa γb sa sb (by simp only [List.map_cons, List.map_nil, e.1])
      · simp only [List.map_cons, List.cons.injEq] at e
        exact hab γa γb sa sb e.2
      · obtain ⟨wt, it, _⟩ := p1.1 t ht
        have hy := fun y hy => hall y ((flatMapM_mem h y).2 ⟨t, ht, ys, e, hy⟩)
        exact ⟨h2 N t ys wt it (hxs t ht) e hy, fun y hy' γ hs => ((l2.1 N t ys wt it (hxs t ht) e hy).1 y hy').2.2 γ hs⟩

theorem forceAns_shape (ord : Order) (n : Nat) (x : Term) :
    (forceAns ord n x).isSucceed = false ∧ (forceAns ord n x).isFail = false := by
  cases n <;> exact ⟨rfl, rfl⟩

variable {ord : Order} (ho : OrderOK ord)
include ho

/-- the conjunction `force_ans` builds over a list of terms, given that `force_ans` at this depth separates -/
theorem sepOK_forceList (n : Nat) (ih : ∀ x, SepOK dfs (forceAns ord n x) [x]) :
    ∀ fs : List Term, SepOK dfs (Goal.conjOfList (fs.map (forceAns ord n))) fs
  | [] => sepOK_succeed dfs []
  | f :: fs => by
    have a1 := forceAns_shape ord n f
    have l2 := labelOK_conjOfList dfs (fs.map (forceAns ord n)) (fun g hg => by
      obtain ⟨x, _, rfl⟩ := List.mem_map.1 hg
      exact forceAns_labelOK dfs ho n x)
    have e : Goal.conjOfList ((f :: fs).map (forceAns ord n)) =
        .conj (forceAns ord n f) (Goal.conjOfList (fs.map (forceAns ord n))) := by
      show mkConj _ _ = _
      unfold mkConj
      rw [a1.1, a1.2, l2.2.2]
      rfl
    rw [e]
    exact sepOK_conj dfs (forceAns_labelOK dfs ho n f) l2 (ih f) (sepOK_forceList n ih fs)

omit ho in
theorem sep_convert {x : Term} {fs : List Term} {s : State} {zs : List State} (hp : zs.Pairwise (SepL fs))
    (hsub : ∀ t ∈ zs, ∀ γ, Sem NoI γ t → Sem NoI γ s)
    (conv : ∀ γa γb, Sem NoI γa s → Sem NoI γb s → apply γa x = apply γb x → fs.map (apply γa) = fs.map (apply γb)) :
    zs.Pairwise (SepL [x]) :=
  hp.imp_of_mem fun {a b} ha hb hab γa γb sa sb e => by
    simp only [List.map_cons, List.map_nil, List.cons.injEq, and_true] at e
    exact hab γa γb sa sb (conv γa γb (hsub a ha γa sa) (hsub b hb γb sb) e)

omit ho in
theorem apply_of_walk {σ γ : Subst} (hx : Ext σ γ) (x : Term) : apply γ x = apply γ (walk σ x) := by
  cases x with
  | var x0 => have := hx (.var x0); simpa [apply, walk] using this.symm
  | _ => rfl

/-- `force_ans` on ANY term separates its answers on that term -/
theorem forceAns_sep : ∀ (n : Nat) (x : Term), SepOK dfs (forceAns ord n x) [x]
  | 0, x => by
    intro N s zs _ _ hp h hall
    cases N with
    | zero => simp [evalRef] at h
    | succ N =>
      simp only [forceAns, evalRef, liftRes, hp, Option.isSome_none, Bool.false_eq_true, if_false,
        Option.toList_some, Option.some.injEq] at h
      subst h
      exact List.pairwise_singleton _ _
  | n + 1, x => by
    have ihn := forceAns_sep n
    intro N s zs w hi hp h hall
    have part := (forceAns_labelOK dfs ho (n + 1) x).1 N s zs w hi hp h hall
    have hsub : ∀ t ∈ zs, ∀ γ, Sem NoI γ t → Sem NoI γ s := fun t ht γ hγ => (part.1 t ht).2.2 γ hγ
    cases N with
    | zero => simp [evalRef] at h
    | succ N =>
      simp only [forceAns, evalRef, id, hp, Option.isSome_none, Bool.false_eq_true, if_false] at h
      split at h
      · rename_i xv hw
        split at h
        · rename_i d hd
          -- one state per value: different values of `xv`, hence of `x`
          let f : Int → State → Option State := fun v => liftRes fun st => st.unify ord (Term.num v) (.var xv)
          have hm : (d.iter.map fun k => eqG ord (Term.num k) (.var xv)) = (d.iter.map f).map fun g => (.atom g : G) := by
            simp only [List.map_map]; rfl
          rw [hm] at h
          have hz := evalRef_alt_atoms_eq dfs (d.iter.map f) N s zs h
          rw [List.filterMap_map] at hz
          have hwd : WF d := w.dwf _ (dget_mem hd)
          have key : ∀ v t, f v s = some t → t.panic = none → ∀ γ, Sem NoI γ t → Sem NoI γ s ∧ apply γ x = Term.num v := by
            intro v t hv hpt γ hγ
            have r := unify_sem (I := NoI) ho (iok_noI s) w hi (Term.num v) (.var xv)
            simp only [f, liftRes, hp, Option.isSome_none, Bool.false_eq_true, if_false] at hv
            cases hu : s.unify ord (Term.num v) (.var xv) with
            | ok s' =>
              rw [hu] at hv r
              simp only [Option.some.injEq] at hv
              subst hv
              have h2 := (r.2.2 γ).1 hγ
              refine ⟨h2.1, ?_⟩
              rw [apply_of_walk h2.1.1 x, hw]
              have := h2.2
              simpa [Term.num, apply] using this.symm
            | fail => rw [hu] at hv; simp at hv
            | fuel => rw [hu] at hv; simp only [Option.some.injEq] at hv; subst hv; simp at hpt
            | panic site => rw [hu] at hv; simp only [Option.some.injEq] at hv; subst hv; simp at hpt
          rw [hz]
          refine List.pairwise_filterMap.2 ((iter_pw d hwd).imp_of_mem fun {a b} ha hb hab t1 h1 t2 h2 γa γb sa sb e => ?_)
          have m1 : t1 ∈ zs := by rw [hz]; exact List.mem_filterMap.2 ⟨a, ha, h1⟩
          have m2 : t2 ∈ zs := by rw [hz]; exact List.mem_filterMap.2 ⟨b, hb, h2⟩
          have n1 := (key a t1 h1 (hall t1 m1) γa sa).2
          have n2 := (key b t2 h2 (hall t2 m2) γb sb).2
          simp only [List.map_cons, List.map_nil, List.cons.injEq, and_true] at e
          rw [n1, n2] at e
          have : a = b := by simpa [Term.num] using e
          omega
        · exact sepOK_succeed dfs [x] N s zs w hi hp h hall
      · rename_i hd' tl hw
        have hp2 := sepOK_forceList dfs ho n ihn [hd', tl] N s zs w hi hp h hall
        refine sep_convert hp2 hsub fun γa γb sa sb e => ?_
        rw [apply_of_walk sa.1 x, apply_of_walk sb.1 x, hw] at e
        simp only [apply, Term.cons.injEq] at e
        simp only [List.map_cons, List.map_nil, e.1, e.2]
      · rename_i tag args hw
        have hp2 := sepOK_forceList dfs ho n ihn (compFields args) N s zs w hi hp h hall
        refine sep_convert hp2 hsub fun γa γb sa sb e => ?_
        rw [apply_of_walk sa.1 x, apply_of_walk sb.1 x, hw] at e
        simp only [apply, Term.comp.injEq, true_and] at e
        exact compFields_apply_congr args e
      · exact sepOK_succeed dfs [x] N s zs w hi hp h hall

end Goals
end Pv
