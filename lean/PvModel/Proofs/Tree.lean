/-
  Main results about tree constraints (C02): posting `==`/`!=` preserves the semantic invariant.
-/
import PvModel.Spec.Tree
import PvModel.Proofs.Unify
import PvModel.Proofs.TreeAux
namespace Pv

/-! ### `take_constraint` on a good state -/

theorem take_none {st : State} {i : Nat} (h : (st.takeConstraint i).2 = none) :
    (st.takeConstraint i).1 = st := by
  unfold State.takeConstraint at h ⊢
  split
  · rename_i hf; rw [hf] at h; cases h
  · rfl

theorem take_spec {st st1 : State} {i : Nat} {c : Cst} (ht : TreeOnly st) (hi : IdsOK st)
    (hc : st.takeConstraint i = (st1, some c)) :
    ∃ ps, c = .diseq ps ∧ st1.σ = st.σ ∧ TreeOnly st1 ∧ IdsOK st1 ∧
      ∀ γ, StoreSem γ st ↔ (StoreSem γ st1 ∧ DiseqHolds γ ps) := by
  have hm : (i, c) ∈ st.store := take_some (by rw [hc])
  obtain ⟨f1, f2, f3, f4⟩ := take_fields st i
  rw [hc] at f1 f2 f3 f4
  simp only [] at f1 f2 f3 f4
  have hsub : ∀ q, q ∈ st1.store → q ∈ st.store := fun q hq => by
    rw [f4] at hq; exact (List.mem_filter.mp hq).1
  have hd := ht.1 _ hm
  cases c with
  | diseq ps =>
    refine ⟨ps, rfl, f1, ⟨fun q hq => ht.1 q (hsub q hq), by rw [f2]; exact ht.2⟩, ⟨?_, ?_⟩, fun γ => ?_⟩
    · rw [f4]
      exact (List.Sublist.map (fun q : Nat × Cst => q.1) List.filter_sublist).nodup hi.1
    · intro q hq; rw [f3]; exact hi.2 q (hsub q hq)
    · constructor
      · intro a
        exact ⟨fun q hq qs he => a q (hsub q hq) qs he, a _ hm ps rfl⟩
      · rintro ⟨a, b⟩ q hq qs he
        by_cases hqi : q.1 = i
        · have : q = (i, .diseq ps) := nodup_fst_eq hi.1 hq hm hqi
          subst this
          simp only [Cst.diseq.injEq] at he
          subst he; exact b
        · refine a q ?_ qs he
          rw [f4, List.mem_filter]
          exact ⟨hq, by simpa using hqi⟩
  | _ => simp [Cst.isDiseq] at hd

/-! ### the loop of `run_constraints` -/

/-- one iteration of the loop of `run_constraints` -/
def snapStep (rc : State → Res State) (ord : Order) (st : State) (p : Nat × Cst) : Res State :=
  match st.takeConstraint p.1 with
  | (st', some c) => State.runCst rc ord 4 p.1 c st'
  | (st', none) => .ok st'

theorem runSnapshot_eq (rc : State → Res State) (ord : Order) (st : State) (snap : List (Nat × Cst)) :
    State.runSnapshot rc ord st snap =
      snap.foldl (fun r p => r.bind fun st => snapStep rc ord st p) (.ok st) := rfl

theorem runCst_diseq (rc : State → Res State) (ord : Order) (k id : Nat) (ps : Ext1) (st : State) :
    State.runCst rc ord k id (.diseq ps) st = State.runDiseq ord st ps := by
  cases k with
  | zero => rfl
  | succ k => rfl

/-- the result of a store-only step: success keeps the described valuations, failure means there
    were none, no panic -/
structure StepSpec (st : State) (r : Res State) : Prop where
  ok : ∀ st', r = .ok st' → AddOK st (fun _ => True) st'
  fail : r = .fail → ∀ γ, Ext st.σ γ → ¬ StoreSem γ st
  nopanic : ∀ s, r ≠ .panic s

theorem snapStep_spec (rc : State → Res State) {ord : Order} (ho : OrderOK ord) {st : State}
    (hs : Solved st.σ) (ht : TreeOnly st) (hi : IdsOK st) (p : Nat × Cst) :
    StepSpec st (snapStep rc ord st p) := by
  unfold snapStep
  rcases hc : st.takeConstraint p.1 with ⟨st1, oc⟩
  cases oc with
  | none =>
    have : st1 = st := by
      have := take_none (st := st) (i := p.1) (by rw [hc])
      rw [hc] at this; exact this
    subst this
    simp only []
    refine ⟨fun st' h => ?_, by simp, by simp⟩
    simp only [Res.ok.injEq] at h
    subst h
    exact AddOK.of_entailed ht hi (fun _ _ => trivial)
  | some c =>
    obtain ⟨ps, rfl, h1, t1, i1, sem1⟩ := take_spec ht hi hc
    simp only [runCst_diseq]
    have hs1 : Solved st1.σ := by rw [h1]; exact hs
    obtain ⟨rok, rfail, rpanic⟩ := runDiseq_spec ho hs1 t1 i1 ps
    refine ⟨fun st' h => ?_, fun h γ hx hsem => ?_, rpanic⟩
    · have a := rok st' h
      have hnv1 : st1.nextVar = st.nextVar := by
        have := take_nextVar st p.1
        rw [hc] at this; exact this
      refine ⟨a.sig.trans h1, a.tree, a.ids, fun γ hx => ?_, a.nv.trans hnv1⟩
      rw [a.sem γ (by rw [h1]; exact hx), ← sem1 γ]
      simp
    · exact rfail h γ (by rw [h1]; exact hx) ((sem1 γ).mp hsem).2

theorem foldl_bind_fail {α : Type} (g : State → α → Res State) (l : List α) :
    l.foldl (fun (r : Res State) p => r.bind fun st => g st p) (Res.fail) = Res.fail := by
  induction l with
  | nil => rfl
  | cons a l ih => simpa [Res.bind] using ih

theorem foldl_bind_fuel {α : Type} (g : State → α → Res State) (l : List α) :
    l.foldl (fun (r : Res State) p => r.bind fun st => g st p) (Res.fuel) = Res.fuel := by
  induction l with
  | nil => rfl
  | cons a l ih => simpa [Res.bind] using ih

theorem foldl_bind_panic {α : Type} (g : State → α → Res State) (s : String) (l : List α) :
    l.foldl (fun (r : Res State) p => r.bind fun st => g st p) (Res.panic s) = Res.panic s := by
  induction l with
  | nil => rfl
  | cons a l ih => simpa [Res.bind] using ih

theorem loop_spec (rc : State → Res State) {ord : Order} (ho : OrderOK ord) :
    ∀ (snap : List (Nat × Cst)) (st : State), Solved st.σ → TreeOnly st → IdsOK st →
      StepSpec st (State.runSnapshot rc ord st snap) := by
  intro snap
  induction snap with
  | nil =>
    intro st hs ht hi
    rw [runSnapshot_eq]
    refine ⟨fun st' h => ?_, by simp, by simp⟩
    simp only [List.foldl_nil, Res.ok.injEq] at h
    subst h
    exact AddOK.of_entailed ht hi (fun _ _ => trivial)
  | cons p rest ih =>
    intro st hs ht hi
    rw [runSnapshot_eq, List.foldl_cons]
    have e : ((Res.ok st).bind fun st => snapStep rc ord st p) = snapStep rc ord st p := rfl
    rw [e]
    obtain ⟨sok, sfail, spanic⟩ := snapStep_spec rc ho hs ht hi p
    cases hstep : snapStep rc ord st p with
    | ok st1 =>
      have a := sok st1 hstep
      rw [← runSnapshot_eq]
      obtain ⟨iok, ifail, ipanic⟩ := ih st1 (by rw [a.sig]; exact hs) a.tree a.ids
      refine ⟨fun st' h => ?_, fun h γ hx hsem => ?_, ipanic⟩
      · exact (a.trans (iok st' h)).congr (fun _ _ => by simp)
      · exact ifail h γ (by rw [a.sig]; exact hx) ((a.sem γ hx).mpr ⟨hsem, trivial⟩)
    | fail =>
      rw [foldl_bind_fail]
      exact ⟨by simp, fun _ => sfail hstep, by simp⟩
    | fuel =>
      rw [foldl_bind_fuel]
      exact ⟨by simp, by simp, by simp⟩
    | panic s => exact absurd hstep (spanic s)

theorem runConstraintsF_succ (ord : Order) (n : Nat) (st : State) :
    State.runConstraintsF ord (n + 1) st =
      State.runSnapshot (State.runConstraintsF ord n) ord st (ord.cs st.store) := by
  rw [State.runConstraintsF]

/-! ### `process_extension_fd` does nothing without finite domains -/

theorem foldl_ok_id {α : Type} (f : Res State → α → Res State)
    (hf : ∀ cur a, f (.ok cur) a = .ok cur) (l : List α) (cur : State) :
    l.foldl f (.ok cur) = .ok cur := by
  induction l with
  | nil => rfl
  | cons a l ih => rw [List.foldl_cons, hf]; exact ih

theorem processExtensionFd_tree (ord : Order) (st : State) (e : Ext1) (hd : st.dstore = []) :
    State.processExtensionFd ord st e = .ok st := by
  unfold State.processExtensionFd
  simp only []
  have hget : ∀ x, st.dget x = none := fun x => by simp [State.dget, hd]
  apply foldl_ok_id
  intro cur a
  simp only [Res.bind, hget]

/-! ### `State::unify` -/

theorem unify_spec {ord : Order} (ho : OrderOK ord) {st : State} (hg : Good st) (u v : Term) :
    (∀ st', st.unify ord u v = .ok st' →
      Good st' ∧ ∀ γ, StateSem γ st' ↔ (StateSem γ st ∧ apply γ u = apply γ v)) ∧
    (st.unify ord u v = .fail → ∀ γ, ¬ (StateSem γ st ∧ apply γ u = apply γ v)) ∧
    (∀ s, st.unify ord u v ≠ .panic s) := by
  obtain ⟨hs, ht, hi⟩ := hg
  unfold State.unify
  cases hu : unifyF unifyFuel st.σ [] u v with
  | none => simp
  | some r =>
    cases r with
    | none =>
      refine ⟨by simp, fun _ γ hsem => ?_, by simp⟩
      exact unifyF_fail _ _ _ _ _ hs hu ⟨γ, hsem.1.1, hsem.2⟩
    | some q =>
      obtain ⟨σ', e⟩ := q
      simp only []
      obtain ⟨s', x', un⟩ := unifyF_sound _ _ _ _ _ _ _ hs hu
      have mg := unifyF_mgu _ _ _ _ _ _ _ hs hu
      have hext : ∀ γ, Ext σ' γ ↔ (Ext st.σ γ ∧ apply γ u = apply γ v) := fun γ =>
        ⟨fun a => ⟨Ext.trans x' a, unifies_of_ext a un⟩, fun a => mg γ a.1 a.2⟩
      generalize hst1 : ({ st with σ := σ' } : State) = st1
      have hσ1 : st1.σ = σ' := by subst hst1; rfl
      have hstore1 : st1.store = st.store := by subst hst1; rfl
      have ht1 : TreeOnly st1 := by subst hst1; exact ht
      have hi1 : IdsOK st1 := by subst hst1; exact hi
      unfold State.processExtension
      rw [runConstraintsF_succ]
      obtain ⟨lok, lfail, lpanic⟩ :=
        loop_spec (State.runConstraintsF ord State.rcFuel) ho (ord.cs st1.store) st1
          (by rw [hσ1]; exact s') ht1 hi1
      cases hl : State.runSnapshot (State.runConstraintsF ord State.rcFuel) ord st1 (ord.cs st1.store) with
      | ok st2 =>
        have a := lok st2 hl
        simp only [Res.bind, processExtensionFd_tree ord st2 e a.tree.2]
        refine ⟨fun st' h => ?_, by simp, by simp⟩
        simp only [Res.ok.injEq] at h
        subst h
        refine ⟨⟨?_, a.tree, a.ids⟩, fun γ => ?_⟩
        · show Solved st2.σ
          rw [a.sig, hσ1]; exact s'
        · show (Ext st2.σ γ ∧ StoreSem γ st2) ↔ _
          rw [a.sig, hσ1]
          constructor
          · rintro ⟨b1, b2⟩
            have b3 := ((a.sem γ (by rw [hσ1]; exact b1)).mp b2).1
            have b4 := (hext γ).mp b1
            exact ⟨⟨b4.1, fun p hp => b3 p (by rw [hstore1]; exact hp)⟩, b4.2⟩
          · rintro ⟨⟨b1, b2⟩, b3⟩
            have b4 := (hext γ).mpr ⟨b1, b3⟩
            refine ⟨b4, (a.sem γ (by rw [hσ1]; exact b4)).mpr ⟨?_, trivial⟩⟩
            intro p hp; exact b2 p (by rw [← hstore1]; exact hp)
      | fail =>
        simp only [Res.bind]
        refine ⟨by simp, fun _ γ hsem => ?_, by simp⟩
        have b4 := (hext γ).mpr ⟨hsem.1.1, hsem.2⟩
        refine lfail hl γ (by rw [hσ1]; exact b4) ?_
        intro p hp; exact hsem.1.2 p (by rw [← hstore1]; exact hp)
      | fuel => simp [Res.bind]
      | panic s => exact absurd hl (lpanic s)

/-! ### the stated results -/

/-- the initial state is good and describes every valuation -/
theorem good_empty (n : Nat) : Good (State.empty n) := by
  refine ⟨solved_id, ⟨?_, rfl⟩, ?_, ?_⟩
  · intro p hp; cases hp
  · simp [State.empty]
  · intro p hp; cases hp

theorem stateSem_empty (n : Nat) (γ : Subst) : StateSem γ (State.empty n) := by
  refine ⟨ext_id γ, ?_⟩
  intro p hp; cases hp

theorem postAtom_spec (ord : Order) (ho : OrderOK ord) (st : State) (a : TAtom) (hg : Good st) :
    (∀ st', postAtom ord st a = .ok st' →
      Good st' ∧ ∀ γ : Subst, StateSem γ st' ↔ (StateSem γ st ∧ a.Sat γ)) ∧
    (postAtom ord st a = .fail → ∀ γ : Subst, ¬ (StateSem γ st ∧ a.Sat γ)) ∧
    (∀ s, postAtom ord st a ≠ .panic s) := by
  cases a with
  | eq u v => exact unify_spec ho hg u v
  | neq u v =>
    obtain ⟨hs, ht, hi⟩ := hg
    obtain ⟨dok, dfail, dpanic⟩ := disunify_spec ho hs ht hi u v
    refine ⟨fun st' h => ?_, fun h γ hsem => ?_, dpanic⟩
    · have a := dok st' h
      refine ⟨⟨by rw [a.sig]; exact hs, a.tree, a.ids⟩, fun γ => ?_⟩
      show (Ext st'.σ γ ∧ StoreSem γ st') ↔ ((Ext st.σ γ ∧ StoreSem γ st) ∧ apply γ u ≠ apply γ v)
      rw [a.sig]
      constructor
      · rintro ⟨b1, b2⟩
        have := (a.sem γ b1).mp b2
        exact ⟨⟨b1, this.1⟩, this.2⟩
      · rintro ⟨⟨b1, b2⟩, b3⟩
        exact ⟨b1, (a.sem γ b1).mpr ⟨b2, b3⟩⟩
    · exact dfail h γ hsem.1.1 hsem.2

/-- one step, success: the new state is good and describes exactly the old valuations satisfying the atom -/
theorem postAtom_ok (ord : Order) (ho : OrderOK ord) (st st' : State) (a : TAtom) (hg : Good st)
    (h : postAtom ord st a = .ok st') :
    Good st' ∧ ∀ γ : Subst, StateSem γ st' ↔ (StateSem γ st ∧ a.Sat γ) :=
  (postAtom_spec ord ho st a hg).1 st' h

/-- one step, failure: no valuation described by the state satisfies the atom -/
theorem postAtom_fail (ord : Order) (ho : OrderOK ord) (st : State) (a : TAtom) (hg : Good st)
    (h : postAtom ord st a = .fail) :
    ∀ γ : Subst, ¬ (StateSem γ st ∧ a.Sat γ) :=
  (postAtom_spec ord ho st a hg).2.1 h

/-- posting eq/neq on a good state never panics -/
theorem postAtom_no_panic (ord : Order) (ho : OrderOK ord) (st : State) (a : TAtom) (hg : Good st)
    (site : String) : postAtom ord st a ≠ .panic site :=
  (postAtom_spec ord ho st a hg).2.2 site

/-- all atoms, success -/
theorem postAll_ok (ord : Order) (ho : OrderOK ord) (st st' : State) (as : List TAtom) (hg : Good st)
    (h : postAll ord st as = .ok st') :
    Good st' ∧ ∀ γ : Subst, StateSem γ st' ↔ (StateSem γ st ∧ ∀ a ∈ as, a.Sat γ) := by
  induction as generalizing st with
  | nil =>
    simp only [postAll, Res.ok.injEq] at h
    subst h
    exact ⟨hg, fun γ => by simp⟩
  | cons a as ih =>
    simp only [postAll] at h
    cases h1 : postAtom ord st a with
    | ok st1 =>
      rw [h1] at h
      obtain ⟨g1, sem1⟩ := postAtom_ok ord ho st st1 a hg h1
      obtain ⟨g2, sem2⟩ := ih st1 g1 h
      refine ⟨g2, fun γ => ?_⟩
      rw [sem2 γ, sem1 γ]
      simp only [List.mem_cons, forall_eq_or_imp, and_assoc]
    | fail => rw [h1] at h; cases h
    | fuel => rw [h1] at h; cases h
    | panic s => rw [h1] at h; cases h

/-- all atoms, failure -/
theorem postAll_fail (ord : Order) (ho : OrderOK ord) (st : State) (as : List TAtom) (hg : Good st)
    (h : postAll ord st as = .fail) :
    ∀ γ : Subst, ¬ (StateSem γ st ∧ ∀ a ∈ as, a.Sat γ) := by
  induction as generalizing st with
  | nil => simp [postAll] at h
  | cons a as ih =>
    simp only [postAll] at h
    intro γ hsem
    have ha : a.Sat γ := hsem.2 a (List.mem_cons_self ..)
    have has : ∀ b ∈ as, b.Sat γ := fun b hb => hsem.2 b (List.mem_cons_of_mem _ hb)
    cases h1 : postAtom ord st a with
    | ok st1 =>
      rw [h1] at h
      obtain ⟨g1, sem1⟩ := postAtom_ok ord ho st st1 a hg h1
      exact ih st1 g1 h γ ⟨(sem1 γ).mpr ⟨hsem.1, ha⟩, has⟩
    | fail => exact postAtom_fail ord ho st a hg h1 γ ⟨hsem.1, ha⟩
    | fuel => rw [h1] at h; cases h
    | panic s => rw [h1] at h; cases h

end Pv
