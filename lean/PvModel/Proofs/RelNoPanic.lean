/-
  NO PANIC through relation calls (strict mode = programs without `distinctfd`): for programs of FD / CLP(Z)
  constraints, domains, `==`, `!=`, conjunction, conde, fresh and calls of the library relations with the right
  number of arguments, no state the engine ever holds carries a panic site — the only poison is the model's own
  FUEL marker.  (The posting operations never reach a panic site from a well-formed state: `Ref0` in the strict
  mode; they never touch the poison flag: `StepI.pan`; relation bodies are made of `==`, `!=` and calls.)
-/
import PvModel.Proofs.RelSemFD
import PvModel.Proofs.RelProgram
namespace Pv
open Strm Goal State Term

section
attribute [local instance] Mode.strict
variable {ord : Order}

/-- unpoisoned and well-formed, or poisoned by the model's fuel marker only -/
def OkP (a : State) : Prop := (a.panic = none ∧ WFS a ∧ Inv a) ∨ a.panic = some "FUEL"

theorem postF_pan {a s : State} (t : FAtom) (hi : Inv a) (h : postF ord a t = .ok s) : s.panic = a.panic := by
  cases t with
  | eq u v => exact (unify_step ord hi h).pan
  | neq u v => exact (disunify_step ord hi h).pan
  | cst c => exact (postCst_step ord hi h).pan
  | dom x d => exact (domFd_step ord hi h).pan

/-- posting an admissible atom keeps `OkP` -/
theorem postF_okp (ho : OrderOK ord) (t : FAtom) (hk : t.OK) {a b : State}
    (h : (liftRes fun st => postF ord st t) a = some b) (ha : OkP a) : OkP b := by
  rcases ha with ⟨hn, w, hi⟩ | hf
  · have hp : a.panic.isSome = false := by rw [hn]; rfl
    simp only [liftRes, hp, Bool.false_eq_true, if_false] at h
    have r := postF_sem ho w hi t hk
    cases hr : postF ord a t with
    | ok s =>
      rw [hr] at h r
      simp only [Option.some.injEq] at h
      subst h
      exact .inl ⟨(postF_pan t hi hr).trans hn, r.1, r.2.1⟩
    | fail => rw [hr] at h; cases h
    | fuel =>
      rw [hr] at h
      simp only [Option.some.injEq] at h
      subst h
      exact .inr rfl
    | panic s =>
      rw [hr] at r
      exact r.1.elim
  · have hp : a.panic.isSome = true := by rw [hf]; rfl
    simp only [liftRes, hp, if_true, Option.some.injEq] at h
    subst h
    exact .inr hf

/-- goals made of admissible atoms, the interleaving and depth-first connectives, and valid library calls -/
inductive NPG (ord : Order) : G → Prop
  | succeed : NPG ord .succeed
  | fail : NPG ord .fail
  | atom {t : FAtom} : t.OK → NPG ord (.atom (liftRes fun st => postF ord st t))
  | conj {g1 g2} : NPG ord g1 → NPG ord g2 → NPG ord (.conj g1 g2)
  | conjD {g1 g2} : NPG ord g1 → NPG ord g2 → NPG ord (.conjD g1 g2)
  | alt {g1 g2} : NPG ord g1 → NPG ord g2 → NPG ord (.alt g1 g2)
  | altD {g1 g2} : NPG ord g1 → NPG ord g2 → NPG ord (.altD g1 g2)
  | fresh {g} : NPG ord g → NPG ord (.fresh g)
  | call {c : Call} : c.Valid → NPG ord (.call c)

theorem npg_eq (u v : Term) : NPG ord (eqG ord u v) := NPG.atom (t := .eq u v) trivial
theorem npg_neq (u v : Term) : NPG ord (diseqG ord u v) := NPG.atom (t := .neq u v) trivial

theorem npg_mkConj {g1 g2 : G} (h1 : NPG ord g1) (h2 : NPG ord g2) : NPG ord (mkConj g1 g2) := by
  unfold mkConj
  split
  · exact .succeed
  · split
    · exact .fail
    · exact .conj h1 h2

theorem npg_mkConjD {g1 g2 : G} (h1 : NPG ord g1) (h2 : NPG ord g2) : NPG ord (mkConjD g1 g2) := by
  unfold mkConjD
  split
  · exact .succeed
  · split
    · exact .fail
    · exact .conjD h1 h2

theorem npg_conjOfList : ∀ (gs : List G), (∀ g ∈ gs, NPG ord g) → NPG ord (conjOfList gs)
  | [], _ => .succeed
  | g :: gs, h => npg_mkConj (h g List.mem_cons_self) (npg_conjOfList gs fun x hx => h x (List.mem_cons_of_mem _ hx))

theorem npg_conjDOfList : ∀ (gs : List G), (∀ g ∈ gs, NPG ord g) → NPG ord (conjDOfList gs)
  | [], _ => .succeed
  | g :: gs, h => npg_mkConjD (h g List.mem_cons_self) (npg_conjDOfList gs fun x hx => h x (List.mem_cons_of_mem _ hx))

theorem npg_altOfList : ∀ (gs : List G), (∀ g ∈ gs, NPG ord g) → NPG ord (altOfList gs)
  | [], _ => .fail
  | g :: gs, h => .alt (h g List.mem_cons_self) (npg_altOfList gs fun x hx => h x (List.mem_cons_of_mem _ hx))

theorem npg_altDOfList : ∀ (gs : List G), (∀ g ∈ gs, NPG ord g) → NPG ord (altDOfList gs)
  | [], _ => .fail
  | g :: gs, h => .altD (h g List.mem_cons_self) (npg_altDOfList gs fun x hx => h x (List.mem_cons_of_mem _ hx))

theorem npg_oneOf (d : Bool) (cs : List (List G)) (h : ∀ c ∈ cs, ∀ g ∈ c, NPG ord g) : NPG ord (oneOf d cs) := by
  unfold oneOf
  cases d with
  | true =>
    refine npg_conjDOfList _ fun g hg => ?_
    simp only [List.mem_cons, List.not_mem_nil, or_false] at hg
    subst hg
    exact npg_altDOfList _ fun g hg => by
      obtain ⟨c, hc, rfl⟩ := List.mem_map.1 hg
      exact npg_conjDOfList c (h c hc)
  | false =>
    refine npg_conjOfList _ fun g hg => ?_
    simp only [List.mem_cons, List.not_mem_nil, or_false] at hg
    subst hg
    exact npg_altOfList _ fun g hg => by
      obtain ⟨c, hc, rfl⟩ := List.mem_map.1 hg
      exact npg_conjOfList c (h c hc)

theorem npg_conjLOf (d : Bool) (gs : List G) (h : ∀ g ∈ gs, NPG ord g) : NPG ord (conjLOf d gs) := by
  unfold conjLOf
  cases d with
  | true => exact npg_conjDOfList gs h
  | false => exact npg_conjOfList gs h

/-- the body of a valid library call is such a goal: `==`, `!=` and valid calls -/
theorem relBody_npg (c : Call) (hv : c.Valid) (n : Nat) : NPG ord (relBody ord c n).2 := by
  obtain ⟨rel, args, d⟩ := c
  cases rel <;> rcases args with _ | ⟨a1, _ | ⟨a2, _ | ⟨a3, _ | ⟨a4, rest⟩⟩⟩⟩ <;> simp only [Call.Valid] at hv
  · rw [body_member]
    refine npg_oneOf d _ fun c hc g hg => ?_
    simp only [List.mem_cons, List.not_mem_nil, or_false] at hc
    rcases hc with rfl | rfl <;> simp only [List.mem_cons, List.not_mem_nil, or_false] at hg <;>
      rcases hg with rfl | rfl <;> first | exact npg_eq _ _ | exact .call trivial
  · rw [body_member1]
    refine npg_oneOf d _ fun c hc g hg => ?_
    simp only [List.mem_cons, List.not_mem_nil, or_false] at hc
    rcases hc with rfl | rfl <;> simp only [List.mem_cons, List.not_mem_nil, or_false] at hg <;>
      rcases hg with rfl | rfl <;> first
        | exact npg_eq _ _
        | (refine npg_conjLOf d _ fun g hg => ?_
           simp only [List.mem_cons, List.not_mem_nil, or_false] at hg
           rcases hg with rfl | rfl
           · exact npg_neq _ _
           · exact .call trivial)
  · rw [body_append]
    refine npg_oneOf d _ fun c hc g hg => ?_
    simp only [List.mem_cons, List.not_mem_nil, or_false] at hc
    rcases hc with rfl | rfl <;> simp only [List.mem_cons, List.not_mem_nil, or_false] at hg <;>
      rcases hg with rfl | rfl <;> first | exact npg_eq _ _ | exact .call trivial
  · rw [body_rember]
    refine npg_oneOf d _ fun c hc g hg => ?_
    simp only [List.mem_cons, List.not_mem_nil, or_false] at hc
    rcases hc with rfl | rfl | rfl <;> simp only [List.mem_cons, List.not_mem_nil, or_false] at hg <;>
      rcases hg with rfl | rfl | rfl <;> first | exact npg_eq _ _ | exact npg_neq _ _ | exact .call trivial
  · rw [body_permute]
    refine npg_oneOf d _ fun c hc g hg => ?_
    simp only [List.mem_cons, List.not_mem_nil, or_false] at hc
    rcases hc with rfl | rfl <;> simp only [List.mem_cons, List.not_mem_nil, or_false] at hg <;>
      rcases hg with rfl | rfl <;> first
        | exact npg_eq _ _
        | (refine .fresh (npg_conjLOf d _ fun g hg => ?_)
           simp only [List.mem_cons, List.not_mem_nil, or_false] at hg
           rcases hg with rfl | rfl <;> exact .call trivial)
  · rw [body_distinct]
    refine npg_oneOf d _ fun c hc g hg => ?_
    simp only [List.mem_cons, List.not_mem_nil, or_false] at hc
    rcases hc with rfl | rfl | rfl <;> simp only [List.mem_cons, List.not_mem_nil, or_false] at hg <;>
      rcases hg with rfl | rfl | rfl | rfl <;> first | exact npg_eq _ _ | exact npg_neq _ _ | exact .call trivial

theorem okp_bump {a : State} (k : Nat) (h : OkP a) : OkP { a with nextVar := k } := by
  rcases h with ⟨hn, w, hi⟩ | hf
  · exact .inl ⟨hn, ((fd_bump a k).1 ⟨w, hi⟩).1, ((fd_bump a k).1 ⟨w, hi⟩).2⟩
  · exact .inr hf

/-- no big-step answer of such a goal carries a panic site -/
theorem np_big (ho : OrderOK ord) : ∀ (n : Nat) (g : G) (a b : State), BigF (defs ord) n g a b → NPG ord g → OkP a → OkP b
  | 0, _, _, _, h, _, _ => h.elim
  | n + 1, _, a, b, h, hg, ha => by
    cases hg with
    | succeed => simp only [BigF] at h; subst h; exact ha
    | fail => exact h.elim
    | atom hk => exact postF_okp ho _ hk h ha
    | conj h1 h2 => obtain ⟨c, b1, b2⟩ := h; exact np_big ho n _ c b b2 h2 (np_big ho n _ a c b1 h1 ha)
    | conjD h1 h2 => obtain ⟨c, b1, b2⟩ := h; exact np_big ho n _ c b b2 h2 (np_big ho n _ a c b1 h1 ha)
    | alt h1 h2 => rcases h with h | h; exact np_big ho n _ a b h h1 ha; exact np_big ho n _ a b h h2 ha
    | altD h1 h2 => rcases h with h | h; exact np_big ho n _ a b h h1 ha; exact np_big ho n _ a b h h2 ha
    | fresh h1 => exact np_big ho n _ a b h h1 ha
    | @call c hv =>
      simp only [BigF] at h
      exact np_big ho n _ _ b h (relBody_npg c hv a.nextVar) (okp_bump _ ha)

/-- every call of the program is a library call with the right number of arguments -/
def FRProg.Calls : FRProg → Prop
  | .conj p q => Calls p ∧ Calls q
  | .alt p q => Calls p ∧ Calls q
  | .fresh p => Calls p
  | .call c => c.Valid
  | _ => True

theorem FRProg.npg : ∀ (p : FRProg), p.OK → p.Calls → NPG ord (p.goal ord)
  | .succeed, _, _ => .succeed
  | .atom _, hk, _ => .atom hk
  | .conj p q, hk, hc => .conj (FRProg.npg p hk.1 hc.1) (FRProg.npg q hk.2 hc.2)
  | .alt p q, hk, hc => .alt (FRProg.npg p hk.1 hc.1) (FRProg.npg q hk.2 hc.2)
  | .fresh p, hk, hc => .fresh (FRProg.npg p hk hc)
  | .call _, _, hc => .call hc

/-- NO PANIC ON THE ENGINE: a program of FD / CLP(Z) constraints (no `distinctfd`), domains, `==`, `!=`, conjunction,
    conde, fresh and valid library relation calls — every state the engine's stream holds, at any nesting level,
    under any hash order, is either unpoisoned (and well-formed) or carries the model's FUEL marker: no panic
    site of the state machine is reachable. -/
theorem frprog_no_panic (ho : OrderOK ord) (pf M j nv : Nat) (p : FRProg) (hk : p.OK) (hc : p.Calls) (b : State)
    (hm : MemS (solveAt (defs ord) pf (M + 1)) b (solveAt (defs ord) pf j (p.goal ord) (State.empty nv))) :
    b.panic = none ∨ b.panic = some "FUEL" := by
  obtain ⟨n, hn⟩ := (mem_iff_big (defs_plain ord) pf M j (p.plain ord) _ b).1 hm
  rcases np_big ho n _ _ b hn (FRProg.npg p hk hc) (.inl ⟨rfl, wfs_empty nv, inv_empty nv⟩) with h | h
  · exact .inl h.1
  · exact .inr h

end
end Pv
