/-
  NO PANIC through relation calls (strict mode = programs without `distinctfd`): for programs of FD / CLP(Z)
  constraints, domains, `==`, `!=`, conjunction, conde, fresh and calls of the library relations with the right
  number of arguments, no state the engine ever holds carries a panic site — the only poison is the model's own
  FUEL marker.  (The posting operations never reach a panic site from a well-formed state: `Ref0` in the strict
  mode; they never touch the poison flag: `StepI.pan`; relation bodies are made of `==`, `!=` and calls.)
-/
import PvModel.Proofs.RelSemFD
import PvModel.Proofs.RelProgram
namespace Pv
open Strm Goal State Term

section
attribute [local instance] Mode.strict
variable {ord : Order}

/-- unpoisoned and well-formed, or poisoned by the model's fuel marker only -/
def OkP (a : State) : Prop := (a.panic = none ∧ WFS a ∧ Inv a) ∨ a.panic = some "FUEL"

theorem postF_panic {a s : State} (t : FAtom) (hi : Inv a) (h : postF ord a t = .ok s) : s.panic = a.panic := by
  cases t with
  | eq u v => exact (unify_step ord hi h).pan
  | neq u v => exact (disunify_step ord hi h).pan
  | cst c => exact (postCst_step ord hi h).pan
  | dom x d => exact (domFd_step ord hi h).pan

/-- posting an admissible atom keeps `OkP` -/
theorem postF_okp (ho : OrderOK ord) (t : FAtom) (hk : t.OK) {a b : State}
    (h : (liftRes fun st => postF ord st t) a = some b) (ha : OkP a) : OkP b := by
  rcases ha with ⟨hn, w, hi⟩ | hf
  · have hp : a.panic.isSome = false := by rw [hn]; rfl
    simp only [liftRes, hp, Bool.false_eq_true, if_false] at h
    have r := postF_sem ho w hi t hk
    cases hr : postF ord a t with
    | ok s =>
      rw [hr] at h r
      simp only [Option.some.injEq] at h
      subst h
      exact .inl ⟨(postF_panic t hi hr).trans hn, r.1, r.2.1⟩
    | fail => rw [hr] at h; cases h
    | fuel =>
      rw [hr] at h
      simp only [Option.some.injEq] at h
      subst h
      exact .inr rfl
    | panic s =>
      rw [hr] at r
      exact r.1.elim
  · have hp : a.panic.isSome = true := by rw [hf]; rfl
    simp only [liftRes, hp, if_true, Option.some.injEq] at h
    subst h
    exact .inr hf

/-- goals made of admissible atoms, the interleaving and depth-first connectives, and valid library calls -/
inductive NPG' (ord : Order) (A : FAtom → Prop) : G → Prop
  | succeed : NPG' ord A .succeed
  | fail : NPG' ord A .fail
  | atom {t : FAtom} : A t → NPG' ord A (.atom (liftRes fun st => postF ord st t))
  | conj {g1 g2} : NPG' ord A g1 → NPG' ord A g2 → NPG' ord A (.conj g1 g2)
  | conjD {g1 g2} : NPG' ord A g1 → NPG' ord A g2 → NPG' ord A (.conjD g1 g2)
  | alt {g1 g2} : NPG' ord A g1 → NPG' ord A g2 → NPG' ord A (.alt g1 g2)
  | altD {g1 g2} : NPG' ord A g1 → NPG' ord A g2 → NPG' ord A (.altD g1 g2)
  | fresh {g} : NPG' ord A g → NPG' ord A (.fresh g)
  | call {c : Call} : c.Valid → NPG' ord A (.call c)

/-- atoms that are `==` or `!=` -/
def TreeAtom : FAtom → Prop
  | .eq _ _ => True
  | .neq _ _ => True
  | _ => False

section Gen
variable {A : FAtom → Prop} (hA : ∀ u v, A (.eq u v) ∧ A (.neq u v))
include hA

theorem npg_eq (u v : Term) : NPG' ord A (eqG ord u v) := NPG'.atom (t := .eq u v) (hA u v).1
theorem npg_neq (u v : Term) : NPG' ord A (diseqG ord u v) := NPG'.atom (t := .neq u v) (hA u v).2

omit hA in
theorem npg_mkConj {g1 g2 : G} (h1 : NPG' ord A g1) (h2 : NPG' ord A g2) : NPG' ord A (mkConj g1 g2) := by
  unfold mkConj
  split
  · exact .succeed
  · split
    · exact .fail
    · exact .conj h1 h2

omit hA in
theorem npg_mkConjD {g1 g2 : G} (h1 : NPG' ord A g1) (h2 : NPG' ord A g2) : NPG' ord A (mkConjD g1 g2) := by
  unfold mkConjD
  split
  · exact .succeed
  · split
    · exact .fail
    · exact .conjD h1 h2

omit hA in
theorem npg_conjOfList : ∀ (gs : List G), (∀ g ∈ gs, NPG' ord A g) → NPG' ord A (conjOfList gs)
  | [], _ => .succeed
  | g :: gs, h => npg_mkConj (h g List.mem_cons_self) (npg_conjOfList gs fun x hx => h x (List.mem_cons_of_mem _ hx))

omit hA in
theorem npg_conjDOfList : ∀ (gs : List G), (∀ g ∈ gs, NPG' ord A g) → NPG' ord A (conjDOfList gs)
  | [], _ => .succeed
  | g :: gs, h => npg_mkConjD (h g List.mem_cons_self) (npg_conjDOfList gs fun x hx => h x (List.mem_cons_of_mem _ hx))

omit hA in
theorem npg_altOfList : ∀ (gs : List G), (∀ g ∈ gs, NPG' ord A g) → NPG' ord A (altOfList gs)
  | [], _ => .fail
  | g :: gs, h => .alt (h g List.mem_cons_self) (npg_altOfList gs fun x hx => h x (List.mem_cons_of_mem _ hx))

omit hA in
theorem npg_altDOfList : ∀ (gs : List G), (∀ g ∈ gs, NPG' ord A g) → NPG' ord A (altDOfList gs)
  | [], _ => .fail
  | g :: gs, h => .altD (h g List.mem_cons_self) (npg_altDOfList gs fun x hx => h x (List.mem_cons_of_mem _ hx))

omit hA in
theorem npg_oneOf (d : Bool) (cs : List (List G)) (h : ∀ c ∈ cs, ∀ g ∈ c, NPG' ord A g) : NPG' ord A (oneOf d cs) := by
  unfold oneOf
  cases d with
  | true =>
    refine npg_conjDOfList _ fun g hg => ?_
    simp only [List.mem_cons, List.not_mem_nil, or_false] at hg
    subst hg
    exact npg_altDOfList _ fun g hg => by
      obtain ⟨c, hc, rfl⟩ := List.mem_map.1 hg
      exact npg_conjDOfList c (h c hc)
  | false =>
    refine npg_conjOfList _ fun g hg => ?_
    simp only [List.mem_cons, List.not_mem_nil, or_false] at hg
    subst hg
    exact npg_altOfList _ fun g hg => by
      obtain ⟨c, hc, rfl⟩ := List.mem_map.1 hg
      exact npg_conjOfList c (h c hc)

omit hA in
theorem npg_conjLOf (d : Bool) (gs : List G) (h : ∀ g ∈ gs, NPG' ord A g) : NPG' ord A (conjLOf d gs) := by
  unfold conjLOf
  cases d with
  | true => exact npg_conjDOfList gs h
  | false => exact npg_conjOfList gs h

/-- the body of a valid library call is such a goal: `==`, `!=` and valid calls -/
theorem relBody_npg (c : Call) (hv : c.Valid) (n : Nat) : NPG' ord A (relBody ord c n).2 := by
  obtain ⟨rel, args, d⟩ := c
  cases rel <;> rcases args with _ | ⟨a1, _ | ⟨a2, _ | ⟨a3, _ | ⟨a4, rest⟩⟩⟩⟩ <;> simp only [Call.Valid] at hv
  · rw [body_member]
    refine npg_oneOf d _ fun c hc g hg => ?_
    simp only [List.mem_cons, List.not_mem_nil, or_false] at hc
    rcases hc with rfl | rfl <;> simp only [List.mem_cons, List.not_mem_nil, or_false] at hg <;>
      rcases hg with rfl | rfl <;> first | exact npg_eq hA _ _ | exact .call trivial
  · rw [body_member1]
    refine npg_oneOf d _ fun c hc g hg => ?_
    simp only [List.mem_cons, List.not_mem_nil, or_false] at hc
    rcases hc with rfl | rfl <;> simp only [List.mem_cons, List.not_mem_nil, or_false] at hg <;>
      rcases hg with rfl | rfl <;> first
        | exact npg_eq hA _ _
        | (refine npg_conjLOf d _ fun g hg => ?_
           simp only [List.mem_cons, List.not_mem_nil, or_false] at hg
           rcases hg with rfl | rfl
           · exact npg_neq hA _ _
           · exact .call trivial)
  · rw [body_append]
    refine npg_oneOf d _ fun c hc g hg => ?_
    simp only [List.mem_cons, List.not_mem_nil, or_false] at hc
    rcases hc with rfl | rfl <;> simp only [List.mem_cons, List.not_mem_nil, or_false] at hg <;>
      rcases hg with rfl | rfl <;> first | exact npg_eq hA _ _ | exact .call trivial
  · rw [body_rember]
    refine npg_oneOf d _ fun c hc g hg => ?_
    simp only [List.mem_cons, List.not_mem_nil, or_false] at hc
    rcases hc with rfl | rfl | rfl <;> simp only [List.mem_cons, List.not_mem_nil, or_false] at hg <;>
      rcases hg with rfl | rfl | rfl <;> first | exact npg_eq hA _ _ | exact npg_neq hA _ _ | exact .call trivial
  · rw [body_permute]
    refine npg_oneOf d _ fun c hc g hg => ?_
    simp only [List.mem_cons, List.not_mem_nil, or_false] at hc
    rcases hc with rfl | rfl <;> simp only [List.mem_cons, List.not_mem_nil, or_false] at hg <;>
      rcases hg with rfl | rfl <;> first
        | exact npg_eq hA _ _
        | (refine .fresh (npg_conjLOf d _ fun g hg => ?_)
           simp only [List.mem_cons, List.not_mem_nil, or_false] at hg
           rcases hg with rfl | rfl <;> exact .call trivial)
  · rw [body_distinct]
    refine npg_oneOf d _ fun c hc g hg => ?_
    simp only [List.mem_cons, List.not_mem_nil, or_false] at hc
    rcases hc with rfl | rfl | rfl <;> simp only [List.mem_cons, List.not_mem_nil, or_false] at hg <;>
      rcases hg with rfl | rfl | rfl | rfl <;> first | exact npg_eq hA _ _ | exact npg_neq hA _ _ | exact .call trivial


/-- an invariant of states that every allowed atom keeps, and the counter does not touch, holds of every big-step
    answer -/
theorem big_invariant (P : State → Prop)
    (hatom : ∀ t, A t → ∀ a b, (liftRes fun st => postF ord st t) a = some b → P a → P b)
    (hbump : ∀ (a : State) (k : Nat), P a → P { a with nextVar := k }) :
    ∀ (n : Nat) (g : G) (a b : State), BigF (defs ord) n g a b → NPG' ord A g → P a → P b
  | 0, _, _, _, h, _, _ => h.elim
  | n + 1, _, a, b, h, hg, ha => by
    cases hg with
    | succeed => simp only [BigF] at h; subst h; exact ha
    | fail => exact h.elim
    | atom hk => exact hatom _ hk a b h ha
    | conj h1 h2 =>
      obtain ⟨c, b1, b2⟩ := h
      exact big_invariant P hatom hbump n _ c b b2 h2 (big_invariant P hatom hbump n _ a c b1 h1 ha)
    | conjD h1 h2 =>
      obtain ⟨c, b1, b2⟩ := h
      exact big_invariant P hatom hbump n _ c b b2 h2 (big_invariant P hatom hbump n _ a c b1 h1 ha)
    | alt h1 h2 =>
      rcases h with h | h
      · exact big_invariant P hatom hbump n _ a b h h1 ha
      · exact big_invariant P hatom hbump n _ a b h h2 ha
    | altD h1 h2 =>
      rcases h with h | h
      · exact big_invariant P hatom hbump n _ a b h h1 ha
      · exact big_invariant P hatom hbump n _ a b h h2 ha
    | fresh h1 => exact big_invariant P hatom hbump n _ a b h h1 ha
    | @call c hv =>
      simp only [BigF] at h
      exact big_invariant P hatom hbump n _ _ b h (relBody_npg hA c hv a.nextVar) (hbump _ _ ha)

end Gen

/-- the class used for the no-panic theorem: every admissible atom -/
abbrev NPG (ord : Order) : G → Prop := NPG' ord FAtom.OK

theorem ok_tree (u v : Term) : FAtom.OK (.eq u v) ∧ FAtom.OK (.neq u v) := ⟨trivial, trivial⟩

theorem okp_bump {a : State} (k : Nat) (h : OkP a) : OkP { a with nextVar := k } := by
  rcases h with ⟨hn, w, hi⟩ | hf
  · exact .inl ⟨hn, ((fd_bump a k).1 ⟨w, hi⟩).1, ((fd_bump a k).1 ⟨w, hi⟩).2⟩
  · exact .inr hf

/-- no big-step answer of such a goal carries a panic site -/
theorem np_big (ho : OrderOK ord) (n : Nat) (g : G) (a b : State) (h : BigF (defs ord) n g a b) (hg : NPG ord g)
    (ha : OkP a) : OkP b :=
  big_invariant ok_tree OkP (fun t hk _ _ h ha => postF_okp ho t hk h ha) (fun _ k h => okp_bump k h) n g a b h hg ha

/-- every call of the program is a library call with the right number of arguments -/
def FRProg.Calls : FRProg → Prop
  | .conj p q => Calls p ∧ Calls q
  | .alt p q => Calls p ∧ Calls q
  | .fresh p => Calls p
  | .call c => c.Valid
  | _ => True

theorem FRProg.npg : ∀ (p : FRProg), p.OK → p.Calls → NPG ord (p.goal ord)
  | .succeed, _, _ => .succeed
  | .atom _, hk, _ => NPG'.atom hk
  | .conj p q, hk, hc => .conj (FRProg.npg p hk.1 hc.1) (FRProg.npg q hk.2 hc.2)
  | .alt p q, hk, hc => .alt (FRProg.npg p hk.1 hc.1) (FRProg.npg q hk.2 hc.2)
  | .fresh p, hk, hc => .fresh (FRProg.npg p hk hc)
  | .call _, _, hc => .call hc

/-- NO PANIC ON THE ENGINE: a program of FD / CLP(Z) constraints (no `distinctfd`), domains, `==`, `!=`, conjunction,
    conde, fresh and valid library relation calls — every state the engine's stream holds, at any nesting level,
    under any hash order, is either unpoisoned (and well-formed) or carries the model's FUEL marker: no panic
    site of the state machine is reachable. -/
theorem frprog_no_panic (ho : OrderOK ord) (pf M j nv : Nat) (p : FRProg) (hk : p.OK) (hc : p.Calls) (b : State)
    (hm : MemS (solveAt (defs ord) pf (M + 1)) b (solveAt (defs ord) pf j (p.goal ord) (State.empty nv))) :
    b.panic = none ∨ b.panic = some "FUEL" := by
  obtain ⟨n, hn⟩ := (mem_iff_big (defs_plain ord) pf M j (p.plain ord) _ b).1 hm
  rcases np_big ho n _ _ b hn (FRProg.npg p hk hc) (.inl ⟨rfl, wfs_empty nv, inv_empty nv⟩) with h | h
  · exact .inl h.1
  · exact .inr h

end
end Pv
