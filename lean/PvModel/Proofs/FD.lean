/-
  Helper lemmas for C18 (FiniteDomain set semantics).
-/
import PvModel.Model.FD
namespace Pv.FD

theorem ss_iff (l : List Int) : StrictSorted l ↔ l.Pairwise (· < ·) := by
  induction l with
  | nil => simp [StrictSorted]
  | cons a t ih =>
    cases t with
    | nil => simp [StrictSorted]
    | cons b t =>
      simp only [StrictSorted, ih]
      simp only [List.pairwise_cons, List.mem_cons]
      constructor
      · rintro ⟨hab, hb, ht⟩
        refine ⟨?_, hb, ht⟩
        intro y hy
        rcases hy with rfl | hy
        · exact hab
        · exact Int.lt_trans hab (hb y hy)
      · rintro ⟨ha, hb, ht⟩
        exact ⟨ha b (Or.inl rfl), hb, ht⟩

theorem mem_upFrom (lo : Int) (n : Nat) (x : Int) :
    x ∈ upFrom lo n ↔ lo ≤ x ∧ x < lo + n := by
  induction n generalizing lo with
  | zero => simp [upFrom]
  | succ n ih => simp [upFrom, ih]; omega

theorem pw_upFrom (lo : Int) (n : Nat) : (upFrom lo n).Pairwise (· < ·) := by
  induction n generalizing lo with
  | zero => simp [upFrom]
  | succ n ih =>
    simp only [upFrom, List.pairwise_cons, mem_upFrom]
    exact ⟨fun y hy => by omega, ih _⟩

theorem mem_rangeIncl (lo hi x : Int) : x ∈ rangeIncl lo hi ↔ lo ≤ x ∧ x ≤ hi := by
  simp only [rangeIncl, mem_upFrom]; omega

theorem pw_rangeIncl (lo hi : Int) : (rangeIncl lo hi).Pairwise (· < ·) := pw_upFrom _ _

theorem iter_mem (d : FD) (h : WF d) (x : Int) : x ∈ d.iter ↔ d.Mem x := by
  cases d with
  | interval lo hi => simp only [iter, Mem, mem_rangeIncl]
  | sparse xs => simp only [iter, Mem]

theorem iter_pw (d : FD) (h : WF d) : d.iter.Pairwise (· < ·) := by
  cases d with
  | interval lo hi => exact pw_rangeIncl lo hi
  | sparse xs => exact (ss_iff _).1 h.2

theorem iter_sorted (d : FD) (h : WF d) : StrictSorted d.iter := (ss_iff _).2 (iter_pw d h)

theorem iter_ne_nil (d : FD) (h : WF d) : d.iter ≠ [] := by
  cases d with
  | interval lo hi =>
    intro hn
    have : lo ∈ rangeIncl lo hi := (mem_rangeIncl lo hi lo).2 ⟨Int.le_refl _, h⟩
    simp only [iter] at hn
    rw [hn] at this; cases this
  | sparse xs => exact h.1

/-! insertU -/
theorem mem_insertU (x y : Int) (l : List Int) : y ∈ insertU x l ↔ y = x ∨ y ∈ l := by
  induction l with
  | nil => simp [insertU]
  | cons a t ih =>
    simp only [insertU]
    split
    · simp
    · split
      · subst_vars; simp
      · simp only [List.mem_cons, ih]
        constructor
        · rintro (h | h | h) <;> simp [h]
        · rintro (h | h | h) <;> simp [h]

theorem pw_insertU (x : Int) (l : List Int) (h : l.Pairwise (· < ·)) :
    (insertU x l).Pairwise (· < ·) := by
  induction l with
  | nil => simp [insertU]
  | cons a t ih =>
    simp only [insertU]
    rw [List.pairwise_cons] at h
    split
    · rename_i hxa
      refine List.pairwise_cons.2 ⟨?_, List.pairwise_cons.2 h⟩
      intro y hy
      rcases List.mem_cons.1 hy with rfl | hy
      · exact hxa
      · exact Int.lt_trans hxa (h.1 y hy)
    · split
      · exact List.pairwise_cons.2 h
      · refine List.pairwise_cons.2 ⟨?_, ih h.2⟩
        intro y hy
        rcases (mem_insertU x y t).1 hy with rfl | hy
        · omega
        · exact h.1 y hy

theorem foldr_insertU_mem (v : List Int) (x : Int) : x ∈ v.foldr insertU [] ↔ x ∈ v := by
  induction v with
  | nil => simp
  | cons a t ih => simp only [List.foldr_cons, mem_insertU, ih, List.mem_cons]

theorem foldr_insertU_pw (v : List Int) : (v.foldr insertU []).Pairwise (· < ·) := by
  induction v with
  | nil => simp
  | cons a t ih => exact pw_insertU _ _ ih

theorem ofVec_spec (v : List Int) (hv : v ≠ []) :
    ∃ d, ofVec? v = some d ∧ WF d ∧ ∀ x, d.Mem x ↔ x ∈ v := by
  refine ⟨sparse (v.foldr insertU []), ?_, ⟨?_, ?_⟩, ?_⟩
  · simp [ofVec?, hv]
  · intro hn
    cases v with
    | nil => exact hv rfl
    | cons a t =>
      have : a ∈ (a :: t).foldr insertU [] := (foldr_insertU_mem _ _).2 (List.mem_cons_self)
      rw [hn] at this; cases this
  · exact (ss_iff _).2 (foldr_insertU_pw v)
  · intro x; exact foldr_insertU_mem v x

theorem interMergeF_sublist (n : Nat) (a b : List Int) : (interMergeF n a b).Sublist a := by
  induction n generalizing a b with
  | zero => simp [interMergeF]
  | succ n ih =>
    cases a with
    | nil => simp [interMergeF]
    | cons s ss =>
      cases b with
      | nil => simp [interMergeF]
      | cons o os =>
        simp only [interMergeF]
        split
        · exact ih _ _
        · split
          · exact (ih _ _).cons_cons _
          · exact (ih _ _).cons _

theorem mem_interMergeF (n : Nat) (a b : List Int) (ha : a.Pairwise (· < ·))
    (hb : b.Pairwise (· < ·)) (hn : a.length + b.length ≤ n) (x : Int) :
    x ∈ interMergeF n a b ↔ x ∈ a ∧ x ∈ b := by
  induction n generalizing a b with
  | zero =>
    have : a = [] := by cases a with | nil => rfl | cons _ _ => simp at hn
    subst this; simp [interMergeF]
  | succ n ih =>
    cases a with
    | nil => simp [interMergeF]
    | cons s ss =>
      cases b with
      | nil => simp [interMergeF]
      | cons o os =>
        have ha' := List.pairwise_cons.1 ha
        have hb' := List.pairwise_cons.1 hb
        simp only [List.length_cons] at hn
        simp only [interMergeF]
        split
        · rw [ih (s :: ss) os ha hb'.2 (by simp only [List.length_cons]; omega)]
          grind
        · split
          · rw [List.mem_cons, ih ss os ha'.2 hb'.2 (by omega)]
            grind
          · rw [ih ss (o :: os) ha'.2 hb (by simp only [List.length_cons]; omega)]
            grind

theorem diffMergeF_sublist (n : Nat) (a b : List Int) : (diffMergeF n a b).Sublist a := by
  induction n generalizing a b with
  | zero => simp [diffMergeF]
  | succ n ih =>
    cases a with
    | nil => simp [diffMergeF]
    | cons s ss =>
      cases b with
      | nil => simp only [diffMergeF]; exact (ih _ _).cons_cons _
      | cons o os =>
        simp only [diffMergeF]
        split
        · exact (ih _ _).cons_cons _
        · split
          · exact (ih _ _).cons _
          · exact ih _ _

theorem mem_diffMergeF (n : Nat) (a b : List Int) (ha : a.Pairwise (· < ·))
    (hb : b.Pairwise (· < ·)) (hn : a.length + b.length ≤ n) (x : Int) :
    x ∈ diffMergeF n a b ↔ x ∈ a ∧ x ∉ b := by
  induction n generalizing a b with
  | zero =>
    have : a = [] := by cases a with | nil => rfl | cons _ _ => simp at hn
    subst this; simp [diffMergeF]
  | succ n ih =>
    cases a with
    | nil => simp [diffMergeF]
    | cons s ss =>
      have ha' := List.pairwise_cons.1 ha
      cases b with
      | nil =>
        simp only [List.length_cons, List.length_nil] at hn
        simp only [diffMergeF]
        rw [List.mem_cons, ih ss [] ha'.2 hb (by simp only [List.length_nil]; omega)]
        simp
      | cons o os =>
        have hb' := List.pairwise_cons.1 hb
        simp only [List.length_cons] at hn
        simp only [diffMergeF]
        split
        · rw [List.mem_cons, ih ss (o :: os) ha'.2 hb (by simp only [List.length_cons]; omega)]
          grind
        · split
          · rw [ih ss os ha'.2 hb'.2 (by omega)]
            grind
          · rw [ih (s :: ss) os ha hb'.2 (by simp only [List.length_cons]; omega)]
            grind

theorem disjMergeF_spec (n : Nat) (a b : List Int) (ha : a.Pairwise (· < ·))
    (hb : b.Pairwise (· < ·)) (hn : a.length + b.length ≤ n) :
    disjMergeF n a b = true ↔ ∀ x, ¬ (x ∈ a ∧ x ∈ b) := by
  induction n generalizing a b with
  | zero =>
    have : a = [] := by cases a with | nil => rfl | cons _ _ => simp at hn
    subst this; simp [disjMergeF]
  | succ n ih =>
    cases a with
    | nil => simp [disjMergeF]
    | cons s ss =>
      cases b with
      | nil => simp [disjMergeF]
      | cons o os =>
        have ha' := List.pairwise_cons.1 ha
        have hb' := List.pairwise_cons.1 hb
        simp only [List.length_cons] at hn
        simp only [disjMergeF]
        split
        · rw [ih (s :: ss) os ha hb'.2 (by simp only [List.length_cons]; omega)]
          grind
        · split
          · rename_i hso
            subst hso
            simp only [Bool.false_eq_true, false_iff]
            intro h
            exact h s ⟨List.mem_cons_self, List.mem_cons_self⟩
          · rw [ih ss (o :: os) ha'.2 hb (by simp only [List.length_cons]; omega)]
            grind

theorem mem_takeWhile_dc (q : Int → Bool) (hq : ∀ x y, q y = true → x ≤ y → q x = true)
    (l : List Int) (hl : l.Pairwise (· < ·)) (x : Int) :
    x ∈ l.takeWhile q ↔ x ∈ l ∧ q x = true := by
  induction l with
  | nil => simp
  | cons a t ih =>
    have hl' := List.pairwise_cons.1 hl
    rw [List.takeWhile_cons]
    split
    · rename_i hqa
      simp only [List.mem_cons, ih hl'.2]
      constructor
      · rintro (rfl | ⟨h1, h2⟩)
        · exact ⟨Or.inl rfl, hqa⟩
        · exact ⟨Or.inr h1, h2⟩
      · rintro ⟨rfl | h1, h2⟩
        · exact Or.inl rfl
        · exact Or.inr ⟨h1, h2⟩
    · rename_i hqa
      simp only [List.not_mem_nil, false_iff, List.mem_cons]
      rintro ⟨rfl | h1, h2⟩
      · exact hqa h2
      · exact hqa (hq _ _ h2 (Int.le_of_lt (hl'.1 x h1)))

theorem mem_dropWhile_dc (q : Int → Bool) (hq : ∀ x y, q y = true → x ≤ y → q x = true)
    (l : List Int) (hl : l.Pairwise (· < ·)) (x : Int) :
    x ∈ l.dropWhile q ↔ x ∈ l ∧ q x = false := by
  induction l with
  | nil => simp
  | cons a t ih =>
    have hl' := List.pairwise_cons.1 hl
    rw [List.dropWhile_cons]
    split
    · rename_i hqa
      simp only [ih hl'.2, List.mem_cons]
      constructor
      · rintro ⟨h1, h2⟩
        exact ⟨Or.inr h1, h2⟩
      · rintro ⟨rfl | h1, h2⟩
        · rw [hqa] at h2; cases h2
        · exact ⟨h1, h2⟩
    · rename_i hqa
      constructor
      · intro hx
        refine ⟨hx, ?_⟩
        cases hqx : q x with
        | false => rfl
        | true =>
          exfalso
          rcases List.mem_cons.1 hx with rfl | h1
          · exact hqa hqx
          · exact hqa (hq _ _ hqx (Int.le_of_lt (hl'.1 x h1)))
      · exact fun h => h.1


/-! ofList? -/
theorem ofList_some (L : List Int) (c : FD) (hL : L.Pairwise (· < ·)) (h : ofList? L = some c) :
    WF c ∧ ∀ x, c.Mem x ↔ x ∈ L := by
  unfold ofList? at h
  split at h
  · cases h
  · rename_i hne
    cases h
    refine ⟨⟨?_, (ss_iff _).2 hL⟩, fun x => Iff.rfl⟩
    intro hn
    simp [hn] at hne

theorem ofList_none (L : List Int) (h : ofList? L = none) : L = [] := by
  unfold ofList? at h
  split at h
  · rename_i he
    simpa using he
  · cases h

/-! window used by sparse/interval intersect -/
theorem window_pw (v : List Int) (lo hi : Int) (hv : v.Pairwise (· < ·)) :
    ((v.dropWhile (fun u => decide (u < lo))).takeWhile (fun u => decide (u ≤ hi))).Pairwise (· < ·) :=
  List.Pairwise.sublist ((List.takeWhile_sublist _).trans (List.dropWhile_sublist _)) hv

theorem window_mem (v : List Int) (lo hi : Int) (hv : v.Pairwise (· < ·)) (x : Int) :
    x ∈ (v.dropWhile (fun u => decide (u < lo))).takeWhile (fun u => decide (u ≤ hi)) ↔
      x ∈ v ∧ lo ≤ x ∧ x ≤ hi := by
  rw [mem_takeWhile_dc (fun u => decide (u ≤ hi)) (by intro x y h1 h2; simp at h1 ⊢; omega) _
    (List.Pairwise.sublist (List.dropWhile_sublist _) hv)]
  rw [mem_dropWhile_dc (fun u => decide (u < lo)) (by intro x y h1 h2; simp at h1 ⊢; omega) _ hv]
  simp [and_assoc]

theorem interMerge_pw (a b : List Int) (ha : a.Pairwise (· < ·)) : (interMerge a b).Pairwise (· < ·) :=
  List.Pairwise.sublist (interMergeF_sublist _ a b) ha

theorem interMerge_mem (a b : List Int) (ha : a.Pairwise (· < ·)) (hb : b.Pairwise (· < ·)) (x : Int) :
    x ∈ interMerge a b ↔ x ∈ a ∧ x ∈ b :=
  mem_interMergeF _ a b ha hb (Nat.le_refl _) x

/-- every non interval/interval intersect is `ofList?` of a sorted list with the right members -/
theorem intersect_cases (a b : FD) (ha : WF a) (hb : WF b) :
    (∃ l1 h1 l2 h2, a = interval l1 h1 ∧ b = interval l2 h2) ∨
    (∃ L : List Int, L.Pairwise (· < ·) ∧ (∀ x, x ∈ L ↔ (a.Mem x ∧ b.Mem x)) ∧
      intersect a b = ofList? L) := by
  cases a with
  | interval l1 h1 =>
    cases b with
    | interval l2 h2 => exact Or.inl ⟨_, _, _, _, rfl, rfl⟩
    | sparse v =>
      have hv := (ss_iff _).1 hb.2
      refine Or.inr ⟨_, window_pw v l1 h1 hv, fun x => ?_, rfl⟩
      rw [window_mem v l1 h1 hv]
      simp only [Mem]
      constructor
      · rintro ⟨h, h'⟩; exact ⟨h', h⟩
      · rintro ⟨h, h'⟩; exact ⟨h', h⟩
  | sparse v =>
    have hv := (ss_iff _).1 ha.2
    cases b with
    | interval l2 h2 =>
      refine Or.inr ⟨_, window_pw v l2 h2 hv, fun x => ?_, rfl⟩
      rw [window_mem v l2 h2 hv]
      simp only [Mem]
    | sparse w =>
      have hw := (ss_iff _).1 hb.2
      refine Or.inr ⟨_, interMerge_pw v w hv, fun x => ?_, rfl⟩
      rw [interMerge_mem v w hv hw]
      simp only [Mem]

theorem intersect_some (a b c : FD) (ha : WF a) (hb : WF b) (h : intersect a b = some c) :
    WF c ∧ ∀ x, c.Mem x ↔ (a.Mem x ∧ b.Mem x) := by
  rcases intersect_cases a b ha hb with ⟨l1, h1, l2, h2, rfl, rfl⟩ | ⟨L, hL, hm, he⟩
  · simp only [intersect] at h
    split at h
    · rename_i hle
      cases h
      refine ⟨hle, fun x => ?_⟩
      simp only [Mem]
      omega
    · cases h
  · rw [he] at h
    obtain ⟨hw, hmem⟩ := ofList_some L c hL h
    exact ⟨hw, fun x => (hmem x).trans (hm x)⟩

theorem intersect_none (a b : FD) (ha : WF a) (hb : WF b) (h : intersect a b = none) :
    ∀ x, ¬ (a.Mem x ∧ b.Mem x) := by
  rcases intersect_cases a b ha hb with ⟨l1, h1, l2, h2, rfl, rfl⟩ | ⟨L, hL, hm, he⟩
  · simp only [intersect] at h
    split at h
    · cases h
    · rename_i hle
      intro x
      simp only [Mem]
      omega
  · rw [he] at h
    have := ofList_none L h
    subst this
    intro x hx
    exact absurd ((hm x).2 hx) (by simp)

/-! diff -/
theorem diffMerge_pw (a b : List Int) (ha : a.Pairwise (· < ·)) : (diffMerge a b).Pairwise (· < ·) :=
  List.Pairwise.sublist (diffMergeF_sublist _ a b) ha

theorem diffMerge_mem (a b : List Int) (ha : a.Pairwise (· < ·)) (hb : b.Pairwise (· < ·)) (x : Int) :
    x ∈ diffMerge a b ↔ x ∈ a ∧ x ∉ b :=
  mem_diffMergeF _ a b ha hb (Nat.le_refl _) x

theorem diff_list_mem (a b : FD) (ha : WF a) (hb : WF b) (x : Int) :
    x ∈ diffMerge a.iter b.iter ↔ (a.Mem x ∧ ¬ b.Mem x) := by
  rw [diffMerge_mem _ _ (iter_pw a ha) (iter_pw b hb), iter_mem a ha, iter_mem b hb]

theorem diff_some (a b c : FD) (ha : WF a) (hb : WF b) (h : diff a b = some c) :
    WF c ∧ ∀ x, c.Mem x ↔ (a.Mem x ∧ ¬ b.Mem x) := by
  obtain ⟨hw, hmem⟩ := ofList_some _ c (diffMerge_pw a.iter b.iter (iter_pw a ha)) h
  exact ⟨hw, fun x => (hmem x).trans (diff_list_mem a b ha hb x)⟩

theorem diff_none (a b : FD) (ha : WF a) (hb : WF b) (h : diff a b = none) :
    ∀ x, a.Mem x → b.Mem x := by
  have hn := ofList_none _ h
  intro x hx
  apply Classical.byContradiction
  intro hnb
  have := (diff_list_mem a b ha hb x).2 ⟨hx, hnb⟩
  rw [hn] at this
  cases this

theorem contains_spec (d : FD) (x : Int) : d.contains x = true ↔ d.Mem x := by
  cases d with
  | interval lo hi => simp [contains, Mem]
  | sparse xs => simp [contains, Mem]

theorem min_spec (d : FD) (h : WF d) :
    ∃ m, d.min? = some m ∧ d.Mem m ∧ ∀ x, d.Mem x → m ≤ x := by
  cases d with
  | interval lo hi =>
    exact ⟨lo, rfl, ⟨Int.le_refl _, h⟩, fun x hx => hx.1⟩
  | sparse xs =>
    cases xs with
    | nil => exact absurd rfl h.1
    | cons a t =>
      have hp := List.pairwise_cons.1 ((ss_iff _).1 h.2)
      refine ⟨a, rfl, List.mem_cons_self, fun x hx => ?_⟩
      rcases List.mem_cons.1 hx with rfl | hx
      · exact Int.le_refl _
      · exact Int.le_of_lt (hp.1 x hx)

theorem max_spec (d : FD) (h : WF d) :
    ∃ m, d.max? = some m ∧ d.Mem m ∧ ∀ x, d.Mem x → x ≤ m := by
  cases d with
  | interval lo hi =>
    exact ⟨hi, rfl, ⟨h, Int.le_refl _⟩, fun x hx => hx.2⟩
  | sparse xs =>
    cases hl : xs.getLast? with
    | none =>
      rw [List.getLast?_eq_none_iff] at hl
      exact absurd hl h.1
    | some m =>
      obtain ⟨ys, rfl⟩ := List.getLast?_eq_some_iff.1 hl
      have hp := List.pairwise_append.1 ((ss_iff _).1 h.2)
      refine ⟨m, hl, by simp [Mem], fun x hx => ?_⟩
      simp only [Mem, List.mem_append, List.mem_singleton] at hx
      rcases hx with hx | rfl
      · exact Int.le_of_lt (hp.2.2 x hx m (by simp))
      · exact Int.le_refl _

theorem wf_exists_mem (d : FD) (h : WF d) : ∃ x, d.Mem x := by
  obtain ⟨m, _, hm, _⟩ := min_spec d h
  exact ⟨m, hm⟩

theorem isDisjoint_spec (a b : FD) (ha : WF a) (hb : WF b) :
    ∃ r, isDisjoint a b = some r ∧ (r = true ↔ ∀ x, ¬ (a.Mem x ∧ b.Mem x)) := by
  obtain ⟨amin, e1, _, hamin⟩ := min_spec a ha
  obtain ⟨amax, e2, _, hamax⟩ := max_spec a ha
  obtain ⟨bmin, e3, _, hbmin⟩ := min_spec b hb
  obtain ⟨bmax, e4, _, hbmax⟩ := max_spec b hb
  simp only [isDisjoint, e1, e2, e3, e4]
  split
  · rename_i hc
    refine ⟨true, rfl, ?_⟩
    simp only [true_iff]
    rintro x ⟨hxa, hxb⟩
    have := hamin x hxa; have := hamax x hxa; have := hbmin x hxb; have := hbmax x hxb
    simp at hc
    omega
  · refine ⟨_, rfl, ?_⟩
    unfold disjMerge
    rw [disjMergeF_spec _ _ _ (iter_pw a ha) (iter_pw b hb) (Nat.le_refl _)]
    simp only [iter_mem a ha, iter_mem b hb]

theorem isSingleton_spec (d : FD) (h : WF d) :
    d.isSingleton = true ↔ ∃ x, d.Mem x ∧ ∀ y, d.Mem y → y = x := by
  cases d with
  | interval lo hi =>
    simp only [isSingleton, Mem, beq_iff_eq]
    constructor
    · rintro rfl
      exact ⟨lo, ⟨Int.le_refl _, Int.le_refl _⟩, fun y hy => by omega⟩
    · rintro ⟨x, hx, hy⟩
      have h1 := hy lo ⟨Int.le_refl _, h⟩
      have h2 := hy hi ⟨h, Int.le_refl _⟩
      omega
  | sparse xs =>
    cases xs with
    | nil => exact absurd rfl h.1
    | cons a t =>
      have hp := List.pairwise_cons.1 ((ss_iff _).1 h.2)
      simp only [isSingleton, Mem, beq_iff_eq]
      cases t with
      | nil =>
        simp
      | cons b t =>
        simp only [List.length_cons]
        constructor
        · intro h; omega
        · rintro ⟨x, hx, hy⟩
          have h1 := hy a (by simp)
          have h2 := hy b (by simp)
          have := hp.1 b (by simp)
          omega

theorem singletonValue_spec (d : FD) (h : WF d) (v : Int) :
    d.singletonValue = some v ↔ ∀ y, d.Mem y ↔ y = v := by
  cases d with
  | interval lo hi =>
    simp only [singletonValue, isSingleton, min?, Mem, beq_iff_eq]
    constructor
    · intro hs
      split at hs
      · cases hs
        intro y; omega
      · cases hs
    · intro hy
      have h1 := (hy lo).1 ⟨Int.le_refl _, h⟩
      have h2 := (hy hi).1 ⟨h, Int.le_refl _⟩
      rw [if_pos (by omega), h1]
  | sparse xs =>
    cases xs with
    | nil => exact absurd rfl h.1
    | cons a t =>
      have hp := List.pairwise_cons.1 ((ss_iff _).1 h.2)
      simp only [singletonValue, isSingleton, min?, Mem, beq_iff_eq, List.head?_cons]
      cases t with
      | nil =>
        simp only [List.length_cons, List.length_nil, Nat.zero_add, if_true, Option.some.injEq,
          List.mem_singleton]
        constructor
        · rintro rfl y; exact Iff.rfl
        · intro hy; exact (hy a).1 rfl
      | cons b t =>
        simp only [List.length_cons]
        rw [if_neg (by omega)]
        constructor
        · intro h; cases h
        · intro hy
          have h1 := (hy a).1 (by simp)
          have h2 := (hy b).1 (by simp)
          have := hp.1 b (by simp)
          omega

theorem beq_spec (a b : FD) (ha : WF a) (hb : WF b) :
    beq a b = true ↔ ∀ x, a.Mem x ↔ b.Mem x := by
  simp only [beq, Bool.and_eq_true, Option.isNone_iff_eq_none]
  constructor
  · rintro ⟨h1, h2⟩ x
    exact ⟨diff_none a b ha hb h1 x, diff_none b a hb ha h2 x⟩
  · intro hx
    constructor
    · cases hd : diff a b with
      | none => rfl
      | some c =>
        obtain ⟨hw, hm⟩ := diff_some a b c ha hb hd
        obtain ⟨y, hy⟩ := wf_exists_mem c hw
        have := (hm y).1 hy
        exact absurd ((hx y).1 this.1) this.2
    · cases hd : diff b a with
      | none => rfl
      | some c =>
        obtain ⟨hw, hm⟩ := diff_some b a c hb ha hd
        obtain ⟨y, hy⟩ := wf_exists_mem c hw
        have := (hm y).1 hy
        exact absurd ((hx y).2 this.1) this.2

theorem strictSortedB_spec (l : List Int) : strictSortedB l = true ↔ StrictSorted l := by
  induction l with
  | nil => simp [strictSortedB, StrictSorted]
  | cons a t ih =>
    cases t with
    | nil => simp [strictSortedB, StrictSorted]
    | cons b t =>
      simp only [strictSortedB, StrictSorted, Bool.and_eq_true, decide_eq_true_eq, ih]

theorem wfB_spec (d : FD) : wfB d = true ↔ WF d := by
  cases d with
  | interval lo hi => simp [wfB, WF]
  | sparse xs =>
    simp only [wfB, WF, Bool.and_eq_true, strictSortedB_spec, Bool.not_eq_true', ne_eq]
    cases xs <;> simp

/-! copy_before / drop_before -/
theorem upFrom_eq_nil (lo : Int) (n : Nat) : upFrom lo n = [] ↔ n = 0 := by
  cases n <;> simp [upFrom]

theorem find_none_tw (p : Int → Bool) (l : List Int) (h : l.find? p = none) :
    l.takeWhile (fun u => !p u) = l ∧ l.dropWhile (fun u => !p u) = [] := by
  induction l with
  | nil => simp
  | cons a t ih =>
    rw [List.find?_cons] at h
    cases hpa : p a with
    | true => rw [hpa] at h; cases h
    | false =>
      rw [hpa] at h
      simp [hpa, ih h]

theorem find_upFrom_some (p : Int → Bool) (lo : Int) (n : Nat) (u : Int)
    (h : (upFrom lo n).find? p = some u) :
    lo ≤ u ∧ u < lo + n ∧
    (upFrom lo n).takeWhile (fun u => !p u) = upFrom lo (u - lo).toNat ∧
    (upFrom lo n).dropWhile (fun u => !p u) = upFrom u (lo + n - u).toNat := by
  induction n generalizing lo with
  | zero => simp [upFrom] at h
  | succ n ih =>
    simp only [upFrom, List.find?_cons] at h
    cases hpa : p lo with
    | true =>
      rw [hpa] at h
      have hlu : lo = u := Option.some.inj h
      subst hlu
      refine ⟨Int.le_refl _, by omega, ?_, ?_⟩
      · simp [upFrom, hpa]
      · have : (lo + ((n + 1 : Nat) : Int) - lo).toNat = n + 1 := by omega
        rw [this]
        simp [upFrom, hpa]
    | false =>
      rw [hpa] at h
      obtain ⟨h1, h2, h3, h4⟩ := ih (lo + 1) h
      refine ⟨by omega, by omega, ?_, ?_⟩
      · have : (u - lo).toNat = (u - (lo + 1)).toNat + 1 := by omega
        rw [this]
        simp [upFrom, hpa, h3]
      · have : (lo + ((n + 1 : Nat) : Int) - u).toNat = (lo + 1 + (n : Int) - u).toNat := by omega
        rw [this]
        simp [upFrom, hpa, h4]

theorem copyBefore_spec (d : FD) (h : WF d) (p : Int → Bool) :
    (∀ c, copyBefore d p = some c → WF c ∧ c.iter = d.iter.takeWhile (fun u => !p u)) ∧
    (copyBefore d p = none ↔ d.iter.takeWhile (fun u => !p u) = []) := by
  cases d with
  | interval lo hi =>
    have hlo : lo ≤ hi := h
    simp only [copyBefore, iter]
    cases hf : (rangeIncl lo hi).find? p with
    | none =>
      have ht := (find_none_tw p _ hf).1
      simp only [ht]
      refine ⟨?_, ?_⟩
      · intro c hc
        cases hc
        exact ⟨h, rfl⟩
      · have hne : rangeIncl lo hi ≠ [] := iter_ne_nil (interval lo hi) h
        simp [hne]
    | some u =>
      obtain ⟨h1, h2, h3, _⟩ := find_upFrom_some p lo _ u hf
      simp only [rangeIncl] at h3 ⊢
      simp only [h3]
      by_cases hlu : lo ≤ u - 1
      · simp only [if_pos hlu]
        refine ⟨?_, ?_⟩
        · intro c hc
          cases hc
          refine ⟨hlu, ?_⟩
          have : (u - 1 + 1 - lo).toNat = (u - lo).toNat := by omega
          show upFrom lo (u - 1 + 1 - lo).toNat = _
          rw [this]
        · simp only [upFrom_eq_nil, reduceCtorEq, false_iff]
          omega
      · simp only [if_neg hlu]
        refine ⟨?_, ?_⟩
        · intro c hc; cases hc
        · simp only [upFrom_eq_nil, true_iff]
          omega
  | sparse xs =>
    simp only [copyBefore, iter]
    by_cases he : (xs.takeWhile (fun u => !p u)).isEmpty = true
    · simp only [if_pos he]
      refine ⟨?_, ?_⟩
      · intro c hc; cases hc
      · simpa using he
    · simp only [if_neg he]
      refine ⟨?_, ?_⟩
      · intro c hc
        cases hc
        refine ⟨⟨?_, ?_⟩, rfl⟩
        · simpa using he
        · exact (ss_iff _).2 (List.Pairwise.sublist (List.takeWhile_sublist _) ((ss_iff _).1 h.2))
      · simpa using he

theorem dropBefore_spec (d : FD) (h : WF d) (p : Int → Bool) :
    (∀ c, dropBefore d p = some c → WF c ∧ c.iter = d.iter.dropWhile (fun u => !p u)) ∧
    (dropBefore d p = none ↔ d.iter.dropWhile (fun u => !p u) = []) := by
  cases d with
  | interval lo hi =>
    have hlo : lo ≤ hi := h
    simp only [dropBefore, iter]
    cases hf : (rangeIncl lo hi).find? p with
    | none =>
      have ht := (find_none_tw p _ hf).2
      simp only [ht]
      refine ⟨?_, ?_⟩
      · intro c hc; cases hc
      · simp
    | some u =>
      obtain ⟨h1, h2, _, h4⟩ := find_upFrom_some p lo _ u hf
      simp only [rangeIncl] at h4 ⊢
      simp only [h4]
      have hu : u ≤ hi := by omega
      have hn : (lo + (((hi + 1 - lo).toNat : Nat) : Int) - u).toNat = (hi + 1 - u).toNat := by omega
      refine ⟨?_, ?_⟩
      · intro c hc
        cases hc
        refine ⟨hu, ?_⟩
        show upFrom u (hi + 1 - u).toNat = _
        rw [hn]
      · simp only [upFrom_eq_nil, reduceCtorEq, false_iff]
        omega
  | sparse xs =>
    simp only [dropBefore, iter]
    by_cases he : (xs.dropWhile (fun u => !p u)).isEmpty = true
    · simp only [if_pos he]
      refine ⟨?_, ?_⟩
      · intro c hc; cases hc
      · simpa using he
    · simp only [if_neg he]
      refine ⟨?_, ?_⟩
      · intro c hc
        cases hc
        refine ⟨⟨?_, ?_⟩, rfl⟩
        · simpa using he
        · exact (ss_iff _).2 (List.Pairwise.sublist (List.dropWhile_sublist _) ((ss_iff _).1 h.2))
      · simpa using he

theorem copyBefore_mono (d c : FD) (h : WF d) (p : Int → Bool)
    (hp : ∀ x y, p x = true → x ≤ y → p y = true) (hc : copyBefore d p = some c) :
    ∀ x, c.Mem x ↔ (d.Mem x ∧ p x = false) := by
  obtain ⟨hw, hi⟩ := (copyBefore_spec d h p).1 c hc
  intro x
  rw [← iter_mem c hw, hi, mem_takeWhile_dc (fun u => !p u) ?_ _ (iter_pw d h), iter_mem d h]
  · simp
  · intro a b hb hab
    cases hpa : p a with
    | false => rfl
    | true =>
      have := hp a b hpa hab
      simp [this] at hb

theorem dropBefore_mono (d c : FD) (h : WF d) (p : Int → Bool)
    (hp : ∀ x y, p x = true → x ≤ y → p y = true) (hc : dropBefore d p = some c) :
    ∀ x, c.Mem x ↔ (d.Mem x ∧ p x = true) := by
  obtain ⟨hw, hi⟩ := (dropBefore_spec d h p).1 c hc
  intro x
  rw [← iter_mem c hw, hi, mem_dropWhile_dc (fun u => !p u) ?_ _ (iter_pw d h), iter_mem d h]
  · simp
  · intro a b hb hab
    cases hpa : p a with
    | false => rfl
    | true =>
      have := hp a b hpa hab
      simp [this] at hb

end Pv.FD
