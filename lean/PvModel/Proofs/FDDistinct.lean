/-
  `distinctfd`, semantically: `DistinctFdConstraint::run` (partition of the list into variables and
  constants, duplicate check on the sorted constants, hand-over to the worker), the worker
  `DistinctFd2Constraint::run` (move newly bound elements into the sorted constants by binary insertion,
  fail on a duplicate, exclude the constants from the domains of the remaining variables) and
  `State::exclude_from_domain` (which reads the domain store ONCE, before its loop — also entries of
  variables that a unification has just bound).
  All three keep the described valuations exactly; the three panic sites (an element that is neither a
  variable nor an integer, or a variable bound to something that is not an integer) are reachable only
  from a state in which the constraint has no solution.
-/
import PvModel.Proofs.FDGlobal
namespace Pv
open State Term FD

/-! ### sorted insertion and the duplicate scan -/

theorem mem_sortedInsert (k m : Int) : ∀ l : List Int, m ∈ sortedInsert k l ↔ m = k ∨ m ∈ l
  | [] => by simp [sortedInsert]
  | y :: ys => by
    unfold sortedInsert
    split
    · simp
    · simp only [List.mem_cons, mem_sortedInsert k m ys]
      constructor
      · rintro (a | a | a)
        · exact .inr (.inl a)
        · exact .inl a
        · exact .inr (.inr a)
      · rintro (a | a | a)
        · exact .inr (.inl a)
        · exact .inl a
        · exact .inr (.inr a)

theorem perm_sortedInsert (k : Int) : ∀ l : List Int, (sortedInsert k l).Perm (k :: l)
  | [] => by simp [sortedInsert]
  | y :: ys => by
    unfold sortedInsert
    split
    · exact List.Perm.refl _
    · exact ((perm_sortedInsert k ys).cons y).trans (List.Perm.swap k y ys)

theorem pwle_sortedInsert (k : Int) : ∀ l : List Int, l.Pairwise (· ≤ ·) → (sortedInsert k l).Pairwise (· ≤ ·)
  | [], _ => by simp [sortedInsert]
  | y :: ys, h => by
    unfold sortedInsert
    have hy := List.pairwise_cons.1 h
    split
    · rename_i hk
      refine List.pairwise_cons.2 ⟨fun a ha => ?_, h⟩
      rcases List.mem_cons.1 ha with rfl | ha
      · exact hk
      · exact Int.le_trans hk (hy.1 a ha)
    · rename_i hk
      refine List.pairwise_cons.2 ⟨fun a ha => ?_, pwle_sortedInsert k ys hy.2⟩
      rcases (mem_sortedInsert k a ys).1 ha with rfl | ha
      · omega
      · exact hy.1 a ha

theorem pwlt_of_pwle_nodup : ∀ l : List Int, l.Pairwise (· ≤ ·) → l.Nodup → l.Pairwise (· < ·)
  | [], _, _ => List.Pairwise.nil
  | a :: l, h, hn => by
    have h1 := List.pairwise_cons.1 h
    have h2 := List.nodup_cons.1 hn
    refine List.pairwise_cons.2 ⟨fun b hb => ?_, pwlt_of_pwle_nodup l h1.2 h2.2⟩
    have : a ≠ b := fun e => h2.1 (e ▸ hb)
    have := h1.1 b hb
    omega

theorem nodup_of_pwlt : ∀ l : List Int, l.Pairwise (· < ·) → l.Nodup
  | [], _ => List.nodup_nil
  | a :: l, h => by
    have h1 := List.pairwise_cons.1 h
    refine List.nodup_cons.2 ⟨fun ha => ?_, nodup_of_pwlt l h1.2⟩
    have := h1.1 a ha
    omega

/-- on a sorted list the scan for equal neighbours finds every duplicate -/
theorem hasAdjDup_false : ∀ l : List Int, l.Pairwise (· ≤ ·) → (hasAdjDup l = false ↔ l.Nodup)
  | [], _ => by simp [hasAdjDup]
  | [a], _ => by simp [hasAdjDup]
  | a :: b :: t, h => by
    have h1 := List.pairwise_cons.1 h
    have ih := hasAdjDup_false (b :: t) h1.2
    have h2 := List.pairwise_cons.1 h1.2
    simp only [hasAdjDup, Bool.or_eq_false_iff, ih, List.nodup_cons (a := a)]
    constructor
    · rintro ⟨hab, hn⟩
      refine ⟨fun ha => ?_, hn⟩
      rcases List.mem_cons.1 ha with e | ha
      · simp [e] at hab
      · have := h1.1 b (List.mem_cons_self ..)
        have := h2.1 a ha
        have : a = b := by omega
        simp [this] at hab
    · rintro ⟨ha, hn⟩
      refine ⟨?_, hn⟩
      have : a ≠ b := fun e => ha (e ▸ List.mem_cons_self ..)
      simpa using this

theorem foldr_sortedInsert_perm : ∀ cs : List Int, (cs.foldr sortedInsert []).Perm cs
  | [] => List.Perm.refl _
  | c :: cs => (perm_sortedInsert c _).trans ((foldr_sortedInsert_perm cs).cons c)

theorem foldr_sortedInsert_pwle : ∀ cs : List Int, (cs.foldr sortedInsert []).Pairwise (· ≤ ·)
  | [] => List.Pairwise.nil
  | c :: cs => pwle_sortedInsert c _ (foldr_sortedInsert_pwle cs)

theorem strictSorted_sortedInsert {k : Int} {n : List Int} (hs : StrictSorted n) (hk : k ∉ n) :
    StrictSorted (sortedInsert k n) := by
  rw [ss_iff] at *
  refine pwlt_of_pwle_nodup _ (pwle_sortedInsert k n (hs.imp fun h => Int.le_of_lt h)) ?_
  exact (perm_sortedInsert k n).nodup_iff.2 (List.nodup_cons.2 ⟨hk, nodup_of_pwlt n hs⟩)

/-! ### the elements of a list under a valuation -/

/-- the elements of `l` denote pairwise different integers, none of them in `n` -/
def DVals (γ : Subst) (l : List Term) (n : List Int) : Prop :=
  (∀ e ∈ l, ∃ k, apply γ e = Term.num k) ∧ (l.map (apply γ)).Nodup ∧
    ∀ e ∈ l, ∀ k, apply γ e = Term.num k → k ∉ n

theorem num_inj {a b : Int} (h : Term.num a = Term.num b) : a = b := by
  simpa [Term.num] using h

theorem map_num_of_all {γ : Subst} : ∀ l : List Term, (∀ e ∈ l, ∃ k, apply γ e = Term.num k) →
    ∃ ms : List Int, l.map (apply γ) = ms.map Term.num
  | [], _ => ⟨[], rfl⟩
  | e :: l, h => by
    obtain ⟨k, hk⟩ := h e (List.mem_cons_self ..)
    obtain ⟨ms, hms⟩ := map_num_of_all l fun e he => h e (List.mem_cons_of_mem _ he)
    exact ⟨k :: ms, by simp [hk, hms]⟩

theorem cstSem_d2_iff (γ : Subst) (u : Term) (y : List Term) (n : List Int) :
    CstSem γ (.distinctfd2 u y n) ↔ DVals γ y n := by
  unfold CstSem DVals
  constructor
  · rintro ⟨ms, hm, hnd, hn⟩
    have hmem : ∀ e ∈ y, ∃ k ∈ ms, Term.num k = apply γ e := fun e he => by
      have : apply γ e ∈ ms.map Term.num := hm ▸ List.mem_map_of_mem he
      exact List.mem_map.1 this
    refine ⟨fun e he => ?_, ?_, fun e he k hk => ?_⟩
    · obtain ⟨k, _, hk⟩ := hmem e he; exact ⟨k, hk.symm⟩
    · rw [hm]
      exact hnd.map _ fun a b hab e => hab (num_inj e)
    · obtain ⟨k', hk', e'⟩ := hmem e he
      have : k' = k := num_inj (e'.trans hk)
      subst this; exact hn _ hk'
  · rintro ⟨hall, hnd, hn⟩
    obtain ⟨ms, hms⟩ := map_num_of_all y hall
    refine ⟨ms, hms, ?_, fun k hk => ?_⟩
    · rw [hms] at hnd
      exact List.Pairwise.of_map Term.num (fun a b h e => h (e ▸ rfl)) hnd
    · have : Term.num k ∈ y.map (apply γ) := hms ▸ List.mem_map_of_mem hk
      obtain ⟨e, he, hek⟩ := List.mem_map.1 this
      exact hn e he k hek

theorem apply_ofList (γ : Subst) : ∀ l : List Term, apply γ (Term.ofList l) = Term.ofList (l.map (apply γ))
  | [] => rfl
  | e :: l => by simp [Term.ofList, apply, apply_ofList γ l]

theorem ofList_inj : ∀ {a b : List Term}, Term.ofList a = Term.ofList b → a = b
  | [], [], _ => rfl
  | [], _ :: _, h => by simp [Term.ofList] at h
  | _ :: _, [], h => by simp [Term.ofList] at h
  | x :: a, y :: b, h => by
    simp only [Term.ofList, Term.cons.injEq] at h
    rw [h.1, ofList_inj h.2]

theorem cstSem_d1_iff (γ : Subst) (l : List Term) :
    CstSem γ (.distinctfd (Term.ofList l)) ↔ DVals γ l [] := by
  rw [← cstSem_d2_iff γ .nil l []]
  simp only [CstSem]
  rw [apply_ofList]
  constructor
  · rintro ⟨ms, hm, hnd⟩
    exact ⟨ms, ofList_inj hm, hnd, fun _ _ h => nomatch h⟩
  · rintro ⟨ms, hm, hnd, _⟩
    exact ⟨ms, by rw [hm], hnd⟩

theorem DVals.perm {γ : Subst} {l l' : List Term} {n : List Int} (hp : l.Perm l') :
    DVals γ l n ↔ DVals γ l' n := by
  unfold DVals
  rw [(hp.map (apply γ)).nodup_iff]
  constructor <;> rintro ⟨a, b, c⟩
  · exact ⟨fun e he => a e (hp.mem_iff.2 he), b, fun e he => c e (hp.mem_iff.2 he)⟩
  · exact ⟨fun e he => a e (hp.mem_iff.1 he), b, fun e he => c e (hp.mem_iff.1 he)⟩

theorem DVals.congr_mem {γ : Subst} {l : List Term} {n n' : List Int} (h : ∀ k, k ∈ n ↔ k ∈ n') :
    DVals γ l n ↔ DVals γ l n' := by
  unfold DVals
  constructor <;> rintro ⟨a, b, c⟩
  · exact ⟨a, b, fun e he k hk hm => c e he k hk ((h k).2 hm)⟩
  · exact ⟨a, b, fun e he k hk hm => c e he k hk ((h k).1 hm)⟩

/-- an element that denotes `k` joins the constants -/
theorem dvals_cons {γ : Subst} {a : Term} {k : Int} (ha : apply γ a = Term.num k) (L : List Term) (n : List Int) :
    DVals γ (a :: L) n ↔ (k ∉ n ∧ DVals γ L (k :: n)) := by
  unfold DVals
  simp only [List.map_cons, List.nodup_cons, List.mem_cons, ha]
  constructor
  · rintro ⟨h1, ⟨h2, h3⟩, h4⟩
    refine ⟨h4 a (.inl rfl) k ha, fun e he => h1 e (.inr he), h3, fun e he k' hk' hm => ?_⟩
    rcases hm with rfl | hm
    · exact h2 (hk' ▸ List.mem_map_of_mem he)
    · exact h4 e (.inr he) k' hk' hm
  · rintro ⟨h0, h1, h3, h4⟩
    refine ⟨fun e he => ?_, ⟨fun hm => ?_, h3⟩, fun e he k' hk' hm => ?_⟩
    · rcases he with rfl | he
      · exact ⟨k, ha⟩
      · exact h1 e he
    · obtain ⟨e, he, hek⟩ := List.mem_map.1 hm
      exact h4 e he k hek (.inl rfl)
    · rcases he with rfl | he
      · have : k' = k := num_inj (hk'.symm.trans ha)
        subst this; exact h0 hm
      · exact h4 e he k' hk' (.inr hm)

theorem dvals_middle {γ : Subst} {a : Term} {k : Int} (ha : apply γ a = Term.num k) (x r : List Term) (n : List Int) :
    DVals γ (x ++ a :: r) n ↔ (k ∉ n ∧ DVals γ (x ++ r) (k :: n)) := by
  rw [DVals.perm List.perm_middle, dvals_cons ha]

/-- literal integers among the elements -/
theorem dvals_consts {γ : Subst} (xs : List Term) : ∀ (cs n : List Int),
    DVals γ (cs.map Term.num ++ xs) n ↔ (cs.Nodup ∧ (∀ k ∈ cs, k ∉ n) ∧ DVals γ xs (cs ++ n))
  | [], n => by simp
  | c :: cs, n => by
    have ha : apply γ (Term.num c) = Term.num c := rfl
    simp only [List.map_cons, List.cons_append]
    rw [dvals_cons ha, dvals_consts xs cs (c :: n)]
    have hcm : DVals γ xs (cs ++ c :: n) ↔ DVals γ xs (c :: (cs ++ n)) :=
      DVals.congr_mem fun k => by simp only [List.mem_append, List.mem_cons]; constructor <;> rintro (a | a | a) <;> simp [a]
    rw [hcm, List.nodup_cons]
    constructor
    · rintro ⟨h0, h1, h2, h3⟩
      refine ⟨⟨fun hc => h2 c hc (List.mem_cons_self ..), h1⟩, fun k hk hm => ?_, h3⟩
      rcases List.mem_cons.1 hk with rfl | hk
      · exact h0 hm
      · exact h2 k hk (List.mem_cons_of_mem _ hm)
    · rintro ⟨⟨h0, h1⟩, h2, h3⟩
      refine ⟨h2 c (List.mem_cons_self ..), h1, fun k hk hm => ?_, h3⟩
      rcases List.mem_cons.1 hm with rfl | hm
      · exact h0 hk
      · exact h2 k (List.mem_cons_of_mem _ hk) hm


theorem not_dvals_of_elem {γ : Subst} {l : List Term} {n : List Int} {e : Term} (he : e ∈ l)
    (h : ∀ k, apply γ e ≠ Term.num k) : ¬ DVals γ l n := by
  rintro ⟨a, _, _⟩
  obtain ⟨k, hk⟩ := a e he
  exact h k hk

/-! ### the worker's scan of its pending elements -/

/-- the loop body of `DistinctFd2Constraint::run` -/
def d2step (σ : Subst) (acc : Res (List Term × List Int)) (yi : Term) : Res (List Term × List Int) :=
  acc.bind fun (x, n) =>
    match walk σ yi with
    | .var _ => .ok (x ++ [yi], n)
    | .val (.num k) => if n.contains k then .fail else .ok (x, sortedInsert k n)
    | .val _ => .panic "distinctfd-value"
    | _ => .panic "distinctfd-term"

theorem d2fold_fail (σ : Subst) : ∀ l : List Term, l.foldl (d2step σ) .fail = .fail
  | [] => rfl
  | _ :: l => by simp only [List.foldl_cons, d2step, Res.bind]; exact d2fold_fail σ l

theorem d2fold_panic (σ : Subst) (s : String) : ∀ l : List Term, l.foldl (d2step σ) (.panic s) = .panic s
  | [] => rfl
  | _ :: l => by simp only [List.foldl_cons, d2step, Res.bind]; exact d2fold_panic σ s l

/-- what the scan computes: the elements still unbound and the extended constants describe the same
    valuations as the elements and constants it started from -/
def D2Spec (σ : Subst) (l : List Term) (n : List Int) : Res (List Term × List Int) → Prop
  | .ok p => StrictSorted p.2 ∧ ∀ γ, Ext σ γ → (DVals γ l n ↔ DVals γ p.1 p.2)
  | .fail => ∀ γ, Ext σ γ → ¬ DVals γ l n
  | .fuel => True
  | .panic s => DP s ∧ ∀ γ, Ext σ γ → ¬ DVals γ l n

theorem d2fold_spec {σ : Subst} (hs : Solved σ) : ∀ (y x : List Term) (n : List Int), StrictSorted n →
    D2Spec σ (x ++ y) n (y.foldl (d2step σ) (.ok (x, n)))
  | [], x, n, hn => by
    simp only [List.foldl_nil, List.append_nil]
    exact ⟨hn, fun _ _ => Iff.rfl⟩
  | yi :: rest, x, n, hn => by
    simp only [List.foldl_cons]
    have hstep : d2step σ (.ok (x, n)) yi = (match walk σ yi with
      | .var _ => .ok (x ++ [yi], n)
      | .val (.num k) => if n.contains k then .fail else .ok (x, sortedInsert k n)
      | .val _ => .panic "distinctfd-value"
      | _ => .panic "distinctfd-term") := rfl
    rw [hstep]
    have happ : ∀ γ, Ext σ γ → apply γ yi = apply γ (walk σ yi) := fun γ hx => (ext_walk hs hx yi).symm
    have hpanic : ∀ s, DP s → (∀ k, walk σ yi ≠ Term.num k) → (∀ v, walk σ yi ≠ .var v) →
        D2Spec σ (x ++ yi :: rest) n (rest.foldl (d2step σ) (.panic s)) := fun s hs' hnn hnv => by
      rw [d2fold_panic]
      refine ⟨hs', fun γ hx => not_dvals_of_elem (e := yi) (by simp) fun k => ?_⟩
      rw [happ γ hx]
      intro e
      cases hw : walk σ yi with
      | var v => exact hnv v hw
      | val c =>
        rw [hw] at e
        cases c with
        | num m => exact hnn m hw
        | _ => simp [apply, Term.num] at e
      | _ => rw [hw] at e; simp [apply, Term.num] at e
    cases hw : walk σ yi with
    | var v =>
      have ih := d2fold_spec hs rest (x ++ [yi]) n hn
      have e : (x ++ [yi]) ++ rest = x ++ yi :: rest := by simp
      rw [e] at ih
      exact ih
    | val c =>
      cases c with
      | num k =>
        have hk : ∀ γ, Ext σ γ → apply γ yi = Term.num k := fun γ hx => by rw [happ γ hx, hw]; rfl
        simp only
        split
        · rename_i hc
          rw [d2fold_fail]
          intro γ hx hd
          have := ((dvals_middle (hk γ hx) x rest n).1 hd).1
          exact this (by simpa using hc)
        · rename_i hc
          have hkn : k ∉ n := by simpa using hc
          have ih := d2fold_spec hs rest x (sortedInsert k n) (strictSorted_sortedInsert hn hkn)
          have key : ∀ γ, Ext σ γ → (DVals γ (x ++ yi :: rest) n ↔ DVals γ (x ++ rest) (sortedInsert k n)) := fun γ hx => by
            rw [dvals_middle (hk γ hx) x rest n]
            have : DVals γ (x ++ rest) (k :: n) ↔ DVals γ (x ++ rest) (sortedInsert k n) :=
              DVals.congr_mem fun m => by rw [mem_sortedInsert]; simp
            rw [this]
            exact ⟨fun a => a.2, fun a => ⟨hkn, a⟩⟩
          cases hf : rest.foldl (d2step σ) (.ok (x, sortedInsert k n)) with
          | ok p => rw [hf] at ih; exact ⟨ih.1, fun γ hx => (key γ hx).trans (ih.2 γ hx)⟩
          | fail => rw [hf] at ih; exact fun γ hx hd => ih γ hx ((key γ hx).1 hd)
          | fuel => trivial
          | panic s => rw [hf] at ih; exact ⟨ih.1, fun γ hx hd => ih.2 γ hx ((key γ hx).1 hd)⟩
      | bool b => exact hpanic _ (.inr (.inr rfl)) (fun k e => by rw [hw] at e; simp [Term.num] at e) (fun v e => by rw [hw] at e; cases e)
      | chr b => exact hpanic _ (.inr (.inr rfl)) (fun k e => by rw [hw] at e; simp [Term.num] at e) (fun v e => by rw [hw] at e; cases e)
      | str b => exact hpanic _ (.inr (.inr rfl)) (fun k e => by rw [hw] at e; simp [Term.num] at e) (fun v e => by rw [hw] at e; cases e)
    | nil => exact hpanic _ (.inr (.inl rfl)) (fun k e => by rw [hw] at e; simp [Term.num] at e) (fun v e => by rw [hw] at e; cases e)
    | cons a b => exact hpanic _ (.inr (.inl rfl)) (fun k e => by rw [hw] at e; simp [Term.num] at e) (fun v e => by rw [hw] at e; cases e)
    | comp a b => exact hpanic _ (.inr (.inl rfl)) (fun k e => by rw [hw] at e; simp [Term.num] at e) (fun v e => by rw [hw] at e; cases e)

end Pv

namespace Pv
open State Term FD
variable {I : Nat → Prop} [Mode]

/-- a fold of binds with an invariant of the running state -/
theorem fold_refP {α : Type} (P : State → Prop) (f : State → α → Res State) (l0 : List α)
    (hf : ∀ cur a, a ∈ l0 → P cur → IOK I cur → WFS cur → Inv cur →
      Ref I (fun _ => True) cur (f cur a) ∧ ∀ cur', f cur a = .ok cur' → Inv cur' ∧ P cur') :
    ∀ (l : List α) (st : State), (∀ a ∈ l, a ∈ l0) → P st → IOK I st → WFS st → Inv st →
      Ref I (fun _ => True) st (l.foldl (fun (r : Res State) a => r.bind fun st => f st a) (.ok st))
  | [], st, _, _, _, w, _ => Ref.entailed w fun _ _ => trivial
  | a :: l, st, hl, hP, hI, w, hi => by
    simp only [List.foldl_cons]
    have hb0 : ((Res.ok st).bind fun st => f st a) = f st a := rfl
    rw [hb0]
    obtain ⟨h1, h2⟩ := hf st a (hl a (List.mem_cons_self ..)) hP hI w hi
    cases hfa : f st a with
    | ok s1 =>
      rw [hfa] at h1
      have ih := fold_refP P f l0 hf l s1 (fun b hb => hl b (List.mem_cons_of_mem _ hb)) (h2 s1 hfa).2
        (hI.keep h1.2.1) h1.1 (h2 s1 hfa).1
      have := Ref.bind (f := fun _ => l.foldl (fun (r : Res State) a => r.bind fun st => f st a) (.ok s1))
        (r := .ok s1) h1 (fun s e => by cases e; exact ih)
      exact this.congr fun γ _ => ⟨fun _ => trivial, fun _ => ⟨trivial, trivial⟩⟩
    | fail =>
      rw [hfa] at h1
      rw [foldl_bind_fail]
      exact h1
    | fuel => rw [foldl_bind_fuel]; trivial
    | panic s =>
      rw [hfa] at h1
      rw [foldl_bind_panic]
      exact h1

/-- a state that differs only in the identity source -/
theorem Ref.of_fresh {S : Subst → Prop} {st : State} {r : Res State}
    (h : Ref I S { st with nextId := st.nextId + 1 } r) (w : WFS st) : Ref I S st r :=
  (Ref.pre (T := fun _ => True) (st0 := { st with nextId := st.nextId + 1 }) (Keeps.same w.solved rfl rfl)
    (fun γ => by rw [sem_same (st := st) rfl rfl rfl]; exact ⟨fun a => ⟨a, trivial⟩, fun a => a.1⟩) h).congr
    fun γ _ => ⟨fun a => a.2, fun a => ⟨trivial, a⟩⟩

theorem wfs_fresh {st : State} (w : WFS st) : WFS { st with nextId := st.nextId + 1 } :=
  w.same rfl rfl fun _ hp => .inl hp

/-- a new constraint object (of any kind but a disequality) -/
theorem withNew_semG (ord : Order) {st : State} {c : Cst} (w : WFS st) (hi : Inv st)
    (hd : c.isDiseq = false) (hok : CstOK c) :
    Ref I (fun γ => CstSem γ c) st (.ok (st.withNewConstraint ord c)) :=
  Ref.of_fresh (with_semG ord (wfs_fresh w) (fresh_fr hi) hd hok) w

section WithRC
variable {rc : State → Res State} (hrc : RcOK rc) (hrs : RcSem rc) (ord : Order)
include hrc hrs

/-- `exclude_from_domain`: sound whenever the excluded numbers are excluded by the state already -/
theorem excludeFromDomain_sem {st : State} (hI : IOK I st) (w : WFS st) (hi : Inv st) (xs : List Term) (ex : FD)
    (hex : WF ex) (hent : ∀ γ, Sem I γ st → ∀ y ∈ xs, ∀ k, NumAt γ y k → ¬ ex.Mem k) :
    Ref I (fun _ => True) st (excludeFromDomain rc st xs ex) := by
  unfold excludeFromDomain
  refine fold_refP (fun cur => (∀ γ, Sem I γ cur → Sem I γ st)) (fun (cur : State) (y : Term) =>
      match y with
      | .var yv => match st.dget yv with
        | some d => match d.diff ex with
          | some d' => processDomain rc cur y d'
          | none => .fail
        | none => .ok cur
      | _ => .ok cur) xs (fun cur y hyx hP hIc wc hic => ?_) xs st (fun _ h => h) (fun _ h => h) hI w hi
  have hsame : Ref I (fun _ => True) cur (.ok cur) ∧ ∀ cur', Res.ok cur = .ok cur' → Inv cur' ∧ ∀ γ, Sem I γ cur' → Sem I γ st :=
    ⟨Ref.entailed wc fun _ _ => trivial, fun cur' e => by cases e; exact ⟨hic, hP⟩⟩
  split
  · rename_i yv
    split
    · rename_i d hd
      have hwd : WF d := w.dwf _ (dget_mem hd)
      -- under the running state, the variable lies in its snapshot domain and outside the excluded set
      have hin : ∀ γ, Sem I γ cur → ∃ k, NumAt γ (.var yv) k ∧ d.Mem k ∧ ¬ ex.Mem k := fun γ hs => by
        have hs0 := hP γ hs
        obtain ⟨k, hk, hkd⟩ := hs0.2.2 (yv, d) (dget_mem hd) (hI yv)
        exact ⟨k, hk, hkd, hent γ hs0 _ hyx k hk⟩
      split
      · rename_i d' hdiff
        obtain ⟨hwd', hmd'⟩ := diff_some d ex d' hwd hex hdiff
        have p := processDomain_sem (I := I) hrs hIc wc hic (x := .var yv) (WFI.of_wf hwd') (.inl hwd')
        refine ⟨p.congr fun γ hs => ⟨fun _ => trivial, fun _ => ?_⟩, fun cur' h => ?_⟩
        · obtain ⟨k, hk, hkd, hke⟩ := hin γ hs
          exact ⟨k, hk, (hmd' k).2 ⟨hkd, hke⟩⟩
        · refine ⟨(processDomain_step hrc hic h).inv, fun γ hs' => ?_⟩
          rw [h] at p
          exact hP γ ((p.2.2 γ).1 hs').1
      · rename_i hdiff
        refine ⟨Ref.refuted fun γ hs _ => ?_, fun cur' h => by cases h⟩
        obtain ⟨k, _, hkd, hke⟩ := hin γ hs
        exact hke (diff_none d ex hwd hex hdiff k hkd)
    · exact hsame
  · exact hsame


omit hrc hrs in
theorem runDistinctFd2_eq (u : Term) (y : List Term) (n : List Int) (st : State) :
    runDistinctFd2 rc ord u y n st =
      (y.foldl (d2step st.σ) (.ok ([], n))).bind fun p =>
        if p.2.isEmpty then .ok (st.withNewConstraint ord (.distinctfd2 u p.1 p.2))
        else excludeFromDomain rc (st.withNewConstraint ord (.distinctfd2 u p.1 p.2)) p.1 (.sparse p.2) := rfl

/-- `DistinctFd2Constraint::run` -/
theorem runDistinctFd2_sem {u : Term} {y : List Term} {n : List Int} {st : State} (hI : IOK I st) (ws : WFS st)
    (hi : Inv st) (hok : CstOK (.distinctfd2 u y n)) :
    Ref I (fun γ => CstSem γ (.distinctfd2 u y n)) st (runDistinctFd2 rc ord u y n st) := by
  rw [runDistinctFd2_eq]
  have spec := d2fold_spec ws.solved y [] n hok.2
  simp only [List.nil_append] at spec
  cases hf : y.foldl (d2step st.σ) (.ok ([], n)) with
  | ok p =>
    rw [hf] at spec
    simp only [Res.bind]
    have hok' : CstOK (.distinctfd2 u p.1 p.2) := ⟨hok.1, spec.1⟩
    have h1 : Ref I (fun γ => CstSem γ (.distinctfd2 u y n)) st (.ok (st.withNewConstraint ord (.distinctfd2 u p.1 p.2))) :=
      (withNew_semG (I := I) ord ws hi rfl hok').congr fun γ hs => by
        show CstSem γ (.distinctfd2 u p.1 p.2) ↔ CstSem γ (.distinctfd2 u y n)
        rw [cstSem_d2_iff, cstSem_d2_iff]; exact (spec.2 γ hs.1).symm
    split
    · exact h1
    · rename_i hne
      have i1 : Inv (st.withNewConstraint ord (.distinctfd2 u p.1 p.2)) := (withNew_step (i := none) ord st _ hi).inv
      have hwf : WF (.sparse p.2) := ⟨fun e => hne (by simp [e]), spec.1⟩
      have h2 := excludeFromDomain_sem hrc hrs (hI.keep h1.2.1) h1.1 i1 p.1 (.sparse p.2) hwf
        (fun γ hs e he k hk hm => by
          have hc : CstSem γ (.distinctfd2 u y n) := ((h1.2.2 γ).1 hs).2
          have hs0 : Sem I γ st := ((h1.2.2 γ).1 hs).1
          rw [cstSem_d2_iff, spec.2 γ hs0.1] at hc
          exact hc.2.2 e he k hk hm)
      exact (Ref.bind (f := fun s => excludeFromDomain rc s p.1 (.sparse p.2)) h1 fun s e => by cases e; exact h2).congr
        fun γ _ => ⟨fun a => a.1, fun a => ⟨a, trivial⟩⟩
  | fail =>
    rw [hf] at spec
    exact Ref.refuted fun γ hs hc => spec γ hs.1 ((cstSem_d2_iff γ u y n).1 hc)
  | fuel => trivial
  | panic s =>
    rw [hf] at spec
    exact ⟨hok.1, spec.1, fun γ ⟨hs, hc⟩ => spec.2 γ hs.1 ((cstSem_d2_iff γ u y n).1 hc)⟩

end WithRC

theorem listElems_ofList : ∀ l : List Term, (Term.ofList l).listElems = (l, .nil)
  | [] => rfl
  | e :: l => by simp [Term.ofList, Term.listElems, listElems_ofList l]

theorem iterItems_ofList (l : List Term) : (Term.ofList l).iterItems = l := by
  simp [Term.iterItems, listElems_ofList]

theorem filter_num_eq : ∀ l : List Term, l.all Term.isNum = true → l = (l.filterMap Term.getNum?).map Term.num
  | [], _ => rfl
  | e :: l, h => by
    simp only [List.all_cons, Bool.and_eq_true] at h
    cases e with
    | val c =>
      cases c with
      | num k => simp only [List.filterMap_cons, Term.getNum?, List.map_cons, Term.num]; rw [← filter_num_eq l h.2]
      | _ => simp [Term.isNum] at h
    | _ => simp [Term.isNum] at h

section WithSelf
variable {ord : Order}

/-- `DistinctFdConstraint::run` on a proper list -/
theorem runDistinctFd_sem {self : Nat → Cst → State → Res State} (hss : SelfSem self) {i : Nat} {u : Term} {st : State}
    (hI : IOK I st) (ws : WFS st) (f : Fr i st) (hok : CstOK (.distinctfd u)) :
    Ref I (fun γ => CstSem γ (.distinctfd u)) st (runDistinctFd ord self i u st) := by
  obtain ⟨hallow, l, rfl⟩ := hok
  have hself : ∀ (xs : List Term) (n : List Int), StrictSorted n →
      (∀ γ, Sem I γ st → (DVals γ l [] ↔ DVals γ xs n)) →
      Ref I (fun γ => CstSem γ (.distinctfd (Term.ofList l))) st
        (self st.nextId (.distinctfd2 (Term.ofList l) xs n) { st with nextId := st.nextId + 1 }) := fun xs n hn hiff => by
    have r := hss I st.nextId (.distinctfd2 (Term.ofList l) xs n) { st with nextId := st.nextId + 1 } (hI.same rfl)
      (wfs_fresh ws) (fresh_fr f.1) rfl ⟨hallow, hn⟩
    exact (Ref.of_fresh r ws).congr fun γ hs => by
      show CstSem γ (.distinctfd2 (Term.ofList l) xs n) ↔ CstSem γ (.distinctfd (Term.ofList l))
      rw [cstSem_d1_iff, cstSem_d2_iff]; exact (hiff γ hs).symm
  cases l with
  | nil =>
    show Ref I _ st (self st.nextId (.distinctfd2 .nil [] []) { st with nextId := st.nextId + 1 })
    exact hself [] [] trivial fun _ _ => Iff.rfl
  | cons h t =>
    have hwalk : walk st.σ (Term.ofList (h :: t)) = .cons h (Term.ofList t) := rfl
    unfold runDistinctFd
    rw [hwalk]
    simp only
    have hit : (Term.cons h (Term.ofList t)).iterItems = h :: t := iterItems_ofList (h :: t)
    rw [hit]
    generalize hl : h :: t = l at *
    have hperm : (l.filter (fun e => !e.isVar) ++ l.filter Term.isVar).Perm l := by
      have := List.filter_append_perm (fun e : Term => !e.isVar) l
      simpa using this
    split
    · rename_i hall
      have hns := filter_num_eq _ hall
      generalize hcs : (l.filter (fun e => !e.isVar)).filterMap Term.getNum? = cs at *
      have hpw := foldr_sortedInsert_pwle cs
      have hpm := foldr_sortedInsert_perm cs
      have key : ∀ γ, DVals γ l [] ↔ (cs.Nodup ∧ DVals γ (l.filter Term.isVar) (cs.foldr sortedInsert [])) := fun γ => by
        rw [← DVals.perm hperm, hns, dvals_consts]
        have : DVals γ (l.filter Term.isVar) (cs ++ []) ↔ DVals γ (l.filter Term.isVar) (cs.foldr sortedInsert []) :=
          DVals.congr_mem fun k => by rw [List.append_nil]; exact hpm.mem_iff.symm
        rw [this]
        exact ⟨fun a => ⟨a.1, a.2.2⟩, fun a => ⟨a.1, (fun _ _ h => nomatch h), a.2⟩⟩
      split
      · rename_i hdup
        refine Ref.refuted fun γ _ hc => ?_
        have hnd := ((key γ).1 ((cstSem_d1_iff γ l).1 hc)).1
        have : hasAdjDup (cs.foldr sortedInsert []) = false := (hasAdjDup_false _ hpw).2 (hpm.nodup_iff.2 hnd)
        rw [this] at hdup
        cases hdup
      · rename_i hdup
        have hnd : (cs.foldr sortedInsert []).Nodup := (hasAdjDup_false _ hpw).1 (by simpa using hdup)
        refine hself _ _ ((ss_iff _).2 (pwlt_of_pwle_nodup _ hpw hnd)) fun γ _ => ?_
        rw [key γ]
        exact ⟨fun a => a.2, fun a => ⟨hpm.nodup_iff.1 hnd, a⟩⟩
    · rename_i hall
      refine ⟨hallow, .inl rfl, fun γ ⟨_, hc⟩ => ?_⟩
      have hd := (cstSem_d1_iff γ l).1 hc
      have : ∃ e ∈ l.filter (fun e => !e.isVar), e.isNum = false :=
        Classical.byContradiction fun hne => hall (List.all_eq_true.2 fun e he => by
          cases h : e.isNum with
          | true => rfl
          | false => exact absurd ⟨e, he, h⟩ hne)
      obtain ⟨e, he, hen⟩ := this
      have hel := List.mem_filter.1 he
      refine not_dvals_of_elem hel.1 (fun k hk => ?_) hd
      exact not_numAt_of_shape (γ := γ) (by simpa using hel.2) hen k hk

end WithSelf
end Pv
