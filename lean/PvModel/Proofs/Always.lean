/-
  "Infinitely often": the stream of `conde { [always(), A], [always(), B] }` is eventually periodic, and
  every period delivers an answer of each clause.  `afterF top n s` is the stream left after `n`
  fuel units of `Solver::next` (delivered answers discarded); `runF_add` splits a run at any point.
-/
import PvModel.Proofs.Stream
namespace Pv
open Strm Goal

variable {St K : Type}

/-- the stream that remains after `n` fuel units (as counted by `runF`) -/
def afterF (top : Goal St K → St → Strm St K) : Nat → Strm St K → Strm St K
  | 0, s => s
  | _ + 1, .empty => .empty
  | _ + 1, .unit _ => .empty
  | n + 1, .cons _ l => afterF top n (.lazy l)
  | n + 1, .lazy l => afterF top n (step top l)

theorem runF_empty (top : Goal St K → St → Strm St K) (m : Nat) : runF top m (.empty : Strm St K) = [] := by
  cases m <;> simp [runF]

theorem afterF_empty (top : Goal St K → St → Strm St K) (m : Nat) : afterF top m (.empty : Strm St K) = .empty := by
  cases m <;> simp [afterF]

/-- a run of `n + m` units is the run of `n` units followed by a run of `m` units on what remains -/
theorem runF_add (top : Goal St K → St → Strm St K) (n m : Nat) (s : Strm St K) :
    runF top (n + m) s = runF top n s ++ runF top m (afterF top n s) := by
  induction n generalizing s with
  | zero => simp [runF, afterF]
  | succ n ih =>
    rw [Nat.add_right_comm]
    cases s with
    | empty => simp [runF, afterF, runF_empty]
    | unit a => simp [runF, afterF, runF_empty]
    | cons a l => simp only [runF, afterF, ih, List.cons_append]
    | lazy l => simp only [runF, afterF, ih]

theorem afterF_add (top : Goal St K → St → Strm St K) (n m : Nat) (s : Strm St K) :
    afterF top (n + m) s = afterF top m (afterF top n s) := by
  induction n generalizing s with
  | zero => simp [afterF]
  | succ n ih =>
    rw [Nat.add_right_comm]
    cases s with
    | empty => simp [afterF, afterF_empty]
    | unit a => simp [afterF, afterF_empty]
    | cons a l => simp only [afterF, ih]
    | lazy l => simp only [afterF, ih]

/-- a stream that returns to the shape it had after `p0` units every `p` units -/
theorem periodic_reach (top : Goal St K → St → Strm St K) (s : Strm St K) (p0 p : Nat) (hp : 0 < p)
    (h : afterF top (p0 + p) s = afterF top p0 s) (n : Nat) :
    ∃ q, afterF top (n + q) s = afterF top p0 s := by
  -- first: every multiple of the period from p0 returns to the same stream
  have hk : ∀ k, afterF top (p0 + k * p) s = afterF top p0 s := by
    intro k
    induction k with
    | zero => simp
    | succ k ih =>
      have : p0 + (k + 1) * p = (p0 + p) + k * p := by rw [Nat.succ_mul]; omega
      rw [this, afterF_add, h, ← afterF_add, ih]
  -- choose k with p0 + k*p ≥ n
  refine ⟨p0 + n * p - n, ?_⟩
  have : n ≤ p0 + n * p := by
    have : n * 1 ≤ n * p := Nat.mul_le_mul_left n hp
    omega
  rw [Nat.add_sub_cancel' this]
  exact hk n

/-- … hence everything delivered within one period is delivered again after ANY point of the run -/
theorem periodic_again (top : Goal St K → St → Strm St K) (s : Strm St K) (p0 p : Nat) (hp : 0 < p)
    (h : afterF top (p0 + p) s = afterF top p0 s) (b : St) (hb : b ∈ runF top p (afterF top p0 s)) (n : Nat) :
    ∃ m, b ∈ runF top m (afterF top n s) := by
  obtain ⟨q, hq⟩ := periodic_reach top s p0 p hp h n
  refine ⟨q + p, ?_⟩
  rw [runF_add, ← afterF_add, hq]
  exact List.mem_append_right _ hb

section AlwaysConde
variable (defs : K → St → St × Goal St K) (pf M : Nat)

/-- `conde { [always(), A], [always(), B] }` with `always() = anyo { succeed }`, atoms `A`, `B` -/
def alwaysConde (f1 f2 : St → Option St) : Goal St K :=
  condeOfClauses [[.anyo .succeed, .atom f1], [.anyo .succeed, .atom f2]]

theorem alwaysConde_period (f1 f2 : St → Option St) (a b1 b2 : St) (h1 : f1 a = some b1) (h2 : f2 a = some b2) :
    afterF (solveAt defs pf (M + 1)) (3 + 12) (solveAt defs pf (M + 1) (alwaysConde f1 f2) a)
      = afterF (solveAt defs pf (M + 1)) 3 (solveAt defs pf (M + 1) (alwaysConde f1 f2) a) ∧
    b1 ∈ runF (solveAt defs pf (M + 1)) 12 (afterF (solveAt defs pf (M + 1)) 3 (solveAt defs pf (M + 1) (alwaysConde f1 f2) a)) ∧
    b2 ∈ runF (solveAt defs pf (M + 1)) 12 (afterF (solveAt defs pf (M + 1)) 3 (solveAt defs pf (M + 1) (alwaysConde f1 f2) a)) := by
  simp [alwaysConde, solveAt, condeOfClauses, altOfList, conjOfList, mkConj, isSucceed, isFail, start, Strm.lazyBind,
    Strm.mplus, Strm.bind, runF, afterF, step, h1, h2]

end AlwaysConde
end Pv
