/-
  Main results about the search engine model (Model/Stream.lean) against the reference notions of
  Spec/Stream.lean.  Everything is generic in the state type and in `top` (the solver used for paused
  goals) unless a hypothesis says otherwise.
-/
import PvModel.Spec.Stream
import PvModel.Proofs.StreamAux
namespace Pv
open Strm Goal

variable {St K : Type}

section Generic
variable (top : Goal St K → St → Strm St K)

/-! ### one engine step -/

/-- interleaving: one step keeps the finite answer list up to permutation -/
-- REPAIRED: added `hT : TopOK top` (`top` solves `succeed`/`fail` at once).  `Stream::bind` short-cuts
-- `succeed`/`fail` syntactically while the reference list of a `bind` node is defined through `top`;
-- for a `top` with `top succeed a = empty` the node `bind (delay (unit a)) succeed` has the reference
-- list `[]` but steps to `unit a`.  `TopOK` holds for every `solveAt defs pf (n+1)` (`topOK_solveAt`).
theorem step_perm (hT : TopOK top) {l : Lz St K} {xs : List St} (h : AnsL top l xs) :
    ∃ ys, AnsS top (step top l) ys ∧ xs.Perm ys := step_perm_aux hT h

/-- membership is preserved by a step, in both directions (no answer lost, none invented) -/
-- REPAIRED: added `hT : TopOK top` (same reason as `step_perm`: with `top succeed b = empty`,
-- `bind (delay (unit a)) succeed` steps to `unit a` but has no member).
theorem step_mem_iff (hT : TopOK top) (a : St) (l : Lz St K) : MemS top a (step top l) ↔ MemL top a l :=
  step_mem_iff_aux hT l a

/-! ### Solver::next -/

/-- no invention: whatever `next` delivers within `n` steps is an answer of the stream -/
-- REPAIRED: added `hT : TopOK top` (counterexample as for `step_mem_iff`, wrapped in `lazy`, `n = 2`).
theorem runF_sound (hT : TopOK top) (n : Nat) (s : Strm St K) (a : St) (h : a ∈ runF top n s) :
    MemS top a s := by
  induction n generalizing s with
  | zero => simp [runF] at h
  | succ n ih =>
    cases s with
    | empty => simp [runF] at h
    | unit b => simp [runF] at h; exact h ▸ .unit _
    | cons b l =>
      simp only [runF, List.mem_cons] at h
      rcases h with h | h
      · exact h ▸ .head _ _
      · exact .tail (memS_lazy_iff.1 (ih _ h))
    | lazy l =>
      simp only [runF] at h
      exact .lazy ((step_mem_iff_aux hT l a).1 (ih _ h))

/-- `next` returns an answer of the stream and leaves a stream whose answers are answers of the original -/
-- REPAIRED: added `hT : TopOK top` (same counterexample as `runF_sound`).
theorem nextF_sound (hT : TopOK top) (n : Nat) (s s' : Strm St K) (a : St)
    (h : nextF top n s = some (some (a, s'))) :
    MemS top a s ∧ ∀ b, MemS top b s' → MemS top b s := by
  induction n generalizing s with
  | zero =>
    cases s with
    | empty => simp [nextF] at h
    | unit b =>
      simp only [nextF, Option.some.injEq, Prod.mk.injEq] at h
      obtain ⟨rfl, rfl⟩ := h
      exact ⟨.unit _, fun b hb => absurd hb memS_empty⟩
    | cons b l =>
      simp only [nextF, Option.some.injEq, Prod.mk.injEq] at h
      obtain ⟨rfl, rfl⟩ := h
      exact ⟨.head _ _, fun b hb => .tail (memS_lazy_iff.1 hb)⟩
    | lazy l => simp [nextF] at h
  | succ n ih =>
    cases s with
    | empty => simp [nextF] at h
    | unit b =>
      simp only [nextF, Option.some.injEq, Prod.mk.injEq] at h
      obtain ⟨rfl, rfl⟩ := h
      exact ⟨.unit _, fun b hb => absurd hb memS_empty⟩
    | cons b l =>
      simp only [nextF, Option.some.injEq, Prod.mk.injEq] at h
      obtain ⟨rfl, rfl⟩ := h
      exact ⟨.head _ _, fun b hb => .tail (memS_lazy_iff.1 hb)⟩
    | lazy l =>
      simp only [nextF] at h
      obtain ⟨h1, h2⟩ := ih _ h
      exact ⟨.lazy ((step_mem_iff_aux hT l a).1 h1),
        fun b hb => .lazy ((step_mem_iff_aux hT l b).1 (h2 b hb))⟩

set_option linter.unusedVariables false in
/-- fused: an exhausted stream stays exhausted -/
theorem nextF_fused (n : Nat) (s : Strm St K) (h : nextF top n s = some none) :
    ∀ m, nextF top (m + 1) (.empty : Strm St K) = some none := fun _ => by simp [nextF]

/-- lazy: more fuel never changes an outcome already reached -/
theorem nextF_fuel_mono (n k : Nat) (s : Strm St K) (r) (h : nextF top n s = some r) :
    nextF top (n + k) s = some r := by
  induction n generalizing s with
  | zero =>
    cases s with
    | lazy l => simp [nextF] at h
    | empty => simpa [nextF] using h
    | unit b => simpa [nextF] using h
    | cons b l => simpa [nextF] using h
  | succ n ih =>
    rw [Nat.add_right_comm]
    cases s with
    | lazy l => simp only [nextF] at h ⊢; exact ih _ h
    | empty => simpa [nextF] using h
    | unit b => simpa [nextF] using h
    | cons b l => simpa [nextF] using h

theorem runF_mono (n k : Nat) (s : Strm St K) : (runF top n s).IsPrefix (runF top (n + k) s) := by
  induction n generalizing s with
  | zero => simp [runF]
  | succ n ih =>
    rw [Nat.add_right_comm]
    cases s with
    | empty => simp [runF]
    | unit b => simp [runF]
    | cons b l => simp only [runF, List.prefix_cons_inj]; exact ih _
    | lazy l => simp only [runF]; exact ih _

/-- finite search: the whole stream is drained after finitely many steps and the answers delivered
    are a permutation of the reference list (nothing lost, nothing duplicated) -/
-- REPAIRED: added `hT : TopOK top` (counterexample of `step_perm` wrapped in `lazy`: reference list `[]`,
-- but the stream drains to `[a]`).
theorem drain_perm (hT : TopOK top) {s : Strm St K} {xs : List St} (h : AnsS top s xs) :
    ∃ n ys, drainF top n s = some ys ∧ xs.Perm ys := by
  obtain ⟨c, hc⟩ := h.toC
  obtain ⟨ys, hy, py⟩ := drain_cost hT (c + 1) hc (Nat.lt_succ_self _)
  exact ⟨_, ys, hy, py⟩

/-- `drainF` and `runF` agree on exhausted streams -/
theorem drain_run (n : Nat) (s : Strm St K) (ys : List St) (h : drainF top n s = some ys) :
    runF top n s = ys := by
  induction n generalizing s ys with
  | zero => simp [drainF] at h
  | succ n ih =>
    cases s with
    | empty => simp [drainF] at h; simp [runF, h]
    | unit b => simp [drainF] at h; simp [runF, h]
    | cons b l =>
      simp only [drainF, Option.map_eq_some_iff] at h
      obtain ⟨zs, hz, rfl⟩ := h
      simp only [runF, ih _ _ hz]
    | lazy l => simp only [drainF] at h; simp only [runF]; exact ih _ _ h

/-! ### peek / trunc (committed choice) -/

/-- `peek` only steps: what `next` does after it is what `next` would have done without it -/
theorem peekF_next (n m : Nat) (s s' : Strm St K) (r) (h : peekF top n s = some s')
    (h' : nextF top m s' = some r) : nextF top (n + m) s = some r := by
  induction n generalizing s with
  | zero =>
    cases s with
    | lazy l => simp [peekF] at h
    | empty => simp only [peekF, Option.some.injEq] at h; subst h; simpa using h'
    | unit b => simp only [peekF, Option.some.injEq] at h; subst h; simpa using h'
    | cons b l => simp only [peekF, Option.some.injEq] at h; subst h; simpa using h'
  | succ n ih =>
    cases s with
    | lazy l =>
      simp only [peekF] at h
      rw [Nat.add_right_comm]; simp only [nextF]; exact ih _ h
    | empty =>
      simp only [peekF, Option.some.injEq] at h; subst h
      rw [Nat.add_comm]; exact nextF_fuel_mono top _ _ _ _ h'
    | unit b =>
      simp only [peekF, Option.some.injEq] at h; subst h
      rw [Nat.add_comm]; exact nextF_fuel_mono top _ _ _ _ h'
    | cons b l =>
      simp only [peekF, Option.some.injEq] at h; subst h
      rw [Nat.add_comm]; exact nextF_fuel_mono top _ _ _ _ h'

theorem peekF_mature (n : Nat) (s s' : Strm St K) (h : peekF top n s = some s') : s'.isMature = true := by
  induction n generalizing s with
  | zero =>
    cases s with
    | lazy l => simp [peekF] at h
    | empty => simp only [peekF, Option.some.injEq] at h; subst h; rfl
    | unit b => simp only [peekF, Option.some.injEq] at h; subst h; rfl
    | cons b l => simp only [peekF, Option.some.injEq] at h; subst h; rfl
  | succ n ih =>
    cases s with
    | lazy l => simp only [peekF] at h; exact ih _ h
    | empty => simp only [peekF, Option.some.injEq] at h; subst h; rfl
    | unit b => simp only [peekF, Option.some.injEq] at h; subst h; rfl
    | cons b l => simp only [peekF, Option.some.injEq] at h; subst h; rfl

/-- `trunc` keeps exactly the first answer in engine order -/
theorem truncF_first (n : Nat) (s : Strm St K) (a : St) (h : truncF top n s = some (some a)) :
    ∃ m s', nextF top m s = some (some (a, s')) := by
  induction n generalizing s with
  | zero =>
    cases s with
    | lazy l => simp [truncF] at h
    | empty => simp [truncF] at h
    | unit b => simp only [truncF, Option.some.injEq] at h; subst h; exact ⟨0, .empty, by simp [nextF]⟩
    | cons b l => simp only [truncF, Option.some.injEq] at h; subst h; exact ⟨0, .lazy l, by simp [nextF]⟩
  | succ n ih =>
    cases s with
    | lazy l =>
      simp only [truncF] at h
      obtain ⟨m, s', hm⟩ := ih _ h
      exact ⟨m + 1, s', by simpa [nextF] using hm⟩
    | empty => simp [truncF] at h
    | unit b => simp only [truncF, Option.some.injEq] at h; subst h; exact ⟨0, .empty, by simp [nextF]⟩
    | cons b l => simp only [truncF, Option.some.injEq] at h; subst h; exact ⟨0, .lazy l, by simp [nextF]⟩

theorem truncF_none (n : Nat) (s : Strm St K) (h : truncF top n s = some none) :
    ∃ m, nextF top m s = some none := by
  induction n generalizing s with
  | zero =>
    cases s with
    | lazy l => simp [truncF] at h
    | empty => exact ⟨0, by simp [nextF]⟩
    | unit b => simp [truncF] at h
    | cons b l => simp [truncF] at h
  | succ n ih =>
    cases s with
    | lazy l =>
      simp only [truncF] at h
      obtain ⟨m, hm⟩ := ih _ h
      exact ⟨m + 1, by simpa [nextF] using hm⟩
    | empty => exact ⟨0, by simp [nextF]⟩
    | unit b => simp [truncF] at h
    | cons b l => simp [truncF] at h

/-- a stream with a finite answer list peeks to a mature stream with a permuted list; it is empty
    exactly when the list is empty -/
-- REPAIRED: added `hT : TopOK top` (same counterexample: reference list `[]`, but peeks to `unit a`).
theorem peekF_ans (hT : TopOK top) {s : Strm St K} {xs : List St} (h : AnsS top s xs) :
    ∃ n s' ys, peekF top n s = some s' ∧ AnsS top s' ys ∧ xs.Perm ys ∧ (s'.head?.isSome = !xs.isEmpty) := by
  obtain ⟨c, hc⟩ := h.toC
  obtain ⟨s', ys, hp, hy, py⟩ := peek_cost hT (c + 1) hc (Nat.lt_succ_self _)
  refine ⟨_, s', ys, hp, hy, py, ?_⟩
  rw [head_of_mature (peekF_mature_aux _ hp) hy]
  have := py.length_eq
  cases xs <;> cases ys <;> simp_all

end Generic

section Depth
variable (defs : K → St → St × Goal St K) (top : Goal St K → St → Strm St K)

/-- depth-first nodes: one step keeps the answer list EXACTLY (same answers, same order), and the
    result is again depth-first -/
-- REPAIRED: added `hT : TopOK top`.  Counterexample without it: `top = fun _ _ => .empty` (satisfies `hTop`),
-- `l = bindD (delay (unit a)) succeed`: reference list `[]`, but `step top l = unit a`.
theorem step_dfs (hT : TopOK top) (hTop : ∀ g a, DfsG defs g → DfsS defs (top g a)) {l : Lz St K}
    {xs : List St} (hl : DfsL defs l) (h : AnsL top l xs) :
    AnsS top (step top l) xs ∧ DfsS defs (step top l) := step_dfs_aux hT hTop l hl h

/-- depth-first streams are drained in exactly the reference order -/
-- REPAIRED: added `hT : TopOK top` (counterexample of `step_dfs` wrapped in `lazy`).
theorem drain_dfs (hT : TopOK top) (hTop : ∀ g a, DfsG defs g → DfsS defs (top g a)) {s : Strm St K}
    {xs : List St} (hs : DfsS defs s) (h : AnsS top s xs) :
    ∃ n, drainF top n s = some xs := by
  obtain ⟨n, ys, hy, _⟩ := drain_perm top hT h
  exact ⟨n, by rw [hy, drain_dfs_exact hT hTop n hs h hy]⟩

/-- `start` of a depth-first goal is a depth-first stream, at every level -/
theorem start_dfs (hD : DfsDefs defs) (pf : Nat) (hTop : ∀ g a, DfsG defs g → DfsS defs (top g a)) (g : Goal St K) (a : St)
    (hg : DfsG defs g) : DfsS defs (start defs top pf g a) := by
  induction hg generalizing a with
  | succeed => simp only [start]; exact .unit _
  | fail => simp only [start]; exact .empty
  | atom f => simp only [start]; split <;> constructor
  | dyn h ih => simp only [start]; exact ih _ _
  | conjD h1 h2 ih1 ih2 => simp only [start]; exact lazyBindD_dfs (.pause h1) h2
  | disjD h1 h2 => simp only [start]; exact .lazy (.mplusD (.pause h1) (.pause h2))
  | altD h1 h2 ih1 ih2 => simp only [start]; exact mplusD_dfs (ih1 a) (.delay (ih2 a))
  | fresh h => simp only [start]; exact .lazy (.pause h)
  | call => simp only [start]; exact hTop _ _ (hD _ _)

theorem solveAt_dfs (hD : DfsDefs defs) (pf n : Nat) (g : Goal St K) (a : St) (hg : DfsG defs g) :
    DfsS defs (solveAt defs pf n g a) := by
  induction n generalizing g a with
  | zero => exact .lazy (.pause hg)
  | succ n ih => exact start_dfs defs _ hD pf (fun g a hg => ih g a hg) g a hg

theorem start_bfs (hD : BfsDefs defs) (pf : Nat) (hTop : ∀ g a, BfsG defs g → BfsS defs (top g a)) (g : Goal St K) (a : St)
    (hg : BfsG defs g) : BfsS defs (start defs top pf g a) := by
  induction hg generalizing a with
  | succeed => simp only [start]; exact .unit _
  | fail => simp only [start]; exact .empty
  | atom f => simp only [start]; split <;> constructor
  | dyn h ih => simp only [start]; exact ih _ _
  | conj h1 h2 ih1 ih2 => simp only [start]; exact lazyBind_bfs (.pause h1) h2
  | disj h1 h2 => simp only [start]; exact .lazy (.mplus (.pause h1) (.pause h2))
  | alt h1 h2 ih1 ih2 => simp only [start]; exact mplus_bfs (ih1 a) (.delay (ih2 a))
  | fresh h => simp only [start]; exact .lazy (.pause h)
  | anyo h =>
    simp only [start]
    have mk : ∀ {g : Goal St K}, BfsG defs g → BfsG defs (mkConj g .succeed) := by
      intro g hg; unfold mkConj; split
      · exact .succeed
      split
      · exact .fail
      exact .conj hg .succeed
    refine mplus_bfs ?_ (.delay (mplus_bfs (.lazy (.pause (.anyo (mk (mk h))))) (.delay .empty)))
    split
    · exact .unit _
    split
    · exact .empty
    exact .lazy (.pause h)
  | call => simp only [start]; exact hTop _ _ (hD _ _)

theorem solveAt_bfs (hD : BfsDefs defs) (pf n : Nat) (g : Goal St K) (a : St) (hg : BfsG defs g) :
    BfsS defs (solveAt defs pf n g a) := by
  induction n generalizing g a with
  | zero => exact .lazy (.pause hg)
  | succ n ih => exact start_bfs defs _ hD pf (fun g a hg => ih g a hg) g a hg

/-- FAIRNESS of interleaving search: every answer of an interleaving stream — however many other
    branches produce infinitely many answers or diverge silently — is delivered after finitely many steps -/
-- REPAIRED: added `hT : TopOK top`.  Counterexample without it: `St = Nat`, `top = fun _ b => .unit (b + 1)`
-- (satisfies `hTop`), `s = lazy (bind (delay (unit 0)) succeed)`: `1` is a member of `s` (through
-- `top succeed 0 = unit 1`), but `bind`'s `succeed` short-cut makes the stream deliver exactly `[0]`.
theorem fair (hT : TopOK top) (hTop : ∀ g a, BfsG defs g → BfsS defs (top g a)) {s : Strm St K} {a : St}
    (hs : BfsS defs s) (h : MemS top a s) : ∃ n, a ∈ runF top n s := by
  obtain ⟨r, hr⟩ := h.toC
  exact ⟨_, fair_rank hT hTop (r + 1) r s (Nat.lt_succ_self _) hs hr⟩

end Depth

section Ref
variable (defs : K → St → St × Goal St K) (pf M : Nat)

/-- Reference semantics, depth-first goals: whenever the textbook evaluation terminates with `xs`, the
    stream the engine starts from has exactly the answer list `xs` (Prolog order), at every level. -/
theorem ref_dfs (hD : DfsDefs defs) (n : Nat) (g : Goal St K) (a : St) (xs : List St) (hg : DfsG defs g)
    (h : evalRef defs n g a = some xs) (m : Nat) :
    AnsS (solveAt defs pf (M + 1)) (solveAt defs pf (m + 1) g a) xs := by
  have hT : TopOK (solveAt defs pf (M + 1)) := topOK_solveAt defs pf M
  induction n generalizing g a xs m with
  | zero => simp [evalRef] at h
  | succ n ih =>
    cases hg with
    | succeed =>
      simp only [evalRef, Option.some.injEq] at h; subst h
      simp only [solveAt, start]; exact .unit a
    | fail =>
      simp only [evalRef, Option.some.injEq] at h; subst h
      simp only [solveAt, start]; exact .empty
    | atom f =>
      simp only [evalRef, Option.some.injEq] at h; subst h
      simp only [solveAt, start]
      cases f a with
      | none => exact .empty
      | some b => exact .unit b
    | dyn hd =>
      simp only [evalRef] at h
      simp only [solveAt, start]
      exact ih _ _ _ (hd a) h m
    | conjD h1 h2 =>
      simp only [evalRef] at h
      split at h
      · rename_i xs1 e1
        simp only [solveAt, start]
        refine lazyBindD_ans hT (.pause (ih _ _ _ h1 e1 M)) (flatMapM_ansB (fun x ys e => ?_) h)
        exact ih _ _ _ h2 e M
      · simp at h
    | disjD h1 h2 =>
      simp only [evalRef] at h
      split at h
      · rename_i xs1 ys1 e1 e2
        simp only [Option.some.injEq] at h; subst h
        simp only [solveAt, start]
        exact .lazy (.mplusD (.pause (ih _ _ _ h1 e1 M)) (.pause (ih _ _ _ h2 e2 M)))
      · simp at h
    | altD h1 h2 =>
      simp only [evalRef] at h
      split at h
      · rename_i xs1 ys1 e1 e2
        simp only [Option.some.injEq] at h; subst h
        simp only [solveAt, start]
        exact mplusD_ans (ih _ _ _ h1 e1 m) (.delay (ih _ _ _ h2 e2 m))
      · simp at h
    | fresh h1 =>
      simp only [evalRef] at h
      simp only [solveAt, start]
      exact .lazy (.pause (ih _ _ _ h1 h M))
    | call =>
      simp only [evalRef] at h
      simp only [solveAt, start]
      cases m with
      | zero => simp only [solveAt]; exact .lazy (.pause (ih _ _ _ (hD _ a) h M))
      | succ m => exact ih _ _ _ (hD _ a) h m

/-- Reference semantics, pure goals of either kind: the answer list is a permutation of the textbook one. -/
theorem ref_perm (n : Nat) (g : Goal St K) (a : St) (xs : List St)
    (h : evalRef defs n g a = some xs) (m : Nat) :
    ∃ ys, AnsS (solveAt defs pf (M + 1)) (solveAt defs pf (m + 1) g a) ys ∧ xs.Perm ys := by
  have hT : TopOK (solveAt defs pf (M + 1)) := topOK_solveAt defs pf M
  induction n generalizing g a xs m with
  | zero => simp [evalRef] at h
  | succ n ih =>
    cases g with
    | succeed =>
      simp only [evalRef, Option.some.injEq] at h; subst h
      simp only [solveAt, start]; exact ⟨_, .unit a, .refl _⟩
    | fail =>
      simp only [evalRef, Option.some.injEq] at h; subst h
      simp only [solveAt, start]; exact ⟨_, .empty, .refl _⟩
    | atom f =>
      simp only [evalRef, Option.some.injEq] at h; subst h
      simp only [solveAt, start]
      cases f a with
      | none => exact ⟨_, .empty, .refl _⟩
      | some b => exact ⟨_, .unit b, .refl _⟩
    | dyn fs fg =>
      simp only [evalRef] at h
      simp only [solveAt, start]
      exact ih _ _ _ h m
    | conj g1 g2 =>
      simp only [evalRef] at h
      split at h
      · rename_i xs1 e1
        simp only [solveAt, start]
        obtain ⟨ys1, hy1, py1⟩ := ih _ _ _ e1 M
        obtain ⟨zs1, hz1, pz1⟩ := flatMapM_ansB_perm (top := solveAt defs pf (M + 1)) (g := g2)
          (fun x ys e => ih _ _ _ e M) h
        obtain ⟨zs2, hz2, pz2⟩ := ansB_perm py1 hz1
        exact ⟨zs2, lazyBind_ans hT (.pause hy1) hz2, pz1.trans pz2⟩
      · simp at h
    | conjD g1 g2 =>
      simp only [evalRef] at h
      split at h
      · rename_i xs1 e1
        simp only [solveAt, start]
        obtain ⟨ys1, hy1, py1⟩ := ih _ _ _ e1 M
        obtain ⟨zs1, hz1, pz1⟩ := flatMapM_ansB_perm (top := solveAt defs pf (M + 1)) (g := g2)
          (fun x ys e => ih _ _ _ e M) h
        obtain ⟨zs2, hz2, pz2⟩ := ansB_perm py1 hz1
        exact ⟨zs2, lazyBindD_ans hT (.pause hy1) hz2, pz1.trans pz2⟩
      · simp at h
    | disj g1 g2 =>
      simp only [evalRef] at h
      split at h
      · rename_i xs1 ys1 e1 e2
        simp only [Option.some.injEq] at h; subst h
        simp only [solveAt, start]
        obtain ⟨xs2, hx, px⟩ := ih _ _ _ e1 M
        obtain ⟨ys2, hy, py⟩ := ih _ _ _ e2 M
        exact ⟨_, .lazy (.mplus (.pause hx) (.pause hy)), List.Perm.append px py⟩
      · simp at h
    | disjD g1 g2 =>
      simp only [evalRef] at h
      split at h
      · rename_i xs1 ys1 e1 e2
        simp only [Option.some.injEq] at h; subst h
        simp only [solveAt, start]
        obtain ⟨xs2, hx, px⟩ := ih _ _ _ e1 M
        obtain ⟨ys2, hy, py⟩ := ih _ _ _ e2 M
        exact ⟨_, .lazy (.mplusD (.pause hx) (.pause hy)), List.Perm.append px py⟩
      · simp at h
    | alt g1 g2 =>
      simp only [evalRef] at h
      split at h
      · rename_i xs1 ys1 e1 e2
        simp only [Option.some.injEq] at h; subst h
        simp only [solveAt, start]
        obtain ⟨xs2, hx, px⟩ := ih _ _ _ e1 m
        obtain ⟨ys2, hy, py⟩ := ih _ _ _ e2 m
        obtain ⟨zs, hz, pz⟩ := mplus_ans hx (.delay hy)
        exact ⟨zs, hz, (List.Perm.append px py).trans pz⟩
      · simp at h
    | altD g1 g2 =>
      simp only [evalRef] at h
      split at h
      · rename_i xs1 ys1 e1 e2
        simp only [Option.some.injEq] at h; subst h
        simp only [solveAt, start]
        obtain ⟨xs2, hx, px⟩ := ih _ _ _ e1 m
        obtain ⟨ys2, hy, py⟩ := ih _ _ _ e2 m
        exact ⟨_, mplusD_ans hx (.delay hy), List.Perm.append px py⟩
      · simp at h
    | fresh g1 =>
      simp only [evalRef] at h
      simp only [solveAt, start]
      obtain ⟨ys, hy, py⟩ := ih _ _ _ h M
      exact ⟨ys, .lazy (.pause hy), py⟩
    | conda f r nx => simp [evalRef] at h
    | condu f r nx => simp [evalRef] at h
    | anyo g1 => simp [evalRef] at h
    | call k =>
      simp only [evalRef] at h
      simp only [solveAt, start]
      cases m with
      | zero =>
        simp only [solveAt]
        obtain ⟨ys, hy, py⟩ := ih _ _ _ h M
        exact ⟨ys, .lazy (.pause hy), py⟩
      | succ m => exact ih _ _ _ h m

end Ref

section Disj
variable (defs : K → St → St × Goal St K) (top : Goal St K → St → Strm St K) (pf : Nat)

/-- branches are independent: the answers of `conde {A, B}` from a state are those of A from that
    state together with those of B from that state (the clauses see the same, unshared, state value) -/
theorem alt_union (A B : Goal St K) (a : St) (xs ys : List St)
    (hA : AnsS top (start defs top pf A a) xs) (hB : AnsS top (start defs top pf B a) ys) :
    ∃ zs, AnsS top (start defs top pf (.alt A B) a) zs ∧ (xs ++ ys).Perm zs := by
  simp only [start]; exact mplus_ans hA (.delay hB)

theorem alt_inv (A B : Goal St K) (a : St) (zs : List St)
    (h : AnsS top (start defs top pf (.alt A B) a) zs) :
    ∃ xs ys, AnsS top (start defs top pf A a) xs ∧ AnsS top (start defs top pf B a) ys ∧ (xs ++ ys).Perm zs := by
  simp only [start] at h
  obtain ⟨xs, ys, h1, h2, hp⟩ := mplus_ans_inv h
  cases h2 with | delay h2 => exact ⟨xs, ys, h1, h2, hp⟩

theorem altD_union (A B : Goal St K) (a : St) (xs ys : List St)
    (hA : AnsS top (start defs top pf A a) xs) (hB : AnsS top (start defs top pf B a) ys) :
    AnsS top (start defs top pf (.altD A B) a) (xs ++ ys) := by
  simp only [start]; exact mplusD_ans hA (.delay hB)

/-- committed choice, `conda`: with a head that has answers, all head answers are kept (each once) and
    continued with the rest; later clauses contribute nothing -/
-- REPAIRED: added `hT : TopOK top`.  Counterexample without it: `top = fun _ _ => .empty`, `f = succeed`,
-- `r = succeed`, `hs = [a]`: `AnsB top succeed [a] []` holds, but `start (conda f r nx) a = unit a`.
theorem conda_commit (hT : TopOK top) (f r nx : Goal St K) (a : St) (hs : List St) (hne : hs ≠ [])
    (hf : AnsS top (start defs top pf f a) hs) (hpf : peekF top pf (start defs top pf f a) ≠ none) :
    ∃ hs', hs.Perm hs' ∧
      ∀ zs, AnsB top r hs' zs → ∃ ws, AnsS top (start defs top pf (.conda f r nx) a) ws ∧ zs.Perm ws := by
  cases hp : peekF top pf (start defs top pf f a) with
  | none => exact absurd hp hpf
  | some s' =>
    obtain ⟨ys, hy, py⟩ := peekF_perm hT pf hp hf
    have hh := head_of_mature (peekF_mature_aux pf hp) hy
    have hne' : ys ≠ [] := fun e => hne (by subst e; exact py.eq_nil)
    have hh' : s'.head?.isSome = true := by
      rw [hh]; cases ys with
      | nil => exact absurd rfl hne'
      | cons => rfl
    refine ⟨ys, py, fun zs hz => ⟨zs, ?_, .refl _⟩⟩
    simp only [start, hp, hh', if_true]
    exact bind_ans hT hy hz

/-- `conda`: a head without answers passes to the next clause -/
-- REPAIRED: added `hT : TopOK top`.  Counterexample without it: `f = call k`, `top` such that
-- `top (defs k a).2 (defs k a).1 = lazy (bind (delay (unit a)) succeed)` and `top succeed _ = empty`:
-- the head has the reference list `[]` but peeks to `unit a`, so `conda` commits to the first clause.
theorem conda_skip (hT : TopOK top) (f r nx : Goal St K) (a : St)
    (hf : AnsS top (start defs top pf f a) []) (hpf : peekF top pf (start defs top pf f a) ≠ none) :
    start defs top pf (.conda f r nx) a = start defs top pf nx a := by
  simp only [start]
  cases hp : peekF top pf (start defs top pf f a) with
  | none => exact absurd hp hpf
  | some s' =>
    obtain ⟨ys, hy, py⟩ := peekF_perm hT pf hp hf
    have hh := head_of_mature (peekF_mature_aux pf hp) hy
    have : ys = [] := List.Perm.nil_eq py |>.symm
    subst this
    simp at hh
    simp [hh]

/-- `condu`/`onceo`: exactly the first head answer (engine order) is kept -/
theorem condu_commit (f r nx : Goal St K) (a b : St)
    (h : truncF top pf (start defs top pf f a) = some (some b)) :
    start defs top pf (.condu f r nx) a = bind (.unit b) r ∧
    ∃ m s', nextF top m (start defs top pf f a) = some (some (b, s')) := by
  refine ⟨?_, truncF_first top pf _ b h⟩
  simp only [start, h]

theorem condu_skip (f r nx : Goal St K) (a : St)
    (h : truncF top pf (start defs top pf f a) = some none) :
    start defs top pf (.condu f r nx) a = start defs top pf nx a := by
  simp only [start, h]

/-- `onceo g` has at most one answer: none if g has none, otherwise g's first answer -/
theorem onceo_spec (gs : List (Goal St K)) (a : St) :
    (∀ b, truncF top pf (start defs top pf (conjOfList gs) a) = some (some b) →
        start defs top pf (Goal.onceo gs) a = .unit b) ∧
    (truncF top pf (start defs top pf (conjOfList gs) a) = some none →
        start defs top pf (Goal.onceo gs) a = .empty) := by
  refine ⟨fun b h => ?_, fun h => ?_⟩
  · simp only [Goal.onceo, start, h, Strm.bind, isSucceed, if_true]
  · simp only [Goal.onceo, start, h]

end Disj

section Examples
variable (defs : K → St → St × Goal St K) (pf M : Nat)

/-- `conde { never(), q == 1 }` delivers the answer of its second clause although the first clause
    diverges silently (`never() = anyo { fail }`), within an explicit number of steps -/
theorem never_then_answer (f : St → Option St) (a b : St) (hf : f a = some b) :
    b ∈ runF (solveAt defs pf (M + 1)) 12
      (solveAt defs pf (M + 1) (condeOfClauses [[.anyo .fail], [.atom f]]) a) := by
  simp [solveAt, condeOfClauses, altOfList, conjOfList, mkConj, isSucceed, isFail, start, Strm.lazyBind,
    Strm.mplus, runF, step, hf]

theorem dfs_starves_aux (k : K) (hk : ∀ a, defs k a = (a, .fresh (.call k))) (a : St) (R : Strm St K)
    (n : Nat) : ∀ g : Goal St K, g = .call k ∨ g = .fresh (.call k) →
      runF (solveAt defs pf (M + 1)) n (.lazy (.mplusD (.pause a g) (.delay R))) = [] := by
  induction n with
  | zero => intro g _; simp [runF]
  | succ n ih =>
    intro g hg
    rcases hg with rfl | rfl
    · simp only [runF, step, solveAt, start, hk]
      cases M with
      | zero => simp only [solveAt, Strm.mplusD]; exact ih _ (.inr rfl)
      | succ M => simp only [solveAt, start, Strm.mplusD]; exact ih _ (.inl rfl)
    · simp only [runF, step, solveAt, start, Strm.mplusD]
      exact ih _ (.inl rfl)

/-- the same disjunction searched depth-first never delivers it: the diverging first clause
    (a relation that only calls itself) starves the second one — fairness needs interleaving -/
theorem dfs_starves (k : K) (hk : ∀ a, defs k a = (a, .fresh (.call k))) (f : St → Option St) (a : St) (n : Nat) :
    runF (solveAt defs pf (M + 1)) n
      (solveAt defs pf (M + 1) (.altD (.fresh (.call k)) (.altD (.atom f) .fail)) a) = [] := by
  simp only [solveAt, start, Strm.mplusD]
  exact dfs_starves_aux defs pf M k hk a _ n _ (.inl rfl)

end Examples

end Pv
