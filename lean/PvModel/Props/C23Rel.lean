/-
  C23 — no panic, THROUGH RELATION CALLS (strict mode: programs without `distinctfd`).
-/
import PvModel.Proofs.RelNoPanic
namespace Pv
open Strm Goal State Term

section
attribute [local instance] Mode.strict

/-- solving a program of FD / CLP(Z) constraints with well-formed domains, `==`, `!=`, conjunction, conde, fresh and
    calls of member / member1 / append / rember / permute / distinct (right number of arguments; any argument
    terms) never reaches a panic site of the state machine: every state in the engine's stream — every nesting
    level, every hash-iteration order, finite or infinite search — is unpoisoned, or carries the model's own FUEL
    marker (which the driver reports as FUEL, never as a panic) -/
theorem C23_rel_no_panic (ord : Order) (ho : OrderOK ord) (pf M j nv : Nat) (p : FRProg) (hk : p.OK) (hc : p.Calls) (b : State)
    (hm : MemS (solveAt (defs ord) pf (M + 1)) b (solveAt (defs ord) pf j (p.goal ord) (State.empty nv))) :
    b.panic = none ∨ b.panic = some "FUEL" :=
  frprog_no_panic ho pf M j nv p hk hc b hm

/-- … in particular a relation call from any well-formed unpoisoned state -/
theorem C23_rel_call_no_panic (ord : Order) (ho : OrderOK ord) (pf M j : Nat) (c : Call) (hv : c.Valid) (a b : State)
    (hn : a.panic = none) (w : WFS a) (hi : Inv a)
    (hm : MemS (solveAt (defs ord) pf (M + 1)) b (solveAt (defs ord) pf j (.call c) a)) :
    b.panic = none ∨ b.panic = some "FUEL" := by
  obtain ⟨n, h⟩ := (mem_iff_big (defs_plain ord) pf M j (.call c) a b).1 hm
  rcases np_big ho n _ _ b h (.call hv) (.inl ⟨hn, w, hi⟩) with h | h
  · exact .inl h.1
  · exact .inr h

end

section Examples
example : Call.Valid ⟨.append, [.var 0, .var 1, .var 2], false⟩ := trivial
example : ¬ Call.Valid ⟨.append, [.var 0], false⟩ := fun h => h
end Examples

end Pv
