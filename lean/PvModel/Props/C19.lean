/-
  C19 — CLP(Z) `plusz`/`timesz` constrain integers exactly.

  Model: `runPlusZ` / `runTimesZ` (Model/State.lean) mirror `PlusZConstraint::run` / `TimesZConstraint::run`
  (src/relation/clpz/*.rs, repaired: D4–D6) arm by arm: operands are walked; three numbers → check; two
  numbers → bind the third (direct substitution extension, then `run_constraints` = `rc`); fewer → the
  constraint is (re-)added to the store; Rust `/` and `%` are `Int.tdiv` / `Int.tmod`.
  All theorems hold for every state, every iteration order, every continuation `rc`.
-/
import PvModel.Proofs.FDLocal
import PvModel.Proofs.Tree
import PvModel.Proofs.FDExact
namespace Pv
open Term State

variable (rc : State → Res State) (ord : Order)

/-- three ground operands: succeeds (state unchanged) exactly when `u + v = w` -/
theorem C19_plus_ground (k id : Nat) (st : State) (u v w : Term) (a b c : Int)
    (hu : IsNumAt st u a) (hv : IsNumAt st v b) (hw : IsNumAt st w c) :
    runCst rc ord k id (.plusz u v w) st = if a + b = c then .ok st else .fail :=
  plusz_ground rc ord k id st u v w a b c hu hv hw

theorem C19_times_ground (k id : Nat) (st : State) (u v w : Term) (a b c : Int)
    (hu : IsNumAt st u a) (hv : IsNumAt st v b) (hw : IsNumAt st w c) :
    runCst rc ord k id (.timesz u v w) st = if a * b = c then .ok st else .fail :=
  timesz_ground rc ord k id st u v w a b c hu hv hw

/-- `plusz`, two ground: the third operand is bound to THE integer solution (then the store is re-run) -/
theorem C19_plus_two (id : Nat) (st : State) (u v w : Term) (a b : Int) (x : Nat) :
    (walk st.σ u = .val (.num a) → walk st.σ v = .val (.num b) → walk st.σ w = .var x →
      runPlusZ rc ord id u v w st = rc { st with σ := bindS x (Term.num (a + b)) st.σ }) ∧
    (walk st.σ u = .val (.num a) → walk st.σ v = .var x → walk st.σ w = .val (.num b) →
      runPlusZ rc ord id u v w st = rc { st with σ := bindS x (Term.num (b - a)) st.σ }) ∧
    (walk st.σ u = .var x → walk st.σ v = .val (.num a) → walk st.σ w = .val (.num b) →
      runPlusZ rc ord id u v w st = rc { st with σ := bindS x (Term.num (b - a)) st.σ }) := by
  refine ⟨fun h1 h2 h3 => ?_, fun h1 h2 h3 => ?_, fun h1 h2 h3 => ?_⟩ <;> simp only [runPlusZ, h1, h2, h3]

/-- the bound values are the unique solutions -/
theorem C19_plus_unique (a b z : Int) : (a + b = z ↔ z = a + b) ∧ (a + z = b ↔ z = b - a) ∧ (z + a = b ↔ z = b - a) := by
  omega

/-- `timesz`, two ground, product known (`a * y = c`, and symmetrically `y * a = c`):
    zero multiplier → kept if `c = 0` (every integer works), failure otherwise;
    non-zero multiplier → failure iff `a ∤ c` (no integer solution), else `y` is bound to the exact quotient. -/
theorem C19_times_two (id : Nat) (st : State) (u v w : Term) (a c : Int) (y : Nat)
    (h1 : walk st.σ u = .val (.num a)) (h2 : walk st.σ v = .var y) (h3 : walk st.σ w = .val (.num c)) :
    runTimesZ rc ord id u v w st =
      if a = 0 then (if c = 0 then .ok (st.withConstraint ord id (.timesz u v w)) else .fail)
      else if Int.tmod c a ≠ 0 then .fail
      else rc { st with σ := bindS y (Term.num (Int.tdiv c a)) st.σ } := by
  simp only [runTimesZ, h1, h2, h3]

theorem C19_times_two' (id : Nat) (st : State) (u v w : Term) (b c : Int) (x : Nat)
    (h1 : walk st.σ u = .var x) (h2 : walk st.σ v = .val (.num b)) (h3 : walk st.σ w = .val (.num c)) :
    runTimesZ rc ord id u v w st =
      if b = 0 then (if c = 0 then .ok (st.withConstraint ord id (.timesz u v w)) else .fail)
      else if Int.tmod c b ≠ 0 then .fail
      else rc { st with σ := bindS x (Term.num (Int.tdiv c b)) st.σ } := by
  simp only [runTimesZ, h1, h2, h3]

theorem C19_times_product (id : Nat) (st : State) (u v w : Term) (a b : Int) (z : Nat)
    (h1 : walk st.σ u = .val (.num a)) (h2 : walk st.σ v = .val (.num b)) (h3 : walk st.σ w = .var z) :
    runTimesZ rc ord id u v w st = rc { st with σ := bindS z (Term.num (a * b)) st.σ } := by
  simp only [runTimesZ, h1, h2, h3]

/-- the arithmetic behind `C19_times_two`: what the three branches mean -/
theorem C19_times_arith (a c : Int) :
    (a = 0 → c = 0 → ∀ y : Int, a * y = c) ∧
    (a = 0 → c ≠ 0 → ∀ y : Int, a * y ≠ c) ∧
    (a ≠ 0 → Int.tmod c a ≠ 0 → ∀ y : Int, a * y ≠ c) ∧
    (a ≠ 0 → Int.tmod c a = 0 → a * Int.tdiv c a = c ∧ ∀ y : Int, a * y = c → y = Int.tdiv c a) := by
  refine ⟨fun h1 h2 y => by subst h1 h2; simp, fun h1 h2 y h => by subst h1; simp at h; exact h2 h.symm, ?_, ?_⟩
  · intro _ hm y h
    apply hm; rw [← h]; exact Int.mul_tmod_right a y
  · intro ha hm
    refine ⟨Int.mul_tdiv_cancel' (Int.dvd_of_tmod_eq_zero hm), fun y h => ?_⟩
    rw [← h, Int.mul_tdiv_cancel_left y ha]

/-- fewer than two ground operands (incl. all three unbound, D5): the constraint is kept in the store
    and the rest of the state is unchanged -/
theorem C19_keep (id : Nat) (st : State) (u v w : Term)
    (h : (∃ x y z, walk st.σ u = .var x ∧ walk st.σ v = .var y ∧ walk st.σ w = .var z) ∨
         (∃ x y c, walk st.σ u = .var x ∧ walk st.σ v = .var y ∧ walk st.σ w = .val (.num c)) ∨
         (∃ x b z, walk st.σ u = .var x ∧ walk st.σ v = .val (.num b) ∧ walk st.σ w = .var z) ∨
         (∃ a y z, walk st.σ u = .val (.num a) ∧ walk st.σ v = .var y ∧ walk st.σ w = .var z)) :
    runPlusZ rc ord id u v w st = .ok (st.withConstraint ord id (.plusz u v w)) ∧
    runTimesZ rc ord id u v w st = .ok (st.withConstraint ord id (.timesz u v w)) := by
  rcases h with ⟨x, y, z, h1, h2, h3⟩ | ⟨x, y, c, h1, h2, h3⟩ | ⟨x, b, z, h1, h2, h3⟩ | ⟨a, y, z, h1, h2, h3⟩ <;>
    constructor <;> simp only [runPlusZ, runTimesZ, h1, h2, h3]

/-- the goal never panics: `run` itself has no panicking arm (the only panics are the continuation's) -/
theorem C19_total (id : Nat) (st : State) (u v w : Term) (hrc : ∀ s' site, rc s' ≠ .panic site) (site : String) :
    runPlusZ rc ord id u v w st ≠ .panic site ∧ runTimesZ rc ord id u v w st ≠ .panic site := by
  constructor
  · unfold runPlusZ
    repeat' split
    all_goals first | exact hrc _ _ | simp
  · unfold runTimesZ
    repeat' split
    all_goals first | exact hrc _ _ | simp

/-- Delayed check: every successful unification re-runs the WHOLE constraint store (so a constraint
    posted before its operands are ground is checked when they become ground, whatever the order) -/
theorem C19_delayed (st : State) (u v : Term) (σ' : Subst) (e : Ext1)
    (h : unifyF unifyFuel st.σ [] u v = some (some (σ', e))) :
    st.unify ord u v = ((runConstraintsF ord (rcFuel + 1) { st with σ := σ' }).bind fun st =>
      (processExtensionFd ord st e).bind fun st => .ok { st with extLog := e :: st.extLog }) := by
  simp only [State.unify, h, processExtension]

/-- … and `run_constraints` takes every stored constraint out and runs it -/
theorem C19_rerun_all (n : Nat) (st : State) :
    runConstraintsF ord (n + 1) st = runSnapshot (runConstraintsF ord n) ord st (ord.cs st.store) := rfl

/-! ### chains of several constraints, in arbitrary interleavings -/
section Chains
variable [Mode]

/-- CHAINS: any list of `plusz` / `timesz` atoms and equalities (and any FD atoms), in ANY posting order,
    under any hash-iteration order: the state reached describes exactly the integer solutions of the
    whole system — a constraint delayed for lack of ground operands is re-run when they become ground, binds
    its third operand or refutes the system, and nothing is lost or invented on the way. -/
theorem C19_chains {ord : Order} (ho : OrderOK ord) (n : Nat) (as : List FAtom) (hok : ∀ a ∈ as, a.OK)
    (st' : State) (h : postAllF ord (State.empty n) as = .ok st') (γ : Subst) :
    Sem NoI γ st' ↔ ∀ a ∈ as, a.Sat γ := fd_exact_ok ho n as hok st' h γ

theorem C19_chains_fail {ord : Order} (ho : OrderOK ord) (n : Nat) (as : List FAtom) (hok : ∀ a ∈ as, a.OK)
    (h : postAllF ord (State.empty n) as = .fail) : ¬ ∃ γ, ∀ a ∈ as, a.Sat γ := fd_exact_fail ho n as hok h

/-- posting order and hash order do not matter for the solutions described -/
theorem C19_order_free {ord ord' : Order} (ho : OrderOK ord) (ho' : OrderOK ord') (n : Nat)
    (as as' : List FAtom) (hp : as.Perm as') (hok : ∀ a ∈ as, a.OK) (st1 st2 : State)
    (h1 : postAllF ord (State.empty n) as = .ok st1) (h2 : postAllF ord' (State.empty n) as' = .ok st2) (γ : Subst) :
    Sem NoI γ st1 ↔ Sem NoI γ st2 := (fd_order_free ho ho' n as as' hp hok).1 st1 st2 h1 h2 γ

end Chains


section Examples
attribute [local instance] Mode.strict
private def x : Term := .var 0
private def y : Term := .var 1
private def z : Term := .var 2
private def o : Order := Order.default
private def outcome (r : Res State) : String :=
  match r with
  | .ok st => s!"ok {st.store.length}"
  | .fail => "fail"
  | .fuel => "fuel"
  | .panic s => s
/-- all three unbound: kept; then x := 2, y := 3 checks z := 6 … -/
example : outcome ((((postCst o (State.empty 3) (.timesz x y z)).bind fun st => unify o st x (num 2)).bind fun st =>
    unify o st y (num 3)).bind fun st => unify o st z (num 6)) = "ok 0" := by decide
/-- … and rejects z := 7 -/
example : outcome ((((postCst o (State.empty 3) (.timesz x y z)).bind fun st => unify o st x (num 2)).bind fun st =>
    unify o st y (num 3)).bind fun st => unify o st z (num 7)) = "fail" := by decide
/-- `timesz(0, r, 0)` stays constrained, `timesz(2, r, 5)` fails, `timesz(2, r, -6)` binds r = -3 -/
example : outcome (postCst o (State.empty 1) (.timesz (num 0) x (num 0))) = "ok 1" := by decide
example : outcome (postCst o (State.empty 1) (.timesz (num 2) x (num 5))) = "fail" := by decide
example : (match postCst o (State.empty 1) (.timesz (num 2) x (num (-6))) with
    | .ok st => st.σ 0 == num (-3) | _ => false) = true := by decide
/-- non-vacuity of `C19_chains`: a chain x + y = z, z * 2 = w posted BEFORE its operands are known; the
    later equalities x = 1, w = 10 wake both constraints: y = 4, z = 5 -/
private def prog19 : List FAtom :=
  [.cst (.plusz (.var 0) (.var 1) (.var 2)), .cst (.timesz (.var 2) (num 2) (.var 3)),
   .eq (.var 0) (num 1), .eq (.var 3) (num 10)]
example : ∀ a ∈ prog19, a.OK := by
  intro a ha
  simp only [prog19, List.mem_cons, List.not_mem_nil, or_false] at ha
  rcases ha with rfl | rfl | rfl | rfl <;> simp [FAtom.OK, CstOK]
example : (match postAllF Order.default (State.empty 4) prog19 with
    | .ok st => st.store.isEmpty && (st.σ 1 == num 4) && (st.σ 2 == num 5) | _ => false) = true := by decide
end Examples

end Pv
