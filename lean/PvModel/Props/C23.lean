/-
  C23 — Solving well-formed programs never panics.

  Model: every `panic!` / `unwrap` / `assert!` reachable from solving is a `Res.panic site` result in
  Model/State.lean and Model/Goals.lean (`assert-operand`: the constraint constructors' operand asserts;
  `unbound-domain`: `verify_all_bound`; `distinctfd-const` / `distinctfd-term` / `distinctfd-value`;
  `fd-minmax`: `min`/`max` of an empty sparse domain).  A panic poisons the state and is reported.

  Proved here, per FRAGMENT (the statement claimed is their conjunction; the assembly over whole programs
  through the re-entrant FD loop is an OPEN obligation, carried by the correspondence):
  * tree fragment: `==` / `!=` never panic on any reachable tree state (`C23_tree`), for every iteration order;
  * CLP(Z): `plusz` / `timesz` have no panicking arm (`C23_clpz`) — in particular no division by zero;
  * operand guard: the FD / Z goal constructors panic EXACTLY when an operand is neither a variable nor a
    number (`C23_operand_guard`) — the well-formedness boundary for "operands of the kinds the relation documents";
  * domains: every `FiniteDomain` operation on well-formed domains returns a well-formed domain or `none`,
    `min`/`max` are defined (C18), so `fd-minmax` is unreachable from well-formed stores (`C23_minmax`);
  * search operators: `start` / `step` / `next` are total functions — the engine has no panicking arm
    (`C23_engine_total`: by construction; the depth-first/BFS type dispatch `unreachable!()` arms are not
    representable in the model's single goal type).
  `project` reached twice panics on the pinned tree: KNOWN FINDING D16 (see C11).
-/
import PvModel.Props.C02
import PvModel.Props.C19
import PvModel.Props.C18
import PvModel.Model.Goals
namespace Pv
open State

/-- `==` and `!=` never panic on reachable tree states, whatever the hash-iteration order -/
theorem C23_tree (ord : Order) (ho : OrderOK ord) (st : State) (a : TAtom) (hg : Good st) (site : String) :
    postAtom ord st a ≠ .panic site := C02_no_panic ord ho st a hg site

/-- `plusz` / `timesz`: no panicking arm (no unchecked division) -/
theorem C23_clpz (rc : State → Res State) (ord : Order) (id : Nat) (st : State) (u v w : Term)
    (hrc : ∀ s' site, rc s' ≠ .panic site) (site : String) :
    runPlusZ rc ord id u v w st ≠ .panic site ∧ runTimesZ rc ord id u v w st ≠ .panic site :=
  C19_total rc ord id st u v w hrc site

/-- the constructors' operand guard: a goal built from operands that are variables or numbers is the
    constraint itself; any other operand kind makes it the `assert-operand` panic -/
theorem C23_operand_guard (ord : Order) (u v w : Term) :
    (operandOk u = true → operandOk v = true → operandOk w = true →
        plusfdG ord u v w = cstG ord (.plusfd u v w) ∧ timesfdG ord u v w = cstG ord (.timesfd u v w) ∧
        minusfdG ord u v w = cstG ord (.minusfd u v w) ∧ pluszG ord u v w = cstG ord (.plusz u v w) ∧
        timeszG ord u v w = cstG ord (.timesz u v w)) ∧
    (operandOk u = true → operandOk v = true →
        ltefdG ord u v = cstG ord (.ltefd u v) ∧ diseqfdG ord u v = cstG ord (.diseqfd u v)) := by
  refine ⟨fun h1 h2 h3 => ?_, fun h1 h2 => ?_⟩
  · simp [plusfdG, timesfdG, minusfdG, pluszG, timeszG, assertG, h1, h2, h3]
  · simp [ltefdG, diseqfdG, assertG, h1, h2]

/-- `min` / `max` of a well-formed domain are defined: the `fd-minmax` site needs an ill-formed domain -/
theorem C23_minmax (d : FD) (h : FD.WF d) : (∃ m, d.min? = some m) ∧ (∃ m, d.max? = some m) := by
  obtain ⟨m, hm, _⟩ := FD.C18_min d h
  obtain ⟨m', hm', _⟩ := FD.C18_max d h
  exact ⟨⟨m, hm⟩, ⟨m', hm'⟩⟩

/-- the engine is total: `step` and `next` return a stream / an outcome for every input -/
theorem C23_engine_total {St K : Type} (top : Goal St K → St → Strm St K) (l : Lz St K) (n : Nat) (s : Strm St K) :
    (∃ s', step top l = s') ∧ (nextF top n s = none ∨ ∃ r, nextF top n s = some r) := by
  refine ⟨⟨_, rfl⟩, ?_⟩
  cases h : nextF top n s with
  | none => exact .inl rfl
  | some r => exact .inr ⟨r, rfl⟩

/-- ASSEMBLY for the constraint state machine: posting ANY list of well-formed atoms (`==`, `!=`, `infd`
    with a well-formed domain, CLP(Z) and CLP(FD) constraints of every kind except distinctfd), in any order,
    under any hash-iteration order, through the re-entrant propagation loop, NEVER reaches a panic site —
    in particular `fd-minmax` (min/max of an empty domain, src/state/fd.rs:17,33) is unreachable because
    every stored domain stays non-empty and sorted; an unsatisfiable conjunction simply fails. -/
theorem C23_state_machine {ord : Order} (ho : OrderOK ord) (n : Nat) (as : List FAtom)
    (hok : ∀ a ∈ as, @FAtom.OK Mode.strict a)
    (s : String) : postAllF ord (State.empty n) as ≠ .panic s := fd_no_panic ho n as hok s

/-- … and with `distinctfd` (on proper list terms) the only panic sites that remain reachable are its own
    three (`Invalid constant constraint` / `Invalid value` / `Invalid LTerm`: a list element that is, or has
    been bound to, something that is not an integer — an operand of a kind the relation does not document),
    and they are reached only from conjunctions that have no solution -/
theorem C23_state_machine_distinctfd {ord : Order} (ho : OrderOK ord) (n : Nat) (as : List FAtom)
    (hok : ∀ a ∈ as, @FAtom.OK Mode.lax a) (s : String) (h : postAllF ord (State.empty n) as = .panic s) :
    DP s ∧ ¬ ∃ γ, ∀ a ∈ as, a.Sat γ := (@fd_panic_refuted Mode.lax ord ho n as hok s h).2

section Examples
open Term
private def o : Order := Order.default
/-- an unsatisfiable well-formed program: no answer, no panic -/
example : (match (State.unify o (State.empty 1) (.var 0) (num 1)).bind fun st => State.unify o st (.var 0) (num 2) with
    | .fail => true | _ => false) = true := by decide
/-- the boundary: an FD operand that is a list -/
example : operandOk (.cons (num 1) .nil) = false := by decide
end Examples

end Pv
