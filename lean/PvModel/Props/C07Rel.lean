/-
  C07 / C06 / C24 — DELIVERY for programs over the library relations: what `Solver::next` delivers after finitely
  many steps, for programs of `==`, `!=`, conjunction, `conde`, fresh and (interleaving) calls of member /
  member1 / append / rember / permute / distinct — recursion with infinitely many answers included.
-/
import PvModel.Proofs.RelFair
namespace Pv
open Strm Goal State Term

/-- no call of the program is a call made inside `dfs { }` -/
def RProg.NoDfs : RProg → Prop
  | .succeed => True
  | .fail => True
  | .atom _ => True
  | .conj p q => p.NoDfs ∧ q.NoDfs
  | .alt p q => p.NoDfs ∧ q.NoDfs
  | .fresh p => p.NoDfs
  | .call c => c.dfs = false

theorem RProg.noD (ord : Order) : ∀ (p : RProg), p.NoDfs → NoD (p.goal ord)
  | .succeed, _ => .succeed
  | .fail, _ => .fail
  | .atom _, _ => .atom _
  | .conj p q, h => .conj (RProg.noD ord p h.1) (RProg.noD ord q h.2)
  | .alt p q, h => .alt (RProg.noD ord p h.1) (RProg.noD ord q h.2)
  | .fresh p, h => .fresh (RProg.noD ord p h)
  | .call _, h => .call h

/-- `Solver::next` delivers exactly the big-step answers (relation calls unfold their bodies), after finitely
    many steps each, however many there are -/
theorem C07_delivered_iff_bigstep (ord : Order) (pf M : Nat) (g : G) (hg : NoD g) (a b : State) :
    (∃ n, b ∈ runF (solveAt (defs ord) pf (M + 1)) n (solveAt (defs ord) pf (M + 1) g a)) ↔ Big (defs ord) g a b :=
  delivered_iff_big pf M hg a b

/-- EVERY SOLUTION IS DELIVERED: a valuation that satisfies the program's declarative meaning is described — on
    the program's variables — by a state that `next` delivers after finitely many steps (or a FUEL-poisoned
    state is delivered): no solution is starved, whichever clauses diverge or produce infinitely many answers -/
theorem C07_rel_every_solution_delivered (ord : Order) (ho : OrderOK ord) (pf M nv : Nat) (p : RProg) (w : p.WF nv)
    (nd : p.NoDfs) (γ : Subst) (h : p.Sem γ) :
    ∃ n b, b ∈ runF (solveAt (defs ord) pf (M + 1)) n (solveAt (defs ord) pf (M + 1) (p.goal ord) (State.empty nv)) ∧
      (b.panic.isSome = true ∨ ∃ γ', Agree nv γ γ' ∧ StateSem γ' b) := by
  obtain ⟨b, hb, post⟩ := prog_complete ho p (State.empty nv) γ w rfl (rinv_empty nv) (stateSem_empty nv γ) h
  obtain ⟨n, hn⟩ := (delivered_iff_big pf M (RProg.noD ord p nd) _ b).2 hb
  refine ⟨n, b, hn, ?_⟩
  rcases post with x | ⟨_, _, γ', hag, sb⟩
  · exact .inl x
  · exact .inr ⟨γ', hag, sb⟩

/-- NOTHING ELSE IS DELIVERED: an unpoisoned delivered state describes only solutions of the program -/
theorem C06_rel_no_invention (ord : Order) (ho : OrderOK ord) (pf M nv : Nat) (p : RProg) (n : Nat) (b : State)
    (hb : b ∈ runF (solveAt (defs ord) pf (M + 1)) n (solveAt (defs ord) pf (M + 1) (p.goal ord) (State.empty nv)))
    (hp : b.panic.isSome = false) (γ : Subst) (hγ : StateSem γ b) : p.Sem γ := by
  have hm := runF_sound _ (topOK_solveAt (defs ord) pf M) n _ b hb
  obtain ⟨k, hk⟩ := (mem_iff_big (defs_plain ord) pf M (M + 1) (p.plain ord) _ b).1 hm
  exact (((prog_den ho k p k (Nat.le_refl _) _ b hk).2 hp (good_empty nv)).2 γ hγ).2

section Examples
/-- non-vacuity: `append(x, y, z)` — infinitely many answers — is in the fragment, and its fourth answer
    (x = [_, _, _], a term of size 7) is delivered within 60 steps -/
example : NoD ((RProg.call ⟨.append, [.var 0, .var 1, .var 2], false⟩).goal Order.default) := .call rfl
example : ((runF (solveAt (defs Order.default) 5 2) 60
      (solveAt (defs Order.default) 5 2 (.call ⟨.append, [.var 0, .var 1, .var 2], false⟩) (State.empty 3))).map
        fun s => (s.panic.isSome, (apply s.σ (.var 0)).size)).take 4 = [(false, 1), (false, 3), (false, 5), (false, 7)] := by
  decide +kernel
end Examples

end Pv
