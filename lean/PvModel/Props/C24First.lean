/-
  C24 — `cons`, `first`, `rest`, `empty` on the engine: sound and complete in every argument mode.
-/
import PvModel.Props.C24Sem
namespace Pv
open Strm Goal State Term

section
variable {ord : Order}

/-- the big-step answers of `first(list, x)` / `rest(list, x)` are those of the `cons` unification with the other
    component a fresh variable drawn from the counter -/
theorem big_first (d : Bool) (l x : Term) (a b : State) :
    Big (defs ord) (firstG ord d l x) a b ↔
      Big (defs ord) (eqG ord (.cons x (.var a.nextVar)) l) { a with nextVar := a.nextVar + 1 } b := by
  unfold firstG
  rw [big_dyn, big_fresh]
  cases d with
  | true =>
    simp only [if_true, big_conjDOfList, BigChain, consG]
    exact ⟨fun ⟨m, h, e⟩ => e ▸ h, fun h => ⟨b, h, rfl⟩⟩
  | false =>
    simp only [Bool.false_eq_true, if_false, big_conjOfList, BigChain, consG]
    exact ⟨fun ⟨m, h, e⟩ => e ▸ h, fun h => ⟨b, h, rfl⟩⟩

theorem big_rest (d : Bool) (l x : Term) (a b : State) :
    Big (defs ord) (restG ord d l x) a b ↔
      Big (defs ord) (eqG ord (.cons (.var a.nextVar) x) l) { a with nextVar := a.nextVar + 1 } b := by
  unfold restG
  rw [big_dyn, big_fresh]
  cases d with
  | true =>
    simp only [if_true, big_conjDOfList, BigChain, consG]
    exact ⟨fun ⟨m, h, e⟩ => e ▸ h, fun h => ⟨b, h, rfl⟩⟩
  | false =>
    simp only [Bool.false_eq_true, if_false, big_conjOfList, BigChain, consG]
    exact ⟨fun ⟨m, h, e⟩ => e ▸ h, fun h => ⟨b, h, rfl⟩⟩

end

/-- `first(list, x)`: SOUND — every answer describes only valuations under which `list` is `[x | _]`; COMPLETE — every
    such valuation of the start state is described by the answer (extended to the fresh tail variable) -/
theorem C24_first (ord : Order) (ho : OrderOK ord) (d : Bool) (l x : Term) (a : State) :
    (∀ b, Big (defs ord) (firstG ord d l x) a b → b.panic.isSome = false → Good a →
      Good b ∧ ∀ γ, StateSem γ b → StateSem γ a ∧ ∃ t, apply γ l = .cons (apply γ x) t) ∧
    (∀ γ t, Below a.nextVar l → Below a.nextVar x → a.panic.isSome = false → RInv a → StateSem γ a →
      apply γ l = .cons (apply γ x) t →
      ∃ b, Big (defs ord) (firstG ord d l x) a b ∧ (b.panic.isSome = true ∨ ∃ γ', Agree a.nextVar γ γ' ∧ StateSem γ' b)) := by
  constructor
  · intro b hb hp hg
    rw [big_first] at hb
    obtain ⟨n, hn⟩ := hb
    obtain ⟨gb, sem⟩ := (den_eq ho n (.cons x (.var a.nextVar)) l n (Nat.le_refl _) _ b hn).2 hp hg
    refine ⟨gb, fun γ hγ => ⟨(sem γ hγ).1, γ a.nextVar, ?_⟩⟩
    have := (sem γ hγ).2
    simp only [apply] at this
    exact this.symm
  · intro γ t bl bx hp hi hγ e
    have hle : a.nextVar ≤ a.nextVar + 1 := Nat.le_add_right _ _
    have hag : Agree a.nextVar γ (setV γ a.nextVar t) := agree_setV γ t (Nat.le_refl _)
    obtain ⟨b, hb, post⟩ := comp_atom ho (.eq (.cons x (.var a.nextVar)) l) (a := { a with nextVar := a.nextVar + 1 })
      (γ := setV γ a.nextVar t)
      ⟨below_cons (bx.mono hle) (below_var (by show a.nextVar < a.nextVar + 1; omega)), bl.mono hle⟩ hp (rinv_bump 1 hi)
      (hi.2 _ _ hag hγ)
      (by simp only [TAtom.Sat, apply]; rw [← apply_of_agree bx hag, ← apply_of_agree bl hag, e, setV_self])
    refine ⟨b, (big_first d l x a b).2 hb, ?_⟩
    rcases post with p | ⟨_, _, sb⟩
    · exact .inl p
    · exact .inr ⟨_, hag, sb⟩

/-- `rest(list, x)`: sound and complete for "`list` is `[_ | x]`" -/
theorem C24_rest (ord : Order) (ho : OrderOK ord) (d : Bool) (l x : Term) (a : State) :
    (∀ b, Big (defs ord) (restG ord d l x) a b → b.panic.isSome = false → Good a →
      Good b ∧ ∀ γ, StateSem γ b → StateSem γ a ∧ ∃ h, apply γ l = .cons h (apply γ x)) ∧
    (∀ γ h, Below a.nextVar l → Below a.nextVar x → a.panic.isSome = false → RInv a → StateSem γ a →
      apply γ l = .cons h (apply γ x) →
      ∃ b, Big (defs ord) (restG ord d l x) a b ∧ (b.panic.isSome = true ∨ ∃ γ', Agree a.nextVar γ γ' ∧ StateSem γ' b)) := by
  constructor
  · intro b hb hp hg
    rw [big_rest] at hb
    obtain ⟨n, hn⟩ := hb
    obtain ⟨gb, sem⟩ := (den_eq ho n (.cons (.var a.nextVar) x) l n (Nat.le_refl _) _ b hn).2 hp hg
    refine ⟨gb, fun γ hγ => ⟨(sem γ hγ).1, γ a.nextVar, ?_⟩⟩
    have := (sem γ hγ).2
    simp only [apply] at this
    exact this.symm
  · intro γ h bl bx hp hi hγ e
    have hle : a.nextVar ≤ a.nextVar + 1 := Nat.le_add_right _ _
    have hag : Agree a.nextVar γ (setV γ a.nextVar h) := agree_setV γ h (Nat.le_refl _)
    obtain ⟨b, hb, post⟩ := comp_atom ho (.eq (.cons (.var a.nextVar) x) l) (a := { a with nextVar := a.nextVar + 1 })
      (γ := setV γ a.nextVar h)
      ⟨below_cons (below_var (by show a.nextVar < a.nextVar + 1; omega)) (bx.mono hle), bl.mono hle⟩ hp (rinv_bump 1 hi)
      (hi.2 _ _ hag hγ)
      (by simp only [TAtom.Sat, apply]; rw [← apply_of_agree bx hag, ← apply_of_agree bl hag, e, setV_self])
    refine ⟨b, (big_rest d l x a b).2 hb, ?_⟩
    rcases post with p | ⟨_, _, sb⟩
    · exact .inl p
    · exact .inr ⟨_, hag, sb⟩

/-- `cons(f, r, out)` / `empty(s)`: sound and complete for "`out` is `[f | r]`" / "`s` is `[]`" (one unification each) -/
theorem C24_cons_empty (ord : Order) (ho : OrderOK ord) (u v : Term) (a : State) :
    (∀ b, Big (defs ord) (eqG ord u v) a b → b.panic.isSome = false → Good a →
      Good b ∧ ∀ γ, StateSem γ b → StateSem γ a ∧ apply γ u = apply γ v) ∧
    (∀ γ, Below a.nextVar u → Below a.nextVar v → a.panic.isSome = false → RInv a → StateSem γ a → apply γ u = apply γ v →
      ∃ b, Big (defs ord) (eqG ord u v) a b ∧ (b.panic.isSome = true ∨ StateSem γ b)) := by
  constructor
  · intro b ⟨n, hn⟩ hp hg
    exact (den_eq ho n u v n (Nat.le_refl _) a b hn).2 hp hg
  · intro γ bu bv hp hi hγ e
    obtain ⟨b, hb, post⟩ := comp_atom ho (.eq u v) ⟨bu, bv⟩ hp hi hγ e
    exact ⟨b, hb, post.imp id fun h => h.2.2⟩

section Examples
/-- non-vacuity: `first([1, 2], x)` from the empty state over one variable — the engine delivers one unpoisoned state with x = 1 -/
example : ((runF (solveAt (defs Order.default) 5 2) 20 (solveAt (defs Order.default) 5 2
    (firstG Order.default false (ofList [Term.num 1, Term.num 2]) (.var 0)) (State.empty 1))).map
      fun s => (s.panic.isSome, apply s.σ (.var 0))) = [(false, Term.num 1)] := by decide +kernel
end Examples

end Pv
