/-
  C04 — Reordering conjuncts or disjuncts preserves the answer multiset.

  * Disjuncts: pure stream algebra (generic state type): swapping / rotating the clauses of a disjunction
    permutes the finite answer list and leaves the set of answers of an arbitrary (infinite) stream unchanged.
  * Conjuncts, ==/!= atoms: posting a permuted list of atoms, under any hash-iteration orders, ends in
    failure in both cases or in two states with exactly the same ground instances (C02).
  * Conjuncts, FD atoms: follows from soundness + completeness of labelling per path (C16/C17), whose global
    parts are OPEN obligations; carried by the correspondence (every generated program is run as written and
    under permutations of every conjunction and clause list, multisets compared, brute-force reference).
-/
import PvModel.Props.C02
import PvModel.Proofs.Stream
import PvModel.Proofs.FDExact
import PvModel.Proofs.FDProgram
namespace Pv
open Strm Goal

variable {St K : Type}

/-- swapping the two clauses of a disjunction permutes the finite answer list -/
theorem C04_disj_comm (defs : K → St → St × Goal St K) (top : Goal St K → St → Strm St K) (pf : Nat)
    (A B : Goal St K) (a : St) (zs : List St) (h : AnsS top (start defs top pf (.alt A (.alt B .fail)) a) zs) :
    ∃ zs', AnsS top (start defs top pf (.alt B (.alt A .fail)) a) zs' ∧ zs.Perm zs' := by
  obtain ⟨xs, ys, hA, hB, p1⟩ := alt_inv defs top pf A (.alt B .fail) a zs h
  obtain ⟨ys1, ys2, hB', hF, p2⟩ := alt_inv defs top pf B .fail a ys hB
  have hF' : ys2 = [] := by simp only [start] at hF; cases hF; rfl
  subst hF'
  obtain ⟨w1, hw1, q1⟩ := alt_union defs top pf A .fail a xs [] hA (by simp only [start]; exact .empty)
  obtain ⟨w2, hw2, q2⟩ := alt_union defs top pf B (.alt A .fail) a ys1 w1 hB' hw1
  refine ⟨w2, hw2, ?_⟩
  have e1 : (ys1 ++ []).Perm ys := p2
  have e2 : (xs ++ []).Perm w1 := q1
  simp only [List.append_nil] at e1 e2
  exact p1.symm.trans ((List.Perm.append e2 e1.symm).trans (List.perm_append_comm.trans q2))

/-- … and for arbitrary (infinite, diverging) clauses the SET of answers is unchanged -/
theorem C04_disj_comm_mem (defs : K → St → St × Goal St K) (top : Goal St K → St → Strm St K) (pf : Nat)
    (A B : Goal St K) (a b : St) :
    MemS top b (start defs top pf (.alt A (.alt B .fail)) a) ↔ MemS top b (start defs top pf (.alt B (.alt A .fail)) a) := by
  simp only [start, mem_mplus_iff, memL_delay_iff, memS_empty, or_false]
  exact Or.comm

/-- moving a clause across any number of other clauses: the answers of a clause list are those of any
    permutation of it, as a set (arbitrary streams) -/
theorem C04_disj_perm_mem (defs : K → St → St × Goal St K) (top : Goal St K → St → Strm St K) (pf : Nat)
    (a b : St) : ∀ (gs : List (Goal St K)),
      MemS top b (start defs top pf (altOfList gs) a) ↔ ∃ g ∈ gs, MemS top b (start defs top pf g a)
  | [] => by simp [altOfList, start, memS_empty]
  | g :: gs => by
    simp only [altOfList, start, mem_mplus_iff, memL_delay_iff, List.mem_cons, exists_eq_or_imp]
    rw [← C04_disj_perm_mem defs top pf a b gs]

theorem C04_disj_perm (defs : K → St → St × Goal St K) (top : Goal St K → St → Strm St K) (pf : Nat)
    (a b : St) (gs gs' : List (Goal St K)) (hp : gs.Perm gs') :
    MemS top b (start defs top pf (altOfList gs) a) ↔ MemS top b (start defs top pf (altOfList gs') a) := by
  rw [C04_disj_perm_mem, C04_disj_perm_mem]
  exact ⟨fun ⟨g, hg, h⟩ => ⟨g, hp.mem_iff.1 hg, h⟩, fun ⟨g, hg, h⟩ => ⟨g, hp.mem_iff.2 hg, h⟩⟩

/-- Conjuncts (==/!= atoms): any permutation of the atoms, under any two hash-iteration orders, gives
    failure in both runs or two states describing exactly the same valuations (same ground instances). -/
theorem C04_tree (o1 o2 : Order) (h1 : OrderOK o1) (h2 : OrderOK o2) (n : Nat)
    (as bs : List TAtom) (hp : as.Perm bs) :
    (∀ s1 s2, postAll o1 (State.empty n) as = .ok s1 → postAll o2 (State.empty n) bs = .ok s2 →
        ∀ γ : Subst, StateSem γ s1 ↔ StateSem γ s2) ∧
    (∀ s1, postAll o1 (State.empty n) as = .ok s1 → postAll o2 (State.empty n) bs = .fail →
        ∀ γ : Subst, ¬ StateSem γ s1) ∧
    (postAll o1 (State.empty n) as = .fail → ∀ s2, postAll o2 (State.empty n) bs = .ok s2 →
        ∀ γ : Subst, ¬ StateSem γ s2) := C02_order_free o1 o2 h1 h2 n as bs hp

/-! ### conjunctions with finite-domain and CLP(Z) conjuncts (both modes of Spec/FDSem.lean: `distinctfd`
    conjuncts are covered in the lax mode) -/
section FDConj
variable [Mode]

/-- COMMUTATIVITY OF CONJUNCTION for constraint atoms (FD, CLP(Z), `==`, `!=`): every permutation of the
    conjuncts, under any hash-iteration orders, reaches a state describing the SAME valuations; and if one
    order fails, the other describes no valuation (so neither has an answer). -/
theorem C04_fd_conj_comm {ord ord' : Order} (ho : OrderOK ord) (ho' : OrderOK ord') (n : Nat)
    (as as' : List FAtom) (hp : as.Perm as') (hok : ∀ a ∈ as, a.OK) :
    (∀ st1 st2, postAllF ord (State.empty n) as = .ok st1 → postAllF ord' (State.empty n) as' = .ok st2 →
      ∀ γ, Sem NoI γ st1 ↔ Sem NoI γ st2) ∧
    (∀ st1, postAllF ord (State.empty n) as = .ok st1 → postAllF ord' (State.empty n) as' = .fail →
      ∀ γ, ¬ Sem NoI γ st1) := fd_order_free ho ho' n as as' hp hok


/-- the solutions of a constraint program: the valuations that satisfy every atom of one of its paths -/
def FSols (p : FProg) (γ : Subst) : Prop := ∃ path ∈ p.paths, ∀ a ∈ path, a.Sat γ

/-- the engine computes them: every unpoisoned delivered state describes only solutions of the program -/
theorem C04_engine_sound {ord : Order} (ho : OrderOK ord) (dfs : Call → State → State × G) (pf M nv : Nat)
    (p : FProg) (hok : p.OK) :
    ∃ k ys, drainF (solveAt dfs pf (M + 1)) k (solveAt dfs pf (M + 1) (p.goal ord) (State.empty nv)) = some ys ∧
      ∀ s ∈ ys, s.panic = none → ∀ γ, Sem NoI γ s → FSols p γ := by
  obtain ⟨k, ys, h1, _, h3, _⟩ := fd_program ho dfs pf M nv p hok
  refine ⟨k, ys, h1, fun s hs hp γ hγ => ?_⟩
  obtain ⟨path, hpth, hsem⟩ := h3 s hs hp
  exact ⟨path, hpth, (hsem γ).1 hγ⟩

/-- REORDERING, nested: swapping the two sides of a conjunction, or of a disjunction, ANYWHERE in a constraint
    program (under further conjunctions, condes and fresh) leaves its solutions unchanged — and the engine's
    delivered states describe exactly those (`C04_engine_sound`, `C17_program_complete`). -/
theorem C04_program_comm (p q : FProg) (γ : Subst) :
    (FSols (.conj p q) γ ↔ FSols (.conj q p) γ) ∧ (FSols (.alt p q) γ ↔ FSols (.alt q p) γ) := by
  constructor
  · unfold FSols
    simp only [FProg.paths, List.mem_flatMap, List.mem_map]
    constructor
    · rintro ⟨_, ⟨x, hx, y, hy, rfl⟩, h⟩
      exact ⟨y ++ x, ⟨y, hy, x, hx, rfl⟩, fun a ha => h a (by
        rcases List.mem_append.1 ha with m | m
        · exact List.mem_append.2 (.inr m)
        · exact List.mem_append.2 (.inl m))⟩
    · rintro ⟨_, ⟨y, hy, x, hx, rfl⟩, h⟩
      exact ⟨x ++ y, ⟨x, hx, y, hy, rfl⟩, fun a ha => h a (by
        rcases List.mem_append.1 ha with m | m
        · exact List.mem_append.2 (.inr m)
        · exact List.mem_append.2 (.inl m))⟩
  · unfold FSols
    simp only [FProg.paths, List.mem_append]
    constructor
    · rintro ⟨path, h | h, hs⟩
      · exact ⟨path, .inr h, hs⟩
      · exact ⟨path, .inl h, hs⟩
    · rintro ⟨path, h | h, hs⟩
      · exact ⟨path, .inr h, hs⟩
      · exact ⟨path, .inl h, hs⟩

/-- … and the solutions of a compound program are built from those of its parts, so a swap deep inside a
    program does not change the whole either -/
theorem C04_program_congr (p p' q q' : FProg) (hp : ∀ γ, FSols p γ ↔ FSols p' γ) (hq : ∀ γ, FSols q γ ↔ FSols q' γ)
    (γ : Subst) :
    (FSols (.conj p q) γ ↔ FSols (.conj p' q') γ) ∧ (FSols (.alt p q) γ ↔ FSols (.alt p' q') γ) ∧
    (FSols (.fresh p) γ ↔ FSols (.fresh p') γ) := by
  have conj_iff : ∀ a b : FProg, FSols (.conj a b) γ ↔ (FSols a γ ∧ FSols b γ) := by
    intro a b
    unfold FSols
    simp only [FProg.paths, List.mem_flatMap, List.mem_map]
    constructor
    · rintro ⟨_, ⟨x, hx, y, hy, rfl⟩, h⟩
      exact ⟨⟨x, hx, fun c hc => h c (List.mem_append.2 (.inl hc))⟩, ⟨y, hy, fun c hc => h c (List.mem_append.2 (.inr hc))⟩⟩
    · rintro ⟨⟨x, hx, h1⟩, ⟨y, hy, h2⟩⟩
      exact ⟨x ++ y, ⟨x, hx, y, hy, rfl⟩, fun c hc => (List.mem_append.1 hc).elim (h1 c) (h2 c)⟩
  have alt_iff : ∀ a b : FProg, FSols (.alt a b) γ ↔ (FSols a γ ∨ FSols b γ) := by
    intro a b
    unfold FSols
    simp only [FProg.paths, List.mem_append]
    constructor
    · rintro ⟨path, h | h, hs⟩
      · exact .inl ⟨path, h, hs⟩
      · exact .inr ⟨path, h, hs⟩
    · rintro (⟨path, h, hs⟩ | ⟨path, h, hs⟩)
      · exact ⟨path, .inl h, hs⟩
      · exact ⟨path, .inr h, hs⟩
  refine ⟨?_, ?_, ?_⟩
  · rw [conj_iff, conj_iff, hp γ, hq γ]
  · rw [alt_iff, alt_iff, hp γ, hq γ]
  · exact hp γ

end FDConj

section Examples
private def defs0 : Unit → Nat → Nat × Goal Nat Unit := fun _ a => (a, .fail)
example : runF (solveAt defs0 5 3) 40 (solveAt defs0 5 3 (altOfList [.atom fun a => some (a + 1), .fresh (.atom fun a => some (a + 2))]) 0) = [1, 2] := by decide
example : runF (solveAt defs0 5 3) 40 (solveAt defs0 5 3 (altOfList [.fresh (.atom fun a => some (a + 2)), .atom fun a => some (a + 1)]) 0) = [1, 2] := by decide
end Examples

end Pv
