/-
  C04 — FOR THE WHOLE QUERY, ON THE ENGINE, AS REPORTED: reordering the conjuncts and the clauses of a query's body (any
  composition of swaps at any depth: `Reorder`) does not change what the query's answers MEAN.  For bodies of `==` / `!=` atoms
  under conjunction, `conde` and `fresh`, run from the empty state: the engine terminates on both query goals, and a tuple is an
  instance of a reported answer of the one iff it is an instance of a reported answer of the other.
  (`C02_query_exact` for both bodies + `reorder_paths`: the paths of the reordered body are the original paths, permuted as a
  list and each permuted as an atom list.  The MULTISET of states is `C04_tree_reorder_multiset`; the count per path is
  `C02_query_count`.)
-/
import PvModel.Props.C02Query
namespace Pv
open Strm Goal State Term

attribute [local instance] Mode.strict

theorem zip2_mem_left {α β : Type} {R : α → β → Prop} : ∀ {xs : List α} {ys : List β}, Zip2 R xs ys → ∀ x ∈ xs, ∃ y ∈ ys, R x y
  | _, _, .nil, _, h => nomatch h
  | _, _, .cons r t, x, h => by
    rcases List.mem_cons.1 h with rfl | h
    · exact ⟨_, List.mem_cons_self, r⟩
    · obtain ⟨y, hy, hr⟩ := zip2_mem_left t x h
      exact ⟨y, List.mem_cons_of_mem _ hy, hr⟩

theorem zip2_mem_right {α β : Type} {R : α → β → Prop} : ∀ {xs : List α} {ys : List β}, Zip2 R xs ys → ∀ y ∈ ys, ∃ x ∈ xs, R x y
  | _, _, .nil, _, h => nomatch h
  | _, _, .cons r t, y, h => by
    rcases List.mem_cons.1 h with rfl | h
    · exact ⟨_, List.mem_cons_self, r⟩
    · obtain ⟨x, hx, hr⟩ := zip2_mem_right t y h
      exact ⟨x, List.mem_cons_of_mem _ hx, hr⟩

/-- a property of paths that does not depend on the order of a path's atoms holds of some path of `p` iff of some path of a
    reordering of `p` -/
theorem reorder_exists_path {p p' : FProg} (h : Reorder p p') (P : List FAtom → Prop)
    (hP : ∀ x y : List FAtom, x.Perm y → (P x ↔ P y)) :
    (∃ path ∈ p.paths, P path) ↔ (∃ path ∈ p'.paths, P path) := by
  obtain ⟨L, pl, z⟩ := reorder_paths h
  constructor
  · rintro ⟨x, hx, px⟩
    obtain ⟨y, hy, r⟩ := zip2_mem_left z x hx
    exact ⟨y, pl.mem_iff.1 hy, (hP x y r).1 px⟩
  · rintro ⟨y, hy, py⟩
    obtain ⟨x, hx, r⟩ := zip2_mem_right z y (pl.mem_iff.2 hy)
    exact ⟨x, hx, (hP x y r).2 py⟩

theorem C04_query_reorder_meaning (ord : Order) (ho : OrderOK ord) (dfs : Call → State → State × G) (pf M n : Nat)
    (p p' : FProg) (hr : Reorder p p') (hp : p.TreeOnly) (qv : Term) (qs : List Term) (s1 : State)
    (h1 : postAtom ord (State.empty n) (.eq qv (Term.ofList qs)) = .ok s1)
    (hnf : ∀ path, path ∈ p.paths ∨ path ∈ p'.paths → postAllF ord s1 path ≠ .fuel)
    (hsz : ∀ path, path ∈ p.paths ∨ path ∈ p'.paths → ∀ s, postAllF ord s1 path = .ok s → (apply s.σ qv).size ≤ forceFuel)
    (hb : ∀ path, path ∈ p.paths ∨ path ∈ p'.paths → ∀ a ∈ path, (tOf a).Below n) (hqv : Below n qv) (hq : ∀ q ∈ qs, Below n q) :
    ∃ k k' zs zs',
      drainF (solveAt dfs (pf + 2) (M + 2)) k (solveAt dfs (pf + 2) (M + 2) (queryG ord qv qs [p.goal ord]) (State.empty n)) = some zs ∧
      drainF (solveAt dfs (pf + 2) (M + 2)) k' (solveAt dfs (pf + 2) (M + 2) (queryG ord qv qs [p'.goal ord]) (State.empty n)) = some zs' ∧
      ∀ ts : List Term,
        (∃ z ∈ zs, ∃ δ : Subst, (∀ c ∈ (mkAnswer ord qs z).constraints, DiseqHolds δ c) ∧
          ts = (mkAnswer ord qs z).terms.map (apply δ)) ↔
        (∃ z ∈ zs', ∃ δ : Subst, (∀ c ∈ (mkAnswer ord qs z).constraints, DiseqHolds δ c) ∧
          ts = (mkAnswer ord qs z).terms.map (apply δ)) := by
  obtain ⟨k, zs, hk, e⟩ := C02_query_exact ord ho dfs pf M n p hp qv qs s1 h1
    (fun path h => hnf path (.inl h)) (fun path h => hsz path (.inl h)) (fun path h => hb path (.inl h)) hqv hq
  obtain ⟨k', zs', hk', e'⟩ := C02_query_exact ord ho dfs pf M n p' (hr.treeOnly hp) qv qs s1 h1
    (fun path h => hnf path (.inr h)) (fun path h => hsz path (.inr h)) (fun path h => hb path (.inr h)) hqv hq
  refine ⟨k, k', zs, zs', hk, hk', fun ts => ?_⟩
  rw [e ts, e' ts]
  refine reorder_exists_path hr (fun path => ∃ γ : Subst, apply γ qv = apply γ (Term.ofList qs) ∧ (∀ a ∈ path, (tOf a).Sat γ) ∧
    ts = qs.map (apply γ)) (fun x y pxy => ?_)
  refine exists_congr fun γ => and_congr_right fun _ => and_congr_left fun _ => ?_
  exact ⟨fun h a ha => h a (pxy.mem_iff.2 ha), fun h a ha => h a (pxy.mem_iff.1 ha)⟩

end Pv
