/-
  C04 at the level of the ANSWER MULTISET (not only the set of described solutions), for `==`/`!=` programs.
-/
import PvModel.Proofs.PathCount
import PvModel.Props.C06
namespace Pv
open Strm Goal State Term

section
attribute [local instance] Mode.strict

/-- REORDERING A CONJUNCTION PRESERVES THE ANSWER MULTISET: for `==`/`!=` programs `p`, `q` (conjunction, conde, fresh
    inside them), run by the interleaving engine from the empty state — both `p, q` and `q, p` terminate, with answer
    lists `zs` and `ws` OF THE SAME LENGTH, and `ws` can be reordered so that corresponding answers describe exactly
    the same valuations (when no path runs out of the model's unification fuel).  With `C04_program_comm` (the SET of
    solutions) this is the property's statement: "permuting the goals of a conjunction leaves the multiset of
    answers unchanged; answers compared as sets of ground instances". -/
theorem C04_tree_answer_multiset (ord : Order) (ho : OrderOK ord) (dfs : Call → State → State × G) (pf M nv : Nat)
    (p q : FProg) (hp : p.TreeOnly) (hq : q.TreeOnly)
    (hnf : ∀ x ∈ p.paths, ∀ y ∈ q.paths, postAllF ord (State.empty nv) (x ++ y) ≠ .fuel ∧ postAllF ord (State.empty nv) (y ++ x) ≠ .fuel) :
    ∃ k k' zs ws ws',
      drainF (solveAt dfs pf (M + 1)) k (solveAt dfs pf (M + 1) ((FProg.conj p q).goal ord) (State.empty nv)) = some zs ∧
      drainF (solveAt dfs pf (M + 1)) k' (solveAt dfs pf (M + 1) ((FProg.conj q p).goal ord) (State.empty nv)) = some ws ∧
      ws'.Perm ws ∧ Zip2 (fun a b => ∀ γ, StateSem γ a ↔ StateSem γ b) zs ws' := by
  obtain ⟨xs, hx⟩ := evalRef_total ord dfs (.conj p q) 0 (State.empty nv)
  obtain ⟨ys, hy⟩ := evalRef_total ord dfs (.conj q p) 0 (State.empty nv)
  obtain ⟨ys', py, z⟩ := tree_conj_bijection ho dfs p q hp hq nv _ _ xs ys hx hy hnf
  obtain ⟨k, zs, hk, pz⟩ := C06_ref dfs pf M _ _ _ xs hx
  obtain ⟨k', ws, hk', pw⟩ := C06_ref dfs pf M _ _ _ ys hy
  obtain ⟨ws', pws, zz⟩ := zip2_perm_left pz z
  exact ⟨k, k', zs, ws, ws', hk, hk', (pws.trans py).trans pw, zz⟩

end

section
attribute [local instance] Mode.strict

/-- … and ANY REORDERING, at any depth, any number of swaps of conjunction sides and of conde clauses (`Reorder`): the
    engine's answer lists of the program and of the reordered program have the same length and can be matched so that
    corresponding answers describe exactly the same valuations -/
theorem C04_tree_reorder_multiset (ord : Order) (ho : OrderOK ord) (dfs : Call → State → State × G) (pf M nv : Nat)
    (p p' : FProg) (hr : Reorder p p') (hp : p.TreeOnly)
    (hnf : ∀ path, path ∈ p.paths ∨ path ∈ p'.paths → postAllF ord (State.empty nv) path ≠ .fuel) :
    ∃ k k' zs ws ws',
      drainF (solveAt dfs pf (M + 1)) k (solveAt dfs pf (M + 1) (p.goal ord) (State.empty nv)) = some zs ∧
      drainF (solveAt dfs pf (M + 1)) k' (solveAt dfs pf (M + 1) (p'.goal ord) (State.empty nv)) = some ws ∧
      ws'.Perm ws ∧ Zip2 (fun a b => ∀ γ, StateSem γ a ↔ StateSem γ b) zs ws' := by
  obtain ⟨xs, hx⟩ := evalRef_total ord dfs p 0 (State.empty nv)
  obtain ⟨ys, hy⟩ := evalRef_total ord dfs p' 0 (State.empty nv)
  obtain ⟨ys', py, z⟩ := tree_reorder_bijection ho dfs hr hp nv _ _ xs ys hx hy hnf
  obtain ⟨k, zs, hk, pz⟩ := C06_ref dfs pf M _ _ _ xs hx
  obtain ⟨k', ws, hk', pw⟩ := C06_ref dfs pf M _ _ _ ys hy
  obtain ⟨ws', pws, zz⟩ := zip2_perm_left pz z
  exact ⟨k, k', zs, ws, ws', hk, hk', (pws.trans py).trans pw, zz⟩

end

/-- for EVERY constraint program (FD / CLP(Z) / == / != atoms, conjunction, conde, fresh): the reference answer list — of
    which the interleaving engine's answers are a permutation and which the depth-first engine delivers in order — is
    exactly one state per path that does not fail, in the order of the paths -/
theorem C04_answers_are_paths (ord : Order) (dfs : Call → State → State × G) (p : FProg) (n : Nat) (st : State) (xs : List State)
    (h : evalRef dfs n (p.goal ord) st = some xs) : xs = p.paths.filterMap (postL ord st) :=
  evalRef_paths_exact dfs p n st xs h

theorem Zip2.length_eq {α β : Type} {R : α → β → Prop} : ∀ {xs : List α} {ys : List β}, Zip2 R xs ys → xs.length = ys.length
  | _, _, .nil => rfl
  | _, _, .cons _ t => by simp [Zip2.length_eq t]

section Examples
/-- non-vacuity: `[x == 1, conde { y == 2 ; y == 3 }]` reordered to `[conde { y == 3 ; y == 2 }, x == 1]` — a `Reorder`, both
    tree-only, four paths in all, none running out of fuel -/
private def pA : FProg := .conj (.atom (.eq (.var 0) (Term.num 1))) (.alt (.atom (.eq (.var 1) (Term.num 2))) (.atom (.eq (.var 1) (Term.num 3))))
private def pB : FProg := .conj (.alt (.atom (.eq (.var 1) (Term.num 3))) (.atom (.eq (.var 1) (Term.num 2)))) (.atom (.eq (.var 0) (Term.num 1)))
example : Reorder pA pB := .trans (.conj (.refl _) (.altSwap _ _)) (.conjSwap _ _)
example : pA.TreeOnly := ⟨trivial, trivial, trivial⟩
example : (pA.paths ++ pB.paths).map (fun path => match postAllF Order.default (State.empty 2) path with
    | .ok _ => "ok" | .fail => "fail" | .fuel => "fuel" | .panic _ => "panic") = ["ok", "ok", "ok", "ok"] := by decide
end Examples

end Pv
