/-
  C17 — CLP(FD) labelling returns every solution exactly once.

  Model: `forceAns` (`force_ans`: a variable with a domain becomes the `mplus/delay` chain of `x == k` over
  the domain's values; lists and compound fields are labelled element-wise), `enforceFd`, `map_sum`
  (`Goal.altOfList`) — Model/Goals.lean; the narrowing intervals of the propagators — Model/State.lean.

  Proved here, for ALL domains / bounds / sign combinations: labelling offers exactly the members of the
  domain, each once, in increasing order (`C17_label_values`); the `map_sum` chain delivers exactly the
  answers of its branches, nothing lost or duplicated (`C17_map_sum`); no propagator's narrowing removes a
  value that takes part in a solution within the current bounds (`C17_plus_bounds`, `C17_minus_bounds`,
  `C17_times_signs` — four-corner products for all signs, quotient bounds only for non-negative
  operands —, `C17_lte_bounds`).  The GLOBAL completeness argument through the re-entrant propagation loop
  is an OPEN obligation (named in the evidence) and is carried by the correspondence + brute-force oracle.
-/
import PvModel.Proofs.FDLocal
import PvModel.Proofs.FD
import PvModel.Proofs.Stream
import PvModel.Model.Goals
import PvModel.Proofs.FDExact
import PvModel.Proofs.FDProgram
namespace Pv
open Term State Strm Goal

/-- Labelling a variable offers exactly the members of its domain, each exactly once, smallest first. -/
theorem C17_label_values (d : FD) (h : FD.WF d) :
    (∀ k, k ∈ d.iter ↔ d.Mem k) ∧ d.iter.Pairwise (· < ·) ∧ d.iter.Nodup :=
  ⟨FD.iter_mem d h, FD.iter_pw d h, (FD.iter_pw d h).imp (fun hlt heq => by omega)⟩

/-- The `map_sum` chain (`mplus(f(d₁), delay(mplus(f(d₂), …)))`): its finite answer list is the
    concatenation of the branches' answer lists up to permutation — one branch per value, none twice. -/
theorem C17_map_sum {St K : Type} (defs : K → St → St × Goal St K) (top : Goal St K → St → Strm St K) (pf : Nat)
    (a : St) : ∀ (gx : List (Goal St K × List St)),
      (∀ p ∈ gx, AnsS top (start defs top pf p.1 a) p.2) →
      ∃ zs, AnsS top (start defs top pf (altOfList (gx.map (·.1))) a) zs ∧ (gx.map (·.2)).flatten.Perm zs
  | [], _ => ⟨[], by simp only [List.map, altOfList, start]; exact .empty, by simp⟩
  | (g, xs) :: gx, h => by
    obtain ⟨zs, hz, pz⟩ := C17_map_sum defs top pf a gx (fun p hp => h p (List.mem_cons_of_mem _ hp))
    have h1 : AnsS top (start defs top pf g a) xs := h (g, xs) List.mem_cons_self
    obtain ⟨ws, hw, pw⟩ := mplus_ans h1 (AnsL.delay hz)
    refine ⟨ws, by simp only [List.map, altOfList, start]; exact hw, ?_⟩
    simp only [List.map, List.flatten_cons]
    exact (List.Perm.append_left _ pz).trans pw

/-- No solution is cut off by `plusfd`'s narrowing … -/
theorem C17_plus_bounds (u v w umin umax vmin vmax wmin wmax : Int)
    (hu : umin ≤ u ∧ u ≤ umax) (hv : vmin ≤ v ∧ v ≤ vmax) (hw : wmin ≤ w ∧ w ≤ wmax) (h : u + v = w) :
    (umin + vmin ≤ w ∧ w ≤ umax + vmax) ∧ (wmin - vmax ≤ u ∧ u ≤ wmax - vmin) ∧
    (wmin - umax ≤ v ∧ v ≤ wmax - umin) := plus_bounds u v w umin umax vmin vmax wmin wmax hu hv hw h

/-- … by `minusfd`'s … -/
theorem C17_minus_bounds (u v w umin umax vmin vmax wmin wmax : Int)
    (hu : umin ≤ u ∧ u ≤ umax) (hv : vmin ≤ v ∧ v ≤ vmax) (hw : wmin ≤ w ∧ w ≤ wmax) (h : u - v = w) :
    (umin - vmax ≤ w ∧ w ≤ umax - vmin) ∧ (wmin + vmin ≤ u ∧ u ≤ wmax + vmax) ∧
    (umin - wmax ≤ v ∧ v ≤ umax - wmin) := minus_bounds u v w umin umax vmin vmax wmin wmax hu hv hw h

/-- … by `timesfd`'s, for every combination of signs (the repaired bounds; D14) … -/
theorem C17_times_signs (u v w umin umax vmin vmax wmin wmax : Int)
    (hu : umin ≤ u ∧ u ≤ umax) (hv : vmin ≤ v ∧ v ≤ vmax) (hw : wmin ≤ w ∧ w ≤ wmax) (h : u * v = w) :
    (timesBounds umin umax vmin vmax wmin wmax).1.Mem w ∧
    (timesBounds umin umax vmin vmax wmin wmax).2.1.Mem u ∧
    (timesBounds umin umax vmin vmax wmin wmax).2.2.Mem v :=
  timesBounds_sound u v w umin umax vmin vmax wmin wmax hu hv hw h

/-- … or by `ltefd`'s (`copy_before(> vmax)` on `u`, `drop_before(>= umin)` on `v`). -/
theorem C17_lte_bounds (u v umin vmax : Int) (hu : umin ≤ u) (hv : v ≤ vmax) (h : u ≤ v) :
    ¬ (vmax < u) ∧ umin ≤ v := lte_bounds u v umin vmax hu hv h

/-- The thresholds `ltefd` uses are monotone, so `copy_before`/`drop_before` keep exactly the values on the
    right side of the threshold (C18): nothing else is removed. -/
theorem C17_lte_narrow (d c : FD) (h : FD.WF d) (t : Int) :
    (d.copyBefore (fun a => decide (t < a)) = some c → ∀ x, c.Mem x ↔ (d.Mem x ∧ ¬ t < x)) ∧
    (d.dropBefore (fun b => decide (t ≤ b)) = some c → ∀ x, c.Mem x ↔ (d.Mem x ∧ t ≤ x)) := by
  constructor
  · intro hc x
    have := FD.copyBefore_mono d c h (fun a => decide (t < a))
      (fun x y hx hxy => by simp only [decide_eq_true_eq] at *; omega) hc
    simpa using this x
  · intro hc x
    have := FD.dropBefore_mono d c h (fun b => decide (t ≤ b))
      (fun x y hx hxy => by simp only [decide_eq_true_eq] at *; omega) hc
    simpa using this x

/-! ### the global theorems: propagation loses no solution.  Stated for both modes of Spec/FDSem.lean: with
    `[Mode]` strict, `FAtom.OK` excludes `distinctfd`; lax, `distinctfd` on a proper list term is allowed
    (`C17_distinctfd_*`). -/
section Global
variable [Mode]

/-- COMPLETENESS OF PROPAGATION, every posting order, sign, aliasing and hash-iteration order: every
    valuation that satisfies all posted atoms is still described by the state reached — bounds narrowing,
    singleton domains turned into bindings, the nested re-runs and the finite-domain extension of `==`
    never discard a solution.  (Labelling then enumerates each remaining domain: `C17_label_values`.) -/
theorem C17_no_solution_lost {ord : Order} (ho : OrderOK ord) (n : Nat) (as : List FAtom) (hok : ∀ a ∈ as, a.OK)
    (st' : State) (h : postAllF ord (State.empty n) as = .ok st') (γ : Subst) (hγ : ∀ a ∈ as, a.Sat γ) :
    Sem NoI γ st' := (fd_exact_ok ho n as hok st' h γ).2 hγ

/-- a conjunction that FAILS during propagation has no solution at all: no answer is lost to a failure -/
theorem C17_fail_means_unsat {ord : Order} (ho : OrderOK ord) (n : Nat) (as : List FAtom) (hok : ∀ a ∈ as, a.OK)
    (h : postAllF ord (State.empty n) as = .fail) : ¬ ∃ γ, ∀ a ∈ as, a.Sat γ := fd_exact_fail ho n as hok h

/-- `==` between finite-domain variables (the step labelling performs for every value): unification, the
    re-run of the store and `process_extension_fd` together describe exactly the valuations that satisfy
    the equation -/
theorem C17_unify_exact {ord : Order} (ho : OrderOK ord) (st : State) (w : WFS st) (hi : Inv st) (u v : Term) :
    Ref0 NoI (fun γ => apply γ u = apply γ v) st (unify ord st u v) :=
  unify_sem ho (iok_noI st) w hi u v


/-- PROGRAMS ON THE ENGINE (completeness): for every constraint program (conjunction, `conde`, `fresh` over
    atoms of the fragment) the search terminates and every solution of every path of the program is
    described by one of the delivered states — no solution is lost by propagation or by the search
    (a path whose own run exhausts the model's unification fuel is reported as FUEL by the driver). -/
theorem C17_program_complete {ord : Order} (ho : OrderOK ord) (dfs : Call → State → State × G) (pf M nv : Nat)
    (p : FProg) (hok : p.OK) :
    ∃ k ys, drainF (solveAt dfs pf (M + 1)) k (solveAt dfs pf (M + 1) (p.goal ord) (State.empty nv)) = some ys ∧
      ∀ path ∈ p.paths, ∀ γ, (∀ a ∈ path, a.Sat γ) → postAllF ord (State.empty nv) path ≠ .fuel →
        ∃ s ∈ ys, Sem NoI γ s := by
  obtain ⟨k, ys, h1, _, _, h4⟩ := fd_program ho dfs pf M nv p hok
  exact ⟨k, ys, h1, h4⟩


/-- LABELLING PARTITIONS THE SOLUTIONS: for a variable with a stored domain, every valuation the state
    describes gives the variable exactly one of the values `force_ans` enumerates — so every solution lies in
    exactly one of the branches `x == k`, and (`C17_unify_exact`) that branch's state describes exactly the
    solutions with `x = k`: labelling one variable neither loses nor duplicates a solution. -/
theorem C17_label_partition (st : State) (w : WFS st) (x : Nat) (d : FD) (h : st.dget x = some d)
    (γ : Subst) (hs : Sem NoI γ st) :
    ∃ k, (k ∈ d.iter ∧ NumAt γ (.var x) k) ∧ ∀ k', (k' ∈ d.iter ∧ NumAt γ (.var x) k') → k' = k := by
  obtain ⟨n, hn, hnd⟩ := hs.2.2 (x, d) (dget_mem h) (fun f => f.elim)
  refine ⟨n, ⟨(FD.iter_mem d (w.dwf _ (dget_mem h)) n).2 hnd, hn⟩, fun k' hk => numAt_unique hk.2 hn⟩

end Global

/-- COMPLETENESS WITH `distinctfd`: every valuation that satisfies all posted atoms — `distinctfd` on proper
    list terms included — is still described by the state reached: the duplicate scan, the binary insertion
    into the collected constants and the exclusion of those constants from the remaining domains (which
    reads the domain store once, before its loop) never discard a solution. -/
theorem C17_distinctfd_no_solution_lost {ord : Order} (ho : OrderOK ord) (n : Nat) (as : List FAtom)
    (hok : ∀ a ∈ as, @FAtom.OK Mode.lax a)
    (st' : State) (h : postAllF ord (State.empty n) as = .ok st') (γ : Subst) (hγ : ∀ a ∈ as, a.Sat γ) :
    Sem NoI γ st' := @C17_no_solution_lost Mode.lax ord ho n as hok st' h γ hγ

/-- a failure — or a PANIC at one of `distinctfd`'s panic sites — happens only when there is no solution -/
theorem C17_distinctfd_fail_means_unsat {ord : Order} (ho : OrderOK ord) (n : Nat) (as : List FAtom)
    (hok : ∀ a ∈ as, @FAtom.OK Mode.lax a) :
    (postAllF ord (State.empty n) as = .fail → ¬ ∃ γ, ∀ a ∈ as, a.Sat γ) ∧
    (∀ s, postAllF ord (State.empty n) as = .panic s → ¬ ∃ γ, ∀ a ∈ as, a.Sat γ) :=
  ⟨@C17_fail_means_unsat Mode.lax ord ho n as hok, fun s h => (@fd_panic_refuted Mode.lax ord ho n as hok s h).2.2⟩

section Examples
attribute [local instance] Mode.lax
/-- D14 witness: with `u, v ∈ -2..=2` and `w = -2` the repaired bounds keep all four solutions -/
example : (timesBounds (-2) 2 (-2) 2 (-2) (-2)) = (.interval (-4) 4, .interval (-2) 2, .interval (-2) 2) := by decide
example : (FD.interval (-1) 2).iter = [-1, 0, 1, 2] := by decide
/-- non-vacuity: `==` between two finite-domain variables (interval 1..5, sparse {2,4,7}) moves the domain
    through `process_extension_fd`; with `!= 2` the only solution 4 is found by propagation alone -/
private def progU : List FAtom :=
  [.dom (.var 0) (.interval 1 5), .dom (.var 1) (.sparse [2, 4, 7]), .eq (.var 0) (.var 1),
   .cst (.diseqfd (.var 1) (Term.num 2))]
example : ∀ a ∈ progU, a.OK := by
  intro a ha
  simp only [progU, List.mem_cons, List.not_mem_nil, or_false] at ha
  rcases ha with rfl | rfl | rfl | rfl <;> simp [FAtom.OK, FD.WF, FD.StrictSorted, CstOK]
example : (match postAllF Order.default (State.empty 2) progU with
    | .ok st => st.store.isEmpty && st.dstore.isEmpty && (st.σ 0 == Term.num 4) && (st.σ 1 == Term.num 4)
    | _ => false) = true := by decide
end Examples

end Pv
