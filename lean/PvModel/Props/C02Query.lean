/-
  C02 / C03 — THE WHOLE QUERY ON THE ENGINE.  `proto_vulcan_query!(|q0, …| { body })` runs the goal
  `fresh(__query__) [__query__ == [q0, …], body, reify(__query__)]` (`queryG`, Model/Goals.lean) and reports one answer
  per state that goal delivers.  For a body that is a program of `==` / `!=` atoms under conjunction, `conde` and
  `fresh` (`FProg`), the delivered states are — as a multiset — exactly the REIFIED states (`reifyState`, the state
  `C02_reported_answer` speaks about) of the non-failing paths of the body, posted from the state the query equation
  leaves: one answer per path, none lost, none duplicated, none invented.

  This closes the composition `C02_program_exact` (states of the body) → `C02_reify_goal` (reify as a goal) →
  `C02_reported_answer` (what is reported) that was "definitional glue" before: `C02_query_program` is one statement about
  `queryG`, including the constructor short-cuts of `Conj::new` and the `fresh` wrapper.
-/
import PvModel.Proofs.QueryGoal
import PvModel.Proofs.PathCount
import PvModel.Props.C06
import PvModel.Props.C02Answer
import PvModel.Proofs.QueryBind
import PvModel.Proofs.ForceTot
namespace Pv
open Strm Goal State Term

attribute [local instance] Mode.strict

/-- the body's path states from `s1` -/
def pathStates (ord : Order) (p : FProg) (s1 : State) : List State := p.paths.filterMap (postL ord s1)

/-- `C02_query_program`: the engine (nesting level ≥ 2, peek fuel ≥ 2) on the whole query goal, from any start state `s0`
    whose query equation succeeds with `s1`: it terminates, and its answers are a permutation of the reified path
    states.  Hypotheses per path state: it is a tree state (no domains, no FD propagators — what `==`/`!=` programs
    reach), it is not FUEL-poisoned, and `force_ans` finishes within the model's fuel on it. -/
theorem C02_query_program (ord : Order) (ho : OrderOK ord) (dfs : Call → State → State × G) (pf M : Nat)
    (p : FProg) (qv : Term) (qs : List Term) (s0 s1 : State)
    (h1 : (liftRes fun st => postAtom ord st (.eq qv (Term.ofList qs))) s0 = some s1)
    (hs : ∀ s ∈ pathStates ord p s1, s.dstore = [] ∧ s.panic = none ∧ (∀ c ∈ s.store, c.2.isFD = false) ∧
      ∃ N zs, evalRef dfs N (forceAns ord forceFuel qv) s = some zs ∧ ∀ t ∈ zs, t.panic = none) :
    ∃ k zs, drainF (solveAt dfs (pf + 2) (M + 2)) k
        (solveAt dfs (pf + 2) (M + 2) (queryG ord qv qs [p.goal ord]) s0) = some zs ∧
      ((pathStates ord p s1).map fun s => reifyState ord s qv).Perm zs := by
  obtain ⟨xs, hx⟩ := evalRef_total ord dfs p 0 s1
  have ex := evalRef_paths_exact dfs p _ s1 xs hx
  obtain ⟨ys, hys, py⟩ := ref_perm dfs (pf + 2) (M + 1) _ _ s1 xs hx (M + 1)
  have hbody : AnsS (solveAt dfs (pf + 2) (M + 2)) (solveAt dfs (pf + 2) (M + 2) (Goal.conjOfList [p.goal ord]) s1) ys := by
    show AnsS _ (solveAt dfs (pf + 2) (M + 2) (mkConj (p.goal ord) .succeed) s1) ys
    have hb := ansB_map dfs (pf + 2) (M + 1) (g := .succeed) id ys (fun s _ => ansS_succeed dfs (pf + 2) (M + 1) s)
    rw [List.map_id] at hb
    exact ansS_mkConj dfs (pf + 2) (M + 1) hys hb
  have hR : ∀ s ∈ ys, AnsS (solveAt dfs (pf + 2) (M + 2)) (solveAt dfs (pf + 2) (M + 2) (reifyG ord qv) s) [reifyState ord s qv] := by
    intro s hsy
    have hsx : s ∈ pathStates ord p s1 := by
      have := py.mem_iff.2 hsy
      rw [ex] at this; exact this
    obtain ⟨hd, hp, hst, hfa⟩ := hs s hsx
    exact @reifyG_tree Mode.strict ord ho dfs pf M s hd hp hst qv hfa
  have hq := query_compose (ord := ord) dfs (pf + 2) (M + 1) qv qs [p.goal ord] s0 s1 ys h1 hbody hR
  obtain ⟨k, zs, hk, pz⟩ := drain_perm _ (topOK_solveAt dfs (pf + 2) (M + 1)) hq
  refine ⟨k, zs, hk, ?_⟩
  have : (pathStates ord p s1) = xs := ex.symm
  rw [this]
  exact (py.map _).trans pz

/-- `C02_query_any_body`: the same composition for ANY body goal whose textbook evaluation from `s1` is finite (`evalRef … = some xs`:
    conjunctions, `conde`, `fresh`, relation calls in terminating modes — member / append / … on bounded lists — `dfs` variants): the
    engine terminates on the whole query goal and delivers, as a multiset, the reified states of the body's answers.  (Committed
    choice is outside `evalRef`.) -/
theorem C02_query_any_body (ord : Order) (ho : OrderOK ord) (dfs : Call → State → State × G) (pf M N : Nat)
    (body : G) (qv : Term) (qs : List Term) (s0 s1 : State) (xs : List State)
    (h1 : (liftRes fun st => postAtom ord st (.eq qv (Term.ofList qs))) s0 = some s1)
    (hx : evalRef dfs N body s1 = some xs)
    (hs : ∀ s ∈ xs, s.dstore = [] ∧ s.panic = none ∧ (∀ c ∈ s.store, c.2.isFD = false) ∧ Solved s.σ ∧
      (apply s.σ qv).size ≤ forceFuel) :
    ∃ k zs, drainF (solveAt dfs (pf + 2) (M + 2)) k
        (solveAt dfs (pf + 2) (M + 2) (queryG ord qv qs [body]) s0) = some zs ∧
      (xs.map fun s => reifyState ord s qv).Perm zs := by
  obtain ⟨ys, hys, py⟩ := ref_perm dfs (pf + 2) (M + 1) _ _ s1 xs hx (M + 1)
  have hbody : AnsS (solveAt dfs (pf + 2) (M + 2)) (solveAt dfs (pf + 2) (M + 2) (Goal.conjOfList [body]) s1) ys := by
    show AnsS _ (solveAt dfs (pf + 2) (M + 2) (mkConj body .succeed) s1) ys
    exact ansS_mkConj dfs (pf + 2) (M + 1) hys (ansB_id dfs (pf + 2) (M + 1))
  have hR : ∀ s ∈ ys, AnsS (solveAt dfs (pf + 2) (M + 2)) (solveAt dfs (pf + 2) (M + 2) (reifyG ord qv) s) [reifyState ord s qv] := by
    intro s hsy
    obtain ⟨hd, hp, hst, hsol, hsz⟩ := hs s (py.mem_iff.2 hsy)
    exact @reifyG_tree Mode.strict ord ho dfs pf M s hd hp hst qv (forceAns_finishes dfs ord s hsol hd hp qv hsz)
  have hq := query_compose (ord := ord) dfs (pf + 2) (M + 1) qv qs [body] s0 s1 ys h1 hbody hR
  obtain ⟨k, zs, hk, pz⟩ := drain_perm _ (topOK_solveAt dfs (pf + 2) (M + 1)) hq
  exact ⟨k, zs, hk, (py.map _).trans pz⟩

/-- a body with no surviving path: the query has no answer; with one: exactly one -/
theorem C02_query_count (ord : Order) (ho : OrderOK ord) (dfs : Call → State → State × G) (pf M : Nat)
    (p : FProg) (qv : Term) (qs : List Term) (s0 s1 : State)
    (h1 : (liftRes fun st => postAtom ord st (.eq qv (Term.ofList qs))) s0 = some s1)
    (hs : ∀ s ∈ pathStates ord p s1, s.dstore = [] ∧ s.panic = none ∧ (∀ c ∈ s.store, c.2.isFD = false) ∧
      ∃ N zs, evalRef dfs N (forceAns ord forceFuel qv) s = some zs ∧ ∀ t ∈ zs, t.panic = none) :
    ∃ k zs, drainF (solveAt dfs (pf + 2) (M + 2)) k
        (solveAt dfs (pf + 2) (M + 2) (queryG ord qv qs [p.goal ord]) s0) = some zs ∧
      zs.length = (p.paths.filter fun path => (postL ord s1 path).isSome).length := by
  obtain ⟨k, zs, hk, pz⟩ := C02_query_program ord ho dfs pf M p qv qs s0 s1 h1 hs
  refine ⟨k, zs, hk, ?_⟩
  rw [← pz.length_eq, List.length_map, pathStates]
  generalize p.paths = L
  induction L with
  | nil => rfl
  | cons x L ih =>
    simp only [List.filterMap_cons, List.filter_cons]
    cases postL ord s1 x with
    | none => simpa using ih
    | some s => simpa using ih

/-! ### tree programs: the per-state hypotheses follow from the program's shape -/

theorem postAll_no_panic (ord : Order) (ho : OrderOK ord) : ∀ (as : List TAtom) (st : State), Good st → ∀ m, postAll ord st as ≠ .panic m
  | [], _, _, _ => fun h => nomatch h
  | a :: as, st, hg, m => by
    simp only [postAll]
    cases hr : postAtom ord st a with
    | ok s2 => exact postAll_no_panic ord ho as s2 (postAtom_ok ord ho st s2 a hg hr).1 m
    | fail => exact fun h => nomatch h
    | fuel => exact fun h => nomatch h
    | panic m' => exact (postAtom_no_panic ord ho st a hg m' hr).elim

/-- `C02_query_tree`: for a body of `==` / `!=` atoms under conjunction, `conde` and `fresh`, run from the empty state with
    `n` variables: no hypothesis about the path states is left but the model's two bounds (no path runs out of unification
    fuel; the walked query term of every path state is no larger than `force_ans`'s depth bound `forceFuel` = 1000, so that
    `force_ans` finishes: `forceAns_finishes`, Proofs/ForceTot.lean).  The engine terminates and delivers — as a multiset — exactly the reified
    states of the paths that do not fail. -/
theorem C02_query_tree (ord : Order) (ho : OrderOK ord) (dfs : Call → State → State × G) (pf M n : Nat)
    (p : FProg) (hp : p.TreeOnly) (qv : Term) (qs : List Term) (s1 : State)
    (h1 : postAtom ord (State.empty n) (.eq qv (Term.ofList qs)) = .ok s1)
    (hnf : ∀ path ∈ p.paths, postAllF ord s1 path ≠ .fuel)
    (hsz : ∀ path ∈ p.paths, ∀ s, postAllF ord s1 path = .ok s → (apply s.σ qv).size ≤ forceFuel) :
    ∃ k zs, drainF (solveAt dfs (pf + 2) (M + 2)) k
        (solveAt dfs (pf + 2) (M + 2) (queryG ord qv qs [p.goal ord]) (State.empty n)) = some zs ∧
      ((pathStates ord p s1).map fun s => reifyState ord s qv).Perm zs := by
  have hF : postF ord (State.empty n) (.eq qv (Term.ofList qs)) = .ok s1 := h1
  obtain ⟨pan1, inv1⟩ := postF_pan ord (inv_empty n) hF
  have hp1 : s1.panic = none := pan1
  have hg1 : Good s1 := (postAtom_ok ord ho _ s1 _ (good_empty n) h1).1
  have hl : (liftRes fun st => postAtom ord st (.eq qv (Term.ofList qs))) (State.empty n) = some s1 := by
    simp only [liftRes, h1]; rfl
  refine C02_query_program ord ho dfs pf M p qv qs (State.empty n) s1 hl fun s hs => ?_
  obtain ⟨path, hpath, hps⟩ := List.mem_filterMap.1 hs
  have htree := treeOnly_paths p hp path hpath
  have e := postAllF_tree (ord := ord) path s1 htree
  obtain ⟨okc, failc⟩ := postL_of_postAllF (ord := ord) path s1 inv1 hp1
  cases hr : postAllF ord s1 path with
  | ok s' =>
    have := okc s' hr
    rw [hps] at this
    simp only [Option.some.injEq] at this
    subst this
    have hg := (postAll_ok ord ho s1 s (path.map tOf) hg1 (by rw [← e]; exact hr)).1
    have hpn : s.panic = none := (postAllF_pan ord path inv1 hr).1.trans hp1
    refine ⟨hg.2.1.2, hpn, fun c hc => ?_,
      forceAns_finishes dfs ord s hg.1 hg.2.1.2 hpn qv (hsz path hpath s hr)⟩
    have := hg.2.1.1 c hc
    cases hc2 : c.2 <;> simp_all [Cst.isDiseq, Cst.isFD]
  | fail => rw [failc hr] at hps; cases hps
  | fuel => exact (hnf path hpath hr).elim
  | panic m => rw [e] at hr; exact (postAll_no_panic ord ho _ s1 hg1 m hr).elim

/-- the path states of a tree program: the states of the paths that run to a state -/
theorem pathStates_tree (ord : Order) (ho : OrderOK ord) (n : Nat) (p : FProg) (hp : p.TreeOnly) (qv : Term) (qs : List Term)
    (s1 : State) (h1 : postAtom ord (State.empty n) (.eq qv (Term.ofList qs)) = .ok s1)
    (hnf : ∀ path ∈ p.paths, postAllF ord s1 path ≠ .fuel) (s : State) :
    s ∈ pathStates ord p s1 ↔ ∃ path ∈ p.paths, postAllF ord s1 path = .ok s := by
  have hF : postF ord (State.empty n) (.eq qv (Term.ofList qs)) = .ok s1 := h1
  obtain ⟨pan1, inv1⟩ := postF_pan ord (inv_empty n) hF
  have hp1 : s1.panic = none := pan1
  have hg1 : Good s1 := (postAtom_ok ord ho _ s1 _ (good_empty n) h1).1
  constructor
  · intro hs
    obtain ⟨path, hpath, hps⟩ := List.mem_filterMap.1 hs
    refine ⟨path, hpath, ?_⟩
    have e := postAllF_tree (ord := ord) path s1 (treeOnly_paths p hp path hpath)
    obtain ⟨okc, failc⟩ := postL_of_postAllF (ord := ord) path s1 inv1 hp1
    cases hr : postAllF ord s1 path with
    | ok s' =>
      have := okc s' hr
      rw [hps] at this
      simp only [Option.some.injEq] at this
      rw [this]
    | fail => rw [failc hr] at hps; cases hps
    | fuel => exact (hnf path hpath hr).elim
    | panic m => rw [e] at hr; exact (postAll_no_panic ord ho _ s1 hg1 m hr).elim
  · rintro ⟨path, hpath, hr⟩
    exact List.mem_filterMap.2 ⟨path, hpath, (postL_of_postAllF (ord := ord) path s1 inv1 hp1).1 s hr⟩

/-- `C02_query_exact` — C02 FOR THE WHOLE QUERY, ON THE ENGINE, AS REPORTED.  A query `|q…| { p }` whose body is a program of
    `==` / `!=` atoms under conjunction, `conde` and `fresh` over variables below `n`: the engine terminates on the query goal,
    and a tuple `ts` is an instance of one of the REPORTED answers (its terms under an assignment of the `_` variables that
    satisfies its reported disequalities) IF AND ONLY IF it is the value of the query terms under a solution of ONE PATH of
    the body.  Sound and complete, whatever the hash-iteration order and the engine's interleaving.
    Hypotheses that remain: the model's two bounds (`hnf`: no path runs out of unification fuel; `hsz`: the walked query term
    of a path state is within `force_ans`'s depth bound) and scoping (every variable is below `n`).  That a path state binds `__query__` to the list of the query
    terms is proved (`postAll_unified`, Proofs/QueryBind.lean: the substitution only grows and a unification unifies). -/
theorem C02_query_exact (ord : Order) (ho : OrderOK ord) (dfs : Call → State → State × G) (pf M n : Nat)
    (p : FProg) (hp : p.TreeOnly) (qv : Term) (qs : List Term) (s1 : State)
    (h1 : postAtom ord (State.empty n) (.eq qv (Term.ofList qs)) = .ok s1)
    (hnf : ∀ path ∈ p.paths, postAllF ord s1 path ≠ .fuel)
    (hsz : ∀ path ∈ p.paths, ∀ s, postAllF ord s1 path = .ok s → (apply s.σ qv).size ≤ forceFuel)
    (hb : ∀ path ∈ p.paths, ∀ a ∈ path, (tOf a).Below n) (hqv : Below n qv) (hq : ∀ q ∈ qs, Below n q) :
    ∃ k zs, drainF (solveAt dfs (pf + 2) (M + 2)) k
        (solveAt dfs (pf + 2) (M + 2) (queryG ord qv qs [p.goal ord]) (State.empty n)) = some zs ∧
      ∀ ts : List Term,
        (∃ z ∈ zs, ∃ δ : Subst, (∀ c ∈ (mkAnswer ord qs z).constraints, DiseqHolds δ c) ∧
          ts = (mkAnswer ord qs z).terms.map (apply δ)) ↔
        (∃ path ∈ p.paths, ∃ γ : Subst, apply γ qv = apply γ (Term.ofList qs) ∧ (∀ a ∈ path, (tOf a).Sat γ) ∧
          ts = qs.map (apply γ)) := by
  obtain ⟨k, zs, hk, pz⟩ := C02_query_tree ord ho dfs pf M n p hp qv qs s1 h1 hnf hsz
  refine ⟨k, zs, hk, fun ts => ?_⟩
  have hg1 : Good s1 := (postAtom_ok ord ho _ s1 _ (good_empty n) h1).1
  -- a path that runs to `s`: the reported answer of `s` is exact for the atoms `__query__ == [q…]` + the path
  have key : ∀ path ∈ p.paths, ∀ s, postAllF ord s1 path = .ok s →
      ((∃ δ : Subst, (∀ c ∈ (mkAnswer ord qs (reifyState ord s qv)).constraints, DiseqHolds δ c) ∧
          ts = (mkAnswer ord qs (reifyState ord s qv)).terms.map (apply δ)) ↔
        (∃ γ : Subst, apply γ qv = apply γ (Term.ofList qs) ∧ (∀ a ∈ path, (tOf a).Sat γ) ∧ ts = qs.map (apply γ))) := by
    intro path hpath s hr
    have e := postAllF_tree (ord := ord) path s1 (treeOnly_paths p hp path hpath)
    have hall : postAll ord (State.empty n) (.eq qv (Term.ofList qs) :: path.map tOf) = .ok s := by
      simp only [postAll, h1, Res.bind]; rw [← e]; exact hr
    have hbel : ∀ a ∈ (TAtom.eq qv (Term.ofList qs) :: path.map tOf), a.Below n := by
      intro a ha
      rcases List.mem_cons.1 ha with rfl | ha
      · exact ⟨hqv, below_ofList hq⟩
      · obtain ⟨b, hb', rfl⟩ := List.mem_map.1 ha
        exact hb path hpath b hb'
    rw [C02_reported_answer ord ho n _ hbel s hall qs hq qv (postAll_unified ho qv _ _ _ s (good_empty n) hall) ts]
    refine exists_congr fun γ => ?_
    constructor
    · rintro ⟨hs, rfl⟩
      refine ⟨hs _ List.mem_cons_self, fun a ha => hs _ (List.mem_cons_of_mem _ (List.mem_map_of_mem ha)), rfl⟩
    · rintro ⟨h0, hs, rfl⟩
      refine ⟨fun a ha => ?_, rfl⟩
      rcases List.mem_cons.1 ha with rfl | ha
      · exact h0
      · obtain ⟨b, hb', rfl⟩ := List.mem_map.1 ha
        exact hs b hb'
  constructor
  · rintro ⟨z, hz, hδ⟩
    obtain ⟨s, hs, rfl⟩ := List.mem_map.1 (pz.mem_iff.2 hz)
    obtain ⟨path, hpath, hr⟩ := (pathStates_tree ord ho n p hp qv qs s1 h1 hnf s).1 hs
    exact ⟨path, hpath, (key path hpath s hr).1 hδ⟩
  · rintro ⟨path, hpath, γ, h0, hsat, rfl⟩
    have e := postAllF_tree (ord := ord) path s1 (treeOnly_paths p hp path hpath)
    cases hr : postAllF ord s1 path with
    | ok s =>
      have hs := (pathStates_tree ord ho n p hp qv qs s1 h1 hnf s).2 ⟨path, hpath, hr⟩
      exact ⟨reifyState ord s qv, pz.mem_iff.1 (List.mem_map_of_mem hs), (key path hpath s hr).2 ⟨γ, h0, hsat, rfl⟩⟩
    | fail =>
      rw [e] at hr
      refine (postAll_fail ord ho s1 _ hg1 hr γ ⟨?_, fun a ha => ?_⟩).elim
      · exact ((postAtom_ok ord ho _ s1 _ (good_empty n) h1).2 γ).2 ⟨stateSem_empty n γ, h0⟩
      · obtain ⟨b, hb', rfl⟩ := List.mem_map.1 ha
        exact hsat b hb'
    | fuel => exact (hnf path hpath hr).elim
    | panic m => rw [e] at hr; exact (postAll_no_panic ord ho _ s1 hg1 m hr).elim

/-! Non-vacuity: the hypotheses of `C02_query_program` as a Boolean check, and a concrete query that meets them. -/

/-- the per-state hypotheses of `C02_query_program`, decided with `force_ans` fuel `N` -/
def querySideOK (ord : Order) (dfs : Call → State → State × G) (qv : Term) (N : Nat) (s : State) : Bool :=
  s.dstore.isEmpty && s.panic.isNone && s.store.all (fun c => !c.2.isFD) &&
  (match evalRef dfs N (forceAns ord forceFuel qv) s with
   | some zs => zs.all (fun t => t.panic.isNone)
   | none => false)

theorem C02_querySideOK_spec (ord : Order) (dfs : Call → State → State × G) (qv : Term) (N : Nat) (s : State)
    (h : querySideOK ord dfs qv N s = true) :
    s.dstore = [] ∧ s.panic = none ∧ (∀ c ∈ s.store, c.2.isFD = false) ∧
      ∃ N zs, evalRef dfs N (forceAns ord forceFuel qv) s = some zs ∧ ∀ t ∈ zs, t.panic = none := by
  simp only [querySideOK, Bool.and_eq_true] at h
  obtain ⟨⟨⟨h1, h2⟩, h3⟩, h4⟩ := h
  refine ⟨List.isEmpty_iff.1 h1, Option.isNone_iff_eq_none.1 h2, fun c hc => ?_, ?_⟩
  · have := List.all_eq_true.1 h3 c hc
    simpa using this
  · split at h4
    · rename_i zs hz
      exact ⟨N, zs, hz, fun t ht => Option.isNone_iff_eq_none.1 (List.all_eq_true.1 h4 t ht)⟩
    · cases h4

/-- every hypothesis of `C02_query_exact` except `TreeOnly`, as ONE Boolean check on a concrete query -/
def queryTreeOK (ord : Order) (n : Nat) (p : FProg) (qv : Term) (qs : List Term) : Bool :=
  match postAtom ord (State.empty n) (.eq qv (Term.ofList qs)) with
  | .ok s1 =>
    qv.vars.all (· < n) && qs.all (fun q => q.vars.all (· < n)) &&
    p.paths.all fun path =>
      path.all (fun a => match tOf a with
        | .eq u v => u.vars.all (· < n) && v.vars.all (· < n)
        | .neq u v => u.vars.all (· < n) && v.vars.all (· < n)) &&
      (match postAllF ord s1 path with
       | .ok s => decide ((apply s.σ qv).size ≤ forceFuel)
       | .fail => true
       | _ => false)
  | _ => false

/-- `C02_query_exact`, with its hypotheses discharged by the Boolean check -/
theorem C02_query_exact_checked (ord : Order) (ho : OrderOK ord) (dfs : Call → State → State × G) (pf M n : Nat)
    (p : FProg) (hp : p.TreeOnly) (qv : Term) (qs : List Term) (hc : queryTreeOK ord n p qv qs = true) :
    ∃ k zs, drainF (solveAt dfs (pf + 2) (M + 2)) k
        (solveAt dfs (pf + 2) (M + 2) (queryG ord qv qs [p.goal ord]) (State.empty n)) = some zs ∧
      ∀ ts : List Term,
        (∃ z ∈ zs, ∃ δ : Subst, (∀ c ∈ (mkAnswer ord qs z).constraints, DiseqHolds δ c) ∧
          ts = (mkAnswer ord qs z).terms.map (apply δ)) ↔
        (∃ path ∈ p.paths, ∃ γ : Subst, apply γ qv = apply γ (Term.ofList qs) ∧ (∀ a ∈ path, (tOf a).Sat γ) ∧
          ts = qs.map (apply γ)) := by
  unfold queryTreeOK at hc
  split at hc
  · rename_i s1 h1
    simp only [Bool.and_eq_true, List.all_eq_true, decide_eq_true_eq] at hc
    obtain ⟨⟨hqv, hq⟩, hpaths⟩ := hc
    have side : ∀ path ∈ p.paths, ∀ s, postAllF ord s1 path = .ok s → (apply s.σ qv).size ≤ forceFuel := by
      intro path hpath s hr
      have := (hpaths path hpath).2
      rw [hr] at this
      simpa using this
    refine C02_query_exact ord ho dfs pf M n p hp qv qs s1 h1 (fun path hpath hr => ?_)
      side
      (fun path hpath a ha => ?_) (fun y hy => hqv y hy) (fun q hq' y hy => hq q hq' y hy)
    · have := (hpaths path hpath).2
      rw [hr] at this
      cases this
    · have := (hpaths path hpath).1 a ha
      cases hta : tOf a with
      | eq u v => rw [hta] at this; simp only [Bool.and_eq_true, List.all_eq_true, decide_eq_true_eq] at this; exact ⟨fun y hy => this.1 y hy, fun y hy => this.2 y hy⟩
      | neq u v => rw [hta] at this; simp only [Bool.and_eq_true, List.all_eq_true, decide_eq_true_eq] at this; exact ⟨fun y hy => this.1 y hy, fun y hy => this.2 y hy⟩
  · cases hc

section Examples
/-- `|q| { conde { q == 1 ; q != 2 ; [q == 3, q != 3] } }`: query variable `x0`, `__query__` = `x1` -/
private def exP : FProg := .alt (.atom (.eq (.var 0) (Term.num 1)))
  (.alt (.atom (.neq (.var 0) (Term.num 2))) (.conj (.atom (.eq (.var 0) (Term.num 3))) (.atom (.neq (.var 0) (Term.num 3)))))
private def exS1 : State := ((liftRes fun st => postAtom Order.default st (.eq (.var 1) (Term.ofList [.var 0]))) (State.empty 2)).getD (State.empty 2)
example : (liftRes fun st => postAtom Order.default st (.eq (.var 1) (Term.ofList [.var 0]))) (State.empty 2) = some exS1 := by
  have h : ((liftRes fun st => postAtom Order.default st (.eq (.var 1) (Term.ofList [.var 0]))) (State.empty 2)).isSome = true := by
    decide +kernel
  unfold exS1
  cases hx : (liftRes fun st => postAtom Order.default st (.eq (.var 1) (Term.ofList [.var 0]))) (State.empty 2) with
  | none => rw [hx] at h; cases h
  | some s => rfl
/-- three paths, two survive; both path states meet the hypotheses -/
example : (pathStates Order.default exP exS1).length = 2 ∧
    (pathStates Order.default exP exS1).all (querySideOK Order.default (defs Order.default) (.var 1) 40) = true := by decide +kernel
/-- and the engine itself, run on the whole query goal, delivers the two reified states -/
example : (drainF (solveAt (defs Order.default) 4 4) 200
    (solveAt (defs Order.default) 4 4 (queryG Order.default (.var 1) [.var 0] [exP.goal Order.default]) (State.empty 2))).map
      (fun zs => zs.map fun s => apply s.σ (.var 0)) = some [Term.num 1, .var 2] := by decide +kernel
/-- NON-VACUITY of `C02_query_exact`: every hypothesis holds for this query, so its conclusion does -/
example : ∃ k zs, drainF (solveAt (defs Order.default) 4 4) k
      (solveAt (defs Order.default) 4 4 (queryG Order.default (.var 1) [.var 0] [exP.goal Order.default]) (State.empty 2)) = some zs ∧
    ∀ ts : List Term,
      (∃ z ∈ zs, ∃ δ : Subst, (∀ c ∈ (mkAnswer Order.default [.var 0] z).constraints, DiseqHolds δ c) ∧
        ts = (mkAnswer Order.default [.var 0] z).terms.map (apply δ)) ↔
      (∃ path ∈ exP.paths, ∃ γ : Subst, apply γ (.var 1) = apply γ (Term.ofList [.var 0]) ∧ (∀ a ∈ path, (tOf a).Sat γ) ∧
        ts = [Term.var 0].map (apply γ)) :=
  C02_query_exact_checked Order.default ⟨fun _ => .refl _, fun _ => .refl _, fun _ => .refl _⟩ (defs Order.default) 2 2 2 exP
    ⟨trivial, trivial, trivial, trivial⟩ (.var 1) [.var 0] (by decide +kernel)
/-- a second instantiation: two query variables, a hidden variable, a disequality between a query variable and the hidden one,
    nested `conde` under `fresh`, an improper-list binding — `|x, y| { fresh |h| { x == [1 | h], conde { h == [] ; [h != [2], y == h] } } }`
    (`x0`, `x1` query variables, `x2` hidden, `x3` = `__query__`) -/
private def exP2 : FProg := .fresh (.conj (.atom (.eq (.var 0) (.cons (Term.num 1) (.var 2))))
  (.alt (.atom (.eq (.var 2) .nil))
    (.conj (.atom (.neq (.var 2) (Term.ofList [Term.num 2]))) (.atom (.eq (.var 1) (.var 2))))))
example : ∃ k zs, drainF (solveAt (defs Order.default) 4 4) k
      (solveAt (defs Order.default) 4 4 (queryG Order.default (.var 3) [.var 0, .var 1] [exP2.goal Order.default]) (State.empty 4)) = some zs ∧
    ∀ ts : List Term,
      (∃ z ∈ zs, ∃ δ : Subst, (∀ c ∈ (mkAnswer Order.default [.var 0, .var 1] z).constraints, DiseqHolds δ c) ∧
        ts = (mkAnswer Order.default [.var 0, .var 1] z).terms.map (apply δ)) ↔
      (∃ path ∈ exP2.paths, ∃ γ : Subst, apply γ (.var 3) = apply γ (Term.ofList [.var 0, .var 1]) ∧ (∀ a ∈ path, (tOf a).Sat γ) ∧
        ts = [Term.var 0, Term.var 1].map (apply γ)) :=
  C02_query_exact_checked Order.default ⟨fun _ => .refl _, fun _ => .refl _, fun _ => .refl _⟩ (defs Order.default) 2 2 4 exP2
    ⟨trivial, trivial, trivial, trivial⟩ (.var 3) [.var 0, .var 1] (by decide +kernel)
/-- … and what the engine reports for it: `([1], _0)` and `([1 | _0], _0)` with the constraint `_0 != [2]` -/
example : (drainF (solveAt (defs Order.default) 4 4) 400
    (solveAt (defs Order.default) 4 4 (queryG Order.default (.var 3) [.var 0, .var 1] [exP2.goal Order.default]) (State.empty 4))).map
      (fun zs => zs.map fun z => ((mkAnswer Order.default [.var 0, .var 1] z).terms, (mkAnswer Order.default [.var 0, .var 1] z).constraints)) =
    some [([Term.ofList [Term.num 1], .var 4], []),
          ([.cons (Term.num 1) (.var 4), .var 4], [[(4, Term.ofList [Term.num 2])]])] := by decide +kernel
/-- `C02_query_any_body` at work: `|x| { member(x, [1, 2, 1]) }` — the engine on the whole query goal delivers one answer per
    matching position (`C24_member_one_per_position`), each reified -/
example : (drainF (solveAt (defs Order.default) 4 4) 400
    (solveAt (defs Order.default) 4 4 (queryG Order.default (.var 1) [.var 0]
      [.call ⟨.member, [.var 0, Term.ofList [Term.num 1, Term.num 2, Term.num 1]], false⟩]) (State.empty 2))).map
      (fun zs => zs.map fun s => (s.panic.isSome, apply s.σ (.var 0))) =
    some [(false, Term.num 1), (false, Term.num 2), (false, Term.num 1)] := by decide +kernel
end Examples

end Pv
