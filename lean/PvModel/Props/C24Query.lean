/-
  C24 — LIBRARY RELATIONS AS WHOLE QUERIES, ON THE ENGINE.  `|q…| { member(x, l) }` and `|q…| { append(l, s, ls) }` run from the
  empty state: the engine terminates on the query goal and its answers are — as a multiset — the REIFIED states of the
  multiplicity theorems (`C24_member_one_per_position`: one per matching position; `C24_append_one_per_split`: one per
  realisable split), each describing exactly the valuations of its position.  (`C02_query_rel` composes the relation call
  with the query equation and `reify`; `member_count` / `append_split_count` supply the reference answer list.)
-/
import PvModel.Props.C02QueryRel
import PvModel.Props.C24Count
namespace Pv
open Strm Goal State Term

attribute [local instance] Mode.strict

/-- the state after the query equation has what the multiplicity theorems ask of a start state -/
theorem query_start (ord : Order) (ho : OrderOK ord) (n : Nat) (qv : Term) (qs : List Term) (s1 : State)
    (hqv : Below n qv) (hq : ∀ q ∈ qs, Below n q)
    (h1 : postAtom ord (State.empty n) (.eq qv (Term.ofList qs)) = .ok s1) (hp : s1.panic.isSome = false) :
    RInv s1 ∧ DNF s1 ∧ s1.nextVar = n := by
  have hb : Below (State.empty n).nextVar qv ∧ Below (State.empty n).nextVar (Term.ofList qs) := ⟨hqv, below_ofList hq⟩
  obtain ⟨ib, nvb⟩ := rinv_postAtom ho (.eq qv (Term.ofList qs)) hb (rinv_empty n) h1
  exact ⟨ib, postAtom_dnf ho _ (good_empty n) (fun _ hq0 => by simp [State.empty] at hq0) h1, nvb⟩

theorem zip2_all_left {α β : Type} {R : α → β → Prop} {P : α → Prop} (h : ∀ a b, R a b → P a) :
    ∀ {xs : List α} {ys : List β}, Zip2 R xs ys → ∀ x ∈ xs, P x
  | _, _, .nil, _, hx => nomatch hx
  | _, _, .cons r t, x, hx => by
    rcases List.mem_cons.1 hx with rfl | hx
    · exact h _ _ r
    · exact zip2_all_left h t x hx

theorem C24_query_member (ord : Order) (ho : OrderOK ord) (pf M n k : Nat) (d : Bool) (x l qv : Term) (qs : List Term) (s1 : State)
    (hqv : Below n qv) (hq : ∀ q ∈ qs, Below n q) (bx : Below n x) (bl : Below n l)
    (h1 : postAtom ord (State.empty n) (.eq qv (Term.ofList qs)) = .ok s1) (hp : s1.panic.isSome = false)
    (hlen : ListLen k l s1)
    (hnf : ∀ b, Big (defs ord) (.call ⟨.member, [x, l], d⟩) s1 b → b.panic.isSome = false)
    (hsz : ∀ b, Big (defs ord) (.call ⟨.member, [x, l], d⟩) s1 b → (apply b.σ qv).size ≤ forceFuel) :
    ∃ (ys : List State) (ps : List Nat) (kk : Nat) (zs : List State),
      drainF (solveAt (defs ord) (pf + 2) (M + 2)) kk
        (solveAt (defs ord) (pf + 2) (M + 2) (queryG ord qv qs [.call ⟨.member, [x, l], d⟩]) (State.empty n)) = some zs ∧
      (ys.map fun s => reifyState ord s qv).Perm zs ∧ ps.Pairwise (· < ·) ∧
      (∀ i, i ∈ ps ↔ (i < k ∧ ∃ γ, StateSem γ s1 ∧ At x l i γ)) ∧
      Zip2 (fun b i => Describes s1 (At x l i) b) ys ps := by
  obtain ⟨ri, dn, nv⟩ := query_start ord ho n qv qs s1 hqv hq h1 hp
  obtain ⟨ys, ps, ⟨m, hm⟩, pw, mem, z⟩ := member_count ho d k x l s1 (by rw [nv]; exact bx) (by rw [nv]; exact bl) hp ri dn hlen hnf
  have w : (RProg.call ⟨.member, [x, l], d⟩).WF n := ⟨trivial, fun t ht => by
    simp only [List.mem_cons, List.mem_nil_iff, or_false] at ht
    rcases ht with rfl | rfl
    · exact bx
    · exact bl⟩
  have hbig : ∀ s ∈ ys, Big (defs ord) (.call ⟨.member, [x, l], d⟩) s1 s := fun s hs => evalRef_mem_big (defs ord) hm hs
  obtain ⟨kk, zs, hk, pz⟩ := C02_query_rel ord ho pf M m n (.call ⟨.member, [x, l], d⟩) w qv qs s1 ys h1 hm
    (fun s hs => by
      have := hnf s (hbig s hs)
      cases hq' : s.panic with
      | none => rfl
      | some _ => rw [hq'] at this; cases this)
    (fun s hs => hsz s (hbig s hs))
  exact ⟨ys, ps, kk, zs, hk, pz, pw, mem, z⟩

theorem C24_query_append_splits (ord : Order) (ho : OrderOK ord) (pf M n k : Nat) (d : Bool) (l s ls qv : Term) (qs : List Term) (s1 : State)
    (hqv : Below n qv) (hq : ∀ q ∈ qs, Below n q) (bl : Below n l) (bs : Below n s) (bls : Below n ls)
    (h1 : postAtom ord (State.empty n) (.eq qv (Term.ofList qs)) = .ok s1) (hp : s1.panic.isSome = false)
    (hlen : ListLen k ls s1)
    (hnf : ∀ b, Big (defs ord) (.call ⟨.append, [l, s, ls], d⟩) s1 b → b.panic.isSome = false)
    (hsz : ∀ b, Big (defs ord) (.call ⟨.append, [l, s, ls], d⟩) s1 b → (apply b.σ qv).size ≤ forceFuel) :
    ∃ (ys : List State) (ps : List Nat) (kk : Nat) (zs : List State),
      drainF (solveAt (defs ord) (pf + 2) (M + 2)) kk
        (solveAt (defs ord) (pf + 2) (M + 2) (queryG ord qv qs [.call ⟨.append, [l, s, ls], d⟩]) (State.empty n)) = some zs ∧
      (ys.map fun b => reifyState ord b qv).Perm zs ∧ ps.Pairwise (· < ·) ∧
      (∀ i, i ∈ ps ↔ (i ≤ k ∧ ∃ γ, StateSem γ s1 ∧ SplitAt l s ls i γ)) ∧
      Zip2 (fun b i => Describes s1 (SplitAt l s ls i) b) ys ps ∧ zs.length ≤ k + 1 := by
  obtain ⟨ri, dn, nv⟩ := query_start ord ho n qv qs s1 hqv hq h1 hp
  obtain ⟨ys, ps, ⟨m, hm⟩, pw, mem, z⟩ := append_split_count ho d k l s ls s1 (by rw [nv]; exact bl) (by rw [nv]; exact bs)
    (by rw [nv]; exact bls) hp ri dn hlen hnf
  have w : (RProg.call ⟨.append, [l, s, ls], d⟩).WF n := ⟨trivial, fun t ht => by
    simp only [List.mem_cons, List.mem_nil_iff, or_false] at ht
    rcases ht with rfl | rfl | rfl
    · exact bl
    · exact bs
    · exact bls⟩
  have hbig : ∀ b ∈ ys, Big (defs ord) (.call ⟨.append, [l, s, ls], d⟩) s1 b := fun b hb => evalRef_mem_big (defs ord) hm hb
  obtain ⟨kk, zs, hk, pz⟩ := C02_query_rel ord ho pf M m n (.call ⟨.append, [l, s, ls], d⟩) w qv qs s1 ys h1 hm
    (fun b hb => by
      have := hnf b (hbig b hb)
      cases hq' : b.panic with
      | none => rfl
      | some _ => rw [hq'] at this; cases this)
    (fun b hb => hsz b (hbig b hb))
  refine ⟨ys, ps, kk, zs, hk, pz, pw, mem, z, ?_⟩
  rw [← pz.length_eq, List.length_map, C24_zip2_length z]
  exact C24_increasing_bounded ps 0 k pw (fun i hi => ⟨Nat.zero_le _, ((mem i).1 hi).1⟩)

end Pv
