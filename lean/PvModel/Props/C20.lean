/-
  C20 — Compound terms unify, constrain, reify and label structurally.

  Model: `Term.comp tag args` (a `#[compound]` struct / Rust tuple / `Some`; `tag` = its type, `args` = its
  fields as a cons-list so that `Term` is not a nested inductive), `unifyF` (`unify_rec_compound`: same
  type, fields pairwise), `apply` (`compound_walk_star`), `occurs` (`occurs_check_compound`), `Term.vars` /
  `anyvars` (repaired D9), `forceAns` (`force_ans`, repaired D15).
  Theorems hold for ALL tags, fields, substitutions and fuel.
-/
import PvModel.Props.C01
import PvModel.Props.C03
namespace Pv
open Term

/-- two compounds (after walking) unify exactly like their field lists when they have the same type, and
    never when their types differ -/
theorem C20_unify_comp (n : Nat) (σ : Subst) (e : Ext1) (u v : Term) (g1 g2 : Nat) (a1 a2 : Term)
    (hu : walk σ u = .comp g1 a1) (hv : walk σ v = .comp g2 a2) :
    unifyF (n + 1) σ e u v = if g1 = g2 then unifyF n σ e a1 a2 else some none := by
  simp only [unifyF, hu, hv]

/-- the fields are unified pairwise, left to right, each under the bindings made by the previous ones -/
theorem C20_unify_fields (n : Nat) (σ : Subst) (e : Ext1) (h1 t1 h2 t2 : Term) :
    unifyF (n + 1) σ e (.cons h1 t1) (.cons h2 t2) =
      match unifyF n σ e h1 h2 with
      | some (some (σ1, e1)) => unifyF n σ1 e1 t1 t2
      | r => r := by
  rw [unifyF]
  simp only [walk]
  cases unifyF n σ e h1 h2 with
  | none => rfl
  | some r => cases r with
    | none => rfl
    | some p => rfl

/-- a compound never unifies with a list, `[]` or a literal (in either orientation) -/
theorem C20_never (n : Nat) (σ : Subst) (e : Ext1) (u v : Term) (g : Nat) (a : Term)
    (hu : walk σ u = .comp g a)
    (hv : (∃ h t, walk σ v = .cons h t) ∨ walk σ v = .nil ∨ ∃ l, walk σ v = .val l) :
    unifyF (n + 1) σ e u v = some none ∧ unifyF (n + 1) σ e v u = some none := by
  rcases hv with ⟨h, t, hv⟩ | hv | ⟨l, hv⟩ <;> simp only [unifyF, hu, hv, and_self]

/-- a variable against a compound: bound, with the occurs check looking INSIDE the fields -/
theorem C20_bind (n : Nat) (σ : Subst) (e : Ext1) (u v : Term) (x g : Nat) (a : Term)
    (hu : walk σ u = .var x) (hv : walk σ v = .comp g a) :
    unifyF (n + 1) σ e u v =
      if occurs x (apply σ a) then some none
      else some (some (bindS x (.comp g (apply σ a)) σ, (x, .comp g (apply σ a)) :: e)) := by
  simp only [unifyF, hu, hv, apply, occurs]

/-- walk*, occurs check, variable collection and `anyvars` treat the fields exactly as list elements -/
theorem C20_structural (σ : Subst) (x g : Nat) (a : Term) :
    apply σ (.comp g a) = .comp g (apply σ a) ∧
    occurs x (.comp g a) = occurs x a ∧
    (Term.comp g a).vars = a.vars ∧
    anyvars (.comp g a) = anyvars a := ⟨rfl, rfl, rfl, rfl⟩

/-- labelling: `force_ans` on a compound labels its TERM fields, like the elements of a list (D15); a field that
    is not a term — an `Option` object — contributes its children instead
    (`compound_fields`) -/
theorem C20_force (ord : Order) (n g : Nat) (a : Term) (st : State) (hp : st.panic = none)
    :
    ∃ fs fg, forceAns ord (n + 1) (.comp g a) = .dyn fs fg ∧
      fg st = Goal.conjOfList ((compFields a).map (forceAns ord n)) := by
  refine ⟨_, _, rfl, ?_⟩
  simp only [hp, Option.isSome_none, Bool.false_eq_true, if_false, walk]

/-- without `Option` fields the labelled fields are exactly the children -/
theorem C20_force_fields (a : Term) (h : ∀ item ∈ a.iterItems, ∀ k, item ≠ .comp 4 k) :
    compFields a = a.iterItems := by
  unfold compFields
  generalize a.iterItems = l at h
  induction l with
  | nil => rfl
  | cons x xs ih =>
    simp only [List.flatMap_cons]
    rw [ih fun item hi => h item (List.mem_cons_of_mem _ hi)]
    have hx := h x (List.mem_cons_self ..)
    split
    · rename_i k; exact absurd rfl (hx k)
    · rfl

section Examples
/-- `Slot(Some(p), t)` is labelled through `p, t`; `Slot(None, t)` through `t` -/
example : compFields (.cons (.comp 4 (.cons (.var 0) .nil)) (.cons (.var 3) .nil)) = [.var 0, .var 3] := by decide
example : compFields (.cons (.comp 4 .nil) (.cons (.var 3) .nil)) = [.var 3] := by decide
private def pair (a b : Term) : Term := .comp 0 (.cons a (.cons b .nil))
private def named (a b : Term) : Term := .comp 2 (.cons a (.cons b .nil))
example : (match unifyF 20 Subst.id [] (pair (.var 0) (num 2)) (pair (num 1) (.var 1)) with
    | some (some (σ, _)) => σ 0 == num 1 && σ 1 == num 2 | _ => false) = true := by decide
example : (match unifyF 20 Subst.id [] (pair (num 1) (num 2)) (named (num 1) (num 2)) with | some none => true | _ => false) = true := by decide
example : (match unifyF 20 Subst.id [] (pair (.var 0) (num 2)) (.cons (.var 0) (.cons (num 2) .nil)) with | some none => true | _ => false) = true := by decide
/-- occurs check through a nested compound -/
example : (match unifyF 20 Subst.id [] (.var 0) (named (num 1) (pair (.var 0) (num 2))) with | some none => true | _ => false) = true := by decide
/-- an `Option` field is a compound object with one child (`Some`) or none (`None`), of ONE type: `Some(x)` never
    unifies with `None` (the children lists have different lengths), inside a struct as well — and the occurs
    check goes through it -/
private def optSome (x : Term) : Term := .comp 4 (.cons x .nil)
private def optNone : Term := .comp 4 .nil
private def slot (o t : Term) : Term := .comp 3 (.cons o (.cons t .nil))
example : (match unifyF 20 Subst.id [] (optSome (.var 0)) optNone with | some none => true | _ => false) = true := by decide
example : (match unifyF 20 Subst.id [] (slot (optSome (pair (.var 0) (num 1))) (num 7)) (slot optNone (num 7)) with
    | some none => true | _ => false) = true := by decide
example : (match unifyF 20 Subst.id [] (slot (optSome (pair (.var 0) (num 1))) (.var 1)) (slot (optSome (pair (num 5) (.var 2))) (num 7)) with
    | some (some (σ, _)) => σ 0 == num 5 && σ 1 == num 7 && σ 2 == num 1 | _ => false) = true := by decide
example : (match unifyF 20 Subst.id [] (.var 0) (slot (optSome (pair (.var 0) (num 1))) (num 7)) with | some none => true | _ => false) = true := by decide
end Examples

end Pv
