/-
  C24 — Library list relations implement their documented relations.

  Model: `relBody` (Model/Goals.lean) gives, for member / member1 / append / rember / permute / distinct, the
  goal their `proto_vulcan_closure!(match …)` sources elaborate to (one clause per arm, fresh pattern
  variables drawn from the state's counter at each call); `consG`, `firstG`, `restG`, `emptyG` for the
  non-recursive ones.

  Proved here: the non-recursive relations are single unifications with the documented shape
  (`C24_cons`, `C24_empty`, `C24_first_rest`), hence by C01 they hold exactly for the documented terms;
  the recursive relations' clause structure (`C24_member_clauses`, `C24_append_clauses`).
  OPEN (named in the evidence): ground-semantics theorems relating the recursive relations to `List`
  functions; decided by the correspondence (model = implementation on every mode) and a `Vec`-based oracle.
  KNOWN FINDING D20: `permute` as written also accepts permutations of sub-lists (see known_findings.json).
-/
import PvModel.Model.Goals
import PvModel.Props.C01
namespace Pv
open Term

/-- `cons(first, rest, out)` is the unification `[first | rest] == out`; `empty(s)` is `[] == s` -/
theorem C24_cons (ord : Order) (f r o : Term) : consG ord f r o = eqG ord (.cons f r) o := rfl
theorem C24_empty (ord : Order) (s : Term) : emptyG ord s = eqG ord .nil s := rfl

/-- by C01: the unification behind `cons` succeeds exactly when `out` can be made `[first | rest]`, and
    then makes both sides identical -/
theorem C24_cons_sound (n : Nat) (σ σ' : Subst) (e e' : Ext1) (f r o : Term) (hs : Solved σ)
    (h : unifyF n σ e (.cons f r) o = some (some (σ', e'))) :
    apply σ' o = .cons (apply σ' f) (apply σ' r) := by
  have := (C01_sound n σ σ' e e' (.cons f r) o hs h).2.2
  simpa [Unifies, apply] using this.symm

theorem C24_cons_complete (n : Nat) (σ : Subst) (e : Ext1) (f r o : Term) (hs : Solved σ)
    (h : unifyF n σ e (.cons f r) o = some none) :
    ¬ ∃ θ : Subst, Ext σ θ ∧ apply θ o = .cons (apply θ f) (apply θ r) := by
  intro ⟨θ, h1, h2⟩
  exact C01_fail_complete n σ e (.cons f r) o hs h ⟨θ, h1, by simpa [Unifies, apply] using h2.symm⟩

/-- `first(list, x)` / `rest(list, x)`: `cons` with the other component a fresh variable -/
theorem C24_first_rest (ord : Order) (l x : Term) (st : State) :
    (∃ fs fg, firstG ord false l x = .dyn fs fg ∧ (fs st).nextVar = st.nextVar + 1 ∧
      fg st = .fresh (Goal.conjOfList [consG ord x (.var st.nextVar) l])) ∧
    (∃ fs fg, restG ord false l x = .dyn fs fg ∧ (fs st).nextVar = st.nextVar + 1 ∧
      fg st = .fresh (Goal.conjOfList [consG ord (.var st.nextVar) x l])) :=
  ⟨⟨_, _, rfl, rfl, rfl⟩, ⟨_, _, rfl, rfl, rfl⟩⟩

/-- `member(x, l)`: two clauses — `l = [head | _], head == x` and `l = [_ | rest], member(x, rest)` — with
    four fresh variables per call -/
theorem C24_member_clauses (ord : Order) (x l : Term) (n : Nat) :
    relBody ord ⟨.member, [x, l], false⟩ n =
      (4, Goal.conjOfList [Goal.condeOfClauses
        [[eqG ord l (.cons (.var n) (.var (n + 1))), eqG ord (.var n) x],
         [eqG ord l (.cons (.var (n + 3)) (.var (n + 2))), .call ⟨.member, [x, .var (n + 2)], false⟩]]]) := by
  simp [relBody]

/-- `append(l, s, ls)`: `[l, s, ls] = [[], x, x]` or `[[x | l1], l2, [x | l3]]` with `append(l1, l2, l3)` -/
theorem C24_append_clauses (ord : Order) (l s ls : Term) (n : Nat) :
    relBody ord ⟨.append, [l, s, ls], false⟩ n =
      (5, Goal.conjOfList [Goal.condeOfClauses
        [[eqG ord (Term.ofList [l, s, ls]) (Term.ofList [.nil, .var n, .var n])],
         [eqG ord (Term.ofList [l, s, ls]) (Term.ofList [.cons (.var (n + 1)) (.var (n + 2)), .var (n + 4), .cons (.var (n + 1)) (.var (n + 3))]),
          .call ⟨.append, [.var (n + 2), .var (n + 4), .var (n + 3)], false⟩]]]) := by
  simp [relBody]

end Pv
