/-
  C12 — `for x in coll { body }` (everyg) with bodies that CALL RELATIONS: the answers describe exactly the
  valuations satisfying the body for every element — the same as the forward conjunction, whatever order the
  operator conjoins the bodies in (it folds left: reverse order, `C12_def`).
-/
import PvModel.Proofs.RelProgram
import PvModel.Props.C12
namespace Pv
open Strm Goal State Term

/-- the conjunction of a list of programs -/
def RProg.conjAll : List RProg → RProg
  | [] => .succeed
  | p :: ps => .conj p (RProg.conjAll ps)

theorem RProg.sem_conjAll (γ : Subst) : ∀ (ps : List RProg), (RProg.conjAll ps).Sem γ ↔ ∀ p ∈ ps, p.Sem γ
  | [] => ⟨fun _ _ h => (nomatch h), fun _ => trivial⟩
  | p :: ps => by
    simp only [RProg.conjAll, RProg.Sem, List.mem_cons, forall_eq_or_imp, RProg.sem_conjAll γ ps]

theorem RProg.wf_conjAll {m : Nat} : ∀ (ps : List RProg), (∀ p ∈ ps, p.WF m) → (RProg.conjAll ps).WF m
  | [], _ => trivial
  | p :: ps, h => ⟨h p List.mem_cons_self, RProg.wf_conjAll ps fun q hq => h q (List.mem_cons_of_mem _ hq)⟩

/-- `Conj::from_array` over the bodies has the big-step answers of the plain nested conjunction -/
theorem big_conjAll (ord : Order) : ∀ (ps : List RProg) (a b : State),
    Big (defs ord) (conjOfList (ps.map (·.goal ord))) a b ↔ Big (defs ord) ((RProg.conjAll ps).goal ord) a b
  | [], a, b => by simp only [List.map_nil, conjOfList, RProg.conjAll, RProg.goal]
  | p :: ps, a, b => by
    simp only [List.map_cons, conjOfList, RProg.conjAll, RProg.goal, big_mkConj, big_conj]
    exact ⟨fun ⟨m, h1, h2⟩ => ⟨m, h1, (big_conjAll ord ps m b).1 h2⟩, fun ⟨m, h1, h2⟩ => ⟨m, h1, (big_conjAll ord ps m b).2 h2⟩⟩

/-- EVERYG IS EXACT, bodies with relation calls included: `for x in coll { body }` conjoins one instance of the
    body per element (`ps`: the instances, in collection order) by a LEFT fold, i.e. in reverse order; the
    states in the engine's stream describe exactly the valuations that satisfy EVERY instance — the meaning of
    the forward conjunction `ps[0], ps[1], …` — at every nesting level, under every hash order. -/
theorem C12_rel_everyg (ord : Order) (ho : OrderOK ord) (pf M j nv : Nat) (ps : List RProg) (w : ∀ p ∈ ps, p.WF nv) :
    (∀ b, MemS (solveAt (defs ord) pf (M + 1)) b (solveAt (defs ord) pf j (conjOfIter (ps.map (·.goal ord))) (State.empty nv)) →
      b.panic.isSome = false → ∀ γ, StateSem γ b → ∀ p ∈ ps, p.Sem γ) ∧
    (∀ γ, (∀ p ∈ ps, p.Sem γ) →
      ∃ b, MemS (solveAt (defs ord) pf (M + 1)) b (solveAt (defs ord) pf j (conjOfIter (ps.map (·.goal ord))) (State.empty nv)) ∧
        (b.panic.isSome = true ∨ ∃ γ', Agree nv γ γ' ∧ StateSem γ' b)) := by
  have e : conjOfIter (ps.map (·.goal ord)) = conjOfList (ps.reverse.map (·.goal ord)) := by
    rw [C12_def, List.map_reverse]
  have hpl : Plain (conjOfList (ps.reverse.map (·.goal ord))) :=
    plain_conjOfList _ fun g hg => by
      obtain ⟨p, _, rfl⟩ := List.mem_map.1 hg
      exact p.plain ord
  have wr : (RProg.conjAll ps.reverse).WF nv := RProg.wf_conjAll _ fun p hp => w p (List.mem_reverse.1 hp)
  obtain ⟨s1, s2⟩ := prog_exact ho pf M j nv (RProg.conjAll ps.reverse) wr
  have tr : ∀ b, MemS (solveAt (defs ord) pf (M + 1)) b (solveAt (defs ord) pf j (conjOfList (ps.reverse.map (·.goal ord))) (State.empty nv)) ↔
      MemS (solveAt (defs ord) pf (M + 1)) b (solveAt (defs ord) pf j ((RProg.conjAll ps.reverse).goal ord) (State.empty nv)) := fun b => by
    rw [mem_iff_big (defs_plain ord) pf M j hpl, mem_iff_big (defs_plain ord) pf M j ((RProg.conjAll ps.reverse).plain ord),
      big_conjAll]
  rw [e]
  constructor
  · intro b hm hp γ hγ p hp'
    exact (RProg.sem_conjAll γ _).1 (s1 b ((tr b).1 hm) hp γ hγ) p (List.mem_reverse.2 hp')
  · intro γ h
    obtain ⟨b, hm, hb⟩ := s2 γ ((RProg.sem_conjAll γ _).2 fun p hp => h p (List.mem_reverse.1 hp))
    exact ⟨b, (tr b).2 hm, hb⟩

section Examples
/-- non-vacuity: the instances of the body `member(e, qa)` for the collection `[1, 2]` -/
example : ∀ p ∈ [RProg.call ⟨.member, [Term.num 1, .var 0], false⟩, RProg.call ⟨.member, [Term.num 2, .var 0], false⟩], p.WF 1 := by
  intro p hp
  simp only [List.mem_cons, List.not_mem_nil, or_false] at hp
  rcases hp with rfl | rfl <;> refine ⟨trivial, fun t ht => ?_⟩ <;>
    simp only [List.mem_cons, List.not_mem_nil, or_false] at ht <;>
    rcases ht with rfl | rfl <;> intro y hy <;> simp [Term.vars, Term.num] at hy <;> omega
end Examples

end Pv
