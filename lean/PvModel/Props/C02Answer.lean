/-
  C02 / C03 — THE REPORTED ANSWER: "an answer's ground instances are the ones that instantiate its free variables
  consistently with the disequalities attached to it.  These instances are exactly the program's ground solutions."

  `C02_answer_instances` (Props/C02Decide.lean) characterises the SEMANTIC answer (walked query terms + the stored
  disequalities over their variables).  Here the last step: what `reify` and `ResultIterator::next` actually REPORT —
  `_` variables for the unbound variables of the walked query term, the store emptied and re-filled with the walked
  disequalities (normalised on insertion), then `purify(r).normalize().walk_star(r)` — denotes the same thing.
  (Proofs/Reify.lean; Proofs/Scoped.lean: every variable a reached state mentions is below its counter, so the `_`
  variables are new.)
-/
import PvModel.Proofs.Reify
import PvModel.Proofs.ReifyGoal
namespace Pv
open Term

theorem postAll_nv {ord : Order} (ho : OrderOK ord) : ∀ (as : List TAtom) (st st' : State), Good st →
    postAll ord st as = .ok st' → st'.nextVar = st.nextVar
  | [], st, st', _, h => by simp only [postAll, Res.ok.injEq] at h; subst h; rfl
  | a :: as, st, st', hg, h => by
    simp only [postAll] at h
    cases h1 : postAtom ord st a with
    | ok st1 =>
      rw [h1] at h
      exact (postAll_nv ho as st1 st' (postAtom_ok ord ho st st1 a hg h1).1 h).trans (postAtom_nv ho a hg h1)
    | fail => rw [h1] at h; cases h
    | fuel => rw [h1] at h; cases h
    | panic s => rw [h1] at h; cases h

/-- the reified state depends on the query term only through its walked form (the query runs `reify(__query__)` with
    `__query__` bound to the list of the query variables) -/
theorem reifyState_congr (ord : Order) (st : State) {x x' : Term} (h : apply st.σ x = apply st.σ x') :
    reifyState ord st x = reifyState ord st x' := by
  have e0 : reifyMap st.σ x st.nextVar = reifyMap st.σ x' st.nextVar := by
    funext y; unfold reifyMap; rw [h]
  have e1 : reifySubst st.σ x st.nextVar = reifySubst st.σ x' st.nextVar := by
    funext y; unfold reifySubst; rw [e0]
  unfold reifyState
  simp only [h]
  rw [e1]

/-- THE REPORTED ANSWER IS EXACT, for every program of `==` / `!=` atoms (any order, any hash-iteration order) over
    variables below `n`, every list `qs` of query terms, and `x` the term `reify` is called on (anything that walks to
    the list of the query terms): let `A` be the answer `ResultIterator::next` builds from the state `reify` leaves.
    A tuple `ts` is an instance of the reported terms `A.terms` under an assignment `δ` of the `_` variables that
    satisfies every reported disequality `A.constraints`  IF AND ONLY IF  it is the value of the query terms under a
    SOLUTION of the program.  (`ts`, `δ`, the solutions: arbitrary terms and substitutions; ground ones are a special
    case — and `C02_satisfiable` shows there always is a ground one.) -/
theorem C02_reported_answer (ord : Order) (ho : OrderOK ord) (n : Nat) (as : List TAtom) (hb : ∀ a ∈ as, a.Below n)
    (st : State) (h : postAll ord (State.empty n) as = .ok st) (qs : List Term) (hq : ∀ q ∈ qs, Below n q)
    (x : Term) (hx : apply st.σ x = apply st.σ (Term.ofList qs)) (ts : List Term) :
    (∃ δ : Subst, (∀ c ∈ (mkAnswer ord qs (reifyState ord st x)).constraints, DiseqHolds δ c) ∧
        ts = (mkAnswer ord qs (reifyState ord st x)).terms.map (apply δ)) ↔
    (∃ γ : Subst, (∀ a ∈ as, a.Sat γ) ∧ ts = qs.map (apply γ)) := by
  have hg := (postAll_ok ord ho _ _ as (good_empty n) h).1
  have hd := postAll_dnf ho as (State.empty n) st (good_empty n) (fun _ hq0 => by simp [State.empty] at hq0) h
  have hnv : st.nextVar = n := postAll_nv ho as _ _ (good_empty n) h
  have hsc : Scoped st.nextVar st := by
    rw [hnv]; exact postAll_scoped ho as _ _ (good_empty n) (scoped_empty n n) hb h
  rw [reifyState_congr ord st hx, reported_answer_exact ho hg hd hsc qs (by rw [hnv]; exact hq) ts]
  refine exists_congr fun γ => and_congr_left fun _ => ?_
  rw [C02_invariant_ok ord ho n as st h γ]

/-- `reify(x)` AS A GOAL ON THE ENGINE (Proofs/ReifyGoal.lean), from the state a list of `==` / `!=` atoms reaches: at any
    solver nesting level ≥ 2 and peek fuel ≥ 2, whenever `force_ans` finishes within the model's fuel, the goal — the
    whole of `enforce_constraints_fd` (labelling, `verify_all_bound`, the `onceo` over the domain variables) followed by the
    final atom — delivers EXACTLY ONE state, the reified state `C02_reported_answer` speaks about -/
theorem C02_reify_goal (ord : Order) (ho : OrderOK ord) (dfs : Call → State → State × G) (pf M n : Nat) (as : List TAtom)
    (st : State) (h : postAll ord (State.empty n) as = .ok st) (hp : st.panic = none) (x : Term)
    (hfa : ∃ N zs, evalRef dfs N (forceAns ord forceFuel x) st = some zs ∧ ∀ t ∈ zs, t.panic = none) :
    ∃ k, drainF (solveAt dfs (pf + 2) (M + 2)) k (solveAt dfs (pf + 2) (M + 2) (reifyG ord x) st) =
      some [reifyState ord st x] := by
  have hg := (postAll_ok ord ho _ _ as (good_empty n) h).1
  have hst : ∀ p ∈ st.store, p.2.isFD = false := fun p hp' => by
    have := hg.2.1.1 p hp'
    cases hc : p.2 <;> simp_all [Cst.isDiseq, Cst.isFD]
  have a := @reifyG_tree Mode.strict ord ho dfs pf M st hg.2.1.2 hp hst x hfa
  obtain ⟨k, ys, hk, py⟩ := drain_perm _ (topOK_solveAt dfs (pf + 2) (M + 1)) a
  have : ys = [reifyState ord st x] := (List.singleton_perm.1 py).symm ▸ rfl
  exact ⟨k, by rw [← this]; exact hk⟩

/-- the goal `reify` ends with is the atom that computes this state -/
theorem C02_reify_is_reifyState (ord : Order) (x : Term) :
    reifyFinal ord x = .atom (liftRes fun st => .ok (reifyState ord st x)) := reifyFinal_eq ord x

/-! Non-vacuity: `q0 != 1, q1 != h, q0 == q2` with query `[q0, q1, q2]` (h = x3 hidden): the reported answer is
    `[_0, _1, _0]` with the one constraint `_0 != 1`; the constraint on the hidden variable is not reported. -/
section Examples
private def prog : List TAtom := [.neq (.var 0) (Term.num 1), .neq (.var 1) (.var 3), .eq (.var 0) (.var 2)]
example : (match postAll Order.default (State.empty 4) prog with
    | .ok st =>
      let A := mkAnswer Order.default [.var 0, .var 1, .var 2] (reifyState Order.default st (Term.ofList [.var 0, .var 1, .var 2]))
      A.terms == [.var 4, .var 5, .var 4] && A.constraints == [[(4, Term.num 1)]]
    | _ => false) = true := by decide +kernel
example : ∀ a ∈ prog, a.Below 4 := by
  intro a ha
  simp only [prog, List.mem_cons, List.mem_nil_iff, or_false] at ha
  rcases ha with rfl | rfl | rfl <;> exact ⟨by simp [Below, Term.vars, Term.num], by simp [Below, Term.vars, Term.num]⟩
end Examples

end Pv
