/-
  C16 (and C19 / C23 soundness side) for PROGRAMS THAT MIX CONSTRAINTS AND RELATION CALLS: finite-domain and
  CLP(Z) constraints, domains, `==`, `!=`, conjunction, `conde`, fresh and calls of member / member1 / append /
  rember / permute / distinct (recursive; infinitely many answers allowed).
-/
import PvModel.Proofs.RelSemFD
namespace Pv
open Strm Goal State Term

section
variable [Mode]

/-- every unpoisoned state the engine holds for such a program — any nesting level, any hash-iteration order —
    is well-formed and describes (substitution, every stored constraint, every remaining domain) only
    valuations that satisfy the arithmetic meaning of every constraint posted on its path and put the arguments
    of every relation call on its path in the documented relation -/
theorem C16_rel_program_sound (ord : Order) (ho : OrderOK ord) (pf M j nv : Nat) (p : FRProg) (hk : p.OK) (b : State)
    (hm : MemS (solveAt (defs ord) pf (M + 1)) b (solveAt (defs ord) pf j (p.goal ord) (State.empty nv)))
    (hp : b.panic.isSome = false) : (WFS b ∧ Inv b) ∧ ∀ γ, Sem NoI γ b → p.Sem γ :=
  frprog_sound ho pf M j nv p hk b hm hp

/-- a relation call from ANY well-formed finite-domain state: the big-step answers describe only valuations of
    the start state under which the arguments are in the relation -/
theorem C16_rel_call_sound (ord : Order) (ho : OrderOK ord) (pf M j : Nat) (c : Call) (a b : State)
    (hm : MemS (solveAt (defs ord) pf (M + 1)) b (solveAt (defs ord) pf j (.call c) a))
    (hp : b.panic.isSome = false) (w : WFS a) (hi : Inv a) :
    (WFS b ∧ Inv b) ∧ ∀ γ, Sem NoI γ b → Sem NoI γ a ∧ RelSem c γ := by
  obtain ⟨n, hn⟩ := (mem_iff_big (defs_plain ord) pf M j (.call c) a b).1 hm
  exact (fd_den_rel ho n c n (Nat.le_refl _) a b hn).2 hp ⟨w, hi⟩

end

section Examples
/-- non-vacuity: `x in 1..3, member(x, [2, 5]), x < y`-style program shape is admissible -/
private def progFR : FRProg :=
  .conj (.atom (.dom (.var 0) (.interval 1 3)))
    (.call ⟨.member, [.var 0, ofList [Term.num 2, Term.num 5]], false⟩)
example : @FRProg.OK Mode.strict progFR := by
  refine ⟨?_, trivial⟩
  show (1 : Int) ≤ 3
  decide
end Examples

end Pv
