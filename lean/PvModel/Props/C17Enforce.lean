/-
  C17 — "every assignment … is returned, and each is returned EXACTLY ONCE": the hidden variables.
  After the query term is labelled, `enforce_constraints_fd` runs `onceo { force_ans(all remaining domain variables) }`:
  the hidden (non-query) FD variables must have SOME consistent value, and contribute no further answers.
  Proofs/EnforceKeys.lean (on Proofs/Tight.lean, Labelled.lean, Label.lean, the engine theorems of C06/C08):
    * labelling ALL domain variables delivers only CLOSED states (empty domain store, no propagator), which describe
      only valuations of the start state, and delivers at least one whenever the start state has a solution
      (`C17_hidden_labelling_decides`, textbook semantics);
    * on the ENGINE, `onceo` over that labelling is the stream of AT MOST ONE state: one closed state when the start state
      has a solution, none when the labelling has no answer (`C17_hidden_onceo`).
  So a labelled query term that propagation let through although the hidden variables have no consistent values yields
  NO answer, and one with consistent hidden values yields exactly ONE — independent of the strength of propagation.
  Strict mode (no `distinctfd`), no CLP(Z) constraint on an FD variable.
-/
import PvModel.Proofs.EnforceKeys
import PvModel.Proofs.ReifyGoal
import PvModel.Proofs.LabelSep
import PvModel.Proofs.LabelGround
namespace Pv
open State Term Goal FD

section Strict
attribute [local instance] Mode.strict

/-- every state reached by posting atoms and then labelling equalities has the labelling invariants: well-formed,
    lifecycle invariant, domain-store keys unbound, every stored propagator live -/
theorem C17_labelling_invariants {ord : Order} (ho : OrderOK ord) (n : Nat) (as : List FAtom) (hok : ∀ a ∈ as, a.OK)
    (hnz : ∀ a ∈ as, a.NoZ) (ls : List (Int × Nat)) (s c : State)
    (h1 : postAllF ord (State.empty n) as = .ok s) (h2 : postAllF ord s (labelAtoms ls) = .ok c) : LInv c :=
  (reach_inv ho (linv_of_atoms ho n as hok hnz s h1) ⟨ls, h2⟩).1

/-- LABELLING ALL DOMAIN VARIABLES DECIDES (textbook semantics of the body of the `onceo`) -/
theorem C17_hidden_labelling_decides {ord : Order} (ho : OrderOK ord) (dfs : Call → State → State × G)
    (ks : List Nat) (n N : Nat) (c : State) (ds : List State) (hn : ks.length < n)
    (hi : LInv c) (hp : c.panic = none) (hops : OpsOK c) (hks : ∀ y, (c.dget y).isSome → y ∈ ks)
    (hko : ∀ k ∈ ks, c.σ k = .var k ∨ ∃ m, c.σ k = Term.num m)
    (h : evalRef dfs N (forceAns ord n (Term.ofList (ks.map Term.var))) c = some ds) (hall : ∀ t ∈ ds, t.panic = none) :
    (∀ d ∈ ds, d.dstore = [] ∧ (∀ p ∈ d.store, p.2.isDiseq = true) ∧ WFS d ∧ ∀ γ, Sem NoI γ d → Sem NoI γ c) ∧
    ((∃ γ, Sem NoI γ c) → ds ≠ []) :=
  keys_labelling_decides ho dfs ks n N c ds hn hi hp hops hks hko h hall

/-- THE `onceo` OVER THE HIDDEN VARIABLES, ON THE ENGINE (any nesting level ≥ 2, peek fuel `pf` that lets the labelling
    drain): at most one state; a closed one describing only valuations of `c` when `c` has a solution; none when the
    labelling has no answer -/
theorem C17_hidden_onceo {ord : Order} (ho : OrderOK ord) (dfs : Call → State → State × G) (pf m : Nat)
    (ks : List Nat) (n N : Nat) (c : State) (ds ys : List State)
    (hn : ks.length < n) (hi : LInv c) (hp : c.panic = none) (hops : OpsOK c) (hks : ∀ y, (c.dget y).isSome → y ∈ ks)
    (hko : ∀ k ∈ ks, c.σ k = .var k ∨ ∃ m, c.σ k = Term.num m)
    (h : evalRef dfs N (forceAns ord n (Term.ofList (ks.map Term.var))) c = some ds) (hall : ∀ t ∈ ds, t.panic = none)
    (hd : drainF (solveAt dfs pf (m + 1)) pf
      (start dfs (solveAt dfs pf (m + 1)) pf (Goal.conjOfList [forceAns ord n (Term.ofList (ks.map Term.var))]) c) = some ys) :
    ds.Perm ys ∧
    start dfs (solveAt dfs pf (m + 1)) pf (Goal.onceo [forceAns ord n (Term.ofList (ks.map Term.var))]) c =
      firstStrm ys.head? ∧
    (∀ b, ys.head? = some b → b.dstore = [] ∧ (∀ p ∈ b.store, p.2.isDiseq = true) ∧ ∀ γ, Sem NoI γ b → Sem NoI γ c) ∧
    ((∃ γ, Sem NoI γ c) → ys.head?.isSome = true) ∧ (ds = [] → ys.head? = none) :=
  hidden_labelling_engine ho dfs pf m ks n N c ds ys hn hi hp hops hks hko h hall hd

/-- `verify_all_bound` + the documented operand kinds give `OpsOK`: if `allBound` answers true, no CLP(Z) constraint is
    stored and every operand of every stored propagator walks to a variable or a number, then every operand is a number or
    a variable WITH A DOMAIN -/
theorem C17_opsOK_of_allBound (c : State) (hab : c.allBound = true) (hz : NoZ c)
    (hkind : ∀ p ∈ c.store, p.2.isDiseq = false → ∀ u ∈ operandsOf p.2, (walk c.σ u).isVar = true ∨ (walk c.σ u).isNum = true) :
    OpsOK c := by
  intro p hp hd u hu
  have hfd : p.2.isFD = true := by
    have := hz p hp
    cases hc : p.2 <;> simp_all [Cst.isDiseq, Cst.isFD, Cst.isZ]
  unfold State.allBound at hab
  have h1 := (List.all_eq_true.1 hab) p hp
  simp only [hfd, Bool.not_true, Bool.false_or] at h1
  have h2 := (List.all_eq_true.1 h1) u hu
  rcases hkind p hp hd u hu with hv | hn
  · cases hw : walk c.σ u with
    | var x => rw [hw] at h2; exact .inr ⟨x, rfl, h2⟩
    | _ => rw [hw] at hv; cases hv
  · cases hw : walk c.σ u with
    | val a =>
      cases a with
      | num n => exact .inl ⟨n, rfl⟩
      | _ => rw [hw] at hn; cases hn
    | _ => rw [hw] at hn; cases hn

/-- `C17_hidden_onceo` for EXACTLY the goal `enforce_constraints_fd` builds: the list of ALL keys of the domain store, in the
    hash-iteration order `ord.ds`, labelled with the model's fuel (more keys than the fuel would poison the result).  The key
    list contains every variable with a domain and — the keys being unbound (`C16_domain_keys_unbound`) — only variables in
    the state the lemma wants -/
theorem C17_hidden_onceo_model {ord : Order} (ho : OrderOK ord) (dfs : Call → State → State × G) (pf m : Nat)
    (N : Nat) (c : State) (ds ys : List State)
    (hn : c.dstore.length < forceFuel) (hi : LInv c) (hp : c.panic = none) (hops : OpsOK c)
    (h : evalRef dfs N (forceAns ord forceFuel (Term.ofList ((ord.ds c.dstore).map fun p => Term.var p.1))) c = some ds)
    (hall : ∀ t ∈ ds, t.panic = none)
    (hd : drainF (solveAt dfs pf (m + 1)) pf
      (start dfs (solveAt dfs pf (m + 1)) pf
        (Goal.conjOfList [forceAns ord forceFuel (Term.ofList ((ord.ds c.dstore).map fun p => Term.var p.1))]) c) = some ys) :
    start dfs (solveAt dfs pf (m + 1)) pf
        (Goal.onceo [forceAns ord forceFuel (Term.ofList ((ord.ds c.dstore).map fun p => Term.var p.1))]) c =
      firstStrm ys.head? ∧
    (∀ b, ys.head? = some b → b.dstore = [] ∧ (∀ p ∈ b.store, p.2.isDiseq = true) ∧ ∀ γ, Sem NoI γ b → Sem NoI γ c) ∧
    ((∃ γ, Sem NoI γ c) → ys.head?.isSome = true) ∧ (ds = [] → ys.head? = none) := by
  have hperm := ho.2.2 c.dstore
  have hmap : (ord.ds c.dstore).map (fun p => Term.var p.1) = ((ord.ds c.dstore).map (·.1)).map Term.var := by
    rw [List.map_map]; rfl
  rw [hmap] at h hd ⊢
  have hks : ∀ y, (c.dget y).isSome → y ∈ (ord.ds c.dstore).map (·.1) := fun y hy => by
    obtain ⟨q, hq, e⟩ := dget_isSome_iff.1 hy
    exact List.mem_map.2 ⟨q, hperm.mem_iff.2 hq, e⟩
  have hko : ∀ k ∈ (ord.ds c.dstore).map (·.1), c.σ k = .var k ∨ ∃ m, c.σ k = Term.num m := fun k hk => by
    obtain ⟨q, hq, e⟩ := List.mem_map.1 hk
    have : (c.dget k).isSome := dget_isSome_iff.2 ⟨q, hperm.mem_iff.1 hq, e⟩
    exact .inl ((hi.dk k this).elim id (fun f => f.elim))
  have hlen : ((ord.ds c.dstore).map (·.1)).length < forceFuel := by
    rw [List.length_map, hperm.length_eq]; exact hn
  exact (hidden_labelling_engine ho dfs pf m _ forceFuel N c ds ys hlen hi hp hops hks hko h hall hd).2

/-- ASSEMBLY OF `enforce_constraints_fd` ON THE ENGINE (Proofs/ReifyGoal.lean `enforce_compose`): the labelling of the
    query term delivers blocks `xs`; from block `c` the `onceo` over the remaining domain variables delivers `o c`
    (`C17_hidden_onceo`: at most one closed state, one iff the block has a solution).  The whole goal then delivers, in some
    engine order of the blocks, exactly the states `o c`: ONE answer per block with a solution, NONE for the others. -/
theorem C17_enforce_assembly (ord : Order) (dfs : Call → State → State × G) (pf M : Nat) (x : Term) (s : State) (N : Nat)
    (xs : List State) (o : State → Option State)
    (h1 : evalRef dfs N (forceAns ord forceFuel x) s = some xs)
    (hb : ∀ c ∈ xs, c.panic = none ∧ c.allBound = true ∧
      start dfs (solveAt dfs pf (M + 1)) pf
        (Goal.onceo [forceAns ord forceFuel (Term.ofList ((ord.ds c.dstore).map fun p => Term.var p.1))]) c = firstStrm (o c)) :
    ∃ xs', xs.Perm xs' ∧
      AnsS (solveAt dfs pf (M + 2)) (solveAt dfs pf (M + 2) (enforceFd ord x) s) (xs'.flatMap fun c => (o c).toList) :=
  enforce_compose dfs pf M ord x s N xs o h1 hb

/-- `enforce_constraints_fd` ON THE ENGINE, END TO END.  From a state `s` with the labelling invariants (every state a
    program of FD atoms reaches: `C17_labelling_invariants`) whose propagators' operands are numbers or variables with
    domains: let the labelling of the query term `x` deliver the blocks `xs` (textbook evaluation within the model's fuel).
    For every block, `verify_all_bound` passes, and the labelling of its domain variables finishes (`dsOf c`) and drains
    within the peek fuel (`ysOf c`).  Then the goal delivers — in some engine order of the blocks — exactly the heads
    `(ysOf c).head?`: for a block that describes a valuation ONE state, closed (empty domain store, no propagator) and
    describing only valuations of the block; for a block whose labelling finds nothing NONE.  Every assignment of the query
    term that extends to a solution is answered once; hidden variables add no answers. -/
theorem C17_enforce_exactly_once {ord : Order} (ho : OrderOK ord) (dfs : Call → State → State × G) (pf M : Nat)
    (x : Term) (s : State) (N : Nat) (xs : List State) (hi : LInv s) (hp : s.panic = none) (hops : OpsOK s)
    (h1 : evalRef dfs N (forceAns ord forceFuel x) s = some xs) (hall1 : ∀ c ∈ xs, c.panic = none)
    (NOf : State → Nat) (dsOf ysOf : State → List State)
    (hblk : ∀ c ∈ xs, c.allBound = true ∧ c.dstore.length < forceFuel ∧
      evalRef dfs (NOf c) (forceAns ord forceFuel (Term.ofList ((ord.ds c.dstore).map fun p => Term.var p.1))) c = some (dsOf c) ∧
      (∀ t ∈ dsOf c, t.panic = none) ∧
      drainF (solveAt dfs pf (M + 1)) pf
        (start dfs (solveAt dfs pf (M + 1)) pf
          (Goal.conjOfList [forceAns ord forceFuel (Term.ofList ((ord.ds c.dstore).map fun p => Term.var p.1))]) c) = some (ysOf c)) :
    (∃ xs', xs.Perm xs' ∧
      AnsS (solveAt dfs pf (M + 2)) (solveAt dfs pf (M + 2) (enforceFd ord x) s) (xs'.flatMap fun c => ((ysOf c).head?).toList)) ∧
    (∀ c ∈ xs,
      (∀ b, (ysOf c).head? = some b → b.dstore = [] ∧ (∀ p ∈ b.store, p.2.isDiseq = true) ∧ ∀ γ, Sem NoI γ b → Sem NoI γ c) ∧
      ((∃ γ, Sem NoI γ c) → ((ysOf c).head?).isSome = true) ∧ (dsOf c = [] → (ysOf c).head? = none)) := by
  have hb := blocks_inv ho dfs forceFuel N x s xs hi hp hops h1 hall1
  have key : ∀ c ∈ xs, _ := fun c hc => by
    obtain ⟨a1, a2, a3, a4, a5⟩ := hblk c hc
    obtain ⟨li, oc, _⟩ := hb c hc
    exact C17_hidden_onceo_model ho dfs pf M (NOf c) c (dsOf c) (ysOf c) a2 li (hall1 c hc) oc a3 a4 a5
  refine ⟨enforce_compose dfs pf M ord x s N xs (fun c => (ysOf c).head?) h1 fun c hc => ?_, fun c hc => (key c hc).2⟩
  exact ⟨hall1 c hc, (hblk c hc).1, (key c hc).1⟩

/-- LABELLING SEPARATES (Proofs/LabelSep.lean): two states `force_ans(x)` delivers at different positions give `x` DIFFERENT
    values, under any valuation the one describes and any the other describes -/
theorem C17_labelling_separates {ord : Order} (ho : OrderOK ord) (dfs : Call → State → State × G) (n N : Nat) (x : Term)
    (s : State) (zs : List State) (w : WFS s) (hi : Inv s) (hp : s.panic = none)
    (h : evalRef dfs N (forceAns ord n x) s = some zs) (hall : ∀ t ∈ zs, t.panic = none) :
    zs.Pairwise fun a b => ∀ γa γb, Sem NoI γa a → Sem NoI γb b → apply γa x ≠ apply γb x := by
  refine (forceAns_sep dfs ho n x N s zs w hi hp h hall).imp fun hab γa γb sa sb e => ?_
  exact hab γa γb sa sb (by simp only [List.map_cons, List.map_nil, e])

/-- EACH ASSIGNMENT OF THE QUERY TERM EXACTLY ONCE — the state-level content of C17, on the engine.  In the setting of
    `C17_enforce_exactly_once`: the answers `enforce_constraints_fd` delivers
    (1) give the query term PAIRWISE DIFFERENT values: whatever valuation one answer describes and whatever valuation another
        (at a different position) describes, they disagree on `x` — no assignment is answered twice;
    (2) cover every solution: every valuation the start state describes lies in a block of the labelling, and that block has
        an answer — no assignment that extends to a solution is lost. -/
theorem C17_each_assignment_once {ord : Order} (ho : OrderOK ord) (dfs : Call → State → State × G) (pf M : Nat)
    (x : Term) (s : State) (N : Nat) (xs : List State) (hi : LInv s) (hp : s.panic = none) (hops : OpsOK s)
    (h1 : evalRef dfs N (forceAns ord forceFuel x) s = some xs) (hall1 : ∀ c ∈ xs, c.panic = none)
    (NOf : State → Nat) (dsOf ysOf : State → List State)
    (hblk : ∀ c ∈ xs, c.allBound = true ∧ c.dstore.length < forceFuel ∧
      evalRef dfs (NOf c) (forceAns ord forceFuel (Term.ofList ((ord.ds c.dstore).map fun p => Term.var p.1))) c = some (dsOf c) ∧
      (∀ t ∈ dsOf c, t.panic = none) ∧
      drainF (solveAt dfs pf (M + 1)) pf
        (start dfs (solveAt dfs pf (M + 1)) pf
          (Goal.conjOfList [forceAns ord forceFuel (Term.ofList ((ord.ds c.dstore).map fun p => Term.var p.1))]) c) = some (ysOf c)) :
    ∃ xs', xs.Perm xs' ∧
      AnsS (solveAt dfs pf (M + 2)) (solveAt dfs pf (M + 2) (enforceFd ord x) s) (xs'.flatMap fun c => ((ysOf c).head?).toList) ∧
      (xs'.flatMap fun c => ((ysOf c).head?).toList).Pairwise
        (fun a b => ∀ γa γb, Sem NoI γa a → Sem NoI γb b → apply γa x ≠ apply γb x) ∧
      (∀ γ, Sem NoI γ s → ∃ c ∈ xs, Sem NoI γ c ∧ ∃ b, (ysOf c).head? = some b ∧
        b ∈ xs'.flatMap fun c => ((ysOf c).head?).toList) := by
  obtain ⟨⟨xs', px, ha⟩, hk⟩ := C17_enforce_exactly_once ho dfs pf M x s N xs hi hp hops h1 hall1 NOf dsOf ysOf hblk
  have sep := C17_labelling_separates ho dfs forceFuel N x s xs hi.w hi.i hp h1 hall1
  have part := (forceAns_labelOK dfs ho forceFuel x).1 N s xs hi.w hi.i hp h1 hall1
  have sep' : xs'.Pairwise fun a b => ∀ γa γb, Sem NoI γa a → Sem NoI γb b → apply γa x ≠ apply γb x :=
    (px.pairwise_iff (fun {a b} h γa γb sa sb e => h γb γa sb sa e.symm)).1 sep
  refine ⟨xs', px, ha, ?_, fun γ hγ => ?_⟩
  · rw [List.pairwise_flatMap]
    refine ⟨fun c _ => ?_, sep'.imp_of_mem fun {c1 c2} h1' h2' hab b1 hb1 b2 hb2 γa γb sa sb => ?_⟩
    · cases (ysOf c).head? with
      | none => exact List.Pairwise.nil
      | some b => exact List.pairwise_singleton _ _
    · have e1 : (ysOf c1).head? = some b1 := by
        cases hh : (ysOf c1).head? with
        | none => rw [hh] at hb1; cases hb1
        | some b => rw [hh] at hb1; simp only [Option.toList_some, List.mem_singleton] at hb1; rw [hb1]
      have e2 : (ysOf c2).head? = some b2 := by
        cases hh : (ysOf c2).head? with
        | none => rw [hh] at hb2; cases hb2
        | some b => rw [hh] at hb2; simp only [Option.toList_some, List.mem_singleton] at hb2; rw [hb2]
      exact hab γa γb ((hk c1 (px.mem_iff.2 h1')).1 b1 e1 |>.2.2 γa sa) ((hk c2 (px.mem_iff.2 h2')).1 b2 e2 |>.2.2 γb sb)
  · obtain ⟨c, hc, hs⟩ := part.2.1 γ hγ
    have hsome := (hk c hc).2.1 ⟨γ, hs⟩
    cases hh : (ysOf c).head? with
    | none => rw [hh] at hsome; cases hsome
    | some b =>
      refine ⟨c, hc, hs, b, hh, List.mem_flatMap.2 ⟨c, px.mem_iff.1 hc, ?_⟩⟩
      rw [hh]; exact List.mem_singleton.2 rfl

/-- C17, STATE LEVEL, COMPLETE: "every assignment of the query variables that satisfies all constraints within the domains is
    returned, and each is returned exactly once".  In the setting of `C17_enforce_exactly_once`, when every variable of the
    walked query term has a domain (Proofs/LabelGround.lean: the labelling then GROUNDS the query term in every block):
    (a) every answer gives the query term ONE value — the same under all valuations it describes;
    (b) the value ANY solution of the start state gives the query term is the value of some answer;
    (c) answers at different positions have different values (`C17_each_assignment_once`).
    So the answers are in one-to-one correspondence with the assignments of the query term that extend to a solution. -/
theorem C17_assignments_bijection {ord : Order} (ho : OrderOK ord) (dfs : Call → State → State × G) (pf M : Nat)
    (x : Term) (s : State) (N : Nat) (xs : List State) (hi : LInv s) (hp : s.panic = none) (hops : OpsOK s)
    (hdom : ∀ y ∈ (apply s.σ x).vars, (s.dget y).isSome)
    (h1 : evalRef dfs N (forceAns ord forceFuel x) s = some xs) (hall1 : ∀ c ∈ xs, c.panic = none)
    (NOf : State → Nat) (dsOf ysOf : State → List State)
    (hblk : ∀ c ∈ xs, c.allBound = true ∧ c.dstore.length < forceFuel ∧
      evalRef dfs (NOf c) (forceAns ord forceFuel (Term.ofList ((ord.ds c.dstore).map fun p => Term.var p.1))) c = some (dsOf c) ∧
      (∀ t ∈ dsOf c, t.panic = none) ∧
      drainF (solveAt dfs pf (M + 1)) pf
        (start dfs (solveAt dfs pf (M + 1)) pf
          (Goal.conjOfList [forceAns ord forceFuel (Term.ofList ((ord.ds c.dstore).map fun p => Term.var p.1))]) c) = some (ysOf c)) :
    ∃ xs', xs.Perm xs' ∧
      AnsS (solveAt dfs pf (M + 2)) (solveAt dfs pf (M + 2) (enforceFd ord x) s) (xs'.flatMap fun c => ((ysOf c).head?).toList) ∧
      (∀ b ∈ xs'.flatMap (fun c => ((ysOf c).head?).toList), ∃ v : Term, v.vars = [] ∧ ∀ γ, Sem NoI γ b → apply γ x = v) ∧
      (∀ γ, Sem NoI γ s → ∃ b ∈ xs'.flatMap (fun c => ((ysOf c).head?).toList), ∀ γ', Sem NoI γ' b → apply γ' x = apply γ x) ∧
      (xs'.flatMap fun c => ((ysOf c).head?).toList).Pairwise
        (fun a b => ∀ γa γb, Sem NoI γa a → Sem NoI γb b → apply γa x ≠ apply γb x) := by
  obtain ⟨xs', px, ha, hpw, hcov⟩ := C17_each_assignment_once ho dfs pf M x s N xs hi hp hops h1 hall1 NOf dsOf ysOf hblk
  obtain ⟨_, hk⟩ := C17_enforce_exactly_once ho dfs pf M x s N xs hi hp hops h1 hall1 NOf dsOf ysOf hblk
  have hg := blocks_ground ho dfs forceFuel N x s xs hi hp hdom h1 hall1
  refine ⟨xs', px, ha, fun b hb => ?_, fun γ hγ => ?_, hpw⟩
  · obtain ⟨c, hc, hbc⟩ := List.mem_flatMap.1 hb
    have hcx := px.mem_iff.2 hc
    have e : (ysOf c).head? = some b := by
      cases hh : (ysOf c).head? with
      | none => rw [hh] at hbc; cases hbc
      | some b' => rw [hh] at hbc; simp only [Option.toList_some, List.mem_singleton] at hbc; rw [hbc]
    obtain ⟨g1, g2⟩ := hg c hcx
    exact ⟨apply c.σ x, g1, fun γ hγ => g2 γ (((hk c hcx).1 b e).2.2 γ hγ)⟩
  · obtain ⟨c, hc, hs, b, e, hb⟩ := hcov γ hγ
    obtain ⟨_, g2⟩ := hg c hc
    exact ⟨b, hb, fun γ' hγ' => by rw [g2 γ' (((hk c hc).1 b e).2.2 γ' hγ'), g2 γ hs]⟩

/-! Non-vacuity.  `x, y in 1..2, x != y` (two solutions): `onceo` over the labelling of both variables delivers ONE closed
    state.  `x, y, z in 1..2`, pairwise different (no solution, but pairwise propagation does not see it): NO state. -/
section Examples
private def dfs0 : Call → State → State × G := fun _ a => (a, .fail)
private def x : Term := .var 0
private def y : Term := .var 1
private def z : Term := .var 2
example : (match postAllF Order.default (State.empty 2)
      [.dom x (.interval 1 2), .dom y (.interval 1 2), .cst (.diseqfd x y)] with
    | .ok c =>
      let r := runF (solveAt dfs0 60 2) 400 (start dfs0 (solveAt dfs0 60 2) 60
        (Goal.onceo [forceAns Order.default 10 (Term.ofList [x, y])]) c)
      r.length == 1 && r.all (fun b => b.dstore.length == 0 && b.store.length == 0) && c.dstore.length == 2
    | _ => false) = true := by decide +kernel
example : (match postAllF Order.default (State.empty 3)
      [.dom x (.interval 1 2), .dom y (.interval 1 2), .dom z (.interval 1 2),
       .cst (.diseqfd x y), .cst (.diseqfd y z), .cst (.diseqfd x z)] with
    | .ok c =>
      let r := runF (solveAt dfs0 60 2) 600 (start dfs0 (solveAt dfs0 60 2) 60
        (Goal.onceo [forceAns Order.default 10 (Term.ofList [x, y, z])]) c)
      r.length == 0 && c.dstore.length == 3
    | _ => false) = true := by decide +kernel
/-- the whole of `enforce_constraints_fd` on the engine, query term `[x]`, hidden `y`: `x, y in 1..2, x != y` — ONE answer per
    value of `x` (the hidden `y` is labelled once, not enumerated) -/
example : (match postAllF Order.default (State.empty 2)
      [.dom x (.interval 1 2), .dom y (.interval 1 2), .cst (.diseqfd x y)] with
    | .ok c =>
      let r := runF (solveAt dfs0 60 3) 900 (solveAt dfs0 60 3 (enforceFd Order.default (Term.ofList [x])) c)
      r.length == 2 && r.all (fun b => b.dstore.length == 0 && b.store.length == 0)
    | _ => false) = true := by decide +kernel
/-- … and with hidden `y, z` that cannot be completed (three pairwise different variables over two values): NO answer -/
example : (match postAllF Order.default (State.empty 3)
      [.dom x (.interval 1 2), .dom y (.interval 1 2), .dom z (.interval 1 2),
       .cst (.diseqfd x y), .cst (.diseqfd y z), .cst (.diseqfd x z)] with
    | .ok c =>
      (runF (solveAt dfs0 60 3) 1500 (solveAt dfs0 60 3 (enforceFd Order.default (Term.ofList [x])) c)).length == 0
    | _ => false) = true := by decide +kernel
end Examples

end Strict
end Pv
