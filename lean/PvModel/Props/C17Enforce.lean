/-
  C17 — "every assignment … is returned, and each is returned EXACTLY ONCE": the hidden variables.
  After the query term is labelled, `enforce_constraints_fd` runs `onceo { force_ans(all remaining domain variables) }`:
  the hidden (non-query) FD variables must have SOME consistent value, and contribute no further answers.
  Proofs/EnforceKeys.lean (on Proofs/Tight.lean, Labelled.lean, Label.lean, the engine theorems of C06/C08):
    * labelling ALL domain variables delivers only CLOSED states (empty domain store, no propagator), which describe
      only valuations of the start state, and delivers at least one whenever the start state has a solution
      (`C17_hidden_labelling_decides`, textbook semantics);
    * on the ENGINE, `onceo` over that labelling is the stream of AT MOST ONE state: one closed state when the start state
      has a solution, none when the labelling has no answer (`C17_hidden_onceo`).
  So a labelled query term that propagation let through although the hidden variables have no consistent values yields
  NO answer, and one with consistent hidden values yields exactly ONE — independent of the strength of propagation.
  Strict mode (no `distinctfd`), no CLP(Z) constraint on an FD variable.
-/
import PvModel.Proofs.EnforceKeys
import PvModel.Proofs.ReifyGoal
namespace Pv
open State Term Goal FD

section Strict
attribute [local instance] Mode.strict

/-- every state reached by posting atoms and then labelling equalities has the labelling invariants: well-formed,
    lifecycle invariant, domain-store keys unbound, every stored propagator live -/
theorem C17_labelling_invariants {ord : Order} (ho : OrderOK ord) (n : Nat) (as : List FAtom) (hok : ∀ a ∈ as, a.OK)
    (hnz : ∀ a ∈ as, a.NoZ) (ls : List (Int × Nat)) (s c : State)
    (h1 : postAllF ord (State.empty n) as = .ok s) (h2 : postAllF ord s (labelAtoms ls) = .ok c) : LInv c :=
  (reach_inv ho (linv_of_atoms ho n as hok hnz s h1) ⟨ls, h2⟩).1

/-- LABELLING ALL DOMAIN VARIABLES DECIDES (textbook semantics of the body of the `onceo`) -/
theorem C17_hidden_labelling_decides {ord : Order} (ho : OrderOK ord) (dfs : Call → State → State × G)
    (ks : List Nat) (n N : Nat) (c : State) (ds : List State) (hn : ks.length < n)
    (hi : LInv c) (hp : c.panic = none) (hops : OpsOK c) (hks : ∀ y, (c.dget y).isSome → y ∈ ks)
    (hko : ∀ k ∈ ks, c.σ k = .var k ∨ ∃ m, c.σ k = Term.num m)
    (h : evalRef dfs N (forceAns ord n (Term.ofList (ks.map Term.var))) c = some ds) (hall : ∀ t ∈ ds, t.panic = none) :
    (∀ d ∈ ds, d.dstore = [] ∧ (∀ p ∈ d.store, p.2.isDiseq = true) ∧ WFS d ∧ ∀ γ, Sem NoI γ d → Sem NoI γ c) ∧
    ((∃ γ, Sem NoI γ c) → ds ≠ []) :=
  keys_labelling_decides ho dfs ks n N c ds hn hi hp hops hks hko h hall

/-- THE `onceo` OVER THE HIDDEN VARIABLES, ON THE ENGINE (any nesting level ≥ 2, peek fuel `pf` that lets the labelling
    drain): at most one state; a closed one describing only valuations of `c` when `c` has a solution; none when the
    labelling has no answer -/
theorem C17_hidden_onceo {ord : Order} (ho : OrderOK ord) (dfs : Call → State → State × G) (pf m : Nat)
    (ks : List Nat) (n N : Nat) (c : State) (ds ys : List State)
    (hn : ks.length < n) (hi : LInv c) (hp : c.panic = none) (hops : OpsOK c) (hks : ∀ y, (c.dget y).isSome → y ∈ ks)
    (hko : ∀ k ∈ ks, c.σ k = .var k ∨ ∃ m, c.σ k = Term.num m)
    (h : evalRef dfs N (forceAns ord n (Term.ofList (ks.map Term.var))) c = some ds) (hall : ∀ t ∈ ds, t.panic = none)
    (hd : drainF (solveAt dfs pf (m + 1)) pf
      (start dfs (solveAt dfs pf (m + 1)) pf (Goal.conjOfList [forceAns ord n (Term.ofList (ks.map Term.var))]) c) = some ys) :
    ds.Perm ys ∧
    start dfs (solveAt dfs pf (m + 1)) pf (Goal.onceo [forceAns ord n (Term.ofList (ks.map Term.var))]) c =
      firstStrm ys.head? ∧
    (∀ b, ys.head? = some b → b.dstore = [] ∧ (∀ p ∈ b.store, p.2.isDiseq = true) ∧ ∀ γ, Sem NoI γ b → Sem NoI γ c) ∧
    ((∃ γ, Sem NoI γ c) → ys.head?.isSome = true) ∧ (ds = [] → ys.head? = none) :=
  hidden_labelling_engine ho dfs pf m ks n N c ds ys hn hi hp hops hks hko h hall hd

/-- ASSEMBLY OF `enforce_constraints_fd` ON THE ENGINE (Proofs/ReifyGoal.lean `enforce_compose`): the labelling of the
    query term delivers blocks `xs`; from block `c` the `onceo` over the remaining domain variables delivers `o c`
    (`C17_hidden_onceo`: at most one closed state, one iff the block has a solution).  The whole goal then delivers, in some
    engine order of the blocks, exactly the states `o c`: ONE answer per block with a solution, NONE for the others. -/
theorem C17_enforce_assembly (ord : Order) (dfs : Call → State → State × G) (pf M : Nat) (x : Term) (s : State) (N : Nat)
    (xs : List State) (o : State → Option State)
    (h1 : evalRef dfs N (forceAns ord forceFuel x) s = some xs)
    (hb : ∀ c ∈ xs, c.panic = none ∧ c.allBound = true ∧
      start dfs (solveAt dfs pf (M + 1)) pf
        (Goal.onceo [forceAns ord forceFuel (Term.ofList ((ord.ds c.dstore).map fun p => Term.var p.1))]) c = firstStrm (o c)) :
    ∃ xs', xs.Perm xs' ∧
      AnsS (solveAt dfs pf (M + 2)) (solveAt dfs pf (M + 2) (enforceFd ord x) s) (xs'.flatMap fun c => (o c).toList) :=
  enforce_compose dfs pf M ord x s N xs o h1 hb

/-! Non-vacuity.  `x, y in 1..2, x != y` (two solutions): `onceo` over the labelling of both variables delivers ONE closed
    state.  `x, y, z in 1..2`, pairwise different (no solution, but pairwise propagation does not see it): NO state. -/
section Examples
private def dfs0 : Call → State → State × G := fun _ a => (a, .fail)
private def x : Term := .var 0
private def y : Term := .var 1
private def z : Term := .var 2
example : (match postAllF Order.default (State.empty 2)
      [.dom x (.interval 1 2), .dom y (.interval 1 2), .cst (.diseqfd x y)] with
    | .ok c =>
      let r := runF (solveAt dfs0 60 2) 400 (start dfs0 (solveAt dfs0 60 2) 60
        (Goal.onceo [forceAns Order.default 10 (Term.ofList [x, y])]) c)
      r.length == 1 && r.all (fun b => b.dstore.length == 0 && b.store.length == 0) && c.dstore.length == 2
    | _ => false) = true := by decide +kernel
example : (match postAllF Order.default (State.empty 3)
      [.dom x (.interval 1 2), .dom y (.interval 1 2), .dom z (.interval 1 2),
       .cst (.diseqfd x y), .cst (.diseqfd y z), .cst (.diseqfd x z)] with
    | .ok c =>
      let r := runF (solveAt dfs0 60 2) 600 (start dfs0 (solveAt dfs0 60 2) 60
        (Goal.onceo [forceAns Order.default 10 (Term.ofList [x, y, z])]) c)
      r.length == 0 && c.dstore.length == 3
    | _ => false) = true := by decide +kernel
end Examples

end Strict
end Pv
