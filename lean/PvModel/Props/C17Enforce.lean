/-
  C17 — "every assignment … is returned, and each is returned EXACTLY ONCE": the hidden variables.
  After the query term is labelled, `enforce_constraints_fd` runs `onceo { force_ans(all remaining domain variables) }`:
  the hidden (non-query) FD variables must have SOME consistent value, and contribute no further answers.
  Proofs/EnforceKeys.lean (on Proofs/Tight.lean, Labelled.lean, Label.lean, the engine theorems of C06/C08):
    * labelling ALL domain variables delivers only CLOSED states (empty domain store, no propagator), which describe
      only valuations of the start state, and delivers at least one whenever the start state has a solution
      (`C17_hidden_labelling_decides`, textbook semantics);
    * on the ENGINE, `onceo` over that labelling is the stream of AT MOST ONE state: one closed state when the start state
      has a solution, none when the labelling has no answer (`C17_hidden_onceo`).
  So a labelled query term that propagation let through although the hidden variables have no consistent values yields
  NO answer, and one with consistent hidden values yields exactly ONE — independent of the strength of propagation.
  Strict mode (no `distinctfd`), no CLP(Z) constraint on an FD variable.
-/
import PvModel.Proofs.EnforceKeys
import PvModel.Props.C16Keys
import PvModel.Proofs.ReifyGoal
import PvModel.Proofs.LabelSep
import PvModel.Proofs.LabelGround
namespace Pv
open State Term Goal FD

section Strict
attribute [local instance] Mode.strict

/-- every state reached by posting atoms and then labelling equalities has the labelling invariants: well-formed,
    lifecycle invariant, domain-store keys unbound, every stored propagator live -/
theorem C17_labelling_invariants {ord : Order} (ho : OrderOK ord) (n : Nat) (as : List FAtom) (hok : ∀ a ∈ as, a.OK)
    (hnz : ∀ a ∈ as, a.NoZ) (ls : List (Int × Nat)) (s c : State)
    (h1 : postAllF ord (State.empty n) as = .ok s) (h2 : postAllF ord s (labelAtoms ls) = .ok c) : LInv c :=
  (reach_inv ho (linv_of_atoms ho n as hok hnz s h1) ⟨ls, h2⟩).1

/-- LABELLING ALL DOMAIN VARIABLES DECIDES (textbook semantics of the body of the `onceo`) -/
theorem C17_hidden_labelling_decides {ord : Order} (ho : OrderOK ord) (dfs : Call → State → State × G)
    (ks : List Nat) (n N : Nat) (c : State) (ds : List State) (hn : ks.length < n)
    (hi : LInv c) (hp : c.panic = none) (hops : OpsOK c) (hks : ∀ y, (c.dget y).isSome → y ∈ ks)
    (hko : ∀ k ∈ ks, c.σ k = .var k ∨ ∃ m, c.σ k = Term.num m)
    (h : evalRef dfs N (forceAns ord n (Term.ofList (ks.map Term.var))) c = some ds) (hall : ∀ t ∈ ds, t.panic = none) :
    (∀ d ∈ ds, d.dstore = [] ∧ (∀ p ∈ d.store, p.2.isDiseq = true) ∧ WFS d ∧ ∀ γ, Sem NoI γ d → Sem NoI γ c) ∧
    ((∃ γ, Sem NoI γ c) → ds ≠ []) :=
  keys_labelling_decides ho dfs ks n N c ds hn hi hp hops hks hko h hall

/-- THE `onceo` OVER THE HIDDEN VARIABLES, ON THE ENGINE (any nesting level ≥ 2, peek fuel `pf` that lets the labelling
    drain): at most one state; a closed one describing only valuations of `c` when `c` has a solution; none when the
    labelling has no answer -/
theorem C17_hidden_onceo {ord : Order} (ho : OrderOK ord) (dfs : Call → State → State × G) (pf m : Nat)
    (ks : List Nat) (n N : Nat) (c : State) (ds ys : List State)
    (hn : ks.length < n) (hi : LInv c) (hp : c.panic = none) (hops : OpsOK c) (hks : ∀ y, (c.dget y).isSome → y ∈ ks)
    (hko : ∀ k ∈ ks, c.σ k = .var k ∨ ∃ m, c.σ k = Term.num m)
    (h : evalRef dfs N (forceAns ord n (Term.ofList (ks.map Term.var))) c = some ds) (hall : ∀ t ∈ ds, t.panic = none)
    (hd : drainF (solveAt dfs pf (m + 1)) pf
      (start dfs (solveAt dfs pf (m + 1)) pf (Goal.conjOfList [forceAns ord n (Term.ofList (ks.map Term.var))]) c) = some ys) :
    ds.Perm ys ∧
    start dfs (solveAt dfs pf (m + 1)) pf (Goal.onceo [forceAns ord n (Term.ofList (ks.map Term.var))]) c =
      firstStrm ys.head? ∧
    (∀ b, ys.head? = some b → b.dstore = [] ∧ (∀ p ∈ b.store, p.2.isDiseq = true) ∧ ∀ γ, Sem NoI γ b → Sem NoI γ c) ∧
    ((∃ γ, Sem NoI γ c) → ys.head?.isSome = true) ∧ (ds = [] → ys.head? = none) :=
  hidden_labelling_engine ho dfs pf m ks n N c ds ys hn hi hp hops hks hko h hall hd

/-- `verify_all_bound` + the documented operand kinds give `OpsOK`: if `allBound` answers true, no CLP(Z) constraint is
    stored and every operand of every stored propagator walks to a variable or a number, then every operand is a number or
    a variable WITH A DOMAIN -/
theorem C17_opsOK_of_allBound (c : State) (hab : c.allBound = true) (hz : NoZ c)
    (hkind : ∀ p ∈ c.store, p.2.isDiseq = false → ∀ u ∈ operandsOf p.2, (walk c.σ u).isVar = true ∨ (walk c.σ u).isNum = true) :
    OpsOK c := by
  intro p hp hd u hu
  have hfd : p.2.isFD = true := by
    have := hz p hp
    cases hc : p.2 <;> simp_all [Cst.isDiseq, Cst.isFD, Cst.isZ]
  unfold State.allBound at hab
  have h1 := (List.all_eq_true.1 hab) p hp
  simp only [hfd, Bool.not_true, Bool.false_or] at h1
  have h2 := (List.all_eq_true.1 h1) u hu
  rcases hkind p hp hd u hu with hv | hn
  · cases hw : walk c.σ u with
    | var x => rw [hw] at h2; exact .inr ⟨x, rfl, h2⟩
    | _ => rw [hw] at hv; cases hv
  · cases hw : walk c.σ u with
    | val a =>
      cases a with
      | num n => exact .inl ⟨n, rfl⟩
      | _ => rw [hw] at hn; cases hn
    | _ => rw [hw] at hn; cases hn

/-- `C17_hidden_onceo` for EXACTLY the goal `enforce_constraints_fd` builds: the list of ALL keys of the domain store, in the
    hash-iteration order `ord.ds`, labelled with the model's fuel (more keys than the fuel would poison the result).  The key
    list contains every variable with a domain and — the keys being unbound (`C16_domain_keys_unbound`) — only variables in
    the state the lemma wants -/
theorem C17_hidden_onceo_model {ord : Order} (ho : OrderOK ord) (dfs : Call → State → State × G) (pf m : Nat)
    (N : Nat) (c : State) (ds ys : List State)
    (hn : c.dstore.length < forceFuel) (hi : LInv c) (hp : c.panic = none) (hops : OpsOK c)
    (h : evalRef dfs N (forceAns ord forceFuel (Term.ofList ((ord.ds c.dstore).map fun p => Term.var p.1))) c = some ds)
    (hall : ∀ t ∈ ds, t.panic = none)
    (hd : drainF (solveAt dfs pf (m + 1)) pf
      (start dfs (solveAt dfs pf (m + 1)) pf
        (Goal.conjOfList [forceAns ord forceFuel (Term.ofList ((ord.ds c.dstore).map fun p => Term.var p.1))]) c) = some ys) :
    start dfs (solveAt dfs pf (m + 1)) pf
        (Goal.onceo [forceAns ord forceFuel (Term.ofList ((ord.ds c.dstore).map fun p => Term.var p.1))]) c =
      firstStrm ys.head? ∧
    (∀ b, ys.head? = some b → b.dstore = [] ∧ (∀ p ∈ b.store, p.2.isDiseq = true) ∧ ∀ γ, Sem NoI γ b → Sem NoI γ c) ∧
    ((∃ γ, Sem NoI γ c) → ys.head?.isSome = true) ∧ (ds = [] → ys.head? = none) := by
  have hperm := ho.2.2 c.dstore
  have hmap : (ord.ds c.dstore).map (fun p => Term.var p.1) = ((ord.ds c.dstore).map (·.1)).map Term.var := by
    rw [List.map_map]; rfl
  rw [hmap] at h hd ⊢
  have hks : ∀ y, (c.dget y).isSome → y ∈ (ord.ds c.dstore).map (·.1) := fun y hy => by
    obtain ⟨q, hq, e⟩ := dget_isSome_iff.1 hy
    exact List.mem_map.2 ⟨q, hperm.mem_iff.2 hq, e⟩
  have hko : ∀ k ∈ (ord.ds c.dstore).map (·.1), c.σ k = .var k ∨ ∃ m, c.σ k = Term.num m := fun k hk => by
    obtain ⟨q, hq, e⟩ := List.mem_map.1 hk
    have : (c.dget k).isSome := dget_isSome_iff.2 ⟨q, hperm.mem_iff.1 hq, e⟩
    exact .inl ((hi.dk k this).elim id (fun f => f.elim))
  have hlen : ((ord.ds c.dstore).map (·.1)).length < forceFuel := by
    rw [List.length_map, hperm.length_eq]; exact hn
  exact (hidden_labelling_engine ho dfs pf m _ forceFuel N c ds ys hlen hi hp hops hks hko h hall hd).2

/-- ASSEMBLY OF `enforce_constraints_fd` ON THE ENGINE (Proofs/ReifyGoal.lean `enforce_compose`): the labelling of the
    query term delivers blocks `xs`; from block `c` the `onceo` over the remaining domain variables delivers `o c`
    (`C17_hidden_onceo`: at most one closed state, one iff the block has a solution).  The whole goal then delivers, in some
    engine order of the blocks, exactly the states `o c`: ONE answer per block with a solution, NONE for the others. -/
theorem C17_enforce_assembly (ord : Order) (dfs : Call → State → State × G) (pf M : Nat) (x : Term) (s : State) (N : Nat)
    (xs : List State) (o : State → Option State)
    (h1 : evalRef dfs N (forceAns ord forceFuel x) s = some xs)
    (hb : ∀ c ∈ xs, c.panic = none ∧ c.allBound = true ∧
      start dfs (solveAt dfs pf (M + 1)) pf
        (Goal.onceo [forceAns ord forceFuel (Term.ofList ((ord.ds c.dstore).map fun p => Term.var p.1))]) c = firstStrm (o c)) :
    ∃ xs', xs.Perm xs' ∧
      AnsS (solveAt dfs pf (M + 2)) (solveAt dfs pf (M + 2) (enforceFd ord x) s) (xs'.flatMap fun c => (o c).toList) :=
  enforce_compose dfs pf M ord x s N xs o h1 hb

/-- `enforce_constraints_fd` ON THE ENGINE, END TO END.  From a state `s` with the labelling invariants (every state a
    program of FD atoms reaches: `C17_labelling_invariants`) whose propagators' operands are numbers or variables with
    domains: let the labelling of the query term `x` deliver the blocks `xs` (textbook evaluation within the model's fuel).
    For every block, `verify_all_bound` passes, and the labelling of its domain variables finishes (`dsOf c`) and drains
    within the peek fuel (`ysOf c`).  Then the goal delivers — in some engine order of the blocks — exactly the heads
    `(ysOf c).head?`: for a block that describes a valuation ONE state, closed (empty domain store, no propagator) and
    describing only valuations of the block; for a block whose labelling finds nothing NONE.  Every assignment of the query
    term that extends to a solution is answered once; hidden variables add no answers. -/
theorem C17_enforce_exactly_once {ord : Order} (ho : OrderOK ord) (dfs : Call → State → State × G) (pf M : Nat)
    (x : Term) (s : State) (N : Nat) (xs : List State) (hi : LInv s) (hp : s.panic = none) (hops : OpsOK s)
    (h1 : evalRef dfs N (forceAns ord forceFuel x) s = some xs) (hall1 : ∀ c ∈ xs, c.panic = none)
    (NOf : State → Nat) (dsOf ysOf : State → List State)
    (hblk : ∀ c ∈ xs, c.allBound = true ∧ c.dstore.length < forceFuel ∧
      evalRef dfs (NOf c) (forceAns ord forceFuel (Term.ofList ((ord.ds c.dstore).map fun p => Term.var p.1))) c = some (dsOf c) ∧
      (∀ t ∈ dsOf c, t.panic = none) ∧
      drainF (solveAt dfs pf (M + 1)) pf
        (start dfs (solveAt dfs pf (M + 1)) pf
          (Goal.conjOfList [forceAns ord forceFuel (Term.ofList ((ord.ds c.dstore).map fun p => Term.var p.1))]) c) = some (ysOf c)) :
    (∃ xs', xs.Perm xs' ∧
      AnsS (solveAt dfs pf (M + 2)) (solveAt dfs pf (M + 2) (enforceFd ord x) s) (xs'.flatMap fun c => ((ysOf c).head?).toList)) ∧
    (∀ c ∈ xs,
      (∀ b, (ysOf c).head? = some b → b.dstore = [] ∧ (∀ p ∈ b.store, p.2.isDiseq = true) ∧ ∀ γ, Sem NoI γ b → Sem NoI γ c) ∧
      ((∃ γ, Sem NoI γ c) → ((ysOf c).head?).isSome = true) ∧ (dsOf c = [] → (ysOf c).head? = none)) := by
  have hb := blocks_inv ho dfs forceFuel N x s xs hi hp hops h1 hall1
  have key : ∀ c ∈ xs, _ := fun c hc => by
    obtain ⟨a1, a2, a3, a4, a5⟩ := hblk c hc
    obtain ⟨li, oc, _⟩ := hb c hc
    exact C17_hidden_onceo_model ho dfs pf M (NOf c) c (dsOf c) (ysOf c) a2 li (hall1 c hc) oc a3 a4 a5
  refine ⟨enforce_compose dfs pf M ord x s N xs (fun c => (ysOf c).head?) h1 fun c hc => ?_, fun c hc => (key c hc).2⟩
  exact ⟨hall1 c hc, (hblk c hc).1, (key c hc).1⟩

/-- LABELLING SEPARATES (Proofs/LabelSep.lean): two states `force_ans(x)` delivers at different positions give `x` DIFFERENT
    values, under any valuation the one describes and any the other describes -/
theorem C17_labelling_separates {ord : Order} (ho : OrderOK ord) (dfs : Call → State → State × G) (n N : Nat) (x : Term)
    (s : State) (zs : List State) (w : WFS s) (hi : Inv s) (hp : s.panic = none)
    (h : evalRef dfs N (forceAns ord n x) s = some zs) (hall : ∀ t ∈ zs, t.panic = none) :
    zs.Pairwise fun a b => ∀ γa γb, Sem NoI γa a → Sem NoI γb b → apply γa x ≠ apply γb x := by
  refine (forceAns_sep dfs ho n x N s zs w hi hp h hall).imp fun hab γa γb sa sb e => ?_
  exact hab γa γb sa sb (by simp only [List.map_cons, List.map_nil, e])

/-- EACH ASSIGNMENT OF THE QUERY TERM EXACTLY ONCE — the state-level content of C17, on the engine.  In the setting of
    `C17_enforce_exactly_once`: the answers `enforce_constraints_fd` delivers
    (1) give the query term PAIRWISE DIFFERENT values: whatever valuation one answer describes and whatever valuation another
        (at a different position) describes, they disagree on `x` — no assignment is answered twice;
    (2) cover every solution: every valuation the start state describes lies in a block of the labelling, and that block has
        an answer — no assignment that extends to a solution is lost. -/
theorem C17_each_assignment_once {ord : Order} (ho : OrderOK ord) (dfs : Call → State → State × G) (pf M : Nat)
    (x : Term) (s : State) (N : Nat) (xs : List State) (hi : LInv s) (hp : s.panic = none) (hops : OpsOK s)
    (h1 : evalRef dfs N (forceAns ord forceFuel x) s = some xs) (hall1 : ∀ c ∈ xs, c.panic = none)
    (NOf : State → Nat) (dsOf ysOf : State → List State)
    (hblk : ∀ c ∈ xs, c.allBound = true ∧ c.dstore.length < forceFuel ∧
      evalRef dfs (NOf c) (forceAns ord forceFuel (Term.ofList ((ord.ds c.dstore).map fun p => Term.var p.1))) c = some (dsOf c) ∧
      (∀ t ∈ dsOf c, t.panic = none) ∧
      drainF (solveAt dfs pf (M + 1)) pf
        (start dfs (solveAt dfs pf (M + 1)) pf
          (Goal.conjOfList [forceAns ord forceFuel (Term.ofList ((ord.ds c.dstore).map fun p => Term.var p.1))]) c) = some (ysOf c)) :
    ∃ xs', xs.Perm xs' ∧
      AnsS (solveAt dfs pf (M + 2)) (solveAt dfs pf (M + 2) (enforceFd ord x) s) (xs'.flatMap fun c => ((ysOf c).head?).toList) ∧
      (xs'.flatMap fun c => ((ysOf c).head?).toList).Pairwise
        (fun a b => ∀ γa γb, Sem NoI γa a → Sem NoI γb b → apply γa x ≠ apply γb x) ∧
      (∀ γ, Sem NoI γ s → ∃ c ∈ xs, Sem NoI γ c ∧ ∃ b, (ysOf c).head? = some b ∧
        b ∈ xs'.flatMap fun c => ((ysOf c).head?).toList) := by
  obtain ⟨⟨xs', px, ha⟩, hk⟩ := C17_enforce_exactly_once ho dfs pf M x s N xs hi hp hops h1 hall1 NOf dsOf ysOf hblk
  have sep := C17_labelling_separates ho dfs forceFuel N x s xs hi.w hi.i hp h1 hall1
  have part := (forceAns_labelOK dfs ho forceFuel x).1 N s xs hi.w hi.i hp h1 hall1
  have sep' : xs'.Pairwise fun a b => ∀ γa γb, Sem NoI γa a → Sem NoI γb b → apply γa x ≠ apply γb x :=
    (px.pairwise_iff (fun {a b} h γa γb sa sb e => h γb γa sb sa e.symm)).1 sep
  refine ⟨xs', px, ha, ?_, fun γ hγ => ?_⟩
  · rw [List.pairwise_flatMap]
    refine ⟨fun c _ => ?_, sep'.imp_of_mem fun {c1 c2} h1' h2' hab b1 hb1 b2 hb2 γa γb sa sb => ?_⟩
    · cases (ysOf c).head? with
      | none => exact List.Pairwise.nil
      | some b => exact List.pairwise_singleton _ _
    · have e1 : (ysOf c1).head? = some b1 := by
        cases hh : (ysOf c1).head? with
        | none => rw [hh] at hb1; cases hb1
        | some b => rw [hh] at hb1; simp only [Option.toList_some, List.mem_singleton] at hb1; rw [hb1]
      have e2 : (ysOf c2).head? = some b2 := by
        cases hh : (ysOf c2).head? with
        | none => rw [hh] at hb2; cases hb2
        | some b => rw [hh] at hb2; simp only [Option.toList_some, List.mem_singleton] at hb2; rw [hb2]
      exact hab γa γb ((hk c1 (px.mem_iff.2 h1')).1 b1 e1 |>.2.2 γa sa) ((hk c2 (px.mem_iff.2 h2')).1 b2 e2 |>.2.2 γb sb)
  · obtain ⟨c, hc, hs⟩ := part.2.1 γ hγ
    have hsome := (hk c hc).2.1 ⟨γ, hs⟩
    cases hh : (ysOf c).head? with
    | none => rw [hh] at hsome; cases hsome
    | some b =>
      refine ⟨c, hc, hs, b, hh, List.mem_flatMap.2 ⟨c, px.mem_iff.1 hc, ?_⟩⟩
      rw [hh]; exact List.mem_singleton.2 rfl

/-- C17, STATE LEVEL, COMPLETE: "every assignment of the query variables that satisfies all constraints within the domains is
    returned, and each is returned exactly once".  In the setting of `C17_enforce_exactly_once`, when every variable of the
    walked query term has a domain (Proofs/LabelGround.lean: the labelling then GROUNDS the query term in every block):
    (a) every answer gives the query term ONE value — the same under all valuations it describes;
    (b) the value ANY solution of the start state gives the query term is the value of some answer;
    (c) answers at different positions have different values (`C17_each_assignment_once`).
    So the answers are in one-to-one correspondence with the assignments of the query term that extend to a solution. -/
theorem C17_assignments_bijection {ord : Order} (ho : OrderOK ord) (dfs : Call → State → State × G) (pf M : Nat)
    (x : Term) (s : State) (N : Nat) (xs : List State) (hi : LInv s) (hp : s.panic = none) (hops : OpsOK s)
    (hdom : ∀ y ∈ (apply s.σ x).vars, (s.dget y).isSome)
    (h1 : evalRef dfs N (forceAns ord forceFuel x) s = some xs) (hall1 : ∀ c ∈ xs, c.panic = none)
    (NOf : State → Nat) (dsOf ysOf : State → List State)
    (hblk : ∀ c ∈ xs, c.allBound = true ∧ c.dstore.length < forceFuel ∧
      evalRef dfs (NOf c) (forceAns ord forceFuel (Term.ofList ((ord.ds c.dstore).map fun p => Term.var p.1))) c = some (dsOf c) ∧
      (∀ t ∈ dsOf c, t.panic = none) ∧
      drainF (solveAt dfs pf (M + 1)) pf
        (start dfs (solveAt dfs pf (M + 1)) pf
          (Goal.conjOfList [forceAns ord forceFuel (Term.ofList ((ord.ds c.dstore).map fun p => Term.var p.1))]) c) = some (ysOf c)) :
    ∃ xs', xs.Perm xs' ∧
      AnsS (solveAt dfs pf (M + 2)) (solveAt dfs pf (M + 2) (enforceFd ord x) s) (xs'.flatMap fun c => ((ysOf c).head?).toList) ∧
      (∀ b ∈ xs'.flatMap (fun c => ((ysOf c).head?).toList), ∃ v : Term, v.vars = [] ∧ ∀ γ, Sem NoI γ b → apply γ x = v) ∧
      (∀ γ, Sem NoI γ s → ∃ b ∈ xs'.flatMap (fun c => ((ysOf c).head?).toList), ∀ γ', Sem NoI γ' b → apply γ' x = apply γ x) ∧
      (xs'.flatMap fun c => ((ysOf c).head?).toList).Pairwise
        (fun a b => ∀ γa γb, Sem NoI γa a → Sem NoI γb b → apply γa x ≠ apply γb x) := by
  obtain ⟨xs', px, ha, hpw, hcov⟩ := C17_each_assignment_once ho dfs pf M x s N xs hi hp hops h1 hall1 NOf dsOf ysOf hblk
  obtain ⟨_, hk⟩ := C17_enforce_exactly_once ho dfs pf M x s N xs hi hp hops h1 hall1 NOf dsOf ysOf hblk
  have hg := blocks_ground ho dfs forceFuel N x s xs hi hp hdom h1 hall1
  refine ⟨xs', px, ha, fun b hb => ?_, fun γ hγ => ?_, hpw⟩
  · obtain ⟨c, hc, hbc⟩ := List.mem_flatMap.1 hb
    have hcx := px.mem_iff.2 hc
    have e : (ysOf c).head? = some b := by
      cases hh : (ysOf c).head? with
      | none => rw [hh] at hbc; cases hbc
      | some b' => rw [hh] at hbc; simp only [Option.toList_some, List.mem_singleton] at hbc; rw [hbc]
    obtain ⟨g1, g2⟩ := hg c hcx
    exact ⟨apply c.σ x, g1, fun γ hγ => g2 γ (((hk c hcx).1 b e).2.2 γ hγ)⟩
  · obtain ⟨c, hc, hs, b, e, hb⟩ := hcov γ hγ
    obtain ⟨_, g2⟩ := hg c hc
    exact ⟨b, hb, fun γ' hγ' => by rw [g2 γ' (((hk c hc).1 b e).2.2 γ' hγ'), g2 γ hs]⟩

/-! Non-vacuity.  `x, y in 1..2, x != y` (two solutions): `onceo` over the labelling of both variables delivers ONE closed
    state.  `x, y, z in 1..2`, pairwise different (no solution, but pairwise propagation does not see it): NO state. -/
section Examples
private def dfs0 : Call → State → State × G := fun _ a => (a, .fail)
private def x : Term := .var 0
private def y : Term := .var 1
private def z : Term := .var 2
example : (match postAllF Order.default (State.empty 2)
      [.dom x (.interval 1 2), .dom y (.interval 1 2), .cst (.diseqfd x y)] with
    | .ok c =>
      let r := runF (solveAt dfs0 60 2) 400 (start dfs0 (solveAt dfs0 60 2) 60
        (Goal.onceo [forceAns Order.default 10 (Term.ofList [x, y])]) c)
      r.length == 1 && r.all (fun b => b.dstore.length == 0 && b.store.length == 0) && c.dstore.length == 2
    | _ => false) = true := by decide +kernel
example : (match postAllF Order.default (State.empty 3)
      [.dom x (.interval 1 2), .dom y (.interval 1 2), .dom z (.interval 1 2),
       .cst (.diseqfd x y), .cst (.diseqfd y z), .cst (.diseqfd x z)] with
    | .ok c =>
      let r := runF (solveAt dfs0 60 2) 600 (start dfs0 (solveAt dfs0 60 2) 60
        (Goal.onceo [forceAns Order.default 10 (Term.ofList [x, y, z])]) c)
      r.length == 0 && c.dstore.length == 3
    | _ => false) = true := by decide +kernel
/-- the whole of `enforce_constraints_fd` on the engine, query term `[x]`, hidden `y`: `x, y in 1..2, x != y` — ONE answer per
    value of `x` (the hidden `y` is labelled once, not enumerated) -/
example : (match postAllF Order.default (State.empty 2)
      [.dom x (.interval 1 2), .dom y (.interval 1 2), .cst (.diseqfd x y)] with
    | .ok c =>
      let r := runF (solveAt dfs0 60 3) 900 (solveAt dfs0 60 3 (enforceFd Order.default (Term.ofList [x])) c)
      r.length == 2 && r.all (fun b => b.dstore.length == 0 && b.store.length == 0)
    | _ => false) = true := by decide +kernel
/-- … and with hidden `y, z` that cannot be completed (three pairwise different variables over two values): NO answer -/
example : (match postAllF Order.default (State.empty 3)
      [.dom x (.interval 1 2), .dom y (.interval 1 2), .dom z (.interval 1 2),
       .cst (.diseqfd x y), .cst (.diseqfd y z), .cst (.diseqfd x z)] with
    | .ok c =>
      (runF (solveAt dfs0 60 3) 1500 (solveAt dfs0 60 3 (enforceFd Order.default (Term.ofList [x])) c)).length == 0
    | _ => false) = true := by decide +kernel
end Examples

/-- THE LIST OF ANSWER VALUES.  In the setting of `C17_assignments_bijection`, when no answer holds a tree disequality (FD
    programs without `!=`): the values `apply b.σ x` the answers report for the query term form a list WITHOUT DUPLICATES whose
    elements are exactly the values the query term takes under the valuations the start state describes. -/
theorem C17_answer_values {ord : Order} (ho : OrderOK ord) (dfs : Call → State → State × G) (pf M : Nat)
    (x : Term) (s : State) (N : Nat) (xs : List State) (hi : LInv s) (hp : s.panic = none) (hops : OpsOK s)
    (hdom : ∀ y ∈ (apply s.σ x).vars, (s.dget y).isSome)
    (h1 : evalRef dfs N (forceAns ord forceFuel x) s = some xs) (hall1 : ∀ c ∈ xs, c.panic = none)
    (NOf : State → Nat) (dsOf ysOf : State → List State)
    (hblk : ∀ c ∈ xs, c.allBound = true ∧ c.dstore.length < forceFuel ∧
      evalRef dfs (NOf c) (forceAns ord forceFuel (Term.ofList ((ord.ds c.dstore).map fun p => Term.var p.1))) c = some (dsOf c) ∧
      (∀ t ∈ dsOf c, t.panic = none) ∧
      drainF (solveAt dfs pf (M + 1)) pf
        (start dfs (solveAt dfs pf (M + 1)) pf
          (Goal.conjOfList [forceAns ord forceFuel (Term.ofList ((ord.ds c.dstore).map fun p => Term.var p.1))]) c) = some (ysOf c))
    (hnd : ∀ c ∈ xs, ∀ b, (ysOf c).head? = some b → b.store = []) :
    ∃ xs', xs.Perm xs' ∧
      AnsS (solveAt dfs pf (M + 2)) (solveAt dfs pf (M + 2) (enforceFd ord x) s) (xs'.flatMap fun c => ((ysOf c).head?).toList) ∧
      ((xs'.flatMap fun c => ((ysOf c).head?).toList).map fun b => apply b.σ x).Nodup ∧
      ∀ v, v ∈ ((xs'.flatMap fun c => ((ysOf c).head?).toList).map fun b => apply b.σ x) ↔ ∃ γ, Sem NoI γ s ∧ apply γ x = v := by
  obtain ⟨xs', px, ha, hval, hcov, hpw⟩ :=
    C17_assignments_bijection ho dfs pf M x s N xs hi hp hops hdom h1 hall1 NOf dsOf ysOf hblk
  obtain ⟨_, hk⟩ := C17_enforce_exactly_once ho dfs pf M x s N xs hi hp hops h1 hall1 NOf dsOf ysOf hblk
  have hb := blocks_inv ho dfs forceFuel N x s xs hi hp hops h1 hall1
  have part := (forceAns_labelOK dfs ho forceFuel x).1 N s xs hi.w hi.i hp h1 hall1
  -- every answer describes its own substitution, and only valuations of the start state
  have hself : ∀ b ∈ xs'.flatMap (fun c => ((ysOf c).head?).toList), Sem NoI b.σ b ∧ ∀ γ, Sem NoI γ b → Sem NoI γ s := by
    intro b hbm
    obtain ⟨c, hc, hbc⟩ := List.mem_flatMap.1 hbm
    have hcx := px.mem_iff.2 hc
    have e : (ysOf c).head? = some b := by
      cases hh : (ysOf c).head? with
      | none => rw [hh] at hbc; cases hbc
      | some b' => rw [hh] at hbc; simp only [Option.toList_some, List.mem_singleton] at hbc; rw [hbc]
    obtain ⟨a1, a2, a3, a4, a5⟩ := hblk c hcx
    obtain ⟨li, oc, _⟩ := hb c hcx
    have hperm := ho.2.2 c.dstore
    have hmap : (ord.ds c.dstore).map (fun p => Term.var p.1) = ((ord.ds c.dstore).map (·.1)).map Term.var := by
      rw [List.map_map]; rfl
    rw [hmap] at a3 a5
    have hks : ∀ y, (c.dget y).isSome → y ∈ (ord.ds c.dstore).map (·.1) := fun y hy => by
      obtain ⟨q, hq, e'⟩ := dget_isSome_iff.1 hy
      exact List.mem_map.2 ⟨q, hperm.mem_iff.2 hq, e'⟩
    have hko : ∀ k ∈ (ord.ds c.dstore).map (·.1), KeyOK c k := fun k hk' => by
      obtain ⟨q, hq, e'⟩ := List.mem_map.1 hk'
      have : (c.dget k).isSome := dget_isSome_iff.2 ⟨q, hperm.mem_iff.1 hq, e'⟩
      exact .inl ((li.dk k this).elim id (fun f => f.elim))
    have hlen : ((ord.ds c.dstore).map (·.1)).length < forceFuel := by
      rw [List.length_map, hperm.length_eq]; exact a2
    have hle := hidden_labelling_engine ho dfs pf M _ forceFuel (NOf c) c (dsOf c) (ysOf c) hlen li (hall1 c hcx) oc hks hko a3 a4 a5
    have hbds : b ∈ dsOf c := hle.1.mem_iff.2 (List.mem_of_mem_head? e)
    obtain ⟨k1, _⟩ := keys_labelling_decides ho dfs _ forceFuel (NOf c) c (dsOf c) hlen li (hall1 c hcx) oc hks hko a3 a4
    obtain ⟨d1, _, wb, sub⟩ := k1 b hbds
    have hst := hnd c hcx b e
    refine ⟨⟨Ext.refl _ wb.solved, by rw [hst]; simp, by unfold DomSem; rw [d1]; simp⟩, fun γ hγ => ?_⟩
    exact (part.1 c hcx).2.2 γ (sub γ hγ)
  refine ⟨xs', px, ha, ?_, fun v => ⟨fun hv => ?_, fun ⟨γ, hγ, e⟩ => ?_⟩⟩
  · rw [List.nodup_iff_pairwise_ne, List.pairwise_map]
    exact hpw.imp_of_mem fun {a b} ha' hb' hab => hab a.σ b.σ (hself a ha').1 (hself b hb').1
  · obtain ⟨b, hbm, rfl⟩ := List.mem_map.1 hv
    exact ⟨b.σ, (hself b hbm).2 _ (hself b hbm).1, rfl⟩
  · obtain ⟨b, hbm, hsame⟩ := hcov γ hγ
    exact List.mem_map.2 ⟨b, hbm, by rw [hsame b.σ (hself b hbm).1, e]⟩

/-- C04 FOR FINITE-DOMAIN ANSWERS, per path: two states that describe the same valuations (the same conjuncts posted in two
    orders: `C04_fd_conj_comm`) yield — through labelling, the `onceo` over the hidden variables, on the engine — answer lists
    whose values for the query term are PERMUTATIONS of each other: the multiset of answers does not depend on the order of
    the conjuncts, whatever the strength of propagation along either order. -/
theorem C04_fd_answer_values_perm (x : Term) (s1 s2 : State) (V1 V2 : List Term)
    (hsem : ∀ γ, Sem NoI γ s1 ↔ Sem NoI γ s2)
    (n1 : V1.Nodup) (m1 : ∀ v, v ∈ V1 ↔ ∃ γ, Sem NoI γ s1 ∧ apply γ x = v)
    (n2 : V2.Nodup) (m2 : ∀ v, v ∈ V2 ↔ ∃ γ, Sem NoI γ s2 ∧ apply γ x = v) : V1.Perm V2 := by
  refine (List.perm_ext_iff_of_nodup n1 n2).2 fun v => ?_
  rw [m1 v, m2 v]
  exact ⟨fun ⟨γ, a, b⟩ => ⟨γ, (hsem γ).1 a, b⟩, fun ⟨γ, a, b⟩ => ⟨γ, (hsem γ).2 a, b⟩⟩

/-- C16 FOR THE ANSWERS `enforce_constraints_fd` ACTUALLY DELIVERS.  Post the atoms `as` (FD constraints, domains, `==`, `!=`;
    any order, aliasing, hash order) from the empty state, reaching `s`; run `enforce_constraints_fd` on the query term as in
    `C17_enforce_exactly_once`.  Every answer `b` that holds no tree disequality satisfies EVERY posted atom under its own
    substitution: each constrained variable is an integer of its domain and every constraint holds — for the states the
    engine really delivers (the labelling of the query term, then the first labelling of the hidden variables), not only
    for hypothetical closed states. -/
theorem C16_enforce_answers_sound {ord : Order} (ho : OrderOK ord) (dfs : Call → State → State × G) (pf M : Nat)
    (n : Nat) (as : List FAtom) (hok : ∀ a ∈ as, a.OK) (hnz : ∀ a ∈ as, a.NoZ)
    (x : Term) (s : State) (hs : postAllF ord (State.empty n) as = .ok s) (N : Nat) (xs : List State)
    (hp : s.panic = none) (hops : OpsOK s)
    (h1 : evalRef dfs N (forceAns ord forceFuel x) s = some xs) (hall1 : ∀ c ∈ xs, c.panic = none)
    (NOf : State → Nat) (dsOf ysOf : State → List State)
    (hblk : ∀ c ∈ xs, c.allBound = true ∧ c.dstore.length < forceFuel ∧
      evalRef dfs (NOf c) (forceAns ord forceFuel (Term.ofList ((ord.ds c.dstore).map fun p => Term.var p.1))) c = some (dsOf c) ∧
      (∀ t ∈ dsOf c, t.panic = none) ∧
      drainF (solveAt dfs pf (M + 1)) pf
        (start dfs (solveAt dfs pf (M + 1)) pf
          (Goal.conjOfList [forceAns ord forceFuel (Term.ofList ((ord.ds c.dstore).map fun p => Term.var p.1))]) c) = some (ysOf c)) :
    ∀ c ∈ xs, ∀ b, (ysOf c).head? = some b → b.store = [] → ∀ a ∈ as, a.Sat b.σ := by
  intro c hc b hb hst a ha
  have hi := linv_of_atoms ho n as hok hnz s hs
  obtain ⟨li, oc, rc⟩ := blocks_inv ho dfs forceFuel N x s xs hi hp hops h1 hall1 c hc
  obtain ⟨a1, a2, a3, a4, a5⟩ := hblk c hc
  have hperm := ho.2.2 c.dstore
  have hmap : (ord.ds c.dstore).map (fun p => Term.var p.1) = ((ord.ds c.dstore).map (·.1)).map Term.var := by
    rw [List.map_map]; rfl
  rw [hmap] at a3 a5
  have hks : ∀ y, (c.dget y).isSome → y ∈ (ord.ds c.dstore).map (·.1) := fun y hy => by
    obtain ⟨q, hq, e'⟩ := dget_isSome_iff.1 hy
    exact List.mem_map.2 ⟨q, hperm.mem_iff.2 hq, e'⟩
  have hko : ∀ k ∈ (ord.ds c.dstore).map (·.1), KeyOK c k := fun k hk' => by
    obtain ⟨q, hq, e'⟩ := List.mem_map.1 hk'
    have : (c.dget k).isSome := dget_isSome_iff.2 ⟨q, hperm.mem_iff.1 hq, e'⟩
    exact .inl ((li.dk k this).elim id (fun f => f.elim))
  have hlen : ((ord.ds c.dstore).map (·.1)).length < forceFuel := by
    rw [List.length_map, hperm.length_eq]; exact a2
  have hle := hidden_labelling_engine ho dfs pf M _ forceFuel (NOf c) c (dsOf c) (ysOf c) hlen li (hall1 c hc) oc hks hko a3 a4 a5
  have hbds : b ∈ dsOf c := hle.1.mem_iff.2 (List.mem_of_mem_head? hb)
  -- the answer is reached from `s` by labelling equalities …
  obtain ⟨rb, _⟩ := keys_labelled ho dfs _ forceFuel (NOf c) c (dsOf c) hlen li (hall1 c hc) hko a3 a4 b hbds
  obtain ⟨ls, hls⟩ := rc.trans rb
  -- … and closed
  obtain ⟨k1, _⟩ := keys_labelling_decides ho dfs _ forceFuel (NOf c) c (dsOf c) hlen li (hall1 c hc) oc hks hko a3 a4
  obtain ⟨d1, _, _, _⟩ := k1 b hbds
  have hall' : postAllF ord (State.empty n) (as ++ labelAtoms ls) = .ok b := by
    rw [postAllF_append', hs]; exact hls
  refine fd_closed ho n (as ++ labelAtoms ls) (fun a' ha' => ?_) b hall' hst d1 a (List.mem_append.2 (.inl ha))
  rcases List.mem_append.1 ha' with h | h
  · exact hok a' h
  · simp only [labelAtoms, List.mem_map] at h
    obtain ⟨p, _, rfl⟩ := h
    trivial

/-! ### Non-vacuity of the end-to-end theorems: every hypothesis of `C17_assignments_bijection` holds on a concrete program -/
section NonVacuity
private def nvDfs : Call → State → State × G := fun _ a => (a, .fail)
private def nvX : Term := .var 0
private def nvY : Term := .var 1
private def nvAtoms : List FAtom := [.dom nvX (.interval 1 2), .dom nvY (.interval 1 2), .cst (.diseqfd nvX nvY)]
private def nvKeys (c : State) : Term := Term.ofList ((Order.default.ds c.dstore).map fun p => Term.var p.1)
private def nvQ : Term := Term.ofList [nvX]
private def nvDsOf (c : State) : List State := (evalRef nvDfs 40 (forceAns Order.default forceFuel (nvKeys c)) c).getD []
private def nvYsOf (c : State) : List State :=
  (drainF (solveAt nvDfs 30 2) 30 (start nvDfs (solveAt nvDfs 30 2) 30
    (Goal.conjOfList [forceAns Order.default forceFuel (nvKeys c)]) c)).getD []

private def nvBlockOK (c : State) : Bool :=
  c.panic.isNone && c.allBound && decide (c.dstore.length < forceFuel) &&
  (match evalRef nvDfs 40 (forceAns Order.default forceFuel (nvKeys c)) c with
   | some ds => ds.all (·.panic.isNone)
   | none => false) &&
  (drainF (solveAt nvDfs 30 2) 30 (start nvDfs (solveAt nvDfs 30 2) 30
    (Goal.conjOfList [forceAns Order.default forceFuel (nvKeys c)]) c)).isSome &&
  (match (nvYsOf c).head? with | some b => b.store.isEmpty | none => true)

private def nvStateOK (s : State) : Bool :=
  s.panic.isNone && s.allBound &&
  (s.store.all fun p => p.2.isDiseq || (operandsOf p.2).all fun u => (walk s.σ u).isVar || (walk s.σ u).isNum) &&
  ((apply s.σ nvQ).vars.all fun v => (s.dget v).isSome)

/-- every Boolean side condition of `C17_assignments_bijection`, computed on the concrete program -/
private def nvSideOK : Bool :=
  match postAllF Order.default (State.empty 2) nvAtoms with
  | .ok s =>
    nvStateOK s &&
    (match evalRef nvDfs 40 (forceAns Order.default forceFuel nvQ) s with
     | some xs => xs.all nvBlockOK
     | none => false)
  | _ => false

private theorem nvSideOK_true : nvSideOK = true := by decide +kernel

private theorem nvOrderOK : OrderOK Order.default := ⟨fun _ => .refl _, fun _ => .refl _, fun _ => .refl _⟩

/-- NON-VACUITY of `C17_assignments_bijection`: ALL its hypotheses hold for `x, y in 1..2, x != y`, query term `[x]` -/
example : ∃ (s : State) (xs xs' : List State), postAllF Order.default (State.empty 2) nvAtoms = .ok s ∧ xs.Perm xs' ∧
    AnsS (solveAt nvDfs 30 3) (solveAt nvDfs 30 3 (enforceFd Order.default nvQ) s) (xs'.flatMap fun c => ((nvYsOf c).head?).toList) ∧
    (xs'.flatMap fun c => ((nvYsOf c).head?).toList).Pairwise
      (fun a b => ∀ γa γb, Sem NoI γa a → Sem NoI γb b → apply γa nvQ ≠ apply γb nvQ) := by
  have hside := nvSideOK_true
  unfold nvSideOK at hside
  cases h1 : postAllF Order.default (State.empty 2) nvAtoms with
  | ok s =>
    rw [h1] at hside
    simp only [Bool.and_eq_true] at hside
    obtain ⟨hst, hrest⟩ := hside
    cases h2 : evalRef nvDfs 40 (forceAns Order.default forceFuel nvQ) s with
    | none => rw [h2] at hrest; cases hrest
    | some xs =>
      rw [h2] at hrest
      have hxs := List.all_eq_true.1 hrest
      unfold nvStateOK at hst
      simp only [Bool.and_eq_true] at hst
      obtain ⟨⟨⟨hp, hab⟩, hkind⟩, hdom⟩ := hst
      have hok : ∀ a ∈ nvAtoms, a.OK := by
        intro a ha
        simp only [nvAtoms, List.mem_cons, List.mem_nil_iff, or_false] at ha
        rcases ha with rfl | rfl | rfl
        · show (1 : Int) ≤ 2; decide
        · show (1 : Int) ≤ 2; decide
        · trivial
      have hnz : ∀ a ∈ nvAtoms, a.NoZ := by
        intro a ha
        simp only [nvAtoms, List.mem_cons, List.mem_nil_iff, or_false] at ha
        rcases ha with rfl | rfl | rfl <;> first | trivial | rfl
      have hi := linv_of_atoms nvOrderOK 2 nvAtoms hok hnz s h1
      have hpn : s.panic = none := by cases hq : s.panic with | none => rfl | some _ => rw [hq] at hp; cases hp
      have hops : OpsOK s := C17_opsOK_of_allBound s hab hi.z (fun p hp' hd u hu => by
        have := (List.all_eq_true.1 hkind) p hp'
        rw [hd, Bool.false_or] at this
        have := (List.all_eq_true.1 this) u hu
        simpa [Bool.or_eq_true] using this)
      have hdom' : ∀ v ∈ (apply s.σ nvQ).vars, (s.dget v).isSome := fun v hv => (List.all_eq_true.1 hdom) v hv
      have hblk : ∀ c ∈ xs, c.panic = none ∧ c.allBound = true ∧ c.dstore.length < forceFuel ∧
          evalRef nvDfs 40 (forceAns Order.default forceFuel (nvKeys c)) c = some (nvDsOf c) ∧ (∀ t ∈ nvDsOf c, t.panic = none) ∧
          drainF (solveAt nvDfs 30 2) 30 (start nvDfs (solveAt nvDfs 30 2) 30
            (Goal.conjOfList [forceAns Order.default forceFuel (nvKeys c)]) c) = some (nvYsOf c) := by
        intro c hc
        have hb := hxs c hc
        unfold nvBlockOK at hb
        simp only [Bool.and_eq_true, decide_eq_true_eq] at hb
        obtain ⟨⟨⟨⟨⟨b1, b2⟩, b3⟩, b4⟩, b5⟩, _⟩ := hb
        have b1' : c.panic = none := by
          cases hq : c.panic with
          | none => rfl
          | some _ => rw [hq] at b1; cases b1
        refine ⟨b1', b2, b3, ?_, ?_, ?_⟩
        · unfold nvDsOf; cases he : evalRef nvDfs 40 (forceAns Order.default forceFuel (nvKeys c)) c with
          | none => rw [he] at b4; cases b4
          | some ds => rfl
        · unfold nvDsOf; cases he : evalRef nvDfs 40 (forceAns Order.default forceFuel (nvKeys c)) c with
          | none => rw [he] at b4; cases b4
          | some ds =>
            rw [he] at b4
            intro t ht
            have := (List.all_eq_true.1 b4) t ht
            cases hq : t.panic with | none => rfl | some _ => rw [hq] at this; cases this
        · unfold nvYsOf
          cases hd : drainF (solveAt nvDfs 30 2) 30 (start nvDfs (solveAt nvDfs 30 2) 30
              (Goal.conjOfList [forceAns Order.default forceFuel (nvKeys c)]) c) with
          | none => rw [hd] at b5; cases b5
          | some ys => rfl
      obtain ⟨xs', px, ha, _, _, hpw⟩ := C17_assignments_bijection nvOrderOK nvDfs 30 1 nvQ s 40 xs hi hpn hops hdom' h2
        (fun c hc => (hblk c hc).1) (fun _ => 40) nvDsOf nvYsOf (fun c hc => (hblk c hc).2)
      -- … and `C17_answer_values`: no answer holds a tree disequality
      have hnd : ∀ c ∈ xs, ∀ b, (nvYsOf c).head? = some b → b.store = [] := by
        intro c hc b hb
        have hbk := hxs c hc
        unfold nvBlockOK at hbk
        simp only [Bool.and_eq_true] at hbk
        have h6 := hbk.2
        rw [hb] at h6
        simpa using h6
      obtain ⟨_, _, _, hnodup, _⟩ := C17_answer_values nvOrderOK nvDfs 30 1 nvQ s 40 xs hi hpn hops hdom' h2
        (fun c hc => (hblk c hc).1) (fun _ => 40) nvDsOf nvYsOf (fun c hc => (hblk c hc).2) hnd
      exact ⟨s, xs, xs', rfl, px, ha, hpw⟩
  | fail => rw [h1] at hside; cases hside
  | fuel => rw [h1] at hside; cases hside
  | panic _ => rw [h1] at hside; cases hside
private def nv2Atoms : List FAtom :=
  [.dom (.var 0) (.interval 1 3), .dom (.var 1) (.interval 1 3), .dom (.var 2) (.interval 4 4), .cst (.plusfd (.var 0) (.var 1) (.var 2))]

private def nv2Side : Bool :=
  match postAllF Order.default (State.empty 3) nv2Atoms with
  | .ok st =>
    st.allBound &&
    (st.store.all fun p => p.2.isDiseq || (operandsOf p.2).all fun u => (walk st.σ u).isVar || (walk st.σ u).isNum) &&
    (match postAllF Order.default st (labelAtoms [(3, 0)]) with
     | .ok st' => (st.dstore.all fun p => st'.σ p.1 != .var p.1) && st'.store.isEmpty
     | _ => false)
  | _ => false

private theorem nv2Side_true : nv2Side = true := by decide +kernel

/-- NON-VACUITY of `C16_labelled_answer_sound`: all hypotheses hold for `x, y in 1..3, z in 4..4, x + y = z` labelled with `3 == x`;
    the conclusion: every atom and the labelling equality hold under the answer's own substitution -/
example : ∃ st st', postAllF Order.default (State.empty 3) nv2Atoms = .ok st ∧
    postAllF Order.default st (labelAtoms [(3, 0)]) = .ok st' ∧ st'.dstore = [] ∧
    ∀ a ∈ nv2Atoms ++ labelAtoms [(3, 0)], a.Sat st'.σ := by
  have hside := nv2Side_true
  unfold nv2Side at hside
  cases h1 : postAllF Order.default (State.empty 3) nv2Atoms with
  | ok st =>
    rw [h1] at hside
    simp only [Bool.and_eq_true] at hside
    obtain ⟨⟨hab, hkind⟩, hrest⟩ := hside
    cases h2 : postAllF Order.default st (labelAtoms [(3, 0)]) with
    | ok st' =>
      rw [h2] at hrest
      simp only [Bool.and_eq_true] at hrest
      obtain ⟨hbound, hempty⟩ := hrest
      have ho : OrderOK Order.default := ⟨fun _ => .refl _, fun _ => .refl _, fun _ => .refl _⟩
      have hok : ∀ a ∈ nv2Atoms, a.OK := by
        intro a ha
        simp only [nv2Atoms, List.mem_cons, List.mem_nil_iff, or_false] at ha
        rcases ha with rfl | rfl | rfl | rfl
        · show (1 : Int) ≤ 3; decide
        · show (1 : Int) ≤ 3; decide
        · show (4 : Int) ≤ 4; decide
        · trivial
      have hnz : ∀ a ∈ nv2Atoms, a.NoZ := by
        intro a ha
        simp only [nv2Atoms, List.mem_cons, List.mem_nil_iff, or_false] at ha
        rcases ha with rfl | rfl | rfl | rfl <;> first | trivial | rfl
      have hi := linv_of_atoms ho 3 nv2Atoms hok hnz st h1
      have hops : OpsOK st := C17_opsOK_of_allBound st hab hi.z (fun p hp' hd u hu => by
        have := (List.all_eq_true.1 hkind) p hp'
        rw [hd, Bool.false_or] at this
        have := (List.all_eq_true.1 this) u hu
        simpa [Bool.or_eq_true] using this)
      have hall : ∀ y, (st.dget y).isSome → st'.σ y ≠ .var y := by
        intro y hy
        obtain ⟨q, hq, e⟩ := dget_isSome_iff.1 hy
        have := (List.all_eq_true.1 hbound) q hq
        rw [e] at this
        simpa using this
      obtain ⟨c1, _, c3⟩ := C16_labelled_answer_sound ho 3 nv2Atoms hok hnz [(3, 0)] st st' h1 hops h2 hall
      exact ⟨st, st', rfl, h2, c1, c3 (by simpa using hempty)⟩
    | fail => rw [h2] at hrest; cases hrest
    | fuel => rw [h2] at hrest; cases hrest
    | panic _ => rw [h2] at hrest; cases hrest
  | fail => rw [h1] at hside; cases hside
  | fuel => rw [h1] at hside; cases hside
  | panic _ => rw [h1] at hside; cases hside
end NonVacuity

end Strict
end Pv
