/-
  C04 (and C02 / C06 / C10 / C24) for PROGRAMS WITH RELATION CALLS: programs of `==`, `!=`, conjunction, `conde`,
  fresh and calls of the library relations (recursive, possibly with infinitely many answers).
-/
import PvModel.Proofs.RelProgram
namespace Pv
open Strm Goal State Term

/-- EXACTNESS: the unpoisoned states in the engine's stream describe only solutions of the program, and every
    solution is described — on the program's variables — by a state of the stream (or a FUEL-poisoned state
    is in the stream); at every nesting level, under every hash-iteration order -/
theorem C04_rel_program_exact (ord : Order) (ho : OrderOK ord) (pf M j nv : Nat) (p : RProg) (w : p.WF nv) :
    (∀ b, MemS (solveAt (defs ord) pf (M + 1)) b (solveAt (defs ord) pf j (p.goal ord) (State.empty nv)) →
      b.panic.isSome = false → ∀ γ, StateSem γ b → p.Sem γ) ∧
    (∀ γ, p.Sem γ → ∃ b, MemS (solveAt (defs ord) pf (M + 1)) b (solveAt (defs ord) pf j (p.goal ord) (State.empty nv)) ∧
      (b.panic.isSome = true ∨ ∃ γ', Agree nv γ γ' ∧ StateSem γ' b)) :=
  prog_exact ho pf M j nv p w

/-- REORDERING IN GENERAL: two programs with the same declarative meaning (under possibly different hash orders,
    at different nesting levels) — every valuation described by an answer of the first is described, on the
    programs' variables, by an answer of the second (or the second's stream holds a FUEL-poisoned state) -/
theorem C04_rel_equiv (ord ord' : Order) (ho : OrderOK ord) (ho' : OrderOK ord') (pf M j j' nv : Nat) (p p' : RProg)
    (w' : p'.WF nv) (heq : ∀ γ, p.Sem γ → p'.Sem γ)
    (b : State) (hm : MemS (solveAt (defs ord) pf (M + 1)) b (solveAt (defs ord) pf j (p.goal ord) (State.empty nv)))
    (hp : b.panic.isSome = false) (γ : Subst) (hγ : StateSem γ b) :
    ∃ b', MemS (solveAt (defs ord') pf (M + 1)) b' (solveAt (defs ord') pf j' (p'.goal ord') (State.empty nv)) ∧
      (b'.panic.isSome = true ∨ ∃ γ', Agree nv γ γ' ∧ StateSem γ' b') := by
  obtain ⟨n, hn⟩ := (mem_iff_big (defs_plain ord) pf M j (p.plain ord) _ b).1 hm
  have hs : p.Sem γ := (((prog_den ho n p n (Nat.le_refl _) _ b hn).2 hp (good_empty nv)).2 γ hγ).2
  exact (prog_exact ho' pf M j' nv p' w').2 γ (heq γ hs)

/-- the order of two conjuncts does not matter for the described solutions, through relation calls too -/
theorem C04_rel_conj_comm (ord ord' : Order) (ho : OrderOK ord) (ho' : OrderOK ord') (pf M j j' nv : Nat) (p q : RProg)
    (wp : p.WF nv) (wq : q.WF nv)
    (b : State) (hm : MemS (solveAt (defs ord) pf (M + 1)) b (solveAt (defs ord) pf j ((RProg.conj p q).goal ord) (State.empty nv)))
    (hp : b.panic.isSome = false) (γ : Subst) (hγ : StateSem γ b) :
    ∃ b', MemS (solveAt (defs ord') pf (M + 1)) b' (solveAt (defs ord') pf j' ((RProg.conj q p).goal ord') (State.empty nv)) ∧
      (b'.panic.isSome = true ∨ ∃ γ', Agree nv γ γ' ∧ StateSem γ' b') :=
  C04_rel_equiv ord ord' ho ho' pf M j j' nv (.conj p q) (.conj q p) ⟨wq, wp⟩ (fun _ h => ⟨h.2, h.1⟩) b hm hp γ hγ

/-- the order of two clauses does not matter for the described solutions -/
theorem C04_rel_alt_comm (ord ord' : Order) (ho : OrderOK ord) (ho' : OrderOK ord') (pf M j j' nv : Nat) (p q : RProg)
    (wp : p.WF nv) (wq : q.WF nv)
    (b : State) (hm : MemS (solveAt (defs ord) pf (M + 1)) b (solveAt (defs ord) pf j ((RProg.alt p q).goal ord) (State.empty nv)))
    (hp : b.panic.isSome = false) (γ : Subst) (hγ : StateSem γ b) :
    ∃ b', MemS (solveAt (defs ord') pf (M + 1)) b' (solveAt (defs ord') pf j' ((RProg.alt q p).goal ord') (State.empty nv)) ∧
      (b'.panic.isSome = true ∨ ∃ γ', Agree nv γ γ' ∧ StateSem γ' b') :=
  C04_rel_equiv ord ord' ho ho' pf M j j' nv (.alt p q) (.alt q p) ⟨wq, wp⟩ (fun _ h => h.symm) b hm hp γ hγ

/-- C10 for such programs: the solutions of `conde { p ; q }` are the union of the solutions of `p` and of `q` -/
theorem C10_rel_union (p q : RProg) (γ : Subst) : (RProg.alt p q).Sem γ ↔ (p.Sem γ ∨ q.Sem γ) := Iff.rfl

section Examples
/-- non-vacuity: `append(x, y, [1, 2]), member(z, x)` is a well-formed program over 3 variables -/
private def progRel : RProg :=
  .conj (.call ⟨.append, [.var 0, .var 1, ofList [Term.num 1, Term.num 2]], false⟩) (.call ⟨.member, [.var 2, .var 0], false⟩)
example : progRel.WF 3 := by
  refine ⟨⟨trivial, fun t ht => ?_⟩, ⟨trivial, fun t ht => ?_⟩⟩ <;>
    simp only [List.mem_cons, List.not_mem_nil, or_false] at ht <;>
    rcases ht with rfl | rfl | rfl <;> intro y hy <;> simp [Term.vars, ofList, Term.num] at hy <;> omega
/-- … it has the solution x = [1], y = [2], z = 1 -/
example : progRel.Sem (fun v => if v = 0 then ofList [Term.num 1] else if v = 1 then ofList [Term.num 2] else Term.num 1) := by
  refine ⟨?_, ?_⟩
  · simp only [RProg.Sem, RelSem, apply]
    exact (appT_ofList [Term.num 1] [Term.num 2] _).2 rfl
  · simp only [RProg.Sem, RelSem, apply]
    exact .head _ _
end Examples

end Pv
