/-
  C06 — Interleaving search loses no answers and invents none.

  Model: `Stream::mplus` (with its argument swap), `bind`, `lazy_bind`, `pause`, `delay`,
  `StreamEngine::step`, `Solver::next` (Model/Stream.lean).  Generic in the state type.
  `AnsS top s xs`: `xs` is the finite reference answer list of `s`; `MemS top a s`: `a` is an answer of the
  (possibly infinite, possibly diverging) stream `s`.
-/
import PvModel.Proofs.Stream
namespace Pv
open Strm Goal

variable {St K : Type}

/-- One engine step keeps the finite answer list up to permutation. -/
theorem C06_step_perm (top : Goal St K → St → Strm St K) (hT : TopOK top) {l : Lz St K} {xs : List St}
    (h : AnsL top l xs) : ∃ ys, AnsS top (step top l) ys ∧ xs.Perm ys := step_perm top hT h

/-- Finite search tree: the stream is exhausted after finitely many steps and `Solver::next` has then
    delivered a permutation of the reference list — nothing lost, nothing duplicated, nothing invented. -/
theorem C06_finite (top : Goal St K → St → Strm St K) (hT : TopOK top) {s : Strm St K} {xs : List St}
    (h : AnsS top s xs) :
    ∃ n ys, drainF top n s = some ys ∧ runF top n s = ys ∧ xs.Perm ys := by
  obtain ⟨n, ys, hd, hp⟩ := drain_perm top hT h
  exact ⟨n, ys, hd, drain_run top n s ys hd, hp⟩

/-- Same multiset as the reference semantics: whenever the textbook evaluation of a pure goal (either
    search mode, relation calls included) terminates with `xs`, the default engine delivers a permutation
    of `xs` and stops. -/
theorem C06_ref (defs : K → St → St × Goal St K) (pf M n : Nat) (g : Goal St K) (a : St) (xs : List St)
    (h : evalRef defs n g a = some xs) :
    ∃ k ys, drainF (solveAt defs pf (M + 1)) k (solveAt defs pf (M + 1) g a) = some ys ∧ xs.Perm ys := by
  obtain ⟨zs, hz, pz⟩ := ref_perm defs pf M n g a xs h M
  obtain ⟨k, ys, hd, py⟩ := drain_perm _ (topOK_solveAt defs pf M) hz
  exact ⟨k, ys, hd, pz.trans py⟩

/-- Same multiset as depth-first search of the same program: `evalRef` does not distinguish the two
    search modes, so the interleaving answers are a permutation of the depth-first ones. -/
theorem C06_same_as_dfs (defs : K → St → St × Goal St K) (pf M n : Nat) (g gd : Goal St K) (a : St) (xs : List St)
    (hD : DfsDefs defs) (hd : DfsG defs gd) (h : evalRef defs n g a = some xs) (h' : evalRef defs n gd a = some xs) :
    ∃ k k' ys, drainF (solveAt defs pf (M + 1)) k (solveAt defs pf (M + 1) g a) = some ys ∧
      drainF (solveAt defs pf (M + 1)) k' (solveAt defs pf (M + 1) gd a) = some xs ∧ xs.Perm ys := by
  obtain ⟨k, ys, h1, p1⟩ := C06_ref defs pf M n g a xs h
  have hA := ref_dfs defs pf M hD n gd a xs hd h' M
  obtain ⟨k', h2⟩ := drain_dfs defs _ (topOK_solveAt defs pf M)
    (fun g a hg => solveAt_dfs defs hD pf (M + 1) g a hg) (solveAt_dfs defs hD pf (M + 1) gd a hd) hA
  exact ⟨k, k', ys, h1, h2, p1⟩

/-- No invention, arbitrary (infinite, diverging) streams: whatever `next` returns is an answer of the
    stream, and every answer of the stream it leaves behind is an answer of the original stream. -/
theorem C06_no_invention (top : Goal St K → St → Strm St K) (hT : TopOK top) (n : Nat) (s s' : Strm St K) (a : St)
    (h : nextF top n s = some (some (a, s'))) :
    MemS top a s ∧ ∀ b, MemS top b s' → MemS top b s := nextF_sound top hT n s s' a h

/-- … hence every answer delivered within any number of steps is an answer of the program. -/
theorem C06_prefix_sound (top : Goal St K → St → Strm St K) (hT : TopOK top) (n : Nat) (s : Strm St K) (a : St)
    (h : a ∈ runF top n s) : MemS top a s := runF_sound top hT n s a h

/-- A step neither loses nor invents members (both directions), for every stream. -/
theorem C06_step_mem (top : Goal St K → St → Strm St K) (hT : TopOK top) (a : St) (l : Lz St K) :
    MemS top a (step top l) ↔ MemL top a l := step_mem_iff top hT a l

section Examples
private def defs0 : Unit → Nat → Nat × Goal Nat Unit := fun _ a => (a, .fail)
private def g0 : Goal Nat Unit :=
  .conj (.alt (.fresh (.fresh (.atom fun a => some (a + 1)))) (.alt (.atom fun a => some (a + 2)) .fail))
        (.alt (.atom fun a => some (a * 10)) (.alt (.atom fun a => some (a * 10 + 1)) .fail))
example : evalRef defs0 10 g0 0 = some [10, 11, 20, 21] := by decide
/-- the interleaving engine returns the same multiset in a different order -/
example : runF (solveAt defs0 5 3) 40 (solveAt defs0 5 3 g0 0) = [20, 21, 10, 11] := by decide
end Examples

end Pv
