/-
  C10 — Search branches are isolated from each other.

  Model: `Conde::solve` gives every clause the SAME state value (`state.clone()`), streams hold state
  values, `step` touches one sub-stream (Model/Stream.lean).  Lean values cannot alias, so these theorems
  state the algebraic law the Rust code (`Rc::make_mut` clone-on-write) must refine; that the code does
  refine it is what the combined-vs-separate correspondence runs check (PARTIAL: a theorem about a
  value-semantics model cannot exhibit an aliasing bug).
-/
import PvModel.Proofs.Stream
import PvModel.Proofs.FDProgram
namespace Pv
open Strm Goal

variable {St K : Type}

/-- The answers of `conde { A, B }` from a state are the answers of A alone from that state together with
    the answers of B alone from that state, as a multiset (finite search). -/
theorem C10_union (defs : K → St → St × Goal St K) (top : Goal St K → St → Strm St K) (pf : Nat)
    (A B : Goal St K) (a : St) (xs ys : List St)
    (hA : AnsS top (start defs top pf A a) xs) (hB : AnsS top (start defs top pf B a) ys) :
    ∃ zs, AnsS top (start defs top pf (.alt A B) a) zs ∧ (xs ++ ys).Perm zs := alt_union defs top pf A B a xs ys hA hB

/-- … and conversely every finite answer list of the disjunction splits into the two branch lists. -/
theorem C10_union_inv (defs : K → St → St × Goal St K) (top : Goal St K → St → Strm St K) (pf : Nat)
    (A B : Goal St K) (a : St) (zs : List St) (h : AnsS top (start defs top pf (.alt A B) a) zs) :
    ∃ xs ys, AnsS top (start defs top pf A a) xs ∧ AnsS top (start defs top pf B a) ys ∧ (xs ++ ys).Perm zs :=
  alt_inv defs top pf A B a zs h

/-- Exactly the union for ARBITRARY (infinite, diverging, interleaved) branches: `b` is an answer of the
    disjunction iff it is an answer of A alone or of B alone, from the same state. -/
theorem C10_union_mem (defs : K → St → St × Goal St K) (top : Goal St K → St → Strm St K) (pf : Nat)
    (A B : Goal St K) (a b : St) :
    MemS top b (start defs top pf (.alt A B) a) ↔
      MemS top b (start defs top pf A a) ∨ MemS top b (start defs top pf B a) := by
  simp only [start, mem_mplus_iff, memL_delay_iff]

/-- depth-first disjunction: the concatenation -/
theorem C10_union_dfs (defs : K → St → St × Goal St K) (top : Goal St K → St → Strm St K) (pf : Nat)
    (A B : Goal St K) (a : St) (xs ys : List St)
    (hA : AnsS top (start defs top pf A a) xs) (hB : AnsS top (start defs top pf B a) ys) :
    AnsS top (start defs top pf (.altD A B) a) (xs ++ ys) := altD_union defs top pf A B a xs ys hA hB

/-- Frame: an engine step of a disjunction node works on one branch; the other branch (its states, its
    pending goals) is carried over syntactically unchanged. -/
theorem C10_frame (top : Goal St K → St → Strm St K) (l1 l2 : Lz St K) :
    step top (.mplus l1 l2) = Strm.mplus (step top l1) l2 ∧
    step top (.mplusD l1 l2) = Strm.mplusD (step top l1) l2 := ⟨rfl, rfl⟩

/-- `mplus` never modifies the states of either argument: every state in the result is a state of an argument -/
theorem C10_mplus_states (top : Goal St K → St → Strm St K) (s : Strm St K) (l : Lz St K) (b : St) :
    MemS top b (Strm.mplus s l) ↔ MemS top b s ∨ MemL top b l := mem_mplus_iff

section FDLeak
variable [Mode]

/-- NO LEAK BETWEEN CLAUSES, for constraint programs (tree, CLP(FD), CLP(Z) atoms; nested conjunction /
    conde / fresh): every (unpoisoned) state the engine delivers for `conde { p, q }` — posted after any
    common prefix `pre` — describes exactly the solutions of `pre` followed by a path of `p`, or of `pre`
    followed by a path of `q`: a constraint posted, a domain narrowed or a variable bound in one clause never
    shows up in a state of the other.  (Value semantics of the model; that the `Rc` clone-on-write code
    refines it is what the combined-vs-separate runs check.) -/
theorem C10_no_leak {ord : Order} (ho : OrderOK ord) (dfs : Call → State → State × G) (pf M nv : Nat)
    (pre p q : FProg) (hok : (FProg.conj pre (FProg.alt p q)).OK) :
    ∃ k ys, drainF (solveAt dfs pf (M + 1)) k
        (solveAt dfs pf (M + 1) ((FProg.conj pre (FProg.alt p q)).goal ord) (State.empty nv)) = some ys ∧
      ∀ s ∈ ys, s.panic = none →
        ∃ x ∈ pre.paths, ∃ y ∈ p.paths ++ q.paths, ∀ γ, Sem NoI γ s ↔ ∀ a ∈ x ++ y, a.Sat γ := by
  obtain ⟨k, ys, h1, _, h3, _⟩ := fd_program ho dfs pf M nv _ hok
  refine ⟨k, ys, h1, fun s hs hp => ?_⟩
  obtain ⟨path, hpth, hsem⟩ := h3 s hs hp
  simp only [FProg.paths, List.mem_flatMap, List.mem_map] at hpth
  obtain ⟨x, hx, y, hy, rfl⟩ := hpth
  exact ⟨x, hx, y, hy, hsem⟩

end FDLeak

section Examples
private def defs0 : Unit → Nat → Nat × Goal Nat Unit := fun _ a => (a, .fail)
private def A : Goal Nat Unit := .conj (.atom fun a => some (a + 1)) (.alt (.atom fun a => some (a * 2)) (.alt (.atom fun a => some (a * 3)) .fail))
private def B : Goal Nat Unit := .atom fun a => some (a + 100)
example : runF (solveAt defs0 5 3) 40 (solveAt defs0 5 3 A 5) = [12, 18] := by decide
example : runF (solveAt defs0 5 3) 40 (solveAt defs0 5 3 B 5) = [105] := by decide
example : runF (solveAt defs0 5 3) 40 (solveAt defs0 5 3 (.alt A (.alt B .fail)) 5) = [105, 12, 18] := by decide
end Examples

end Pv
