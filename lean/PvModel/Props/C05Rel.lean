/-
  C05 / C24 — PROLOG ORDER through the library relations called inside `dfs { }`, and the ORDER of `member`'s answers.
-/
import PvModel.Proofs.RelDfs
namespace Pv
open Strm Goal State Term

/-- on the depth-first fragment of the model's own relation table (dfs conjunction, `cond`, fresh, atoms, calls of the
    library relations made inside `dfs { }` — recursion included), at every nesting level of the solver: whenever
    the textbook semantics terminates with the list `xs`, the engine delivers EXACTLY `xs`, in that order, and stops -/
theorem C05_prolog_relations (ord : Order) (pf M n : Nat) (g : G) (hg : OnlyD g) (a : State) (xs : List State)
    (h : evalRef (defs ord) n g a = some xs) :
    ∃ k, drainF (solveAt (defs ord) pf (M + 1)) k (solveAt (defs ord) pf (M + 1) g a) = some xs :=
  dfs_exact pf M n hg a xs h

/-- `member(x, l)` inside `dfs { }`: the engine delivers its answers IN THE ORDER OF THE POSITIONS — the `i`-th
    delivered state is the one for the `i`-th matching position (`ps` increasing), and describes exactly the
    valuations of the start state that put `x` there -/
theorem C05_member_in_position_order (ord : Order) (ho : OrderOK ord) (pf M : Nat) (n : Nat) (x l : Term) (a : State)
    (bx : Below a.nextVar x) (bl : Below a.nextVar l) (hp : a.panic.isSome = false) (hi : RInv a) (hd : DNF a)
    (hlen : ListLen n l a)
    (hnf : ∀ b, Big (defs ord) (.call ⟨.member, [x, l], true⟩) a b → b.panic.isSome = false) :
    ∃ (ys : List State) (ps : List Nat) (k : Nat),
      drainF (solveAt (defs ord) pf (M + 1)) k (solveAt (defs ord) pf (M + 1) (.call ⟨.member, [x, l], true⟩) a) = some ys ∧
      ps.Pairwise (· < ·) ∧ (∀ i, i ∈ ps ↔ (i < n ∧ ∃ γ, StateSem γ a ∧ At x l i γ)) ∧
      Zip2 (fun b i => Describes a (At x l i) b) ys ps := by
  obtain ⟨ys, ps, ⟨m, hm⟩, pw, mem, z⟩ := member_count ho true n x l a bx bl hp hi hd hlen hnf
  obtain ⟨k, hk⟩ := dfs_exact pf M m (.call rfl) a ys hm
  exact ⟨ys, ps, k, hk, pw, mem, z⟩

section Examples
/-- non-vacuity: `member(x, [1, 2])` called inside `dfs { }` is in the fragment and its reference list has two states -/
example : OnlyD (.call ⟨.member, [.var 0, ofList [Term.num 1, Term.num 2]], true⟩ : G) := .call rfl
example : (evalRef (defs Order.default) 30 (.call ⟨.member, [.var 0, ofList [Term.num 1, Term.num 2]], true⟩) (State.empty 1)).map
    (fun ys => ys.map fun s => apply s.σ (.var 0)) = some [Term.num 1, Term.num 2] := by decide +kernel
end Examples

end Pv
