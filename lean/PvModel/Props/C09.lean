/-
  C09 — Query iteration is lazy, fused and deterministic.

  Model: `nextF` (`Solver::next`), `takeF` (`ResultIterator` + `take(n)`), the hash-iteration `Order`
  parameter of every state operation (Model/State.lean: any permutation).
-/
import PvModel.Proofs.Stream
import PvModel.Proofs.Always
import PvModel.Props.C02
import PvModel.Proofs.FDExact
namespace Pv
open Strm Goal

variable {St K : Type}

/-- LAZY: an outcome of `next` reached with some amount of work is the outcome for any larger amount —
    `next` never looks beyond the answer it returns, so taking the n-th answer terminates as soon as the
    search yields it after finitely many steps, however the rest of the stream behaves. -/
theorem C09_lazy (top : Goal St K → St → Strm St K) (n k : Nat) (s : Strm St K) (r)
    (h : nextF top n s = some r) : nextF top (n + k) s = some r := nextF_fuel_mono top n k s r h

/-- `take(k)`: more fuel never changes a finished prefix -/
theorem C09_take_mono (top : Goal St K → St → Strm St K) (fuel d : Nat) :
    ∀ (k : Nat) (s : Strm St K) (xs : List St), takeF top fuel k s = some xs → takeF top (fuel + d) k s = some xs
  | 0, _, _, h => by simpa [takeF] using h
  | k + 1, s, xs, h => by
    simp only [takeF] at h ⊢
    cases hn : nextF top fuel s with
    | none => simp [hn] at h
    | some r =>
      rw [nextF_fuel_mono top fuel d s r hn]
      cases r with
      | none => simpa [hn] using h
      | some p =>
        obtain ⟨a, s'⟩ := p
        simp only [hn] at h ⊢
        cases ht : takeF top fuel k s' with
        | none => simp [ht] at h
        | some as =>
          rw [C09_take_mono top fuel d k s' as ht]
          simpa [ht] using h

/-- `take` needs only the answers it returns: the first `k` answers are a prefix of the first `k + j` -/
theorem C09_take_prefix (top : Goal St K → St → Strm St K) (fuel : Nat) :
    ∀ (k j : Nat) (s : Strm St K) (xs ys : List St),
      takeF top fuel k s = some xs → takeF top fuel (k + j) s = some ys → xs.IsPrefix ys
  | 0, _, _, _, _, h, _ => by simp [takeF] at h; subst h; exact List.nil_prefix
  | k + 1, j, s, xs, ys, h1, h2 => by
    rw [Nat.add_right_comm] at h2
    simp only [takeF] at h1 h2
    cases hn : nextF top fuel s with
    | none => simp [hn] at h1
    | some r =>
      cases r with
      | none =>
        simp only [hn, Option.some.injEq] at h1 h2
        subst h1 h2; exact List.prefix_refl _
      | some p =>
        obtain ⟨a, s'⟩ := p
        simp only [hn] at h1 h2
        cases ht1 : takeF top fuel k s' with
        | none => simp [ht1] at h1
        | some as1 =>
          cases ht2 : takeF top fuel (k + j) s' with
          | none => simp [ht2] at h2
          | some as2 =>
            simp only [ht1, ht2, Option.some.injEq] at h1 h2
            subst h1 h2
            exact (List.prefix_cons_inj a).2 (C09_take_prefix top fuel k j s' as1 as2 ht1 ht2)

/-- FUSED: when `next` reports exhaustion the stream left behind is empty, and `next` on the empty stream
    reports exhaustion for every amount of fuel — `None` stays `None`. -/
theorem C09_fused (top : Goal St K → St → Strm St K) (m : Nat) :
    nextF top m (.empty : Strm St K) = some none := by cases m <;> simp [nextF]

theorem C09_exhausted_is_empty (top : Goal St K → St → Strm St K) (n : Nat) (s : Strm St K)
    (h : nextF top n s = some none) : ∃ j, afterF top j s = .empty ∧ runF top j s = [] := by
  induction n generalizing s with
  | zero =>
    cases s with
    | empty => exact ⟨0, rfl, rfl⟩
    | unit a => simp [nextF] at h
    | cons a l => simp [nextF] at h
    | lazy l => simp [nextF] at h
  | succ n ih =>
    cases s with
    | empty => exact ⟨0, rfl, rfl⟩
    | unit a => simp [nextF] at h
    | cons a l => simp [nextF] at h
    | lazy l =>
      simp only [nextF] at h
      obtain ⟨j, hj, hr⟩ := ih _ h
      exact ⟨j + 1, by simpa [afterF] using hj, by simpa [runF] using hr⟩

/-- DETERMINISTIC (atom level): for pure tree programs the outcome of posting the atoms — failure, or the
    set of valuations the final state describes — is the same under ANY two hash-iteration orders of the
    constraint store. -/
theorem C09_order_independent_tree (o1 o2 : Order) (h1 : OrderOK o1) (h2 : OrderOK o2) (n : Nat) (as : List TAtom) :
    (∀ s1 s2, postAll o1 (State.empty n) as = .ok s1 → postAll o2 (State.empty n) as = .ok s2 →
        ∀ γ : Subst, StateSem γ s1 ↔ StateSem γ s2) ∧
    (∀ s1, postAll o1 (State.empty n) as = .ok s1 → postAll o2 (State.empty n) as = .fail → ∀ γ : Subst, ¬ StateSem γ s1) ∧
    (postAll o1 (State.empty n) as = .fail → ∀ s2, postAll o2 (State.empty n) as = .ok s2 → ∀ γ : Subst, ¬ StateSem γ s2) :=
  C02_order_free o1 o2 h1 h2 n as as (.refl _)

/-- the engine itself has no source of nondeterminism: `next` is a function of the stream -/
theorem C09_next_functional (top : Goal St K → St → Strm St K) (n m : Nat) (s : Strm St K) (r1 r2)
    (h1 : nextF top n s = some r1) (h2 : nextF top m s = some r2) : r1 = r2 := by
  have a := nextF_fuel_mono top n m s r1 h1
  have b := nextF_fuel_mono top m n s r2 h2
  rw [Nat.add_comm] at b
  rw [a] at b
  exact Option.some.inj b

/-! ### hash-iteration order and finite-domain programs (both modes of Spec/FDSem.lean) -/
section FDOrder
variable [Mode]

/-- the valuations described by the state a constraint program reaches do not depend on the iteration order
    of the hash-based constraint store / domain store / extension (two runs with different hash seeds: `ord`,
    `ord'`): same program, same described solutions — the set-level part of "deterministic across
    processes" for programs whose propagation order depends on hash iteration -/
theorem C09_order_independent_fd {ord ord' : Order} (ho : OrderOK ord) (ho' : OrderOK ord') (n : Nat)
    (as : List FAtom) (hok : ∀ a ∈ as, a.OK) (st1 st2 : State)
    (h1 : postAllF ord (State.empty n) as = .ok st1) (h2 : postAllF ord' (State.empty n) as = .ok st2) (γ : Subst) :
    Sem NoI γ st1 ↔ Sem NoI γ st2 := (fd_order_free ho ho' n as as (List.Perm.refl _) hok).1 st1 st2 h1 h2 γ

end FDOrder


section Examples
private def defs0 : Unit → Nat → Nat × Goal Nat Unit := fun _ a => (a, .fail)
/-- `take(3)` of an infinite stream returns although the stream never ends -/
example : takeF (solveAt defs0 5 3) 50 3 (solveAt defs0 5 3 (.anyo (.atom fun a => some (a + 1))) 0) = some [1, 1, 1] := by decide
end Examples

end Pv
