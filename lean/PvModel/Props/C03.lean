/-
  C03 — Answers are fully reified, closed and carry their relevant constraints.

  Model (Model/Goals.lean): `reifyMap`/`reifySubst` (`smap.reify(walk*(x))` composed with the
  substitution), `reifyFinal` (the last goal of `reify(x)`), `purified` / `normalizedCs` / `walkCst`
  (`ConstraintStore::purify(r).normalize().walk_star(r)` in `ResultIterator::next`, repaired: D10),
  `relevantTo` / `anyvars` / `cstOperands` (`LResult::constraints`, repaired: D9), `mkAnswer`.
  Theorems hold for ALL substitutions, terms, stores and counters.
-/
import PvModel.Model.Goals
import PvModel.Proofs.Unify
namespace Pv
open Term

theorem apply_reifySubst (σ : Subst) (x : Term) (base : Nat) (t : Term) :
    apply (reifySubst σ x base) t = apply (reifyMap σ x base) (apply σ t) := by
  induction t with
  | var y => rfl
  | val v => rfl
  | nil => rfl
  | cons h t ih1 ih2 => simp only [apply, ih1, ih2]
  | comp g a ih => simp only [apply, ih]

theorem mem_freeVars (t : Term) (y : Nat) : y ∈ freeVars t ↔ y ∈ t.vars := by
  simp [freeVars]

/-- CLOSED: every variable of an answer term is a reified `_` variable — one of the `any` variables
    `base … base + n - 1` created by `reify` — provided the term's walked variables occur in the walked
    query term (true of every query variable: the query term is the list of the query variables). -/
theorem C03_closed (σ : Subst) (x : Term) (base : Nat) (t : Term)
    (hsub : ∀ y ∈ (apply σ t).vars, y ∈ (apply σ x).vars) :
    ∀ z ∈ (apply (reifySubst σ x base) t).vars, base ≤ z ∧ z < base + (freeVars (apply σ x)).length := by
  rw [apply_reifySubst]
  generalize apply σ t = u at hsub
  induction u with
  | var y =>
    intro z hz
    have hy : y ∈ freeVars (apply σ x) := (mem_freeVars _ _).2 (hsub y (by simp [Term.vars]))
    have : ((freeVars (apply σ x)).idxOf? y).isSome := List.isSome_idxOf?.2 hy
    cases hi : (freeVars (apply σ x)).idxOf? y with
    | none => simp [hi] at this
    | some i =>
      simp only [apply, reifyMap, hi, Term.vars, List.mem_singleton] at hz
      obtain ⟨hlt, _⟩ := List.idxOf?_eq_some_iff.1 hi
      omega
  | val v => intro z hz; simp [apply, Term.vars] at hz
  | nil => intro z hz; simp [apply, Term.vars] at hz
  | cons h t ih1 ih2 =>
    intro z hz
    simp only [apply, Term.vars, List.mem_append] at hz
    rcases hz with hz | hz
    · exact ih1 (fun y hy => hsub y (by simp [Term.vars, hy])) z hz
    · exact ih2 (fun y hy => hsub y (by simp [Term.vars, hy])) z hz
  | comp g a ih =>
    intro z hz
    simp only [apply, Term.vars] at hz
    exact ih (fun y hy => hsub y (by simp [Term.vars, hy])) z hz

/-- every element of the query list satisfies the hypothesis of `C03_closed` -/
theorem C03_closed_query (σ : Subst) (qs : List Term) (q : Term) (hq : q ∈ qs) :
    ∀ y ∈ (apply σ q).vars, y ∈ (apply σ (Term.ofList qs)).vars := by
  induction qs with
  | nil => cases hq
  | cons a as ih =>
    intro y hy
    simp only [Term.ofList, apply, Term.vars, List.mem_append]
    rcases List.mem_cons.1 hq with rfl | h
    · exact .inl hy
    · exact .inr (ih h y hy)

/-- NAMES: one reified variable per distinct unbound variable, and ONE map for the whole answer — two
    free variables of the walked query term get the same `_` variable iff they are the same variable
    (so sharing across query variables is reported exactly). -/
theorem C03_names (σ : Subst) (x : Term) (base : Nat) (y1 y2 : Nat)
    (h1 : y1 ∈ (apply σ x).vars) (h2 : y2 ∈ (apply σ x).vars) :
    reifyMap σ x base y1 = reifyMap σ x base y2 ↔ y1 = y2 := by
  constructor
  · intro h
    have m1 := (mem_freeVars _ _).2 h1
    have m2 := (mem_freeVars _ _).2 h2
    cases e1 : (freeVars (apply σ x)).idxOf? y1 with
    | none => exact absurd m1 (List.idxOf?_eq_none_iff.1 e1)
    | some i =>
      cases e2 : (freeVars (apply σ x)).idxOf? y2 with
      | none => exact absurd m2 (List.idxOf?_eq_none_iff.1 e2)
      | some j =>
        simp only [reifyMap, e1, e2, Term.var.injEq] at h
        have hij : i = j := by omega
        obtain ⟨_, g1, _⟩ := List.idxOf?_eq_some_iff.1 e1
        obtain ⟨_, g2, _⟩ := List.idxOf?_eq_some_iff.1 e2
        subst hij
        rw [← g1, ← g2]
  · intro h; rw [h]

/-- a variable that is NOT free in the walked query term keeps its binding: it is never renamed -/
theorem C03_untouched (σ : Subst) (x : Term) (base y : Nat) (h : y ∉ (apply σ x).vars) :
    reifyMap σ x base y = σ y := by
  have : (freeVars (apply σ x)).idxOf? y = none := List.idxOf?_eq_none_iff.2 (fun m => h ((mem_freeVars _ _).1 m))
  simp only [reifyMap, this]

/-- CONSTRAINTS ARE CLOSED: every constraint that survives purification mentions only variables that the
    reified state maps to another variable (its `_` variable) — no variable that is not part of the
    answer is reported (D10). -/
theorem C03_constraints_closed (st : State) (c : Ext1) (hc : c ∈ purified st) :
    ∀ q ∈ c, (∀ y ∈ (Term.var q.1).vars, ∃ z, st.σ y = .var z ∧ z ≠ y) ∧
             (∀ y ∈ q.2.vars, ∃ z, st.σ y = .var z ∧ z ≠ y) := by
  simp only [purified, List.mem_filter, List.all_eq_true, Bool.and_eq_true] at hc
  intro q hq
  obtain ⟨h1, h2⟩ := hc.2 q hq
  have key : ∀ t : Term, allReified st t = true → ∀ y ∈ t.vars, ∃ z, st.σ y = .var z ∧ z ≠ y := by
    intro t ht y hy
    simp only [allReified, List.all_eq_true] at ht
    have := ht y hy
    split at this
    · rename_i z hz; exact ⟨z, hz, by simpa using this⟩
    · simp at this
  exact ⟨key _ h1, key _ h2⟩

/-- `anyvars` sees every variable of a term, at any depth: through list elements, improper tails and
    compound fields (D9). -/
theorem C03_anyvars_complete (t : Term) (y : Nat) : y ∈ anyvars t ↔ occurs y t = true := by
  induction t with
  | var x => simp only [anyvars, Term.vars, occurs, List.mem_singleton, beq_iff_eq]
  | val v => simp [anyvars, Term.vars, occurs]
  | nil => simp [anyvars, Term.vars, occurs]
  | cons h t ih1 ih2 => simp only [anyvars] at *; simp [Term.vars, occurs, ih1, ih2]
  | comp g a ih => simp only [anyvars] at *; simp [Term.vars, occurs, ih]

/-- RELEVANT CONSTRAINTS ARE COMPLETE: `constraints()` of a result returns EVERY reported constraint one of
    whose operands occurs in the result's term, however deeply nested (and nothing else). -/
theorem C03_relevant_complete (walked : List Ext1) (t : Term) (i : Nat) (c : Ext1) (hi : walked[i]? = some c) :
    i ∈ relevantTo walked t ↔ ∃ o ∈ cstOperands c, occurs o t = true := by
  have hlt : i < walked.length := by
    rcases Nat.lt_or_ge i walked.length with h | h
    · exact h
    · rw [List.getElem?_eq_none h] at hi; cases hi
  simp only [relevantTo, List.mem_filter, List.mem_range, hi, hlt, true_and, List.any_eq_true,
    List.contains_iff_mem]
  constructor
  · rintro ⟨o, ho, hm⟩; exact ⟨o, ho, (C03_anyvars_complete t o).1 hm⟩
  · rintro ⟨o, ho, hm⟩; exact ⟨o, ho, (C03_anyvars_complete t o).2 hm⟩

/-- the answer reports, per query variable, exactly `relevantTo` of its reified term -/
theorem C03_answer_shape (ord : Order) (qs : List Term) (st : State) :
    (mkAnswer ord qs st).terms = qs.map (apply st.σ) ∧
    (mkAnswer ord qs st).relevant = (qs.map (apply st.σ)).map (relevantTo (mkAnswer ord qs st).constraints) := by
  simp [mkAnswer]

section Examples
/-- `p == (1, x), x != 3`: the constraint on `x` is relevant to `p` although `x` sits inside a compound (D9) -/
example : relevantTo [[(5, Term.num 3)]] (.comp 0 (.cons (Term.num 1) (.cons (.var 5) .nil))) = [0] := by decide
/-- the reification map of `[x3, [x3 | x1]]` numbers the free variables by first occurrence -/
example : (reifyMap Subst.id (.cons (.var 3) (.cons (.cons (.var 3) (.var 1)) .nil)) 10 3,
           reifyMap Subst.id (.cons (.var 3) (.cons (.cons (.var 3) (.var 1)) .nil)) 10 1) = (.var 10, .var 11) := by decide
end Examples

end Pv
