/-
  C16 / C17 / C04 — THE WHOLE QUERY ON THE ENGINE, FINITE DOMAINS INCLUDED.  `queryG` is
  `fresh(__query__) [__query__ == [q0, …], body, reify(__query__)]`, and `reify` starts with
  `enforce_constraints_fd` (labelling of the query term, `verify_all_bound`, the `onceo` over the remaining domain
  variables).  For a body `p` of `==`, `!=`, domain and FD-constraint atoms under conjunction, `conde` and `fresh`:
  the engine terminates and the delivered states are — as a multiset — the SUM OVER THE PATHS of the body, for each
  path state `s` the states `B s` that `enforce_constraints_fd` delivers from it, each reified.

  `C17_enforce_exactly_once` (Props/C17Enforce.lean) supplies `B s` and its properties (one closed state per block of the
  labelling that has a solution, none for the others); `C17_assignments_bijection` / `C17_answer_values` identify the
  blocks with the assignments of the query variables.  This theorem is the step those left to the correspondence: the
  sum over the paths of a program, the `fresh(__query__)` wrapper and the reification atom.
-/
import PvModel.Proofs.QueryGoal
import PvModel.Props.C02Query
import PvModel.Props.C17Enforce
namespace Pv
open Strm Goal State Term

attribute [local instance] Mode.strict

theorem C17_query_program (ord : Order) (dfs : Call → State → State × G) (pf M : Nat)
    (p : FProg) (qv : Term) (qs : List Term) (s0 s1 : State) (B : State → List State)
    (h1 : (liftRes fun st => postAtom ord st (.eq qv (Term.ofList qs))) s0 = some s1)
    (hE : ∀ s ∈ pathStates ord p s1,
      AnsS (solveAt dfs pf (M + 2)) (solveAt dfs pf (M + 2) (enforceFd ord qv) s) (B s) ∧ ∀ b ∈ B s, b.panic = none) :
    ∃ k zs, drainF (solveAt dfs pf (M + 2)) k (solveAt dfs pf (M + 2) (queryG ord qv qs [p.goal ord]) s0) = some zs ∧
      ((pathStates ord p s1).flatMap fun s => (B s).map fun b => reifyState ord b qv).Perm zs := by
  obtain ⟨xs, hx⟩ := evalRef_total ord dfs p 0 s1
  have ex := evalRef_paths_exact dfs p _ s1 xs hx
  obtain ⟨ys, hys, py⟩ := ref_perm dfs pf (M + 1) _ _ s1 xs hx (M + 1)
  have hbody : AnsS (solveAt dfs pf (M + 2)) (solveAt dfs pf (M + 2) (Goal.conjOfList [p.goal ord]) s1) ys := by
    show AnsS _ (solveAt dfs pf (M + 2) (mkConj (p.goal ord) .succeed) s1) ys
    exact ansS_mkConj dfs pf (M + 1) hys (ansB_id dfs pf (M + 1))
  have hR : ∀ s ∈ ys, AnsS (solveAt dfs pf (M + 2)) (solveAt dfs pf (M + 2) (reifyG ord qv) s)
      ((B s).map fun b => reifyState ord b qv) := by
    intro s hsy
    have hsx : s ∈ pathStates ord p s1 := by
      have := py.mem_iff.2 hsy
      rw [ex] at this; exact this
    obtain ⟨hA, hp⟩ := hE s hsx
    exact reifyG_of_enforce (ord := ord) dfs pf (M + 1) qv s (B s) hA hp
  have hq := query_compose_gen (ord := ord) dfs pf (M + 1) qv qs [p.goal ord] s0 s1 ys
    (fun s => (B s).map fun b => reifyState ord b qv) h1 hbody hR
  obtain ⟨k, zs, hk, pz⟩ := drain_perm _ (topOK_solveAt dfs pf (M + 1)) hq
  refine ⟨k, zs, hk, ?_⟩
  have : (pathStates ord p s1) = xs := ex.symm
  rw [this]
  exact (py.flatMap_right _).trans pz

/-! ### path states from the empty state: the labelling invariants come with the program's shape -/

theorem postL_poisoned (ord : Order) : ∀ (path : List FAtom) (st : State), st.panic.isSome = true → postL ord st path = some st
  | [], _, _ => rfl
  | a :: as, st, h => by
    simp only [postL, liftRes, h, if_true, Option.bind_some]
    exact postL_poisoned ord as st h

/-- an unpoisoned path state is the state the path's atoms post -/
theorem postL_unpoisoned (ord : Order) : ∀ (path : List FAtom) (st s : State), Inv st → st.panic = none →
    postL ord st path = some s → s.panic = none → postAllF ord st path = .ok s
  | [], st, s, _, _, h, _ => by simp only [postL, Option.some.injEq] at h; subst h; rfl
  | a :: as, st, s, hi, hp, h, hsp => by
    have hps : st.panic.isSome = false := by rw [hp]; rfl
    simp only [postL, liftRes, hps, Bool.false_eq_true, if_false] at h
    simp only [postAllF]
    cases hr : postF ord st a with
    | ok s2 =>
      rw [hr] at h
      simp only [Option.bind_some] at h
      obtain ⟨pan, inv2⟩ := postF_pan ord hi hr
      simp only [Res.bind]
      exact postL_unpoisoned ord as s2 s inv2 (pan.trans hp) h hsp
    | fail => rw [hr] at h; simp at h
    | fuel =>
      rw [hr] at h
      simp only [Option.bind_some] at h
      rw [postL_poisoned ord as _ rfl] at h
      simp only [Option.some.injEq] at h
      rw [← h] at hsp; cases hsp
    | panic m =>
      rw [hr] at h
      simp only [Option.bind_some] at h
      rw [postL_poisoned ord as _ rfl] at h
      simp only [Option.some.injEq] at h
      rw [← h] at hsp; cases hsp

/-- every unpoisoned path state of a query run from the EMPTY state, whose body posts well-formed domains and propagators
    and no CLP(Z) constraint, has the labelling invariants (`LInv`: well-formed, the state-machine invariant, every domain
    key unbound, every propagator live) -/
theorem C17_path_state_invariants {ord : Order} (ho : OrderOK ord) (n : Nat) (p : FProg) (hok : p.OK)
    (hnz : ∀ path ∈ p.paths, ∀ a ∈ path, a.NoZ) (qv : Term) (qs : List Term) (s1 : State)
    (h1 : postAtom ord (State.empty n) (.eq qv (Term.ofList qs)) = .ok s1)
    (s : State) (hs : s ∈ pathStates ord p s1) (hp : s.panic = none) : LInv s := by
  have hF : postF ord (State.empty n) (.eq qv (Term.ofList qs)) = .ok s1 := h1
  obtain ⟨pan1, inv1⟩ := postF_pan ord (inv_empty n) hF
  obtain ⟨path, hpath, hps⟩ := List.mem_filterMap.1 hs
  have hall := postL_unpoisoned ord path s1 s inv1 pan1 hps hp
  have hfull : postAllF ord (State.empty n) (.eq qv (Term.ofList qs) :: path) = .ok s := by
    simp only [postAllF, hF, Res.bind]; exact hall
  refine linv_of_atoms ho n _ (fun a ha => ?_) (fun a ha => ?_) s hfull
  · rcases List.mem_cons.1 ha with rfl | ha
    · trivial
    · exact FProg.paths_ok p hok path hpath a ha
  · rcases List.mem_cons.1 ha with rfl | ha
    · trivial
    · exact hnz path hpath a ha

/-- `C17_query_exactly_once` — `C17_enforce_exactly_once` and `C17_query_program` IN ONE STATEMENT.  For every path state `s`
    of the body with the labelling invariants, whose labelling of the query term delivers the blocks `xsOf s` and whose
    blocks pass `verify_all_bound` and have their hidden labelling drained, unpoisoned, within the peek fuel (`ysOf s c`): the engine
    terminates on the whole query goal, and its answers are — as a multiset — the reified heads `(ysOf s c).head?` over all
    paths `s` and all blocks `c`: ONE answer for every block that describes a valuation, NONE for the others, each answer a
    closed state describing only valuations of its block. -/
theorem C17_query_exactly_once {ord : Order} (ho : OrderOK ord) (dfs : Call → State → State × G) (pf M : Nat)
    (p : FProg) (qv : Term) (qs : List Term) (s0 s1 : State)
    (h1 : (liftRes fun st => postAtom ord st (.eq qv (Term.ofList qs))) s0 = some s1)
    (NOf : State → Nat) (xsOf : State → List State) (N2 : State → State → Nat) (dsOf ysOf : State → State → List State)
    (hs : ∀ s ∈ pathStates ord p s1, LInv s ∧ s.panic = none ∧ OpsOK s ∧
      evalRef dfs (NOf s) (forceAns ord forceFuel qv) s = some (xsOf s) ∧ (∀ c ∈ xsOf s, c.panic = none) ∧
      ∀ c ∈ xsOf s, c.allBound = true ∧ c.dstore.length < forceFuel ∧
        evalRef dfs (N2 s c) (forceAns ord forceFuel (Term.ofList ((ord.ds c.dstore).map fun q => Term.var q.1))) c = some (dsOf s c) ∧
        (∀ t ∈ dsOf s c, t.panic = none) ∧
        drainF (solveAt dfs pf (M + 1)) pf
          (start dfs (solveAt dfs pf (M + 1)) pf
            (Goal.conjOfList [forceAns ord forceFuel (Term.ofList ((ord.ds c.dstore).map fun q => Term.var q.1))]) c) = some (ysOf s c) ∧
        (∀ t ∈ ysOf s c, t.panic = none)) :
    ∃ (k : Nat) (zs : List State) (blocks : State → List State),
      drainF (solveAt dfs pf (M + 2)) k (solveAt dfs pf (M + 2) (queryG ord qv qs [p.goal ord]) s0) = some zs ∧
      (∀ s ∈ pathStates ord p s1, (xsOf s).Perm (blocks s)) ∧
      ((pathStates ord p s1).flatMap fun s =>
        ((blocks s).flatMap fun c => ((ysOf s c).head?).toList).map fun b => reifyState ord b qv).Perm zs ∧
      (∀ s ∈ pathStates ord p s1, ∀ c ∈ xsOf s,
        (∀ b, (ysOf s c).head? = some b → b.dstore = [] ∧ (∀ q ∈ b.store, q.2.isDiseq = true) ∧ ∀ γ, Sem NoI γ b → Sem NoI γ c) ∧
        ((∃ γ, Sem NoI γ c) → ((ysOf s c).head?).isSome = true)) := by
  classical
  have each : ∀ s, s ∈ pathStates ord p s1 → _ := fun s hsm => by
    obtain ⟨li, hp, ops, hx, hall, hblk⟩ := hs s hsm
    exact C17_enforce_exactly_once ho dfs pf M qv s (NOf s) (xsOf s) li hp ops hx hall (N2 s) (dsOf s) (ysOf s)
      (fun c hc => ⟨(hblk c hc).1, (hblk c hc).2.1, (hblk c hc).2.2.1, (hblk c hc).2.2.2.1, (hblk c hc).2.2.2.2.1⟩)
  let blocks : State → List State := fun s =>
    if h : s ∈ pathStates ord p s1 then Classical.choose (each s h).1 else []
  have hblocks : ∀ s (h : s ∈ pathStates ord p s1), (xsOf s).Perm (blocks s) ∧
      AnsS (solveAt dfs pf (M + 2)) (solveAt dfs pf (M + 2) (enforceFd ord qv) s)
        ((blocks s).flatMap fun c => ((ysOf s c).head?).toList) := by
    intro s h
    have := Classical.choose_spec (each s h).1
    simp only [blocks, h, dif_pos]
    exact this
  have hE : ∀ s ∈ pathStates ord p s1,
      AnsS (solveAt dfs pf (M + 2)) (solveAt dfs pf (M + 2) (enforceFd ord qv) s)
        ((blocks s).flatMap fun c => ((ysOf s c).head?).toList) ∧
      ∀ b ∈ (blocks s).flatMap fun c => ((ysOf s c).head?).toList, b.panic = none := by
    intro s hsm
    refine ⟨(hblocks s hsm).2, fun b hb => ?_⟩
    obtain ⟨c, hc, hbc⟩ := List.mem_flatMap.1 hb
    have hcx : c ∈ xsOf s := (hblocks s hsm).1.mem_iff.2 hc
    have hh : (ysOf s c).head? = some b := by
      cases hy : (ysOf s c).head? with
      | none => rw [hy] at hbc; cases hbc
      | some b' => rw [hy] at hbc; simp only [Option.toList_some, List.mem_singleton] at hbc; rw [hbc]
    have hun := ((hs s hsm).2.2.2.2.2 c hcx).2.2.2.2.2
    cases hy : ysOf s c with
    | nil => rw [hy] at hh; cases hh
    | cons y ys =>
      rw [hy] at hh
      simp only [List.head?_cons, Option.some.injEq] at hh
      exact hun b (by rw [hy, ← hh]; exact List.mem_cons_self)
  obtain ⟨k, zs, hk, pz⟩ := C17_query_program ord dfs pf M p qv qs s0 s1
    (fun s => (blocks s).flatMap fun c => ((ysOf s c).head?).toList) h1 hE
  exact ⟨k, zs, blocks, hk, fun s hsm => (hblocks s hsm).1, pz,
    fun s hsm c hc => ⟨((each s hsm).2 c hc).1, ((each s hsm).2 c hc).2.1⟩⟩

/-- the number of answers of the query is the sum over the paths of the number of states `enforce_constraints_fd` delivers -/
theorem C17_query_count (ord : Order) (dfs : Call → State → State × G) (pf M : Nat)
    (p : FProg) (qv : Term) (qs : List Term) (s0 s1 : State) (B : State → List State)
    (h1 : (liftRes fun st => postAtom ord st (.eq qv (Term.ofList qs))) s0 = some s1)
    (hE : ∀ s ∈ pathStates ord p s1,
      AnsS (solveAt dfs pf (M + 2)) (solveAt dfs pf (M + 2) (enforceFd ord qv) s) (B s) ∧ ∀ b ∈ B s, b.panic = none) :
    ∃ k zs, drainF (solveAt dfs pf (M + 2)) k (solveAt dfs pf (M + 2) (queryG ord qv qs [p.goal ord]) s0) = some zs ∧
      zs.length = ((pathStates ord p s1).map fun s => (B s).length).sum := by
  obtain ⟨k, zs, hk, pz⟩ := C17_query_program ord dfs pf M p qv qs s0 s1 B h1 hE
  refine ⟨k, zs, hk, ?_⟩
  rw [← pz.length_eq, List.length_flatMap]
  simp only [List.length_map]

/-- C04's reading of `C17_query_program` for REORDERED CLAUSES: two bodies whose lists of path states are permutations of
    each other (swapping the clauses of a `conde`, at any depth, permutes the paths and leaves each path's atoms — hence
    its state — unchanged) have the same answer multiset on the engine.  (Swapping CONJUNCTS changes the order in which a
    path's atoms are posted, so the path states are only semantically equal: that case is `C04_fd_answer_values_perm`
    per path, and `C04_tree_reorder_multiset` for `==`/`!=` programs.) -/
theorem C04_fd_query_reorder (ord : Order) (dfs : Call → State → State × G) (pf M : Nat)
    (p p' : FProg) (qv : Term) (qs : List Term) (s0 s1 : State) (B : State → List State)
    (h1 : (liftRes fun st => postAtom ord st (.eq qv (Term.ofList qs))) s0 = some s1)
    (hperm : (pathStates ord p s1).Perm (pathStates ord p' s1))
    (hE : ∀ s ∈ pathStates ord p s1,
      AnsS (solveAt dfs pf (M + 2)) (solveAt dfs pf (M + 2) (enforceFd ord qv) s) (B s) ∧ ∀ b ∈ B s, b.panic = none) :
    ∃ k k' zs zs', drainF (solveAt dfs pf (M + 2)) k (solveAt dfs pf (M + 2) (queryG ord qv qs [p.goal ord]) s0) = some zs ∧
      drainF (solveAt dfs pf (M + 2)) k' (solveAt dfs pf (M + 2) (queryG ord qv qs [p'.goal ord]) s0) = some zs' ∧
      zs.Perm zs' := by
  obtain ⟨k, zs, hk, pz⟩ := C17_query_program ord dfs pf M p qv qs s0 s1 B h1 hE
  obtain ⟨k', zs', hk', pz'⟩ := C17_query_program ord dfs pf M p' qv qs s0 s1 B h1
    (fun s hs => hE s (hperm.mem_iff.2 hs))
  exact ⟨k, k', zs, zs', hk, hk', pz.symm.trans ((hperm.flatMap_right _).trans pz')⟩

/-! NON-VACUITY of `C17_query_exactly_once` by instantiation: `|x| { x in 1..2, y in 1..2, x != y }` (FD `!=`; `y` hidden,
    `__query__` = `x2`).  Every Boolean side condition is computed by ONE `decide +kernel`; the labelling invariants come from
    `C17_path_state_invariants`, `OpsOK` from `C17_opsOK_of_allBound`; the theorem is then applied. -/
section NonVacuity
private def qDfs : Call → State → State × G := fun _ a => (a, .fail)
private def qP : FProg := .conj (.atom (.dom (.var 0) (.interval 1 2)))
  (.conj (.atom (.dom (.var 1) (.interval 1 2))) (.atom (.cst (.diseqfd (.var 0) (.var 1)))))
private def qV : Term := .var 2
private def qKeys (c : State) : Term := Term.ofList ((Order.default.ds c.dstore).map fun q => Term.var q.1)
private def qXs (s : State) : List State := (evalRef qDfs 40 (forceAns Order.default forceFuel qV) s).getD []
private def qDs (_ c : State) : List State := (evalRef qDfs 40 (forceAns Order.default forceFuel (qKeys c)) c).getD []
private def qYs (_ c : State) : List State :=
  (drainF (solveAt qDfs 30 2) 30 (start qDfs (solveAt qDfs 30 2) 30
    (Goal.conjOfList [forceAns Order.default forceFuel (qKeys c)]) c)).getD []

private def qBlockOK (c : State) : Bool :=
  c.panic.isNone && c.allBound && decide (c.dstore.length < forceFuel) &&
  (match evalRef qDfs 40 (forceAns Order.default forceFuel (qKeys c)) c with
   | some ds => ds.all (·.panic.isNone)
   | none => false) &&
  (drainF (solveAt qDfs 30 2) 30 (start qDfs (solveAt qDfs 30 2) 30
    (Goal.conjOfList [forceAns Order.default forceFuel (qKeys c)]) c)).isSome &&
  (qYs c c).all (·.panic.isNone)

private def qStateOK (s : State) : Bool :=
  s.panic.isNone && s.allBound &&
  (s.store.all fun q => q.2.isDiseq || (operandsOf q.2).all fun u => (walk s.σ u).isVar || (walk s.σ u).isNum) &&
  (match evalRef qDfs 40 (forceAns Order.default forceFuel qV) s with
   | some xs => xs.all qBlockOK
   | none => false)

private def qSideOK : Bool :=
  match postAtom Order.default (State.empty 3) (.eq qV (Term.ofList [.var 0])) with
  | .ok s1 => (pathStates Order.default qP s1).all qStateOK && (pathStates Order.default qP s1).length == 1
  | _ => false

private theorem qSideOK_true : qSideOK = true := by decide +kernel

private theorem isNone_none {α : Type} {o : Option α} (h : o.isNone = true) : o = none := Option.isNone_iff_eq_none.1 h

example : ∃ (s1 : State) (k : Nat) (zs : List State) (blocks : State → List State),
    postAtom Order.default (State.empty 3) (.eq qV (Term.ofList [.var 0])) = .ok s1 ∧
    drainF (solveAt qDfs 30 3) k (solveAt qDfs 30 3 (queryG Order.default qV [.var 0] [qP.goal Order.default]) (State.empty 3)) = some zs ∧
    ((pathStates Order.default qP s1).flatMap fun s =>
      ((blocks s).flatMap fun c => ((qYs s c).head?).toList).map fun b => reifyState Order.default b qV).Perm zs := by
  have ho : OrderOK Order.default := ⟨fun _ => .refl _, fun _ => .refl _, fun _ => .refl _⟩
  have hside := qSideOK_true
  unfold qSideOK at hside
  cases h1 : postAtom Order.default (State.empty 3) (.eq qV (Term.ofList [.var 0])) with
  | ok s1 =>
    rw [h1] at hside
    simp only [Bool.and_eq_true] at hside
    have hall := List.all_eq_true.1 hside.1
    have hl : (liftRes fun st => postAtom Order.default st (.eq qV (Term.ofList [.var 0]))) (State.empty 3) = some s1 := by
      simp only [liftRes, h1]; rfl
    have hok : qP.OK := ⟨by show (1 : Int) ≤ 2; decide, by show (1 : Int) ≤ 2; decide, trivial⟩
    have hnz : ∀ path ∈ qP.paths, ∀ a ∈ path, a.NoZ := by
      intro path hpath a ha
      simp only [qP, FProg.paths, List.flatMap_cons, List.flatMap_nil, List.map_cons, List.map_nil, List.append_nil,
        List.cons_append, List.nil_append, List.mem_singleton] at hpath
      subst hpath
      simp only [List.mem_cons, List.mem_nil_iff, or_false] at ha
      rcases ha with rfl | rfl | rfl <;> first | trivial | rfl
    have hs : ∀ s ∈ pathStates Order.default qP s1, LInv s ∧ s.panic = none ∧ OpsOK s ∧
        evalRef qDfs 40 (forceAns Order.default forceFuel qV) s = some (qXs s) ∧ (∀ c ∈ qXs s, c.panic = none) ∧
        ∀ c ∈ qXs s, c.allBound = true ∧ c.dstore.length < forceFuel ∧
          evalRef qDfs 40 (forceAns Order.default forceFuel (Term.ofList ((Order.default.ds c.dstore).map fun q => Term.var q.1))) c = some (qDs s c) ∧
          (∀ t ∈ qDs s c, t.panic = none) ∧
          drainF (solveAt qDfs 30 2) 30
            (start qDfs (solveAt qDfs 30 2) 30
              (Goal.conjOfList [forceAns Order.default forceFuel (Term.ofList ((Order.default.ds c.dstore).map fun q => Term.var q.1))]) c) = some (qYs s c) ∧
          (∀ t ∈ qYs s c, t.panic = none) := by
      intro s hsm
      have hst := hall s hsm
      unfold qStateOK at hst
      simp only [Bool.and_eq_true] at hst
      obtain ⟨⟨⟨hp, hab⟩, hkind⟩, hx⟩ := hst
      have hpn : s.panic = none := isNone_none hp
      have hi := C17_path_state_invariants ho 3 qP hok hnz qV [.var 0] s1 h1 s hsm hpn
      have hops : OpsOK s := C17_opsOK_of_allBound s hab hi.z (fun q hq hd u hu => by
        have := (List.all_eq_true.1 hkind) q hq
        rw [hd, Bool.false_or] at this
        have := (List.all_eq_true.1 this) u hu
        simpa [Bool.or_eq_true] using this)
      cases h2 : evalRef qDfs 40 (forceAns Order.default forceFuel qV) s with
      | none => rw [h2] at hx; cases hx
      | some xs =>
        rw [h2] at hx
        have hxs := List.all_eq_true.1 hx
        have eX : qXs s = xs := by unfold qXs; rw [h2]; rfl
        rw [eX]
        have blk : ∀ c ∈ xs, c.panic = none ∧ c.allBound = true ∧ c.dstore.length < forceFuel ∧
            evalRef qDfs 40 (forceAns Order.default forceFuel (qKeys c)) c = some (qDs s c) ∧ (∀ t ∈ qDs s c, t.panic = none) ∧
            drainF (solveAt qDfs 30 2) 30 (start qDfs (solveAt qDfs 30 2) 30
              (Goal.conjOfList [forceAns Order.default forceFuel (qKeys c)]) c) = some (qYs s c) ∧
            (∀ t ∈ qYs s c, t.panic = none) := by
          intro c hc
          have hb := hxs c hc
          unfold qBlockOK at hb
          simp only [Bool.and_eq_true, decide_eq_true_eq] at hb
          obtain ⟨⟨⟨⟨⟨b1, b2⟩, b3⟩, b4⟩, b5⟩, b6⟩ := hb
          refine ⟨isNone_none b1, b2, b3, ?_, ?_, ?_, fun t ht => isNone_none ((List.all_eq_true.1 b6) t ht)⟩
          · unfold qDs; cases he : evalRef qDfs 40 (forceAns Order.default forceFuel (qKeys c)) c with
            | none => rw [he] at b4; cases b4
            | some ds => rfl
          · unfold qDs; cases he : evalRef qDfs 40 (forceAns Order.default forceFuel (qKeys c)) c with
            | none => rw [he] at b4; cases b4
            | some ds =>
              rw [he] at b4
              intro t ht
              exact isNone_none ((List.all_eq_true.1 b4) t ht)
          · unfold qYs
            cases hd : drainF (solveAt qDfs 30 2) 30 (start qDfs (solveAt qDfs 30 2) 30
                (Goal.conjOfList [forceAns Order.default forceFuel (qKeys c)]) c) with
            | none => rw [hd] at b5; cases b5
            | some ys => rfl
        exact ⟨hi, hpn, hops, rfl, fun c hc => (blk c hc).1, fun c hc => (blk c hc).2⟩
    obtain ⟨k, zs, blocks, hk, _, pz, _⟩ := C17_query_exactly_once ho qDfs 30 1 qP qV [.var 0] (State.empty 3) s1 hl
      (fun _ => 40) qXs (fun _ _ => 40) qDs qYs hs
    exact ⟨s1, k, zs, blocks, rfl, hk, pz⟩
  | fail => rw [h1] at hside; cases hside
  | fuel => rw [h1] at hside; cases hside
  | panic _ => rw [h1] at hside; cases hside
end NonVacuity

section Examples
/-- `|q| { q in 1..3, conde { q != 2 ; q <= 1 } }` (FD): the engine on the whole query goal delivers 1, 3 (first clause) and 1
    (second clause) — the sum over the two paths -/
private def exQ : FProg := .conj (.atom (.dom (.var 0) (.interval 1 3)))
  (.alt (.atom (.cst (.diseqfd (.var 0) (Term.num 2)))) (.atom (.cst (.ltefd (.var 0) (Term.num 1)))))
example : ((drainF (solveAt (defs Order.default) 30 4) 400
    (solveAt (defs Order.default) 30 4 (queryG Order.default (.var 1) [.var 0] [exQ.goal Order.default]) (State.empty 2))).map
      (fun zs => (zs.map fun s => apply s.σ (.var 0)))).map (fun l => (l.length, l.contains (Term.num 1), l.contains (Term.num 3), l.contains (Term.num 2))) =
    some (3, true, true, false) := by decide +kernel
end Examples

end Pv
