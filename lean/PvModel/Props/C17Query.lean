/-
  C16 / C17 / C04 — THE WHOLE QUERY ON THE ENGINE, FINITE DOMAINS INCLUDED.  `queryG` is
  `fresh(__query__) [__query__ == [q0, …], body, reify(__query__)]`, and `reify` starts with
  `enforce_constraints_fd` (labelling of the query term, `verify_all_bound`, the `onceo` over the remaining domain
  variables).  For a body `p` of `==`, `!=`, domain and FD-constraint atoms under conjunction, `conde` and `fresh`:
  the engine terminates and the delivered states are — as a multiset — the SUM OVER THE PATHS of the body, for each
  path state `s` the states `B s` that `enforce_constraints_fd` delivers from it, each reified.

  `C17_enforce_exactly_once` (Props/C17Enforce.lean) supplies `B s` and its properties (one closed state per block of the
  labelling that has a solution, none for the others); `C17_assignments_bijection` / `C17_answer_values` identify the
  blocks with the assignments of the query variables.  This theorem is the step those left to the correspondence: the
  sum over the paths of a program, the `fresh(__query__)` wrapper and the reification atom.
-/
import PvModel.Proofs.QueryGoal
import PvModel.Props.C02Query
import PvModel.Props.C17Enforce
namespace Pv
open Strm Goal State Term

attribute [local instance] Mode.strict

theorem C17_query_program (ord : Order) (dfs : Call → State → State × G) (pf M : Nat)
    (p : FProg) (qv : Term) (qs : List Term) (s0 s1 : State) (B : State → List State)
    (h1 : (liftRes fun st => postAtom ord st (.eq qv (Term.ofList qs))) s0 = some s1)
    (hE : ∀ s ∈ pathStates ord p s1,
      AnsS (solveAt dfs pf (M + 2)) (solveAt dfs pf (M + 2) (enforceFd ord qv) s) (B s) ∧ ∀ b ∈ B s, b.panic = none) :
    ∃ k zs, drainF (solveAt dfs pf (M + 2)) k (solveAt dfs pf (M + 2) (queryG ord qv qs [p.goal ord]) s0) = some zs ∧
      ((pathStates ord p s1).flatMap fun s => (B s).map fun b => reifyState ord b qv).Perm zs := by
  obtain ⟨xs, hx⟩ := evalRef_total ord dfs p 0 s1
  have ex := evalRef_paths_exact dfs p _ s1 xs hx
  obtain ⟨ys, hys, py⟩ := ref_perm dfs pf (M + 1) _ _ s1 xs hx (M + 1)
  have hbody : AnsS (solveAt dfs pf (M + 2)) (solveAt dfs pf (M + 2) (Goal.conjOfList [p.goal ord]) s1) ys := by
    show AnsS _ (solveAt dfs pf (M + 2) (mkConj (p.goal ord) .succeed) s1) ys
    exact ansS_mkConj dfs pf (M + 1) hys (ansB_id dfs pf (M + 1))
  have hR : ∀ s ∈ ys, AnsS (solveAt dfs pf (M + 2)) (solveAt dfs pf (M + 2) (reifyG ord qv) s)
      ((B s).map fun b => reifyState ord b qv) := by
    intro s hsy
    have hsx : s ∈ pathStates ord p s1 := by
      have := py.mem_iff.2 hsy
      rw [ex] at this; exact this
    obtain ⟨hA, hp⟩ := hE s hsx
    exact reifyG_of_enforce (ord := ord) dfs pf (M + 1) qv s (B s) hA hp
  have hq := query_compose_gen (ord := ord) dfs pf (M + 1) qv qs [p.goal ord] s0 s1 ys
    (fun s => (B s).map fun b => reifyState ord b qv) h1 hbody hR
  obtain ⟨k, zs, hk, pz⟩ := drain_perm _ (topOK_solveAt dfs pf (M + 1)) hq
  refine ⟨k, zs, hk, ?_⟩
  have : (pathStates ord p s1) = xs := ex.symm
  rw [this]
  exact (py.flatMap_right _).trans pz

/-! ### path states from the empty state: the labelling invariants come with the program's shape -/

theorem postL_poisoned (ord : Order) : ∀ (path : List FAtom) (st : State), st.panic.isSome = true → postL ord st path = some st
  | [], _, _ => rfl
  | a :: as, st, h => by
    simp only [postL, liftRes, h, if_true, Option.bind_some]
    exact postL_poisoned ord as st h

/-- an unpoisoned path state is the state the path's atoms post -/
theorem postL_unpoisoned (ord : Order) : ∀ (path : List FAtom) (st s : State), Inv st → st.panic = none →
    postL ord st path = some s → s.panic = none → postAllF ord st path = .ok s
  | [], st, s, _, _, h, _ => by simp only [postL, Option.some.injEq] at h; subst h; rfl
  | a :: as, st, s, hi, hp, h, hsp => by
    have hps : st.panic.isSome = false := by rw [hp]; rfl
    simp only [postL, liftRes, hps, Bool.false_eq_true, if_false] at h
    simp only [postAllF]
    cases hr : postF ord st a with
    | ok s2 =>
      rw [hr] at h
      simp only [Option.bind_some] at h
      obtain ⟨pan, inv2⟩ := postF_pan ord hi hr
      simp only [Res.bind]
      exact postL_unpoisoned ord as s2 s inv2 (pan.trans hp) h hsp
    | fail => rw [hr] at h; simp at h
    | fuel =>
      rw [hr] at h
      simp only [Option.bind_some] at h
      rw [postL_poisoned ord as _ rfl] at h
      simp only [Option.some.injEq] at h
      rw [← h] at hsp; cases hsp
    | panic m =>
      rw [hr] at h
      simp only [Option.bind_some] at h
      rw [postL_poisoned ord as _ rfl] at h
      simp only [Option.some.injEq] at h
      rw [← h] at hsp; cases hsp

/-- an unpoisoned path state of a query run from the empty state is the state its atoms post, query equation first -/
theorem pathStates_from_empty (ord : Order) (n : Nat) (p : FProg) (qv : Term) (qs : List Term) (s1 : State)
    (h1 : postAtom ord (State.empty n) (.eq qv (Term.ofList qs)) = .ok s1)
    (s : State) (hs : s ∈ pathStates ord p s1) (hp : s.panic = none) :
    ∃ path ∈ p.paths, postAllF ord (State.empty n) (.eq qv (Term.ofList qs) :: path) = .ok s := by
  have hF : postF ord (State.empty n) (.eq qv (Term.ofList qs)) = .ok s1 := h1
  obtain ⟨pan1, inv1⟩ := postF_pan ord (inv_empty n) hF
  obtain ⟨path, hpath, hps⟩ := List.mem_filterMap.1 hs
  have hall := postL_unpoisoned ord path s1 s inv1 pan1 hps hp
  exact ⟨path, hpath, by simp only [postAllF, hF, Res.bind]; exact hall⟩

/-- every unpoisoned path state of a query run from the EMPTY state, whose body posts well-formed domains and propagators
    and no CLP(Z) constraint, has the labelling invariants (`LInv`: well-formed, the state-machine invariant, every domain
    key unbound, every propagator live) -/
theorem C17_path_state_invariants {ord : Order} (ho : OrderOK ord) (n : Nat) (p : FProg) (hok : p.OK)
    (hnz : ∀ path ∈ p.paths, ∀ a ∈ path, a.NoZ) (qv : Term) (qs : List Term) (s1 : State)
    (h1 : postAtom ord (State.empty n) (.eq qv (Term.ofList qs)) = .ok s1)
    (s : State) (hs : s ∈ pathStates ord p s1) (hp : s.panic = none) : LInv s := by
  have hF : postF ord (State.empty n) (.eq qv (Term.ofList qs)) = .ok s1 := h1
  obtain ⟨pan1, inv1⟩ := postF_pan ord (inv_empty n) hF
  obtain ⟨path, hpath, hps⟩ := List.mem_filterMap.1 hs
  have hall := postL_unpoisoned ord path s1 s inv1 pan1 hps hp
  have hfull : postAllF ord (State.empty n) (.eq qv (Term.ofList qs) :: path) = .ok s := by
    simp only [postAllF, hF, Res.bind]; exact hall
  refine linv_of_atoms ho n _ (fun a ha => ?_) (fun a ha => ?_) s hfull
  · rcases List.mem_cons.1 ha with rfl | ha
    · trivial
    · exact FProg.paths_ok p hok path hpath a ha
  · rcases List.mem_cons.1 ha with rfl | ha
    · trivial
    · exact hnz path hpath a ha

/-- `C17_query_exactly_once` — `C17_enforce_exactly_once` and `C17_query_program` IN ONE STATEMENT.  For every path state `s`
    of the body with the labelling invariants, whose labelling of the query term delivers the blocks `xsOf s` and whose
    blocks pass `verify_all_bound` and have their hidden labelling drained, unpoisoned, within the peek fuel (`ysOf s c`): the engine
    terminates on the whole query goal, and its answers are — as a multiset — the reified heads `(ysOf s c).head?` over all
    paths `s` and all blocks `c`: ONE answer for every block that describes a valuation, NONE for the others, each answer a
    closed state describing only valuations of its block. -/
theorem C17_query_exactly_once {ord : Order} (ho : OrderOK ord) (dfs : Call → State → State × G) (pf M : Nat)
    (p : FProg) (qv : Term) (qs : List Term) (s0 s1 : State)
    (h1 : (liftRes fun st => postAtom ord st (.eq qv (Term.ofList qs))) s0 = some s1)
    (NOf : State → Nat) (xsOf : State → List State) (N2 : State → State → Nat) (dsOf ysOf : State → State → List State)
    (hs : ∀ s ∈ pathStates ord p s1, LInv s ∧ s.panic = none ∧ OpsOK s ∧
      evalRef dfs (NOf s) (forceAns ord forceFuel qv) s = some (xsOf s) ∧ (∀ c ∈ xsOf s, c.panic = none) ∧
      ∀ c ∈ xsOf s, c.allBound = true ∧ c.dstore.length < forceFuel ∧
        evalRef dfs (N2 s c) (forceAns ord forceFuel (Term.ofList ((ord.ds c.dstore).map fun q => Term.var q.1))) c = some (dsOf s c) ∧
        (∀ t ∈ dsOf s c, t.panic = none) ∧
        drainF (solveAt dfs pf (M + 1)) pf
          (start dfs (solveAt dfs pf (M + 1)) pf
            (Goal.conjOfList [forceAns ord forceFuel (Term.ofList ((ord.ds c.dstore).map fun q => Term.var q.1))]) c) = some (ysOf s c) ∧
        (∀ t ∈ ysOf s c, t.panic = none)) :
    ∃ (k : Nat) (zs : List State) (blocks : State → List State),
      drainF (solveAt dfs pf (M + 2)) k (solveAt dfs pf (M + 2) (queryG ord qv qs [p.goal ord]) s0) = some zs ∧
      (∀ s ∈ pathStates ord p s1, (xsOf s).Perm (blocks s)) ∧
      ((pathStates ord p s1).flatMap fun s =>
        ((blocks s).flatMap fun c => ((ysOf s c).head?).toList).map fun b => reifyState ord b qv).Perm zs ∧
      (∀ s ∈ pathStates ord p s1, ∀ c ∈ xsOf s,
        (∀ b, (ysOf s c).head? = some b → b.dstore = [] ∧ (∀ q ∈ b.store, q.2.isDiseq = true) ∧ ∀ γ, Sem NoI γ b → Sem NoI γ c) ∧
        ((∃ γ, Sem NoI γ c) → ((ysOf s c).head?).isSome = true)) := by
  classical
  have each : ∀ s, s ∈ pathStates ord p s1 → _ := fun s hsm => by
    obtain ⟨li, hp, ops, hx, hall, hblk⟩ := hs s hsm
    exact C17_enforce_exactly_once ho dfs pf M qv s (NOf s) (xsOf s) li hp ops hx hall (N2 s) (dsOf s) (ysOf s)
      (fun c hc => ⟨(hblk c hc).1, (hblk c hc).2.1, (hblk c hc).2.2.1, (hblk c hc).2.2.2.1, (hblk c hc).2.2.2.2.1⟩)
  let blocks : State → List State := fun s =>
    if h : s ∈ pathStates ord p s1 then Classical.choose (each s h).1 else []
  have hblocks : ∀ s (h : s ∈ pathStates ord p s1), (xsOf s).Perm (blocks s) ∧
      AnsS (solveAt dfs pf (M + 2)) (solveAt dfs pf (M + 2) (enforceFd ord qv) s)
        ((blocks s).flatMap fun c => ((ysOf s c).head?).toList) := by
    intro s h
    have := Classical.choose_spec (each s h).1
    simp only [blocks, h, dif_pos]
    exact this
  have hE : ∀ s ∈ pathStates ord p s1,
      AnsS (solveAt dfs pf (M + 2)) (solveAt dfs pf (M + 2) (enforceFd ord qv) s)
        ((blocks s).flatMap fun c => ((ysOf s c).head?).toList) ∧
      ∀ b ∈ (blocks s).flatMap fun c => ((ysOf s c).head?).toList, b.panic = none := by
    intro s hsm
    refine ⟨(hblocks s hsm).2, fun b hb => ?_⟩
    obtain ⟨c, hc, hbc⟩ := List.mem_flatMap.1 hb
    have hcx : c ∈ xsOf s := (hblocks s hsm).1.mem_iff.2 hc
    have hh : (ysOf s c).head? = some b := by
      cases hy : (ysOf s c).head? with
      | none => rw [hy] at hbc; cases hbc
      | some b' => rw [hy] at hbc; simp only [Option.toList_some, List.mem_singleton] at hbc; rw [hbc]
    have hun := ((hs s hsm).2.2.2.2.2 c hcx).2.2.2.2.2
    cases hy : ysOf s c with
    | nil => rw [hy] at hh; cases hh
    | cons y ys =>
      rw [hy] at hh
      simp only [List.head?_cons, Option.some.injEq] at hh
      exact hun b (by rw [hy, ← hh]; exact List.mem_cons_self)
  obtain ⟨k, zs, hk, pz⟩ := C17_query_program ord dfs pf M p qv qs s0 s1
    (fun s => (blocks s).flatMap fun c => ((ysOf s c).head?).toList) h1 hE
  exact ⟨k, zs, blocks, hk, fun s hsm => (hblocks s hsm).1, pz,
    fun s hsm c hc => ⟨((each s hsm).2 c hc).1, ((each s hsm).2 c hc).2.1⟩⟩

/-- `C17_query_complete` — NO SOLUTION IS LOST, FOR THE WHOLE QUERY, ON THE ENGINE.  In the setting of `C17_query_exactly_once`:
    for every path state `s` of the body and every valuation `γ` it describes (every solution of that path: `postAllF_sem`),
    the block `c` of the query-term labelling that contains `γ` has an answer — the engine delivers the reified head of its
    hidden labelling.  (With `C17_assignments_bijection`: that answer gives the query term the value `γ` gives it.) -/
theorem C17_query_complete {ord : Order} (ho : OrderOK ord) (dfs : Call → State → State × G) (pf M : Nat)
    (p : FProg) (qv : Term) (qs : List Term) (s0 s1 : State)
    (h1 : (liftRes fun st => postAtom ord st (.eq qv (Term.ofList qs))) s0 = some s1)
    (NOf : State → Nat) (xsOf : State → List State) (N2 : State → State → Nat) (dsOf ysOf : State → State → List State)
    (hs : ∀ s ∈ pathStates ord p s1, LInv s ∧ s.panic = none ∧ OpsOK s ∧
      evalRef dfs (NOf s) (forceAns ord forceFuel qv) s = some (xsOf s) ∧ (∀ c ∈ xsOf s, c.panic = none) ∧
      ∀ c ∈ xsOf s, c.allBound = true ∧ c.dstore.length < forceFuel ∧
        evalRef dfs (N2 s c) (forceAns ord forceFuel (Term.ofList ((ord.ds c.dstore).map fun q => Term.var q.1))) c = some (dsOf s c) ∧
        (∀ t ∈ dsOf s c, t.panic = none) ∧
        drainF (solveAt dfs pf (M + 1)) pf
          (start dfs (solveAt dfs pf (M + 1)) pf
            (Goal.conjOfList [forceAns ord forceFuel (Term.ofList ((ord.ds c.dstore).map fun q => Term.var q.1))]) c) = some (ysOf s c) ∧
        (∀ t ∈ ysOf s c, t.panic = none)) :
    ∃ (k : Nat) (zs : List State),
      drainF (solveAt dfs pf (M + 2)) k (solveAt dfs pf (M + 2) (queryG ord qv qs [p.goal ord]) s0) = some zs ∧
      ∀ s ∈ pathStates ord p s1, ∀ γ, Sem NoI γ s →
        ∃ c ∈ xsOf s, Sem NoI γ c ∧ ∃ b, (ysOf s c).head? = some b ∧ reifyState ord b qv ∈ zs := by
  obtain ⟨k, zs, blocks, hk, hbl, pz, hprops⟩ := C17_query_exactly_once ho dfs pf M p qv qs s0 s1 h1 NOf xsOf N2 dsOf ysOf hs
  refine ⟨k, zs, hk, fun s hsm γ hγ => ?_⟩
  obtain ⟨hi, hp, _, hx, hall, _⟩ := hs s hsm
  have part := (forceAns_labelOK dfs ho forceFuel qv).1 (NOf s) s (xsOf s) hi.w hi.i hp hx hall
  obtain ⟨c, hc, hsc⟩ := part.2.1 γ hγ
  have hsome := (hprops s hsm c hc).2 ⟨γ, hsc⟩
  cases hh : (ysOf s c).head? with
  | none => rw [hh] at hsome; cases hsome
  | some b =>
    refine ⟨c, hc, hsc, b, hh, pz.mem_iff.1 ?_⟩
    refine List.mem_flatMap.2 ⟨s, hsm, List.mem_map_of_mem (List.mem_flatMap.2 ⟨c, (hbl s hsm).mem_iff.1 hc, ?_⟩)⟩
    rw [hh]; exact List.mem_singleton.2 rfl

/-- `C17_query_no_duplicates` — NO ASSIGNMENT IS ANSWERED TWICE ALONG ONE PATH, FOR THE WHOLE QUERY, ON THE ENGINE.  In the setting
    of `C17_query_exactly_once`: the closed states behind the answers that come from one path state give the query term PAIRWISE
    DIFFERENT values — whatever valuation one describes and whatever valuation another describes.  (Two PATHS of a `conde` may
    answer the same assignment once each: that is the multiplicity "per path" of the property.) -/
theorem C17_query_no_duplicates {ord : Order} (ho : OrderOK ord) (dfs : Call → State → State × G) (pf M : Nat)
    (p : FProg) (qv : Term) (qs : List Term) (s0 s1 : State)
    (h1 : (liftRes fun st => postAtom ord st (.eq qv (Term.ofList qs))) s0 = some s1)
    (NOf : State → Nat) (xsOf : State → List State) (N2 : State → State → Nat) (dsOf ysOf : State → State → List State)
    (hs : ∀ s ∈ pathStates ord p s1, LInv s ∧ s.panic = none ∧ OpsOK s ∧
      evalRef dfs (NOf s) (forceAns ord forceFuel qv) s = some (xsOf s) ∧ (∀ c ∈ xsOf s, c.panic = none) ∧
      ∀ c ∈ xsOf s, c.allBound = true ∧ c.dstore.length < forceFuel ∧
        evalRef dfs (N2 s c) (forceAns ord forceFuel (Term.ofList ((ord.ds c.dstore).map fun q => Term.var q.1))) c = some (dsOf s c) ∧
        (∀ t ∈ dsOf s c, t.panic = none) ∧
        drainF (solveAt dfs pf (M + 1)) pf
          (start dfs (solveAt dfs pf (M + 1)) pf
            (Goal.conjOfList [forceAns ord forceFuel (Term.ofList ((ord.ds c.dstore).map fun q => Term.var q.1))]) c) = some (ysOf s c) ∧
        (∀ t ∈ ysOf s c, t.panic = none)) :
    ∃ (k : Nat) (zs : List State) (blocks : State → List State),
      drainF (solveAt dfs pf (M + 2)) k (solveAt dfs pf (M + 2) (queryG ord qv qs [p.goal ord]) s0) = some zs ∧
      ((pathStates ord p s1).flatMap fun s =>
        ((blocks s).flatMap fun c => ((ysOf s c).head?).toList).map fun b => reifyState ord b qv).Perm zs ∧
      ∀ s ∈ pathStates ord p s1, ((blocks s).flatMap fun c => ((ysOf s c).head?).toList).Pairwise
        (fun a b => ∀ γa γb, Sem NoI γa a → Sem NoI γb b → apply γa qv ≠ apply γb qv) := by
  obtain ⟨k, zs, blocks, hk, hbl, pz, _⟩ := C17_query_exactly_once ho dfs pf M p qv qs s0 s1 h1 NOf xsOf N2 dsOf ysOf hs
  refine ⟨k, zs, blocks, hk, pz, fun s hsm => ?_⟩
  obtain ⟨hi, hp, hops, hx, hall, hblk⟩ := hs s hsm
  obtain ⟨xs', px, _, hpw, _⟩ := C17_each_assignment_once ho dfs pf M qv s (NOf s) (xsOf s) hi hp hops hx hall (N2 s) (dsOf s) (ysOf s)
    (fun c hc => ⟨(hblk c hc).1, (hblk c hc).2.1, (hblk c hc).2.2.1, (hblk c hc).2.2.2.1, (hblk c hc).2.2.2.2.1⟩)
  have pp : (xs'.flatMap fun c => ((ysOf s c).head?).toList).Perm ((blocks s).flatMap fun c => ((ysOf s c).head?).toList) :=
    ((px.symm.trans (hbl s hsm)).flatMap_right _)
  exact (pp.pairwise_iff (fun {a b} h γa γb sa sb e => h γb γa sb sa e.symm)).1 hpw

/-- `C16_query_answers_sound` — C16 FOR THE WHOLE QUERY, ON THE ENGINE.  A query run from the empty state whose body posts
    well-formed domains and propagators (no CLP(Z) constraint), in the setting of `C17_query_exactly_once`: the engine
    terminates, and EVERY answer it delivers is the reified form of a closed state `b` (no domain left) reached along one path
    of the body, and — when `b` holds no tree disequality — every atom of that path (domains, FD constraints, `==`) and the
    query equation hold under `b`'s own substitution: each constrained variable is an integer of its domain and every
    posted constraint is satisfied. -/
theorem C16_query_answers_sound {ord : Order} (ho : OrderOK ord) (dfs : Call → State → State × G) (pf M n : Nat)
    (p : FProg) (hok : p.OK) (hnz : ∀ path ∈ p.paths, ∀ a ∈ path, a.NoZ) (qv : Term) (qs : List Term) (s1 : State)
    (h1 : postAtom ord (State.empty n) (.eq qv (Term.ofList qs)) = .ok s1)
    (NOf : State → Nat) (xsOf : State → List State) (N2 : State → State → Nat) (dsOf ysOf : State → State → List State)
    (hs : ∀ s ∈ pathStates ord p s1, s.panic = none ∧ OpsOK s ∧
      evalRef dfs (NOf s) (forceAns ord forceFuel qv) s = some (xsOf s) ∧ (∀ c ∈ xsOf s, c.panic = none) ∧
      ∀ c ∈ xsOf s, c.allBound = true ∧ c.dstore.length < forceFuel ∧
        evalRef dfs (N2 s c) (forceAns ord forceFuel (Term.ofList ((ord.ds c.dstore).map fun q => Term.var q.1))) c = some (dsOf s c) ∧
        (∀ t ∈ dsOf s c, t.panic = none) ∧
        drainF (solveAt dfs pf (M + 1)) pf
          (start dfs (solveAt dfs pf (M + 1)) pf
            (Goal.conjOfList [forceAns ord forceFuel (Term.ofList ((ord.ds c.dstore).map fun q => Term.var q.1))]) c) = some (ysOf s c) ∧
        (∀ t ∈ ysOf s c, t.panic = none)) :
    ∃ (k : Nat) (zs : List State),
      drainF (solveAt dfs pf (M + 2)) k (solveAt dfs pf (M + 2) (queryG ord qv qs [p.goal ord]) (State.empty n)) = some zs ∧
      ∀ z ∈ zs, ∃ path ∈ p.paths, ∃ b : State, z = reifyState ord b qv ∧ b.dstore = [] ∧
        (b.store = [] → (TAtom.eq qv (Term.ofList qs)).Sat b.σ ∧ ∀ a ∈ path, a.Sat b.σ) := by
  have hl : (liftRes fun st => postAtom ord st (.eq qv (Term.ofList qs))) (State.empty n) = some s1 := by
    simp only [liftRes, h1]; rfl
  have hs' : ∀ s ∈ pathStates ord p s1, LInv s ∧ _ := fun s hsm =>
    ⟨C17_path_state_invariants ho n p hok hnz qv qs s1 h1 s hsm (hs s hsm).1, hs s hsm⟩
  obtain ⟨k, zs, blocks, hk, hbl, pz, hprops⟩ :=
    C17_query_exactly_once ho dfs pf M p qv qs (State.empty n) s1 hl NOf xsOf N2 dsOf ysOf hs'
  refine ⟨k, zs, hk, fun z hz => ?_⟩
  obtain ⟨s, hsm, hzs⟩ := List.mem_flatMap.1 (pz.mem_iff.2 hz)
  obtain ⟨b, hb, rfl⟩ := List.mem_map.1 hzs
  obtain ⟨c, hc, hbc⟩ := List.mem_flatMap.1 hb
  have hcx : c ∈ xsOf s := (hbl s hsm).mem_iff.2 hc
  have hh : (ysOf s c).head? = some b := by
    cases hy : (ysOf s c).head? with
    | none => rw [hy] at hbc; cases hbc
    | some b' => rw [hy] at hbc; simp only [Option.toList_some, List.mem_singleton] at hbc; rw [hbc]
  obtain ⟨hp, hops, hx, hall, hblk⟩ := hs s hsm
  obtain ⟨path, hpath, hfull⟩ := pathStates_from_empty ord n p qv qs s1 h1 s hsm hp
  refine ⟨path, hpath, b, rfl, ((hprops s hsm c hcx).1 b hh).1, fun hst => ?_⟩
  have hokA : ∀ a ∈ (FAtom.eq qv (Term.ofList qs) :: path), a.OK := fun a ha => by
    rcases List.mem_cons.1 ha with rfl | ha
    · trivial
    · exact FProg.paths_ok p hok path hpath a ha
  have hnzA : ∀ a ∈ (FAtom.eq qv (Term.ofList qs) :: path), a.NoZ := fun a ha => by
    rcases List.mem_cons.1 ha with rfl | ha
    · trivial
    · exact hnz path hpath a ha
  have key := C16_enforce_answers_sound ho dfs pf M n _ hokA hnzA qv s hfull (NOf s) (xsOf s) hp hops hx hall (N2 s) (dsOf s) (ysOf s)
    (fun c hc => ⟨(hblk c hc).1, (hblk c hc).2.1, (hblk c hc).2.2.1, (hblk c hc).2.2.2.1, (hblk c hc).2.2.2.2.1⟩) c hcx b hh hst
  exact ⟨key _ List.mem_cons_self, fun a ha => key a (List.mem_cons_of_mem _ ha)⟩

/-- the number of answers of the query is the sum over the paths of the number of states `enforce_constraints_fd` delivers -/
theorem C17_query_count (ord : Order) (dfs : Call → State → State × G) (pf M : Nat)
    (p : FProg) (qv : Term) (qs : List Term) (s0 s1 : State) (B : State → List State)
    (h1 : (liftRes fun st => postAtom ord st (.eq qv (Term.ofList qs))) s0 = some s1)
    (hE : ∀ s ∈ pathStates ord p s1,
      AnsS (solveAt dfs pf (M + 2)) (solveAt dfs pf (M + 2) (enforceFd ord qv) s) (B s) ∧ ∀ b ∈ B s, b.panic = none) :
    ∃ k zs, drainF (solveAt dfs pf (M + 2)) k (solveAt dfs pf (M + 2) (queryG ord qv qs [p.goal ord]) s0) = some zs ∧
      zs.length = ((pathStates ord p s1).map fun s => (B s).length).sum := by
  obtain ⟨k, zs, hk, pz⟩ := C17_query_program ord dfs pf M p qv qs s0 s1 B h1 hE
  refine ⟨k, zs, hk, ?_⟩
  rw [← pz.length_eq, List.length_flatMap]
  simp only [List.length_map]

/-- `C10_query_branch_isolation` — BRANCHES DO NOT SEE EACH OTHER, FOR THE WHOLE QUERY, ON THE ENGINE.  A query whose body is
    `conde { p ; q }` (tree and FD atoms, nested `conde`/`fresh` inside `p` and `q`) has — as a multiset — exactly the answers of
    the query with body `p` together with the answers of the query with body `q`: nothing a branch posts (bindings, domains,
    propagators, disequalities) reaches the other branch's answers, through labelling and reification included. -/
theorem C10_query_branch_isolation (ord : Order) (dfs : Call → State → State × G) (pf M : Nat)
    (p q : FProg) (qv : Term) (qs : List Term) (s0 s1 : State) (B : State → List State)
    (h1 : (liftRes fun st => postAtom ord st (.eq qv (Term.ofList qs))) s0 = some s1)
    (hE : ∀ s ∈ pathStates ord (.alt p q) s1,
      AnsS (solveAt dfs pf (M + 2)) (solveAt dfs pf (M + 2) (enforceFd ord qv) s) (B s) ∧ ∀ b ∈ B s, b.panic = none) :
    ∃ k kp kq zs zp zq,
      drainF (solveAt dfs pf (M + 2)) k (solveAt dfs pf (M + 2) (queryG ord qv qs [(FProg.alt p q).goal ord]) s0) = some zs ∧
      drainF (solveAt dfs pf (M + 2)) kp (solveAt dfs pf (M + 2) (queryG ord qv qs [p.goal ord]) s0) = some zp ∧
      drainF (solveAt dfs pf (M + 2)) kq (solveAt dfs pf (M + 2) (queryG ord qv qs [q.goal ord]) s0) = some zq ∧
      zs.Perm (zp ++ zq) := by
  have hsplit : pathStates ord (.alt p q) s1 = pathStates ord p s1 ++ pathStates ord q s1 := by
    simp only [pathStates, FProg.paths, List.filterMap_append]
  obtain ⟨k, zs, hk, pz⟩ := C17_query_program ord dfs pf M (.alt p q) qv qs s0 s1 B h1 hE
  obtain ⟨kp, zp, hkp, pzp⟩ := C17_query_program ord dfs pf M p qv qs s0 s1 B h1
    (fun s hs => hE s (by rw [hsplit]; exact List.mem_append_left _ hs))
  obtain ⟨kq, zq, hkq, pzq⟩ := C17_query_program ord dfs pf M q qv qs s0 s1 B h1
    (fun s hs => hE s (by rw [hsplit]; exact List.mem_append_right _ hs))
  refine ⟨k, kp, kq, zs, zp, zq, hk, hkp, hkq, ?_⟩
  rw [hsplit, List.flatMap_append] at pz
  exact pz.symm.trans (pzp.append pzq)

/-- the same for `==` / `!=` programs run from the empty state, with no hypothesis on the states (`C02_query_tree`) -/
theorem C10_query_branch_isolation_tree (ord : Order) (ho : OrderOK ord) (dfs : Call → State → State × G) (pf M n : Nat)
    (p q : FProg) (hp : p.TreeOnly) (hq : q.TreeOnly) (qv : Term) (qs : List Term) (s1 : State)
    (h1 : postAtom ord (State.empty n) (.eq qv (Term.ofList qs)) = .ok s1)
    (hnf : ∀ path ∈ (FProg.alt p q).paths, postAllF ord s1 path ≠ .fuel)
    (hsz : ∀ path ∈ (FProg.alt p q).paths, ∀ s, postAllF ord s1 path = .ok s → (apply s.σ qv).size ≤ forceFuel) :
    ∃ k kp kq zs zp zq,
      drainF (solveAt dfs (pf + 2) (M + 2)) k (solveAt dfs (pf + 2) (M + 2) (queryG ord qv qs [(FProg.alt p q).goal ord]) (State.empty n)) = some zs ∧
      drainF (solveAt dfs (pf + 2) (M + 2)) kp (solveAt dfs (pf + 2) (M + 2) (queryG ord qv qs [p.goal ord]) (State.empty n)) = some zp ∧
      drainF (solveAt dfs (pf + 2) (M + 2)) kq (solveAt dfs (pf + 2) (M + 2) (queryG ord qv qs [q.goal ord]) (State.empty n)) = some zq ∧
      zs.Perm (zp ++ zq) := by
  have hsplit : pathStates ord (.alt p q) s1 = pathStates ord p s1 ++ pathStates ord q s1 := by
    simp only [pathStates, FProg.paths, List.filterMap_append]
  have hpaths : (FProg.alt p q).paths = p.paths ++ q.paths := rfl
  obtain ⟨k, zs, hk, pz⟩ := C02_query_tree ord ho dfs pf M n (.alt p q) ⟨hp, hq⟩ qv qs s1 h1 hnf hsz
  obtain ⟨kp, zp, hkp, pzp⟩ := C02_query_tree ord ho dfs pf M n p hp qv qs s1 h1
    (fun path h => hnf path (by rw [hpaths]; exact List.mem_append_left _ h))
    (fun path h => hsz path (by rw [hpaths]; exact List.mem_append_left _ h))
  obtain ⟨kq, zq, hkq, pzq⟩ := C02_query_tree ord ho dfs pf M n q hq qv qs s1 h1
    (fun path h => hnf path (by rw [hpaths]; exact List.mem_append_right _ h))
    (fun path h => hsz path (by rw [hpaths]; exact List.mem_append_right _ h))
  refine ⟨k, kp, kq, zs, zp, zq, hk, hkp, hkq, ?_⟩
  rw [hsplit, List.map_append] at pz
  exact pz.symm.trans (pzp.append pzq)

/-- C04's reading of `C17_query_program` for REORDERED CLAUSES: two bodies whose lists of path states are permutations of
    each other (swapping the clauses of a `conde`, at any depth, permutes the paths and leaves each path's atoms — hence
    its state — unchanged) have the same answer multiset on the engine.  (Swapping CONJUNCTS changes the order in which a
    path's atoms are posted, so the path states are only semantically equal: that case is `C04_fd_answer_values_perm`
    per path, and `C04_tree_reorder_multiset` for `==`/`!=` programs.) -/
theorem C04_fd_query_reorder (ord : Order) (dfs : Call → State → State × G) (pf M : Nat)
    (p p' : FProg) (qv : Term) (qs : List Term) (s0 s1 : State) (B : State → List State)
    (h1 : (liftRes fun st => postAtom ord st (.eq qv (Term.ofList qs))) s0 = some s1)
    (hperm : (pathStates ord p s1).Perm (pathStates ord p' s1))
    (hE : ∀ s ∈ pathStates ord p s1,
      AnsS (solveAt dfs pf (M + 2)) (solveAt dfs pf (M + 2) (enforceFd ord qv) s) (B s) ∧ ∀ b ∈ B s, b.panic = none) :
    ∃ k k' zs zs', drainF (solveAt dfs pf (M + 2)) k (solveAt dfs pf (M + 2) (queryG ord qv qs [p.goal ord]) s0) = some zs ∧
      drainF (solveAt dfs pf (M + 2)) k' (solveAt dfs pf (M + 2) (queryG ord qv qs [p'.goal ord]) s0) = some zs' ∧
      zs.Perm zs' := by
  obtain ⟨k, zs, hk, pz⟩ := C17_query_program ord dfs pf M p qv qs s0 s1 B h1 hE
  obtain ⟨k', zs', hk', pz'⟩ := C17_query_program ord dfs pf M p' qv qs s0 s1 B h1
    (fun s hs => hE s (hperm.mem_iff.2 hs))
  exact ⟨k, k', zs, zs', hk, hk', pz.symm.trans ((hperm.flatMap_right _).trans pz')⟩

/-! ### the hypotheses as ONE Boolean check, for any FD query (the NonVacuity section below is an instance) -/
section Checked
variable (ord : Order) (dfs : Call → State → State × G) (pf M N : Nat) (qv : Term)

/-- the labelling data the theorems quantify over, computed -/
def ckKeys (c : State) : Term := Term.ofList ((ord.ds c.dstore).map fun q => Term.var q.1)
def ckXs (s : State) : List State := (evalRef dfs N (forceAns ord forceFuel qv) s).getD []
def ckDs (_ c : State) : List State := (evalRef dfs N (forceAns ord forceFuel (ckKeys ord c)) c).getD []
def ckYs (_ c : State) : List State :=
  (drainF (solveAt dfs pf (M + 1)) pf (start dfs (solveAt dfs pf (M + 1)) pf
    (Goal.conjOfList [forceAns ord forceFuel (ckKeys ord c)]) c)).getD []

def ckBlockOK (c : State) : Bool :=
  c.panic.isNone && c.allBound && decide (c.dstore.length < forceFuel) &&
  (match evalRef dfs N (forceAns ord forceFuel (ckKeys ord c)) c with
   | some ds => ds.all (·.panic.isNone)
   | none => false) &&
  (drainF (solveAt dfs pf (M + 1)) pf (start dfs (solveAt dfs pf (M + 1)) pf
    (Goal.conjOfList [forceAns ord forceFuel (ckKeys ord c)]) c)).isSome &&
  (ckYs ord dfs pf M c c).all (·.panic.isNone)

def ckStateOK (s : State) : Bool :=
  s.panic.isNone && s.allBound &&
  (s.store.all fun q => q.2.isDiseq || (operandsOf q.2).all fun u => (walk s.σ u).isVar || (walk s.σ u).isNum) &&
  (match evalRef dfs N (forceAns ord forceFuel qv) s with
   | some xs => xs.all (ckBlockOK ord dfs pf M N)
   | none => false)

/-- the whole check: the query equation succeeds and every path state passes -/
def queryFdOK (n : Nat) (p : FProg) (qs : List Term) : Bool :=
  match postAtom ord (State.empty n) (.eq qv (Term.ofList qs)) with
  | .ok s1 => (pathStates ord p s1).all (ckStateOK ord dfs pf M N qv)
  | _ => false

private theorem isNone_none' {α : Type} {o : Option α} (h : o.isNone = true) : o = none := Option.isNone_iff_eq_none.1 h

/-- from the check to the hypotheses of `C16_query_answers_sound` / `C17_query_exactly_once` -/
theorem queryFdOK_hyps (ho : OrderOK ord) (n : Nat) (p : FProg) (hok : p.OK) (hnz : ∀ path ∈ p.paths, ∀ a ∈ path, a.NoZ)
    (qs : List Term) (s1 : State) (h1 : postAtom ord (State.empty n) (.eq qv (Term.ofList qs)) = .ok s1)
    (hc : queryFdOK ord dfs pf M N qv n p qs = true) :
    ∀ s ∈ pathStates ord p s1, s.panic = none ∧ OpsOK s ∧
      evalRef dfs N (forceAns ord forceFuel qv) s = some (ckXs ord dfs N qv s) ∧ (∀ c ∈ ckXs ord dfs N qv s, c.panic = none) ∧
      ∀ c ∈ ckXs ord dfs N qv s, c.allBound = true ∧ c.dstore.length < forceFuel ∧
        evalRef dfs N (forceAns ord forceFuel (Term.ofList ((ord.ds c.dstore).map fun q => Term.var q.1))) c = some (ckDs ord dfs N s c) ∧
        (∀ t ∈ ckDs ord dfs N s c, t.panic = none) ∧
        drainF (solveAt dfs pf (M + 1)) pf
          (start dfs (solveAt dfs pf (M + 1)) pf
            (Goal.conjOfList [forceAns ord forceFuel (Term.ofList ((ord.ds c.dstore).map fun q => Term.var q.1))]) c) = some (ckYs ord dfs pf M s c) ∧
        (∀ t ∈ ckYs ord dfs pf M s c, t.panic = none) := by
  unfold queryFdOK at hc
  rw [h1] at hc
  have hall := List.all_eq_true.1 hc
  intro s hsm
  have hst := hall s hsm
  unfold ckStateOK at hst
  simp only [Bool.and_eq_true] at hst
  obtain ⟨⟨⟨hp, hab⟩, hkind⟩, hx⟩ := hst
  have hpn : s.panic = none := isNone_none' hp
  have hi := C17_path_state_invariants ho n p hok hnz qv qs s1 h1 s hsm hpn
  have hops : OpsOK s := C17_opsOK_of_allBound s hab hi.z (fun q hq hd u hu => by
    have := (List.all_eq_true.1 hkind) q hq
    rw [hd, Bool.false_or] at this
    have := (List.all_eq_true.1 this) u hu
    simpa [Bool.or_eq_true] using this)
  cases h2 : evalRef dfs N (forceAns ord forceFuel qv) s with
  | none => rw [h2] at hx; cases hx
  | some xs =>
    rw [h2] at hx
    have hxs := List.all_eq_true.1 hx
    have eX : ckXs ord dfs N qv s = xs := by unfold ckXs; rw [h2]; rfl
    rw [eX]
    have blk : ∀ c ∈ xs, c.panic = none ∧ c.allBound = true ∧ c.dstore.length < forceFuel ∧
        evalRef dfs N (forceAns ord forceFuel (ckKeys ord c)) c = some (ckDs ord dfs N s c) ∧ (∀ t ∈ ckDs ord dfs N s c, t.panic = none) ∧
        drainF (solveAt dfs pf (M + 1)) pf (start dfs (solveAt dfs pf (M + 1)) pf
          (Goal.conjOfList [forceAns ord forceFuel (ckKeys ord c)]) c) = some (ckYs ord dfs pf M s c) ∧
        (∀ t ∈ ckYs ord dfs pf M s c, t.panic = none) := by
      intro c hc'
      have hb := hxs c hc'
      unfold ckBlockOK at hb
      simp only [Bool.and_eq_true, decide_eq_true_eq] at hb
      obtain ⟨⟨⟨⟨⟨b1, b2⟩, b3⟩, b4⟩, b5⟩, b6⟩ := hb
      refine ⟨isNone_none' b1, b2, b3, ?_, ?_, ?_, fun t ht => isNone_none' ((List.all_eq_true.1 b6) t ht)⟩
      · unfold ckDs; cases he : evalRef dfs N (forceAns ord forceFuel (ckKeys ord c)) c with
        | none => rw [he] at b4; cases b4
        | some ds => rfl
      · unfold ckDs; cases he : evalRef dfs N (forceAns ord forceFuel (ckKeys ord c)) c with
        | none => rw [he] at b4; cases b4
        | some ds =>
          rw [he] at b4
          intro t ht
          exact isNone_none' ((List.all_eq_true.1 b4) t ht)
      · unfold ckYs
        cases hd : drainF (solveAt dfs pf (M + 1)) pf (start dfs (solveAt dfs pf (M + 1)) pf
            (Goal.conjOfList [forceAns ord forceFuel (ckKeys ord c)]) c) with
        | none => rw [hd] at b5; cases b5
        | some ys => rfl
    exact ⟨hpn, hops, rfl, fun c hc' => (blk c hc').1, fun c hc' => (blk c hc').2⟩

/-- `C16_query_checked` — for ANY FD query run from the empty state whose body posts well-formed domains and propagators and no
    CLP(Z) constraint: if the Boolean check passes, the engine terminates on the query goal and EVERY answer is the reified form of
    a closed state along one path whose own substitution satisfies every atom of that path (C16), and every valuation a path state
    describes lies in a block whose answer the engine delivers (C17). -/
theorem C16_query_checked (ho : OrderOK ord) (n : Nat) (p : FProg) (hok : p.OK) (hnz : ∀ path ∈ p.paths, ∀ a ∈ path, a.NoZ)
    (qs : List Term) (hc : queryFdOK ord dfs pf M N qv n p qs = true) :
    ∃ s1, postAtom ord (State.empty n) (.eq qv (Term.ofList qs)) = .ok s1 ∧
    (∃ (k : Nat) (zs : List State),
      drainF (solveAt dfs pf (M + 2)) k (solveAt dfs pf (M + 2) (queryG ord qv qs [p.goal ord]) (State.empty n)) = some zs ∧
      ∀ z ∈ zs, ∃ path ∈ p.paths, ∃ b : State, z = reifyState ord b qv ∧ b.dstore = [] ∧
        (b.store = [] → (TAtom.eq qv (Term.ofList qs)).Sat b.σ ∧ ∀ a ∈ path, a.Sat b.σ)) ∧
    (∃ (k : Nat) (zs : List State),
      drainF (solveAt dfs pf (M + 2)) k (solveAt dfs pf (M + 2) (queryG ord qv qs [p.goal ord]) (State.empty n)) = some zs ∧
      ∀ s ∈ pathStates ord p s1, ∀ γ, Sem NoI γ s →
        ∃ c ∈ ckXs ord dfs N qv s, Sem NoI γ c ∧ ∃ b, (ckYs ord dfs pf M s c).head? = some b ∧ reifyState ord b qv ∈ zs) := by
  have hc' := hc
  unfold queryFdOK at hc'
  cases h1 : postAtom ord (State.empty n) (.eq qv (Term.ofList qs)) with
  | ok s1 =>
    have hyp := queryFdOK_hyps ord dfs pf M N qv ho n p hok hnz qs s1 h1 hc
    have hl : (liftRes fun st => postAtom ord st (.eq qv (Term.ofList qs))) (State.empty n) = some s1 := by
      simp only [liftRes, h1]; rfl
    refine ⟨s1, rfl, ?_, ?_⟩
    · exact C16_query_answers_sound ho dfs pf M n p hok hnz qv qs s1 h1 (fun _ => N) (ckXs ord dfs N qv) (fun _ _ => N)
        (ckDs ord dfs N) (ckYs ord dfs pf M) hyp
    · exact C17_query_complete ho dfs pf M p qv qs (State.empty n) s1 hl (fun _ => N) (ckXs ord dfs N qv) (fun _ _ => N)
        (ckDs ord dfs N) (ckYs ord dfs pf M)
        (fun s hsm => ⟨C17_path_state_invariants ho n p hok hnz qv qs s1 h1 s hsm (hyp s hsm).1, hyp s hsm⟩)
  | fail => rw [h1] at hc'; cases hc'
  | fuel => rw [h1] at hc'; cases hc'
  | panic _ => rw [h1] at hc'; cases hc'

end Checked

/-! NON-VACUITY of `C17_query_exactly_once` by instantiation: `|x| { x in 1..2, y in 1..2, x != y }` (FD `!=`; `y` hidden,
    `__query__` = `x2`).  Every Boolean side condition is computed by ONE `decide +kernel`; the labelling invariants come from
    `C17_path_state_invariants`, `OpsOK` from `C17_opsOK_of_allBound`; the theorem is then applied. -/
section NonVacuity
private def qDfs : Call → State → State × G := fun _ a => (a, .fail)
private def qP : FProg := .conj (.atom (.dom (.var 0) (.interval 1 2)))
  (.conj (.atom (.dom (.var 1) (.interval 1 2))) (.atom (.cst (.diseqfd (.var 0) (.var 1)))))
private def qV : Term := .var 2
private def qKeys (c : State) : Term := Term.ofList ((Order.default.ds c.dstore).map fun q => Term.var q.1)
private def qXs (s : State) : List State := (evalRef qDfs 40 (forceAns Order.default forceFuel qV) s).getD []
private def qDs (_ c : State) : List State := (evalRef qDfs 40 (forceAns Order.default forceFuel (qKeys c)) c).getD []
private def qYs (_ c : State) : List State :=
  (drainF (solveAt qDfs 30 2) 30 (start qDfs (solveAt qDfs 30 2) 30
    (Goal.conjOfList [forceAns Order.default forceFuel (qKeys c)]) c)).getD []

private def qBlockOK (c : State) : Bool :=
  c.panic.isNone && c.allBound && decide (c.dstore.length < forceFuel) &&
  (match evalRef qDfs 40 (forceAns Order.default forceFuel (qKeys c)) c with
   | some ds => ds.all (·.panic.isNone)
   | none => false) &&
  (drainF (solveAt qDfs 30 2) 30 (start qDfs (solveAt qDfs 30 2) 30
    (Goal.conjOfList [forceAns Order.default forceFuel (qKeys c)]) c)).isSome &&
  (qYs c c).all (·.panic.isNone)

private def qStateOK (s : State) : Bool :=
  s.panic.isNone && s.allBound &&
  (s.store.all fun q => q.2.isDiseq || (operandsOf q.2).all fun u => (walk s.σ u).isVar || (walk s.σ u).isNum) &&
  (match evalRef qDfs 40 (forceAns Order.default forceFuel qV) s with
   | some xs => xs.all qBlockOK
   | none => false)

private def qSideOK : Bool :=
  match postAtom Order.default (State.empty 3) (.eq qV (Term.ofList [.var 0])) with
  | .ok s1 => (pathStates Order.default qP s1).all qStateOK && (pathStates Order.default qP s1).length == 1
  | _ => false

private theorem qSideOK_true : qSideOK = true := by decide +kernel

private theorem isNone_none {α : Type} {o : Option α} (h : o.isNone = true) : o = none := Option.isNone_iff_eq_none.1 h

private theorem qOrderOK : OrderOK Order.default := ⟨fun _ => .refl _, fun _ => .refl _, fun _ => .refl _⟩
private theorem qOK : qP.OK := ⟨by show (1 : Int) ≤ 2; decide, by show (1 : Int) ≤ 2; decide, trivial⟩
private theorem qNoZ : ∀ path ∈ qP.paths, ∀ a ∈ path, a.NoZ := by
  intro path hpath a ha
  simp only [qP, FProg.paths, List.flatMap_cons, List.flatMap_nil, List.map_cons, List.map_nil, List.append_nil,
    List.cons_append, List.nil_append, List.mem_singleton] at hpath
  subst hpath
  simp only [List.mem_cons, List.mem_nil_iff, or_false] at ha
  rcases ha with rfl | rfl | rfl <;> first | trivial | rfl

/-- every per-path-state hypothesis of `C16_query_answers_sound` / `C17_query_exactly_once`, from the Boolean check -/
private theorem qHyps (s1 : State) (h1 : postAtom Order.default (State.empty 3) (.eq qV (Term.ofList [.var 0])) = .ok s1) :
    ∀ s ∈ pathStates Order.default qP s1, s.panic = none ∧ OpsOK s ∧
      evalRef qDfs 40 (forceAns Order.default forceFuel qV) s = some (qXs s) ∧ (∀ c ∈ qXs s, c.panic = none) ∧
      ∀ c ∈ qXs s, c.allBound = true ∧ c.dstore.length < forceFuel ∧
        evalRef qDfs 40 (forceAns Order.default forceFuel (Term.ofList ((Order.default.ds c.dstore).map fun q => Term.var q.1))) c = some (qDs s c) ∧
        (∀ t ∈ qDs s c, t.panic = none) ∧
        drainF (solveAt qDfs 30 2) 30
          (start qDfs (solveAt qDfs 30 2) 30
            (Goal.conjOfList [forceAns Order.default forceFuel (Term.ofList ((Order.default.ds c.dstore).map fun q => Term.var q.1))]) c) = some (qYs s c) ∧
        (∀ t ∈ qYs s c, t.panic = none) := by
  have hside := qSideOK_true
  unfold qSideOK at hside
  rw [h1] at hside
  simp only [Bool.and_eq_true] at hside
  have hall := List.all_eq_true.1 hside.1
  intro s hsm
  have hst := hall s hsm
  unfold qStateOK at hst
  simp only [Bool.and_eq_true] at hst
  obtain ⟨⟨⟨hp, hab⟩, hkind⟩, hx⟩ := hst
  have hpn : s.panic = none := isNone_none hp
  have hi := C17_path_state_invariants qOrderOK 3 qP qOK qNoZ qV [.var 0] s1 h1 s hsm hpn
  have hops : OpsOK s := C17_opsOK_of_allBound s hab hi.z (fun q hq hd u hu => by
    have := (List.all_eq_true.1 hkind) q hq
    rw [hd, Bool.false_or] at this
    have := (List.all_eq_true.1 this) u hu
    simpa [Bool.or_eq_true] using this)
  cases h2 : evalRef qDfs 40 (forceAns Order.default forceFuel qV) s with
  | none => rw [h2] at hx; cases hx
  | some xs =>
    rw [h2] at hx
    have hxs := List.all_eq_true.1 hx
    have eX : qXs s = xs := by unfold qXs; rw [h2]; rfl
    rw [eX]
    have blk : ∀ c ∈ xs, c.panic = none ∧ c.allBound = true ∧ c.dstore.length < forceFuel ∧
        evalRef qDfs 40 (forceAns Order.default forceFuel (qKeys c)) c = some (qDs s c) ∧ (∀ t ∈ qDs s c, t.panic = none) ∧
        drainF (solveAt qDfs 30 2) 30 (start qDfs (solveAt qDfs 30 2) 30
          (Goal.conjOfList [forceAns Order.default forceFuel (qKeys c)]) c) = some (qYs s c) ∧
        (∀ t ∈ qYs s c, t.panic = none) := by
      intro c hc
      have hb := hxs c hc
      unfold qBlockOK at hb
      simp only [Bool.and_eq_true, decide_eq_true_eq] at hb
      obtain ⟨⟨⟨⟨⟨b1, b2⟩, b3⟩, b4⟩, b5⟩, b6⟩ := hb
      refine ⟨isNone_none b1, b2, b3, ?_, ?_, ?_, fun t ht => isNone_none ((List.all_eq_true.1 b6) t ht)⟩
      · unfold qDs; cases he : evalRef qDfs 40 (forceAns Order.default forceFuel (qKeys c)) c with
        | none => rw [he] at b4; cases b4
        | some ds => rfl
      · unfold qDs; cases he : evalRef qDfs 40 (forceAns Order.default forceFuel (qKeys c)) c with
        | none => rw [he] at b4; cases b4
        | some ds =>
          rw [he] at b4
          intro t ht
          exact isNone_none ((List.all_eq_true.1 b4) t ht)
      · unfold qYs
        cases hd : drainF (solveAt qDfs 30 2) 30 (start qDfs (solveAt qDfs 30 2) 30
            (Goal.conjOfList [forceAns Order.default forceFuel (qKeys c)]) c) with
        | none => rw [hd] at b5; cases b5
        | some ys => rfl
    exact ⟨hpn, hops, rfl, fun c hc => (blk c hc).1, fun c hc => (blk c hc).2⟩

private theorem qH1 : ∃ s1, postAtom Order.default (State.empty 3) (.eq qV (Term.ofList [.var 0])) = .ok s1 := by
  have hside := qSideOK_true
  unfold qSideOK at hside
  cases h1 : postAtom Order.default (State.empty 3) (.eq qV (Term.ofList [.var 0])) with
  | ok s1 => exact ⟨s1, rfl⟩
  | fail => rw [h1] at hside; cases hside
  | fuel => rw [h1] at hside; cases hside
  | panic _ => rw [h1] at hside; cases hside

/-- `C17_query_exactly_once` applies -/
example : ∃ (s1 : State) (k : Nat) (zs : List State) (blocks : State → List State),
    postAtom Order.default (State.empty 3) (.eq qV (Term.ofList [.var 0])) = .ok s1 ∧
    drainF (solveAt qDfs 30 3) k (solveAt qDfs 30 3 (queryG Order.default qV [.var 0] [qP.goal Order.default]) (State.empty 3)) = some zs ∧
    ((pathStates Order.default qP s1).flatMap fun s =>
      ((blocks s).flatMap fun c => ((qYs s c).head?).toList).map fun b => reifyState Order.default b qV).Perm zs := by
  obtain ⟨s1, h1⟩ := qH1
  have hl : (liftRes fun st => postAtom Order.default st (.eq qV (Term.ofList [.var 0]))) (State.empty 3) = some s1 := by
    simp only [liftRes, h1]; rfl
  obtain ⟨k, zs, blocks, hk, _, pz, _⟩ := C17_query_exactly_once qOrderOK qDfs 30 1 qP qV [.var 0] (State.empty 3) s1 hl
    (fun _ => 40) qXs (fun _ _ => 40) qDs qYs
    (fun s hsm => ⟨C17_path_state_invariants qOrderOK 3 qP qOK qNoZ qV [.var 0] s1 h1 s hsm (qHyps s1 h1 s hsm).1, qHyps s1 h1 s hsm⟩)
  exact ⟨s1, k, zs, blocks, h1, hk, pz⟩

/-- `C16_query_answers_sound` applies: every answer of the engine is the reified form of a closed state along the body's path -/
example : ∃ (k : Nat) (zs : List State),
    drainF (solveAt qDfs 30 3) k (solveAt qDfs 30 3 (queryG Order.default qV [.var 0] [qP.goal Order.default]) (State.empty 3)) = some zs ∧
    ∀ z ∈ zs, ∃ path ∈ qP.paths, ∃ b : State, z = reifyState Order.default b qV ∧ b.dstore = [] ∧
      (b.store = [] → (TAtom.eq qV (Term.ofList [.var 0])).Sat b.σ ∧ ∀ a ∈ path, a.Sat b.σ) := by
  obtain ⟨s1, h1⟩ := qH1
  exact C16_query_answers_sound qOrderOK qDfs 30 1 3 qP qOK qNoZ qV [.var 0] s1 h1 (fun _ => 40) qXs (fun _ _ => 40) qDs qYs
    (qHyps s1 h1)
/-- `C17_query_complete` and `C17_query_no_duplicates` apply -/
example : ∃ (s1 : State) (k : Nat) (zs : List State),
    drainF (solveAt qDfs 30 3) k (solveAt qDfs 30 3 (queryG Order.default qV [.var 0] [qP.goal Order.default]) (State.empty 3)) = some zs ∧
    ∀ s ∈ pathStates Order.default qP s1, ∀ γ, Sem NoI γ s →
      ∃ c ∈ qXs s, Sem NoI γ c ∧ ∃ b, (qYs s c).head? = some b ∧ reifyState Order.default b qV ∈ zs := by
  obtain ⟨s1, h1⟩ := qH1
  have hl : (liftRes fun st => postAtom Order.default st (.eq qV (Term.ofList [.var 0]))) (State.empty 3) = some s1 := by
    simp only [liftRes, h1]; rfl
  obtain ⟨k, zs, hk, hc⟩ := C17_query_complete qOrderOK qDfs 30 1 qP qV [.var 0] (State.empty 3) s1 hl
    (fun _ => 40) qXs (fun _ _ => 40) qDs qYs
    (fun s hsm => ⟨C17_path_state_invariants qOrderOK 3 qP qOK qNoZ qV [.var 0] s1 h1 s hsm (qHyps s1 h1 s hsm).1, qHyps s1 h1 s hsm⟩)
  exact ⟨s1, k, zs, hk, hc⟩
example : ∃ (s1 : State) (k : Nat) (zs : List State) (blocks : State → List State),
    drainF (solveAt qDfs 30 3) k (solveAt qDfs 30 3 (queryG Order.default qV [.var 0] [qP.goal Order.default]) (State.empty 3)) = some zs ∧
    ∀ s ∈ pathStates Order.default qP s1, ((blocks s).flatMap fun c => ((qYs s c).head?).toList).Pairwise
      (fun a b => ∀ γa γb, Sem NoI γa a → Sem NoI γb b → apply γa qV ≠ apply γb qV) := by
  obtain ⟨s1, h1⟩ := qH1
  have hl : (liftRes fun st => postAtom Order.default st (.eq qV (Term.ofList [.var 0]))) (State.empty 3) = some s1 := by
    simp only [liftRes, h1]; rfl
  obtain ⟨k, zs, blocks, hk, _, hpw⟩ := C17_query_no_duplicates qOrderOK qDfs 30 1 qP qV [.var 0] (State.empty 3) s1 hl
    (fun _ => 40) qXs (fun _ _ => 40) qDs qYs
    (fun s hsm => ⟨C17_path_state_invariants qOrderOK 3 qP qOK qNoZ qV [.var 0] s1 h1 s hsm (qHyps s1 h1 s hsm).1, qHyps s1 h1 s hsm⟩)
  exact ⟨s1, k, zs, blocks, hk, hpw⟩
/-- `C16_query_checked` on a query with TWO paths and a hidden variable: `|x| { x in 1..3, y in 1..3, conde { x + y = 4 ; [x != 2, y <= 1] } }`
    — one `decide +kernel`, then soundness and completeness of the engine's answers for this query are theorems -/
private def qP2 : FProg := .conj (.atom (.dom (.var 0) (.interval 1 3))) (.conj (.atom (.dom (.var 1) (.interval 1 3)))
  (.alt (.atom (.cst (.plusfd (.var 0) (.var 1) (Term.num 4))))
    (.conj (.atom (.cst (.diseqfd (.var 0) (Term.num 2)))) (.atom (.cst (.ltefd (.var 1) (Term.num 1)))))))
example := C16_query_checked Order.default qDfs 30 1 60 (.var 2) qOrderOK 3 qP2
  ⟨by show (1 : Int) ≤ 3; decide, by show (1 : Int) ≤ 3; decide, trivial, trivial, trivial⟩
  (by
    intro path hpath a ha
    simp only [qP2, FProg.paths, List.flatMap_cons, List.flatMap_nil, List.map_cons, List.map_nil, List.append_nil,
      List.cons_append, List.nil_append, List.mem_cons, List.mem_nil_iff, or_false] at hpath
    rcases hpath with rfl | rfl <;> simp only [List.mem_cons, List.mem_nil_iff, or_false] at ha <;>
      rcases ha with rfl | rfl | rfl | rfl <;> first | trivial | rfl)
  [.var 0] (by decide +kernel)
end NonVacuity

section Examples
/-- `|q| { q in 1..3, conde { q != 2 ; q <= 1 } }` (FD): the engine on the whole query goal delivers 1, 3 (first clause) and 1
    (second clause) — the sum over the two paths -/
private def exQ : FProg := .conj (.atom (.dom (.var 0) (.interval 1 3)))
  (.alt (.atom (.cst (.diseqfd (.var 0) (Term.num 2)))) (.atom (.cst (.ltefd (.var 0) (Term.num 1)))))
example : ((drainF (solveAt (defs Order.default) 30 4) 400
    (solveAt (defs Order.default) 30 4 (queryG Order.default (.var 1) [.var 0] [exQ.goal Order.default]) (State.empty 2))).map
      (fun zs => (zs.map fun s => apply s.σ (.var 0)))).map (fun l => (l.length, l.contains (Term.num 1), l.contains (Term.num 3), l.contains (Term.num 2))) =
    some (3, true, true, false) := by decide +kernel
end Examples

end Pv
