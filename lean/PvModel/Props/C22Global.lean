/-
  C22, global part — the constraint-lifecycle invariant for every program of the modelled language,
  CLP(FD)/CLP(Z) propagation (the re-entrant `run_constraints → c.run → process_domain →
  resolve_storable_domain → run_constraints` loop) included.

  `Inv st` = `st.withs = st.takes + st.store.length` ∧ identities pairwise distinct ∧ all below the next
  fresh identity.  `withs`/`takes` count the `with_constraint`/`take_constraint` hook calls (the counters the
  instrumented `User` of the harness reads).
-/
import PvModel.Proofs.CntProgram
namespace Pv
open State Goal

/-- one `c.run(state)` of ANY constraint kind, at any re-run depth, over any nested `run_constraints`
    that itself respects the lifecycle: the invariant is kept, the identity source only grows, and no
    identity below the old source appears except the constraint's own -/
theorem C22_run_any (rc : State → Res State) (hrc : RcOK rc) (ord : Order) (k i : Nat) (c : Cst) (st st' : State)
    (hi : Inv st) (hlt : i < st.nextId) (hni : i ∉ ids st) (h : runCst rc ord k i c st = .ok st') :
    Inv st' ∧ st.nextId ≤ st'.nextId := by
  have s := runCst_selfOK hrc ord k i c st st' ⟨hi, hlt, hni⟩ h
  exact ⟨s.inv, s.mono⟩

/-- `State::run_constraints` at every nesting depth (the hypothesis `hrc` above is met at every level) -/
theorem C22_run_constraints (ord : Order) (n : Nat) (st st' : State) (hi : Inv st)
    (h : runConstraintsF ord n st = .ok st') : Inv st' :=
  (runConstraintsF_ok ord n st st' hi h).inv

/-- the four operations goals perform on a state -/
theorem C22_ops (ord : Order) (st st' : State) (hi : Inv st) :
    (∀ u v, unify ord st u v = .ok st' → Inv st') ∧
    (∀ u v, disunify ord st u v = .ok st' → Inv st') ∧
    (∀ c, postCst ord st c = .ok st' → Inv st') ∧
    (∀ x d, domFd ord st x d = .ok st' → Inv st') :=
  ⟨fun _ _ h => (unify_step ord hi h).inv, fun _ _ h => (disunify_step ord hi h).inv,
   fun _ h => (postCst_step ord hi h).inv, fun _ _ h => (domFd_step ord hi h).inv⟩

/-- every goal builder of the modelled language keeps the invariant (the operators — conjunction, both
    disjunctions, conde, fresh, conda, condu, onceo, anyo, closures — keep it by `PresG`'s constructors and
    the `…OfList_pres` lemmas; relation calls are covered by `C22_defs`) -/
theorem C22_builders (ord : Order) :
    (∀ u v, PresG Inv (eqG ord u v)) ∧ (∀ u v, PresG Inv (diseqG ord u v)) ∧
    (∀ u v w, PresG Inv (pluszG ord u v w)) ∧ (∀ u v w, PresG Inv (timeszG ord u v w)) ∧
    (∀ u v w, PresG Inv (plusfdG ord u v w)) ∧ (∀ u v w, PresG Inv (minusfdG ord u v w)) ∧
    (∀ u v w, PresG Inv (timesfdG ord u v w)) ∧ (∀ u v, PresG Inv (ltefdG ord u v)) ∧
    (∀ u v, PresG Inv (ltfdG ord u v)) ∧ (∀ u v, PresG Inv (diseqfdG ord u v)) ∧
    (∀ u, PresG Inv (distinctfdG ord u)) ∧ (∀ u d, PresG Inv (infdG ord u d)) ∧
    (∀ b l f, PresG Inv (firstG ord b l f)) ∧ (∀ b l r, PresG Inv (restG ord b l r)) ∧
    (∀ x, PresG Inv (reifyG ord x)) :=
  ⟨eqG_pres ord, diseqG_pres ord, pluszG_pres ord, timeszG_pres ord, plusfdG_pres ord, minusfdG_pres ord,
   timesfdG_pres ord, ltefdG_pres ord, ltfdG_pres ord, diseqfdG_pres ord, distinctfdG_pres ord, infdG_pres ord,
   firstG_pres ord, restG_pres ord, reifyG_pres ord⟩

/-- the library relations (member, member1, append, rember, permute, distinct — recursive) -/
theorem C22_defs (ord : Order) : PresDefs Inv (defs ord) := defs_pres ord

/-- THE PROPERTY ON EVERY REACHABLE STATE: every state any program delivers — any goal assembled from the
    builders and operators above, any hash-iteration order, either search mode, any number of engine
    steps, any solver nesting level, finite or infinite search — has seen exactly as many
    `with_constraint` calls as `take_constraint` calls plus the constraints it still holds. -/
theorem C22_program (ord : Order) (pf M nv : Nat) (g : G) (hg : PresG Inv g) (n : Nat) (st : State)
    (h : st ∈ runF (solveAt (defs ord) pf (M + 1)) n (solveAt (defs ord) pf (M + 1) g (State.empty nv))) :
    st.withs = st.takes + st.store.length :=
  (program_invariant (defs_pres ord) pf M g (State.empty nv) hg (inv_empty nv) n st h).1

/-- … in particular every answer state of a query (`fresh(q) [q == [vars], body, reify(q)]`: labelling and
    reification, which takes every constraint out and re-adds the walked disequalities, included) -/
theorem C22_query (ord : Order) (pf M nv : Nat) (qv : Term) (qs : List Term) (body : List G)
    (hb : ∀ g ∈ body, PresG Inv g) (n : Nat) (st : State)
    (h : st ∈ runF (solveAt (defs ord) pf (M + 1)) n
      (solveAt (defs ord) pf (M + 1) (queryG ord qv qs body) (State.empty nv))) :
    st.withs = st.takes + st.store.length :=
  C22_program ord pf M nv _ (queryG_pres ord qv qs body hb) n st h

section Examples
open Term
private def o : Order := Order.default
/-- non-vacuity: an FD program whose propagation re-enters `run_constraints` (x+y=z narrowed by z<=2 to
    singletons) ends with balanced counters and constraints actually taken and re-added -/
example : (match (((((domFd o (State.empty 3) (.var 0) (.interval 1 2)).bind fun st =>
      domFd o st (.var 1) (.interval 1 2)).bind fun st =>
      domFd o st (.var 2) (.interval 0 9)).bind fun st =>
      postCst o st (.plusfd (.var 0) (.var 1) (.var 2))).bind fun st =>
      postCst o st (.ltefd (.var 2) (num 2))) with
    | .ok st => decide (st.withs = st.takes + st.store.length) && decide (0 < st.takes) | _ => false) = true := by
  decide
end Examples

end Pv
