/-
  C06 — FOR THE WHOLE QUERY: the interleaving engine, run on the goal a query really runs (`queryG`), loses no answer of the body
  and invents none — every state of the body's reference answer list is answered (reified) exactly as often as it occurs there,
  and nothing else is.  Any body with a finite textbook evaluation: conjunctions, `conde`, `fresh`, relation calls in terminating
  modes.  (`C02_query_any_body` read as a statement about membership and count.)
-/
import PvModel.Props.C02Query
namespace Pv
open Strm Goal State Term

attribute [local instance] Mode.strict

theorem C06_query_answers_exact (ord : Order) (ho : OrderOK ord) (dfs : Call → State → State × G) (pf M N : Nat)
    (body : G) (qv : Term) (qs : List Term) (s0 s1 : State) (xs : List State)
    (h1 : (liftRes fun st => postAtom ord st (.eq qv (Term.ofList qs))) s0 = some s1)
    (hx : evalRef dfs N body s1 = some xs)
    (hs : ∀ s ∈ xs, s.dstore = [] ∧ s.panic = none ∧ (∀ c ∈ s.store, c.2.isFD = false) ∧ Solved s.σ ∧
      (apply s.σ qv).size ≤ forceFuel) :
    ∃ k zs, drainF (solveAt dfs (pf + 2) (M + 2)) k
        (solveAt dfs (pf + 2) (M + 2) (queryG ord qv qs [body]) s0) = some zs ∧
      zs.length = xs.length ∧ (∀ z, z ∈ zs ↔ ∃ s ∈ xs, z = reifyState ord s qv) := by
  obtain ⟨k, zs, hk, pz⟩ := C02_query_any_body ord ho dfs pf M N body qv qs s0 s1 xs h1 hx hs
  refine ⟨k, zs, hk, by rw [← pz.length_eq, List.length_map], fun z => ?_⟩
  rw [← pz.mem_iff, List.mem_map]
  exact ⟨fun ⟨s, hs', e⟩ => ⟨s, hs', e.symm⟩, fun ⟨s, hs', e⟩ => ⟨s, hs', e.symm⟩⟩

end Pv
