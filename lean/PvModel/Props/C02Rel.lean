/-
  C02 / C03 — THE SEMANTIC ANSWER of every state the engine delivers for a program WITH RELATION CALLS: its
  disequalities are in normal form, it is satisfiable, and the tuples the query terms take under the valuations it
  describes are exactly the instances of the WALKED query terms under the assignments that satisfy the stored
  disequalities over the variables of those walked terms (disequalities that mention a hidden variable never
  exclude an instance).
-/
import PvModel.Proofs.RelNoPanic
import PvModel.Proofs.RelProgram
import PvModel.Props.C02Decide
namespace Pv
open Strm Goal State Term

section
attribute [local instance] Mode.strict
variable {ord : Order}

/-- poisoned, or good with every stored disequality in normal form -/
def GD' (a : State) : Prop := a.panic.isSome = true ∨ (Good a ∧ DNF a)

theorem gd_atom (ho : OrderOK ord) (t : FAtom) (ht : TreeAtom t) (a b : State)
    (h : (liftRes fun st => postF ord st t) a = some b) (ha : GD' a) : GD' b := by
  cases hp : a.panic.isSome with
  | true =>
    simp only [liftRes, hp, if_true, Option.some.injEq] at h
    subst h
    exact .inl hp
  | false =>
    rcases ha with hx | ⟨hg, hd⟩
    · rw [hp] at hx; cases hx
    · simp only [liftRes, hp, Bool.false_eq_true, if_false] at h
      cases t with
      | eq u v =>
        cases hr : postF ord a (.eq u v) with
        | ok s =>
          rw [hr] at h; simp only [Option.some.injEq] at h; subst h
          exact .inr ⟨(postAtom_ok ord ho a s (.eq u v) hg hr).1, postAtom_dnf ho (.eq u v) hg hd hr⟩
        | fail => rw [hr] at h; cases h
        | fuel => rw [hr] at h; simp only [Option.some.injEq] at h; subst h; exact .inl rfl
        | panic m => rw [hr] at h; simp only [Option.some.injEq] at h; subst h; exact .inl rfl
      | neq u v =>
        cases hr : postF ord a (.neq u v) with
        | ok s =>
          rw [hr] at h; simp only [Option.some.injEq] at h; subst h
          exact .inr ⟨(postAtom_ok ord ho a s (.neq u v) hg hr).1, postAtom_dnf ho (.neq u v) hg hd hr⟩
        | fail => rw [hr] at h; cases h
        | fuel => rw [hr] at h; simp only [Option.some.injEq] at h; subst h; exact .inl rfl
        | panic m => rw [hr] at h; simp only [Option.some.injEq] at h; subst h; exact .inl rfl
      | cst c => exact ht.elim
      | dom x d => exact ht.elim

theorem rprog_npg : ∀ (p : RProg) {m : Nat}, p.WF m → NPG' ord TreeAtom (p.goal ord)
  | .succeed, _, _ => .succeed
  | .fail, _, _ => .fail
  | .atom (.eq u v), _, _ => NPG'.atom (t := .eq u v) trivial
  | .atom (.neq u v), _, _ => NPG'.atom (t := .neq u v) trivial
  | .conj p q, _, w => .conj (rprog_npg p w.1) (rprog_npg q w.2)
  | .alt p q, _, w => .alt (rprog_npg p w.1) (rprog_npg q w.2)
  | .fresh p, m, w => .fresh (rprog_npg p (m := m) w)
  | .call _, _, w => .call w.1

end

/-- NORMAL FORM AND SATISFIABILITY of every delivered state: a program of `==`, `!=`, conjunction, conde, fresh and
    library relation calls, from the empty state — every unpoisoned state in the engine's stream is good, every
    disequality it stores has a pair `(x, t)` with `x` unbound, `t` normal and `x ∉ t`, and it describes a GROUND
    valuation (so: an answer is never an empty promise) -/
theorem C02_rel_state_normal (ord : Order) (ho : OrderOK ord) (pf M j nv : Nat) (p : RProg) (w : p.WF nv) (b : State)
    (hm : MemS (solveAt (defs ord) pf (M + 1)) b (solveAt (defs ord) pf j (p.goal ord) (State.empty nv)))
    (hp : b.panic.isSome = false) :
    Good b ∧ DNF b ∧ ∃ γ : Subst, StateSem γ b ∧ ∀ t : Term, (apply γ t).vars = [] := by
  obtain ⟨n, hn⟩ := (mem_iff_big (defs_plain ord) pf M j (p.plain ord) _ b).1 hm
  have := big_invariant (ord := ord) (A := TreeAtom) (fun _ _ => ⟨trivial, trivial⟩) GD'
    (fun t ht a b h ha => gd_atom ho t ht a b h ha) (fun a k h => h) n _ _ b hn (rprog_npg p w)
    (.inr ⟨good_empty nv, fun q hq => nomatch hq⟩)
  rcases this with x | ⟨hg, hd⟩
  · rw [hp] at x; cases x
  · exact ⟨hg, hd, dnf_sat hg.1 hd⟩

/-- ANSWER INSTANCES for programs with relation calls: for an unpoisoned state `b` of the stream and any query terms
    `qs`, the tuples `qs` takes under the valuations `b` describes — all of them solutions of the program
    (`C04_rel_program_exact`) — are exactly the instances of the walked query terms under the assignments that satisfy
    the stored disequalities over the variables of those walked terms -/
theorem C02_rel_answer_instances (ord : Order) (ho : OrderOK ord) (pf M j nv : Nat) (p : RProg) (w : p.WF nv) (b : State)
    (hm : MemS (solveAt (defs ord) pf (M + 1)) b (solveAt (defs ord) pf j (p.goal ord) (State.empty nv)))
    (hp : b.panic.isSome = false) (qs ts : List Term) :
    (∃ γ : Subst, StateSem γ b ∧ p.Sem γ ∧ ts = qs.map (apply γ)) ↔
    (∃ θ : Subst,
      (∀ q ∈ b.store, ∀ ps, q.2 = .diseq ps →
        (∀ y ∈ diseqVars ps, y ∈ qs.flatMap fun q => (apply b.σ q).vars) → DiseqHolds θ ps) ∧
      ts = qs.map fun q => apply θ (apply b.σ q)) := by
  obtain ⟨hg, hd, _⟩ := C02_rel_state_normal ord ho pf M j nv p w b hm hp
  have sound := (prog_exact ho pf M j nv p w).1 b hm hp
  constructor
  · rintro ⟨γ, hsem, _, rfl⟩
    refine ⟨γ, fun q hq ps he _ => hsem.2 q hq ps he, ?_⟩
    exact List.map_congr_left fun q _ => (hsem.1 q).symm
  · rintro ⟨θ, hvis, rfl⟩
    obtain ⟨γ, hsem, hag⟩ := dnf_project hg.1 hd _ θ hvis
    refine ⟨γ, hsem, sound γ hsem, ?_⟩
    refine List.map_congr_left fun q hq => ?_
    rw [← hsem.1 q]
    symm
    refine apply_agree fun y hy => ?_
    have hyV : y ∈ qs.flatMap fun q => (apply b.σ q).vars := List.mem_flatMap.2 ⟨q, hq, hy⟩
    exact hag y hyV (normal_vars _ (apply_apply_solved hg.1 q) y hy)

section Examples
/-- non-vacuity: `x != 1, member(x, y)` is a well-formed program over two variables -/
example : (RProg.conj (.atom (.neq (.var 0) (Term.num 1))) (.call ⟨.member, [.var 0, .var 1], false⟩)).WF 2 := by
  refine ⟨⟨below_var (by omega), fun y hy => by simp [Term.vars, Term.num] at hy⟩, trivial, fun t ht => ?_⟩
  simp only [List.mem_cons, List.not_mem_nil, or_false] at ht
  rcases ht with rfl | rfl <;> exact below_var (by omega)
end Examples

end Pv
