/-
  C13 / C14 / C15 — END TO END: the DOCUMENTED MEANING of a surface program (`Den`: `==` "some common value", `!=`
  "two different values", `[..]` ∧, `conde` ∨, `|x| {..}` ∃ x, `match` arms with their local pattern variables)
  is exactly what the ENGINE'S ANSWERS describe, when the engine runs the program's elaboration.

  `C14_clause` (Proofs/SurfaceSem.lean) relates `Den` to the elaborated goal's satisfaction `SatE`;
  `prog_exact` (Proofs/RelProgram.lean) relates satisfaction to the states in the engine's stream.
-/
import PvModel.Proofs.RelProgram
import PvModel.Props.C14
import PvModel.Props.C15
namespace Pv
open Strm Goal State Term Surface

/-- the elaborated goal as a program of the engine (binary nesting as elaborated; the clause-list shapes the
    macro builds with `Conj::from_array` / `Conde::from_conjunctions` have the same big-step answers:
    `big_mkConj`, `big_conjOfList`, `big_altOfList`) -/
def Surface.EGoal.toR : EGoal → RProg
  | .eq a b => .atom (.eq a b)
  | .neq a b => .atom (.neq a b)
  | .succ => .succeed
  | .fail => .fail
  | .conj g1 g2 => .conj (toR g1) (toR g2)
  | .disj g1 g2 => .alt (toR g1) (toR g2)
  | .fresh g => .fresh (toR g)

theorem satE_toR (γ : Subst) : ∀ (e : EGoal), SatE γ e ↔ (e.toR).Sem γ
  | .eq _ _ => Iff.rfl
  | .neq _ _ => Iff.rfl
  | .succ => Iff.rfl
  | .fail => Iff.rfl
  | .conj g1 g2 => by simp only [SatE, Surface.EGoal.toR, RProg.Sem, satE_toR γ g1, satE_toR γ g2]
  | .disj g1 g2 => by simp only [SatE, Surface.EGoal.toR, RProg.Sem, satE_toR γ g1, satE_toR γ g2]
  | .fresh g => by simp only [SatE, Surface.EGoal.toR, RProg.Sem, satE_toR γ g]

theorem toR_wf {m : Nat} : ∀ (e : EGoal), (∀ v ∈ e.vars, v < m) → (e.toR).WF m
  | .eq a b, h => ⟨fun y hy => h y (by simp [EGoal.vars, hy]), fun y hy => h y (by simp [EGoal.vars, hy])⟩
  | .neq a b, h => ⟨fun y hy => h y (by simp [EGoal.vars, hy]), fun y hy => h y (by simp [EGoal.vars, hy])⟩
  | .succ, _ => trivial
  | .fail, _ => trivial
  | .conj g1 g2, h => ⟨toR_wf g1 fun v hv => h v (by simp [EGoal.vars, hv]), toR_wf g2 fun v hv => h v (by simp [EGoal.vars, hv])⟩
  | .disj g1 g2, h => ⟨toR_wf g1 fun v hv => h v (by simp [EGoal.vars, hv]), toR_wf g2 fun v hv => h v (by simp [EGoal.vars, hv])⟩
  | .fresh g, h => toR_wf g fun v hv => h v (by simp [EGoal.vars, hv])

/-- END TO END.  A surface clause `g` (any nesting of `==`, `!=`, `[..]`, `conde`, `|x| {..}`, `true`/`false`,
    pattern-match arms) whose free names stand for the query variables `env x < nq`; `e` its elaboration from
    counter `nq`, using the variable ids below `n'`.  Run by the engine from the empty state (any nesting
    level, any hash order):
    (1) every unpoisoned state in the stream describes only valuations under which the DOCUMENTED MEANING of `g`
        holds of the query variables;
    (2) whenever the documented meaning holds of some values of the query variables, a state in the stream
        describes those values (or a FUEL-poisoned state is in the stream). -/
theorem C14_end_to_end (ord : Order) (ho : OrderOK ord) (pf M j : Nat) (g : SGoal) (env : Env) (nq : Nat)
    (henv : ∀ x, env x < nq) (e : EGoal) (n' : Nat) (he : elabG env g nq = (e, n')) :
    (∀ b, MemS (solveAt (defs ord) pf (M + 1)) b (solveAt (defs ord) pf j (e.toR.goal ord) (State.empty n')) →
      b.panic.isSome = false → ∀ γ, StateSem γ b → Den (fun x => γ (env x)) g) ∧
    (∀ γ0 : Subst, Den (fun x => γ0 (env x)) g →
      ∃ b, MemS (solveAt (defs ord) pf (M + 1)) b (solveAt (defs ord) pf j (e.toR.goal ord) (State.empty n')) ∧
        (b.panic.isSome = true ∨ ∃ γ', Agree nq γ0 γ' ∧ StateSem γ' b)) := by
  have hle : nq ≤ n' := (C15_fresh g env nq e n' he).1
  have w : (e.toR).WF n' := toR_wf e (C15_below g env nq e n' he henv)
  obtain ⟨s1, s2⟩ := prog_exact ho pf M j n' e.toR w
  have he1 : (elabG env g nq).1 = e := by rw [he]
  constructor
  · intro b hm hp γ hγ
    have hs := (satE_toR γ e).2 (s1 b hm hp γ hγ)
    exact (C14_clause g env γ nq henv).2 ⟨γ, fun _ _ => rfl, by rw [he1]; exact hs⟩
  · intro γ0 hden
    obtain ⟨γ, hag, hs⟩ := (C14_clause g env γ0 nq henv).1 hden
    rw [he1] at hs
    obtain ⟨b, hm, hb⟩ := s2 γ ((satE_toR γ e).1 hs)
    refine ⟨b, hm, ?_⟩
    rcases hb with p | ⟨γ', hag', sb⟩
    · exact .inl p
    · exact .inr ⟨γ', fun x hx => (hag x hx).symm.trans (hag' x (Nat.lt_of_lt_of_le hx hle)), sb⟩

section Examples
/-- non-vacuity: `|x| { x == 1, q == [x | _] }` with the query variable `q` (name 0 ↦ id 0): the elaboration allocates the
    ids 1 and 2 and the premises of `C14_end_to_end` are met -/
example : (elabG (fun _ => 0) (.fresh 1 (.conj (.eq (.var 1) (.val (.num 1))) (.eq (.var 0) (.cons (.var 1) .any)))) 1).2 = 3 := by decide
example : ∀ x : Name, (fun _ : Name => 0) x < 1 := fun _ => Nat.zero_lt_one
end Examples

end Pv
