/-
  C22 — User extension hooks observe a consistent constraint lifecycle.

  Model: `State.withs` / `State.takes` count the `User::with_constraint` / `User::take_constraint` hook
  calls, `State.extLog` records the extensions passed to `User::process_extension`; `withConstraint`
  (repaired, D8: a subsumed newcomer is neither announced nor stored, stored disequalities it subsumes
  leave through `take_constraint`), `takeConstraint`, `withNewConstraint`, `unify` (Model/State.lean).

  Proved (ALL states, constraints, iteration orders): each lifecycle operation preserves
  `withs = takes + |store|` (`C22_take`, `C22_with_diseq`, `C22_with_other`, `C22_with_new`); a successful
  unification is exactly: unify, re-run the store, FD extension, THEN one `process_extension` with this
  unification's extension (`C22_extension`); a failed unification yields no state at all (`C22_failed`);
  both clauses of a disjunction start from the same user-state value (`C22_branch`).
  OPEN (named): lifting the one-step lemmas to every reachable state through the re-entrant FD propagation
  loop; decided by the correspondence — probes after every goal of every branch on the real engine.
-/
import PvModel.Proofs.Tree
import PvModel.Proofs.Stream
import PvModel.Model.Goals
namespace Pv
open State

/-- the lifecycle invariant -/
def Cnt (st : State) : Prop := st.withs = st.takes + st.store.length

theorem filter_ne_length (l : List (Nat × Cst)) (i : Nat) (hn : (l.map (·.1)).Nodup) (hm : i ∈ l.map (·.1)) :
    (l.filter (fun p => p.1 != i)).length + 1 = l.length := by
  induction l with
  | nil => simp at hm
  | cons p ps ih =>
    simp only [List.map_cons, List.nodup_cons] at hn
    simp only [List.map_cons, List.mem_cons] at hm
    by_cases h : p.1 = i
    · subst h
      have : ps.filter (fun q => q.1 != p.1) = ps := by
        apply List.filter_eq_self.2
        intro q hq
        have : q.1 ≠ p.1 := fun e => hn.1 (e ▸ List.mem_map_of_mem hq)
        simpa using this
      simp [this]
    · have hm' : i ∈ ps.map (·.1) := by
        rcases hm with e | e
        · exact absurd e.symm h
        · exact e
      have := ih hn.2 hm'
      have hb : (p.1 != i) = true := by simpa using h
      simp only [List.filter_cons, hb, if_true, List.length_cons]
      omega

/-- `take_constraint`: one hook call for one constraint removed (nothing happens if it is not stored) -/
theorem C22_take (st : State) (i : Nat) (hn : (st.store.map (·.1)).Nodup) (h : Cnt st) : Cnt (st.takeConstraint i).1 := by
  unfold State.takeConstraint
  split
  · rename_i c hf
    have hm : i ∈ st.store.map (·.1) := by
      have := List.find?_some hf
      have hmem := List.mem_of_find?_eq_some hf
      simp only [beq_iff_eq] at this
      exact this ▸ List.mem_map_of_mem hmem
    have := filter_ne_length st.store i hn hm
    simp only [Cnt] at h ⊢
    omega
  · exact h

/-- taking several constraints keeps the invariant (used by `with_constraint` for the redundant ones and by `with_cstore`) -/
theorem C22_takes (l : List (Nat × Cst)) : ∀ (st : State), (st.store.map (·.1)).Nodup → Cnt st →
    Cnt (l.foldl (fun s p => (s.takeConstraint p.1).1) st) ∧
    ((l.foldl (fun s p => (s.takeConstraint p.1).1) st).store.map (·.1)).Nodup := by
  induction l with
  | nil => intro st hn h; exact ⟨h, hn⟩
  | cons p ps ih =>
    intro st hn h
    simp only [List.foldl_cons]
    apply ih
    · have := take_fields st p.1
      rw [this.2.2.2]
      exact (hn.sublist ((List.filter_sublist).map _))
    · exact C22_take st p.1 hn h

/-- `with_constraint` of a disequality (repaired, D8): either it is subsumed (nothing announced, nothing
    stored), or the redundant stored ones are taken, the hook runs once and one constraint is added -/
theorem C22_with_diseq (ord : Order) (st : State) (id : Nat) (ps : Ext1)
    (hn : (st.store.map (·.1)).Nodup) (h : Cnt st) : Cnt (st.withConstraint ord id (.diseq ps)) := by
  simp only [State.withConstraint]
  split
  · exact h
  · rename_i hns
    generalize hl : (ord.cs st.store).filter _ = l
    have := (C22_takes l st hn h).1
    simp only [Cnt] at this ⊢
    simp only [List.length_append, List.length_singleton]
    omega

/-- `with_constraint` of any other constraint that is not in the store (it was taken out before it ran):
    the hook runs once and one constraint is added -/
theorem C22_with_other (ord : Order) (st : State) (id : Nat) (c : Cst) (hc : c.isDiseq = false)
    (hid : id ∉ st.store.map (·.1)) (h : Cnt st) : Cnt (st.withConstraint ord id c) := by
  have hf : st.store.filter (fun p => p.1 != id) = st.store := by
    apply List.filter_eq_self.2
    intro q hq
    have : q.1 ≠ id := fun e => hid (e ▸ List.mem_map_of_mem hq)
    simpa using this
  cases c <;> first
    | (simp [Cst.isDiseq] at hc; done)
    | (simp only [State.withConstraint, hf, Cnt, List.length_append, List.length_singleton] at h ⊢; omega)

/-- a newly created constraint gets a fresh identity -/
theorem C22_with_new (ord : Order) (st : State) (c : Cst) (hn : (st.store.map (·.1)).Nodup)
    (hlt : ∀ p ∈ st.store, p.1 < st.nextId) (h : Cnt st) : Cnt (st.withNewConstraint ord c) := by
  unfold State.withNewConstraint
  cases hc : c.isDiseq
  · apply C22_with_other ord _ _ c hc
    · intro hm
      obtain ⟨p, hp, e⟩ := List.mem_map.1 hm
      have := hlt p hp
      have e' : p.1 = st.nextId := e
      omega
    · exact h
  · cases c <;> simp [Cst.isDiseq] at hc
    exact C22_with_diseq ord _ _ _ hn h

/-- the initial state satisfies the invariant -/
theorem C22_init (n : Nat) : Cnt (State.empty n) := rfl

/-- `process_extension` is called after every successful unification, after constraint processing, with
    exactly that unification's new bindings `e` — and with nothing else -/
theorem C22_extension (ord : Order) (st : State) (u v : Term) (σ' : Subst) (e : Ext1)
    (h : unifyF unifyFuel st.σ [] u v = some (some (σ', e))) :
    st.unify ord u v = ((runConstraintsF ord (rcFuel + 1) { st with σ := σ' }).bind fun s1 =>
      (processExtensionFd ord s1 e).bind fun s2 => .ok { s2 with extLog := e :: s2.extLog }) := by
  simp only [State.unify, h, processExtension]

/-- a failed unification calls no hook on any surviving state: there is no surviving state -/
theorem C22_failed (ord : Order) (st : State) (u v : Term) (h : unifyF unifyFuel st.σ [] u v = some none) :
    st.unify ord u v = .fail := by simp only [State.unify, h]

/-- user state is copied per branch: both clauses of a disjunction are started from the SAME state value
    (its counters and log included), and a step of one branch leaves the other untouched -/
theorem C22_branch {K : Type} (defs : K → State → State × Goal State K) (top : Goal State K → State → Strm State K)
    (pf : Nat) (A B : Goal State K) (st : State) :
    start defs top pf (.alt A B) st = Strm.mplus (start defs top pf A st) (.delay (start defs top pf B st)) := by
  simp only [start]

/-! ### the lifecycle invariant on EVERY reachable state of a pure tree program -/

theorem cnt_diseqResult (ord : Order) (st st' : State) (r : Option (Option (Subst × Ext1)))
    (hn : (st.store.map (·.1)).Nodup) (hlt : ∀ p ∈ st.store, p.1 < st.nextId) (h : Cnt st)
    (hr : diseqResult ord st r = .ok st') : Cnt st' := by
  cases r with
  | none => simp [diseqResult] at hr
  | some r =>
    cases r with
    | none => simp only [diseqResult, Res.ok.injEq] at hr; subst hr; exact h
    | some q =>
      obtain ⟨σ', e⟩ := q
      simp only [diseqResult] at hr
      by_cases he : e.isEmpty = true
      · simp [he] at hr
      · simp only [he, Bool.false_eq_true, if_false, Res.ok.injEq] at hr
        subst hr
        exact C22_with_new ord st _ hn hlt h

theorem cnt_snapStep (rc : State → Res State) (ord : Order) (st st' : State) (p : Nat × Cst)
    (ht : TreeOnly st) (hi : IdsOK st) (h : Cnt st) (hr : snapStep rc ord st p = .ok st') : Cnt st' := by
  unfold snapStep at hr
  rcases hc : st.takeConstraint p.1 with ⟨st1, oc⟩
  rw [hc] at hr
  have h1 : Cnt st1 := by
    have := C22_take st p.1 hi.1 h
    rw [hc] at this; exact this
  cases oc with
  | none => simp only [Res.ok.injEq] at hr; subst hr; exact h1
  | some c =>
    obtain ⟨ps, rfl, _, _, i1, _⟩ := take_spec ht hi hc
    simp only [runCst_diseq, runDiseq_eq] at hr
    exact cnt_diseqResult ord st1 st' _ i1.1 i1.2 h1 hr

theorem cnt_loop (rc : State → Res State) {ord : Order} (ho : OrderOK ord) :
    ∀ (snap : List (Nat × Cst)) (st st' : State), Solved st.σ → TreeOnly st → IdsOK st → Cnt st →
      State.runSnapshot rc ord st snap = .ok st' → Cnt st' := by
  intro snap
  induction snap with
  | nil =>
    intro st st' _ _ _ h hr
    rw [runSnapshot_eq] at hr
    simp only [List.foldl_nil, Res.ok.injEq] at hr
    subst hr; exact h
  | cons p rest ih =>
    intro st st' hs ht hi h hr
    rw [runSnapshot_eq, List.foldl_cons] at hr
    have e : ((Res.ok st).bind fun st => snapStep rc ord st p) = snapStep rc ord st p := rfl
    rw [e] at hr
    obtain ⟨sok, _, _⟩ := snapStep_spec rc ho hs ht hi p
    cases hstep : snapStep rc ord st p with
    | ok st1 =>
      rw [hstep, ← runSnapshot_eq] at hr
      have a := sok st1 hstep
      exact ih st1 st' (by rw [a.sig]; exact hs) a.tree a.ids (cnt_snapStep rc ord st st1 p ht hi h hstep) hr
    | fail => rw [hstep, foldl_bind_fail] at hr; cases hr
    | fuel => rw [hstep, foldl_bind_fuel] at hr; cases hr
    | panic s => rw [hstep, foldl_bind_panic] at hr; cases hr

theorem cnt_unify {ord : Order} (ho : OrderOK ord) {st st' : State} (hg : Good st) (h : Cnt st) (u v : Term)
    (hr : st.unify ord u v = .ok st') : Cnt st' := by
  obtain ⟨hs, ht, hi⟩ := hg
  unfold State.unify at hr
  cases hu : unifyF unifyFuel st.σ [] u v with
  | none => simp [hu] at hr
  | some r =>
    cases r with
    | none => simp [hu] at hr
    | some q =>
      obtain ⟨σ', e⟩ := q
      simp only [hu] at hr
      obtain ⟨s', _, _⟩ := unifyF_sound _ _ _ _ _ _ _ hs hu
      generalize hst1 : ({ st with σ := σ' } : State) = st1 at hr
      have hσ1 : st1.σ = σ' := by subst hst1; rfl
      have ht1 : TreeOnly st1 := by subst hst1; exact ht
      have hi1 : IdsOK st1 := by subst hst1; exact hi
      have hc1 : Cnt st1 := by subst hst1; exact h
      unfold State.processExtension at hr
      rw [runConstraintsF_succ] at hr
      obtain ⟨lok, _, _⟩ :=
        loop_spec (State.runConstraintsF ord State.rcFuel) ho (ord.cs st1.store) st1 (by rw [hσ1]; exact s') ht1 hi1
      cases hl : State.runSnapshot (State.runConstraintsF ord State.rcFuel) ord st1 (ord.cs st1.store) with
      | ok st2 =>
        have a := lok st2 hl
        have c2 : Cnt st2 := cnt_loop _ ho _ st1 st2 (by rw [hσ1]; exact s') ht1 hi1 hc1 hl
        rw [hl] at hr
        simp only [Res.bind, processExtensionFd_tree ord st2 e a.tree.2, Res.ok.injEq] at hr
        subst hr
        exact c2
      | fail => rw [hl] at hr; simp [Res.bind] at hr
      | fuel => rw [hl] at hr; simp [Res.bind] at hr
      | panic s => rw [hl] at hr; simp [Res.bind] at hr

/-- one posting step keeps the lifecycle invariant on good tree states -/
theorem C22_step_tree (ord : Order) (ho : OrderOK ord) (st st' : State) (a : TAtom) (hg : Good st) (h : Cnt st)
    (hr : postAtom ord st a = .ok st') : Cnt st' := by
  cases a with
  | eq u v => exact cnt_unify ho hg h u v hr
  | neq u v =>
    simp only [postAtom, disunify_eq] at hr
    exact cnt_diseqResult ord st st' _ hg.2.2.1 hg.2.2.2 h hr

/-- THE INVARIANT ON EVERY REACHABLE STATE (pure tree programs): however many ==/!= atoms are posted, in any
    order, under any hash-iteration order, the state reached has seen exactly as many `with_constraint`
    calls as `take_constraint` calls plus the constraints it holds -/
theorem C22_count_tree (ord : Order) (ho : OrderOK ord) (n : Nat) : ∀ (as : List TAtom) (st st' : State),
    Good st → Cnt st → postAll ord st as = .ok st' → Cnt st'
  | [], st, st', _, h, hr => by simp only [postAll, Res.ok.injEq] at hr; subst hr; exact h
  | a :: as, st, st', hg, h, hr => by
    simp only [postAll] at hr
    cases hp : postAtom ord st a with
    | ok st1 =>
      rw [hp] at hr
      have g1 := (postAtom_ok ord ho st st1 a hg hp).1
      exact C22_count_tree ord ho n as st1 st' g1 (C22_step_tree ord ho st st1 a hg h hp) hr
    | fail => rw [hp] at hr; simp [Res.bind] at hr
    | fuel => rw [hp] at hr; simp [Res.bind] at hr
    | panic s => rw [hp] at hr; simp [Res.bind] at hr

theorem C22_count_tree_init (ord : Order) (ho : OrderOK ord) (n : Nat) (as : List TAtom) (st' : State)
    (hr : postAll ord (State.empty n) as = .ok st') : Cnt st' :=
  C22_count_tree ord ho n as (State.empty n) st' (good_empty n) (C22_init n) hr

section Examples
open Term
private def x : Term := .var 0
private def y : Term := .var 1
private def o : Order := Order.default
/-- D8 witness: `x != 5, [x,y] != [5,6], [x,y] != [5,6]` — three postings, one stored, hooks balanced -/
example : (match (((disunify o (State.empty 2) x (num 5)).bind fun st =>
      disunify o st (.cons x (.cons y .nil)) (.cons (num 5) (.cons (num 6) .nil))).bind fun st =>
      disunify o st (.cons x (.cons y .nil)) (.cons (num 5) (.cons (num 6) .nil))) with
    | .ok st => (st.withs, st.takes, st.store.length) == (1, 0, 1) | _ => false) = true := by decide
/-- the stronger constraint posted second takes the weaker one out through the hook -/
example : (match ((disunify o (State.empty 2) (.cons x (.cons y .nil)) (.cons (num 5) (.cons (num 6) .nil))).bind fun st =>
      disunify o st x (num 5)) with
    | .ok st => (st.withs, st.takes, st.store.length) == (2, 1, 1) | _ => false) = true := by decide
end Examples

end Pv
