/-
  C02 / C24 — THE WHOLE QUERY WITH LIBRARY RELATION CALLS, ON THE ENGINE.  A query `|q…| { p }` whose body `p` is a program of
  `==` / `!=` atoms, conjunction, `conde`, `fresh` AND calls of the library list relations (member, member1, append, rember,
  permute, distinct — interleaving or depth-first variants), run from the empty state, whose textbook evaluation is finite
  (terminating argument modes): the engine terminates on the query goal `queryG` and delivers — as a multiset — exactly the
  reified states of the body's reference answers.  Every such state is a tree state (`big_invariant` over the relation
  bodies, `evalRef_mem_big`: the textbook list contains only big-step answers), so nothing is assumed about the states but
  the model's bounds: no answer is FUEL-poisoned, and the walked query term is within `force_ans`'s depth bound.
-/
import PvModel.Props.C02Query
import PvModel.Props.C02Rel
import PvModel.Proofs.RefBig
namespace Pv
open Strm Goal State Term

attribute [local instance] Mode.strict

theorem C02_query_rel (ord : Order) (ho : OrderOK ord) (pf M N n : Nat) (p : RProg) (w : p.WF n)
    (qv : Term) (qs : List Term) (s1 : State) (xs : List State)
    (h1 : postAtom ord (State.empty n) (.eq qv (Term.ofList qs)) = .ok s1)
    (hx : evalRef (defs ord) N (p.goal ord) s1 = some xs)
    (hun : ∀ s ∈ xs, s.panic = none)
    (hsz : ∀ s ∈ xs, (apply s.σ qv).size ≤ forceFuel) :
    ∃ k zs, drainF (solveAt (defs ord) (pf + 2) (M + 2)) k
        (solveAt (defs ord) (pf + 2) (M + 2) (queryG ord qv qs [p.goal ord]) (State.empty n)) = some zs ∧
      (xs.map fun s => reifyState ord s qv).Perm zs := by
  have hl : (liftRes fun st => postAtom ord st (.eq qv (Term.ofList qs))) (State.empty n) = some s1 := by
    simp only [liftRes, h1]; rfl
  have hg1 : Good s1 := (postAtom_ok ord ho _ s1 _ (good_empty n) h1).1
  have hall1 : postAll ord (State.empty n) [.eq qv (Term.ofList qs)] = .ok s1 := by
    simp only [postAll, h1, Res.bind]
  have hd1 : DNF s1 := postAll_dnf ho _ (State.empty n) s1 (good_empty n) (fun _ hq0 => by simp [State.empty] at hq0) hall1
  refine C02_query_any_body ord ho (defs ord) pf M N (p.goal ord) qv qs (State.empty n) s1 xs hl hx fun s hs => ?_
  obtain ⟨m, hm⟩ := evalRef_mem_big (defs ord) hx hs
  have inv := big_invariant (ord := ord) (A := TreeAtom) (fun _ _ => ⟨trivial, trivial⟩) GD'
    (fun t ht a b h ha => gd_atom ho t ht a b h ha) (fun a k h => h) m _ _ s hm (rprog_npg p w) (.inr ⟨hg1, hd1⟩)
  have hp := hun s hs
  rcases inv with x | ⟨hg, _⟩
  · rw [hp] at x; cases x
  · refine ⟨hg.2.1.2, hp, fun c hc => ?_, hg.1, hsz s hs⟩
    have := hg.2.1.1 c hc
    cases hc2 : c.2 <;> simp_all [Cst.isDiseq, Cst.isFD]

section Examples
/-- `|x, y| { append(x, y, [1, 2]), x != [] }` as a whole query, on the engine: the two splits with a non-empty `x`, reified -/
example : (drainF (solveAt (defs Order.default) 4 4) 600
    (solveAt (defs Order.default) 4 4 (queryG Order.default (.var 2) [.var 0, .var 1]
      [.conj (.call ⟨.append, [.var 0, .var 1, Term.ofList [Term.num 1, Term.num 2]], false⟩)
        (.atom (liftRes fun st => postF Order.default st (.neq (.var 0) .nil)))]) (State.empty 3))).map
      (fun zs => zs.map fun s => (s.panic.isSome, apply s.σ (.var 0), apply s.σ (.var 1))) =
    some [(false, Term.ofList [Term.num 1], Term.ofList [Term.num 2]), (false, Term.ofList [Term.num 1, Term.num 2], Term.ofList [])] := by
  decide +kernel
end Examples

end Pv
