/-
  C01 — Unification computes a most general unifier, with occurs check.

  Theorems about `unifyF` (model of `unify_rec`, src/state/unification.rs) for ALL terms (literals of
  every kind, variables, proper/improper lists, compounds), ALL solved substitutions σ (the prior
  bindings), ALL fuel values.  `Ext σ θ` reads "θ is consistent with the prior bindings σ"
  (θ = θ ∘ σ); `Unifies θ u v` reads "both sides resolve to the identical term under θ".
-/
import PvModel.Proofs.Unify

namespace Pv
open Term

/-- On success both sides resolve to the identical term, the result extends the prior bindings and is
    again a solved form (so the theorems apply to the next unification: "all prior substitutions
    reachable by earlier unifications"). -/
theorem C01_sound (n : Nat) (σ σ' : Subst) (e e' : Ext1) (u v : Term) (hs : Solved σ)
    (h : unifyF n σ e u v = some (some (σ', e'))) :
    Solved σ' ∧ Ext σ σ' ∧ Unifies σ' u v := unifyF_sound n σ σ' e e' u v hs h

/-- The answer is most general: any other unifier consistent with the prior bindings is an instance. -/
theorem C01_mgu (n : Nat) (σ σ' : Subst) (e e' : Ext1) (u v : Term) (hs : Solved σ)
    (h : unifyF n σ e u v = some (some (σ', e'))) :
    ∀ θ : Subst, Ext σ θ → Unifies θ u v → Ext σ' θ := unifyF_mgu n σ σ' e e' u v hs h

/-- `u == v` fails only when the two terms have no finite unifier consistent with the bindings. -/
theorem C01_fail_complete (n : Nat) (σ : Subst) (e : Ext1) (u v : Term) (hs : Solved σ)
    (h : unifyF n σ e u v = some none) :
    ¬ ∃ θ : Subst, Ext σ θ ∧ Unifies θ u v := unifyF_fail n σ e u v hs h

/-- "succeeds exactly when": together with `C01_sound` (success ⇒ a unifier exists, namely σ'),
    whenever the run finishes, success is equivalent to the existence of a consistent unifier. -/
theorem C01_succeeds_iff (n : Nat) (σ : Subst) (e : Ext1) (u v : Term) (hs : Solved σ)
    (r : Option (Subst × Ext1)) (h : unifyF n σ e u v = some r) :
    r.isSome = true ↔ ∃ θ : Subst, Ext σ θ ∧ Unifies θ u v := by
  cases r with
  | none => simp; intro θ h1 h2; exact unifyF_fail n σ e u v hs h ⟨θ, h1, h2⟩
  | some p =>
    obtain ⟨σ', e'⟩ := p
    simp
    obtain ⟨_, h2, h3⟩ := unifyF_sound n σ σ' e e' u v hs h
    exact ⟨σ', h2, h3⟩

/-- No reachable substitution is cyclic: a bound variable never occurs in its own image, so walking
    terminates and no answer contains a cyclic term. -/
theorem C01_acyclic (n : Nat) (σ σ' : Subst) (e e' : Ext1) (u v : Term) (hs : Solved σ)
    (h : unifyF n σ e u v = some (some (σ', e'))) (x : Nat) :
    σ' x = .var x ∨ occurs x (σ' x) = false :=
  solved_acyclic (unifyF_sound n σ σ' e e' u v hs h).1 x

/-- A binding that would make a term contain itself is refused. -/
theorem C01_occurs_refused (n : Nat) (σ : Subst) (e : Ext1) (x : Nat) (t : Term)
    (hx : σ x = .var x) (hnv : (walk σ t).isVar = false) (ho : occurs x (apply σ t) = true) :
    unifyF (n + 1) σ e (.var x) t = some none := unifyF_occurs_refused n σ e x t hx hnv ho

/-- The extension (the bindings added by this unification) is exactly the information gained. -/
theorem C01_extension (n : Nat) (σ σ' : Subst) (e e' : Ext1) (u v : Term) (hs : Solved σ)
    (h : unifyF n σ e u v = some (some (σ', e'))) :
    ∃ δ : Ext1, e' = δ ++ e ∧
      (∀ θ : Subst, Ext σ θ → (Ext σ' θ ↔ ∀ p ∈ δ, apply θ (.var p.1) = apply θ p.2)) ∧
      (∀ p ∈ δ, σ p.1 = .var p.1) ∧
      (δ = [] → σ' = σ) := unifyF_ext n σ σ' e e' u v hs h

/-- The outcome does not depend on the fuel once the run finishes. -/
theorem C01_fuel_mono (n k : Nat) (σ : Subst) (e : Ext1) (u v : Term) (r : Option (Subst × Ext1))
    (h : unifyF n σ e u v = some r) : unifyF (n + k) σ e u v = some r :=
  unifyF_fuel_mono n k σ e u v r h

/-- Unification always terminates: for every solved prior substitution and every pair of terms some
    amount of fuel suffices (so the driver's `FUEL` outcome never arises with enough fuel, and
    "succeeds exactly when" above has no silent third case). -/
theorem C01_terminates (σ : Subst) (e : Ext1) (u v : Term) (hs : Solved σ) :
    ∃ n, unifyF n σ e u v ≠ none := unifyF_terminates σ e u v hs

/-- The prior bindings quantified over are reachable: the empty substitution is solved, and
    (`C01_sound`) every successful unification keeps solvedness. -/
theorem C01_prior_reachable : Solved Subst.id := solved_id

/-! Non-vacuity: a reachable three-binding substitution with a compound and an improper list. -/
section Examples
private def t1 : Term := .cons (.var 0) (.var 1)                 -- [x0 | x1]
private def t2 : Term := .cons (.comp 7 (.cons (.var 2) .nil)) (.cons (num 5) .nil)  -- [C7(x2), 5]
example : (match unifyF 10 Subst.id [] t1 t2 with
    | some (some (σ', e')) => e'.length == 2 && apply σ' t1 == apply σ' t2 | _ => false) = true := by decide
/-- occurs check through a list and a compound -/
example : (match unifyF 10 Subst.id [] (.var 0) (.cons (num 1) (.comp 3 (.cons (.var 0) .nil))) with
    | some none => true | _ => false) = true := by decide
end Examples

end Pv
