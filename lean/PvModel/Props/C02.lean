/-
  C02 — Disequality constraints (CLP(Tree)) are sound, complete and order-free.

  The model: `State.unify` / `State.disunify` with the constraint store, `DisequalityConstraint::run`,
  `subsumes`, the repaired `with_constraint` normalisation and `run_constraints` (Model/State.lean).
  Semantics: a valuation γ (ANY substitution; ground valuations are a special case) is described by a
  state when it is an instance of the substitution and makes every stored disequality true.
  All theorems hold for every hash-iteration order (`OrderOK ord`: the order functions are permutations).
-/
import PvModel.Proofs.Tree
namespace Pv

/-- Posting atoms from the empty state: if it succeeds, the final state describes EXACTLY the
    valuations satisfying all atoms (sound and complete) … -/
theorem C02_invariant_ok (ord : Order) (ho : OrderOK ord) (n : Nat) (as : List TAtom) (st : State)
    (h : postAll ord (State.empty n) as = .ok st) :
    ∀ γ : Subst, StateSem γ st ↔ ∀ a ∈ as, a.Sat γ := by
  intro γ
  have := (postAll_ok ord ho _ _ as (good_empty n) h).2 γ
  rw [this]
  exact ⟨fun h => h.2, fun h => ⟨stateSem_empty n γ, h⟩⟩

/-- … and if it fails, the atoms have no solution at all. -/
theorem C02_invariant_fail (ord : Order) (ho : OrderOK ord) (n : Nat) (as : List TAtom)
    (h : postAll ord (State.empty n) as = .fail) :
    ∀ γ : Subst, ¬ ∀ a ∈ as, a.Sat γ := by
  intro γ hs
  exact postAll_fail ord ho _ as (good_empty n) h γ ⟨stateSem_empty n γ, hs⟩

/-- One posting step on any reachable (good) state, success and failure. -/
theorem C02_step_ok (ord : Order) (ho : OrderOK ord) (st st' : State) (a : TAtom) (hg : Good st)
    (h : postAtom ord st a = .ok st') :
    Good st' ∧ ∀ γ : Subst, StateSem γ st' ↔ (StateSem γ st ∧ a.Sat γ) := postAtom_ok ord ho st st' a hg h

theorem C02_step_fail (ord : Order) (ho : OrderOK ord) (st : State) (a : TAtom) (hg : Good st)
    (h : postAtom ord st a = .fail) :
    ∀ γ : Subst, ¬ (StateSem γ st ∧ a.Sat γ) := postAtom_fail ord ho st a hg h

/-- Order-free: any permutation of the atoms, under any two iteration orders, gives failure in both
    cases or two states describing the same valuations (whenever both runs finish). -/
theorem C02_order_free (o1 o2 : Order) (h1 : OrderOK o1) (h2 : OrderOK o2) (n : Nat)
    (as bs : List TAtom) (hp : as.Perm bs) :
    (∀ s1 s2, postAll o1 (State.empty n) as = .ok s1 → postAll o2 (State.empty n) bs = .ok s2 →
        ∀ γ : Subst, StateSem γ s1 ↔ StateSem γ s2) ∧
    (∀ s1, postAll o1 (State.empty n) as = .ok s1 → postAll o2 (State.empty n) bs = .fail →
        ∀ γ : Subst, ¬ StateSem γ s1) ∧
    (postAll o1 (State.empty n) as = .fail → ∀ s2, postAll o2 (State.empty n) bs = .ok s2 →
        ∀ γ : Subst, ¬ StateSem γ s2) := by
  refine ⟨?_, ?_, ?_⟩
  · intro s1 s2 e1 e2 γ
    rw [C02_invariant_ok o1 h1 n as s1 e1, C02_invariant_ok o2 h2 n bs s2 e2]
    exact ⟨fun h a ha => h a (hp.mem_iff.mpr ha), fun h a ha => h a (hp.mem_iff.mp ha)⟩
  · intro s1 e1 e2 γ hs
    rw [C02_invariant_ok o1 h1 n as s1 e1] at hs
    exact C02_invariant_fail o2 h2 n bs e2 γ (fun a ha => hs a (hp.mem_iff.mpr ha))
  · intro e1 s2 e2 γ hs
    rw [C02_invariant_ok o2 h2 n bs s2 e2] at hs
    exact C02_invariant_fail o1 h1 n as e1 γ (fun a ha => hs a (hp.mem_iff.mp ha))

/-- eq/neq never panic on reachable tree states. -/
theorem C02_no_panic (ord : Order) (ho : OrderOK ord) (st : State) (a : TAtom) (hg : Good st)
    (site : String) : postAtom ord st a ≠ .panic site := postAtom_no_panic ord ho st a hg site

/-! Non-vacuity: the D7 witness program is decided correctly by the model (no answer), and a
    satisfiable program ends in a good state with a non-empty store. -/
section Examples
open Term
private def x : Term := .var 0
private def y : Term := .var 1
private def d7 : List TAtom :=
  [.neq x (num 5), .neq (.cons x (.cons y .nil)) (.cons (num 5) (.cons (num 6) .nil)), .eq x (num 5), .eq y (num 7)]
example : (match postAll Order.default (State.empty 2) d7 with | .fail => true | _ => false) = true := by decide
example : (match postAll Order.default (State.empty 2) (d7.take 2) with
    | .ok st => st.store.length == 1 | _ => false) = true := by decide
example : OrderOK Order.default := ⟨fun _ => .refl _, fun _ => .refl _, fun _ => .refl _⟩
end Examples

end Pv
