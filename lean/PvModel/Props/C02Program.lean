/-
  C02, whole programs: for every program built from `==`, `!=`, conjunction, disjunction (`conde`) and fresh
  variables, the states the interleaving engine delivers describe — together — EXACTLY the program's
  solutions: the valuations that satisfy every equality and disequality along one path of the program.
  (A corollary of `fd_program`, Proofs/FDProgram.lean, for programs whose atoms are tree atoms.)
-/
import PvModel.Props.C04
namespace Pv
open State Term Goal

/-- the atoms of the program are `==` / `!=` only -/
def FProg.TreeOnly : FProg → Prop
  | .atom (.eq _ _) => True
  | .atom (.neq _ _) => True
  | .atom _ => False
  | .conj p q => p.TreeOnly ∧ q.TreeOnly
  | .alt p q => p.TreeOnly ∧ q.TreeOnly
  | .fresh p => p.TreeOnly
  | _ => True

theorem FProg.TreeOnly.ok : ∀ (p : FProg), p.TreeOnly → @FProg.OK Mode.strict p
  | .succeed, _ => trivial
  | .fail, _ => trivial
  | .atom (.eq _ _), _ => trivial
  | .atom (.neq _ _), _ => trivial
  | .atom (.cst _), h => h.elim
  | .atom (.dom _ _), h => h.elim
  | .conj p q, h => ⟨FProg.TreeOnly.ok p h.1, FProg.TreeOnly.ok q h.2⟩
  | .alt p q, h => ⟨FProg.TreeOnly.ok p h.1, FProg.TreeOnly.ok q h.2⟩
  | .fresh p, h => FProg.TreeOnly.ok p h

/-- PROGRAMS: for any program of `==`, `!=`, conjunction, `conde` and fresh variables (any nesting), under any
    hash-iteration order and at any solver nesting level, the interleaving search terminates and
    (1) whatever valuation an (unpoisoned) delivered state describes — it extends the state's substitution and
        makes every disequality attached to it true — is a solution of the program;
    (2) every solution of the program is described by one of the delivered states
        (unless that path's own run ran out of the model's unification fuel, which the driver reports as FUEL).
    Ground valuations are a special case: the ground instances of the answers' states are exactly the
    program's ground solutions. -/
theorem C02_program_exact {ord : Order} (ho : OrderOK ord) (dfs : Call → State → State × G) (pf M nv : Nat)
    (p : FProg) (ht : p.TreeOnly) :
    ∃ k ys, drainF (solveAt dfs pf (M + 1)) k (solveAt dfs pf (M + 1) (p.goal ord) (State.empty nv)) = some ys ∧
      (∀ s ∈ ys, s.panic = none → ∀ γ, Sem NoI γ s → FSols p γ) ∧
      (∀ γ, FSols p γ → (∀ path ∈ p.paths, postAllF ord (State.empty nv) path ≠ .fuel) → ∃ s ∈ ys, Sem NoI γ s) := by
  obtain ⟨k, ys, h1, _, h3, h4⟩ := @fd_program Mode.strict ord ho dfs pf M nv p (FProg.TreeOnly.ok p ht)
  refine ⟨k, ys, h1, fun s hs hp γ hγ => ?_, fun γ ⟨path, hpth, hsat⟩ hnf => h4 path hpth γ hsat (hnf path hpth)⟩
  obtain ⟨path, hpth, hsem⟩ := h3 s hs hp
  exact ⟨path, hpth, (hsem γ).1 hγ⟩

/-- the posting order inside a conjunction, and the order of the clauses, do not matter for the solutions -/
theorem C02_program_order_free (p q : FProg) (γ : Subst) :
    (FSols (.conj p q) γ ↔ FSols (.conj q p) γ) ∧ (FSols (.alt p q) γ ↔ FSols (.alt q p) γ) :=
  @C04_program_comm Mode.strict p q γ

section Examples
/-- non-vacuity: `x != 5, conde { x == 5 ; [x, y] == [6, z] }` is a tree-only program with two paths, the first
    of which is unsatisfiable -/
private def prog02 : FProg :=
  .conj (.atom (.neq (.var 0) (num 5)))
    (.alt (.atom (.eq (.var 0) (num 5)))
      (.fresh (.atom (.eq (.cons (.var 0) (.cons (.var 1) .nil)) (.cons (num 6) (.cons (.var 2) .nil))))))
example : prog02.TreeOnly := ⟨trivial, trivial, trivial⟩
example : prog02.paths.length = 2 := by decide
example : (prog02.paths.map fun path => match postAllF Order.default (State.empty 3) path with
    | .ok _ => "ok" | .fail => "fail" | _ => "?") = ["fail", "ok"] := by decide
end Examples

end Pv
