/-
  C21 — LTerm equality, hashing and list operations are consistent.

  Model: Model/LTermOps.lean (`termEq` = the `PartialEq` match transcribed, `hashFeed` = the items fed to the
  hasher, `ofList`/`improperOfList`/`iterItems`/`mapItems`/`extend?`/`index?`/`head?`/`tail?`/`isList`/
  `isEmptyT`/`isImproper`/`containsT`/`display`).  All theorems are for ALL terms / element sequences.
-/
import PvModel.Model.LTermOps
namespace Pv
namespace Term

/-- `==` is exactly structural equality (variables by identity): hence an equivalence relation -/
theorem C21_eq_iff : ∀ (a b : Term), termEq a b = true ↔ a = b
  | .var x, .var y => by simp [termEq]
  | .val a, .val b => by simp [termEq]
  | .nil, .nil => by simp [termEq]
  | .cons h1 t1, .cons h2 t2 => by simp [termEq, C21_eq_iff h1 h2, C21_eq_iff t1 t2]
  | .comp g1 a1, .comp g2 a2 => by simp [termEq, C21_eq_iff a1 a2]
  | .var _, .val _ | .var _, .nil | .var _, .cons _ _ | .var _, .comp _ _
  | .val _, .var _ | .val _, .nil | .val _, .cons _ _ | .val _, .comp _ _
  | .nil, .var _ | .nil, .val _ | .nil, .cons _ _ | .nil, .comp _ _
  | .cons _ _, .var _ | .cons _ _, .val _ | .cons _ _, .nil | .cons _ _, .comp _ _
  | .comp _ _, .var _ | .comp _ _, .val _ | .comp _ _, .nil | .comp _ _, .cons _ _ => by simp [termEq]

theorem C21_equiv (a b c : Term) :
    termEq a a = true ∧ (termEq a b = termEq b a) ∧ (termEq a b = true → termEq b c = true → termEq a c = true) := by
  refine ⟨(C21_eq_iff a a).2 rfl, ?_, fun h1 h2 => (C21_eq_iff a c).2 (((C21_eq_iff a b).1 h1).trans ((C21_eq_iff b c).1 h2))⟩
  cases h : termEq a b with
  | true => exact ((C21_eq_iff b a).2 ((C21_eq_iff a b).1 h).symm).symm
  | false =>
    cases h' : termEq b a with
    | false => rfl
    | true => rw [(C21_eq_iff a b).2 ((C21_eq_iff b a).1 h').symm] at h; cases h

/-- equal terms feed the same items to the hasher, so they hash equally under ANY hasher -/
theorem C21_hash (a b : Term) (h : termEq a b = true) : hashFeed a = hashFeed b := by
  rw [(C21_eq_iff a b).1 h]

/-- `from_vec` / `from_array` / `collect`, then `iter`: the element sequence -/
theorem C21_iter_ofList : ∀ xs : List Term, (ofList xs).iterItems = xs
  | [] => rfl
  | x :: xs => by
    have ih := C21_iter_ofList xs
    simp only [iterItems, ofList, listElems] at ih ⊢
    generalize hq : (ofList xs).listElems = q at ih ⊢
    obtain ⟨es, tl⟩ := q
    cases tl <;> simp_all

/-- a term that is not a list: iterating yields the term itself once -/
def notList (t : Term) : Prop := t.isList = false

theorem C21_iter_improper (xs : List Term) (t : Term) (ht : notList t) (hx : xs ≠ []) :
    (improperOfList xs t).iterItems = xs ++ [t] := by
  induction xs with
  | nil => exact absurd rfl hx
  | cons x xs ih =>
    cases xs with
    | nil =>
      cases t <;> simp_all [notList, isList, improperOfList, iterItems, listElems]
    | cons y ys =>
      have := ih (by simp)
      simp only [iterItems, improperOfList, listElems] at this ⊢
      generalize hq : (improperOfList ys t).listElems = q at this ⊢
      obtain ⟨es, tl⟩ := q
      cases tl <;> simp_all

/-- `extend` on a proper list appends the elements; on anything else it panics (`none`) -/
theorem C21_extend : ∀ (xs ys : List Term), extend? (ofList xs) ys = some (ofList (xs ++ ys))
  | [], ys => rfl
  | x :: xs, ys => by simp [ofList, extend?, C21_extend xs ys]

theorem C21_extend_improper (xs ys : List Term) (t : Term) (ht : notList t) :
    extend? (improperOfList xs t) ys = none := by
  induction xs with
  | nil => cases t <;> simp_all [notList, isList, improperOfList, extend?]
  | cons x xs ih => simp [improperOfList, extend?, ih]

/-- indexing, head, tail, emptiness as on the element sequence -/
theorem C21_index (xs : List Term) (i : Nat) : index? (ofList xs) i = xs[i]? := by
  simp [index?, C21_iter_ofList]

theorem C21_head_tail (x : Term) (xs : List Term) :
    (ofList (x :: xs)).head? = some x ∧ (ofList (x :: xs)).tail? = some (ofList xs) ∧
    (ofList ([] : List Term)).head? = none ∧ (ofList xs).isList = true ∧
    ((ofList xs).isEmptyT = true ↔ xs = []) := by
  refine ⟨rfl, rfl, rfl, ?_, ?_⟩
  · cases xs <;> rfl
  · cases xs <;> simp [ofList, isEmptyT]

/-- `is_improper` holds exactly when the spine does not end in `[]` -/
theorem C21_improper_spine : ∀ t : Term, t.isImproper = (t.isList && !(t.listElems.2.isEmptyT))
  | .var _ => rfl
  | .val _ => rfl
  | .nil => rfl
  | .comp _ _ => rfl
  | .cons h t => by
    have ih := C21_improper_spine t
    cases t with
    | nil => simp [isImproper, isEmptyT, isList, listElems]
    | cons h2 t2 =>
      simp only [isImproper, isEmptyT, isList, listElems] at ih ⊢
      simpa using ih
    | var x => simp [isImproper, isEmptyT, isList, listElems]
    | val v => simp [isImproper, isEmptyT, isList, listElems]
    | comp g a => simp [isImproper, isEmptyT, isList, listElems]

theorem C21_ofList_proper (xs : List Term) : (ofList xs).isImproper = false := by
  induction xs with
  | nil => rfl
  | cons x xs ih =>
    cases xs with
    | nil => rfl
    | cons y ys => simpa [ofList, isImproper, isEmptyT, isList] using ih

/-- `contains` is membership in the element sequence (up to `==`, i.e. structural equality) -/
theorem C21_contains (xs : List Term) (v : Term) : containsT (ofList xs) v = true ↔ v ∈ xs := by
  simp only [containsT, C21_iter_ofList, List.any_eq_true]
  constructor
  · rintro ⟨u, hu, h⟩; rw [← (C21_eq_iff u v).1 h]; exact hu
  · intro h; exact ⟨v, h, (C21_eq_iff v v).2 rfl⟩

/-- positional update of a sequence, positions counted from `i` -/
def mapFrom (f : Nat → Term → Term) : Nat → List Term → List Term
  | _, [] => []
  | i, x :: xs => f i x :: mapFrom f (i + 1) xs

/-- `iter_mut`: positional update of the element sequence -/
theorem C21_iter_mut (f : Nat → Term → Term) : ∀ (xs : List Term) (i : Nat),
    mapItems f i (ofList xs) = ofList (mapFrom f i xs)
  | [], _ => rfl
  | [x], i => by simp [ofList, mapItems, isEmptyT, mapFrom]
  | x :: y :: ys, i => by
    have ih := C21_iter_mut f (y :: ys) (i + 1)
    simp only [ofList, mapItems, isEmptyT, mapFrom] at ih ⊢
    simp only [Bool.false_eq_true, if_false, ih]

/-- … and on an improper list the tail is the last item (repaired: D19) -/
theorem C21_iter_mut_improper (f : Nat → Term → Term) (t : Term) (ht : notList t) : ∀ (xs : List Term) (i : Nat),
    mapItems f i (improperOfList xs t) = improperOfList (mapFrom f i xs) (f (i + xs.length) t)
  | [], i => by cases t <;> simp_all [notList, isList, improperOfList, mapItems, mapFrom]
  | x :: xs, i => by
    have ih := C21_iter_mut_improper f t ht xs (i + 1)
    have hne : (improperOfList xs t).isEmptyT = false := by
      cases xs with
      | nil => cases t <;> simp_all [notList, isList, improperOfList, isEmptyT]
      | cons => rfl
    simp only [improperOfList, mapItems, hne, Bool.false_eq_true, if_false, ih, mapFrom, List.length_cons]
    have : i + 1 + xs.length = i + (xs.length + 1) := by omega
    rw [this]

/-- list `Display`: `[a, b, c]` for a proper list, `[a, b | t]` for an improper one -/
theorem C21_display_list : ∀ xs : List Term,
    displayTail (ofList xs) = String.join (xs.map fun x => ", " ++ display x) ++ "]"
  | [] => by simp [ofList, displayTail]
  | x :: xs => by simp [ofList, displayTail, C21_display_list xs, String.append_assoc]

theorem C21_display_improper (xs : List Term) (t : Term) (ht : notList t) :
    displayTail (improperOfList xs t) = String.join (xs.map fun x => ", " ++ display x) ++ " | " ++ display t ++ "]" := by
  induction xs with
  | nil => cases t <;> simp_all [notList, isList, improperOfList, displayTail]
  | cons x xs ih => simp [improperOfList, displayTail, ih, String.append_assoc]

section Examples
private def nested : Term := .cons (num 1) (.cons (.comp 2 (.cons (.var 0) (.cons .nil .nil))) (.var 3))
example : nested.iterItems = [num 1, .comp 2 (.cons (.var 0) (.cons .nil .nil)), .var 3] := by decide
example : nested.isImproper = true := by decide
example : displayTail (.cons (.cons (num 2) .nil) (.var 0)) = ", " ++ display (.cons (num 2) .nil) ++ " | " ++ display (.var 0) ++ "]" := by
  simp [displayTail, String.append_assoc]
example : hashFeed (.cons (num 1) (.cons (num 2) .nil)) = hashFeed (.cons (num 1) (num 2)) := by decide
example : termEq (.cons (num 1) (.cons (num 2) .nil)) (.cons (num 1) (num 2)) = false := by decide
end Examples

end Term
end Pv
