/-
  C05 — Depth-first search yields answers in Prolog order.

  Model: `mplusD`, `bindD`, `lazyBindD`, `step` on the depth-first nodes, `conjD`/`disjD`/`altD`
  (`DFSConj`, `DFSDisj`, `Conde` in DFS mode), relation calls solved through `solveAt` (Model/Stream.lean).
  Reference: `evalRef` — the textbook recursive semantics (disjunction = concatenation, conjunction =
  flat-map of the second goal over the answers of the first, relation call = its body).
  Generic in the state type: nothing about the atoms is used.
-/
import PvModel.Proofs.Stream
namespace Pv
open Strm Goal

variable {St K : Type}

/-- One engine step of a depth-first node keeps the answer list EXACTLY: same answers, same order. -/
theorem C05_step (defs : K → St → St × Goal St K) (top : Goal St K → St → Strm St K) (hT : TopOK top)
    (hTop : ∀ g a, DfsG defs g → DfsS defs (top g a)) {l : Lz St K} {xs : List St}
    (hl : DfsL defs l) (h : AnsL top l xs) :
    AnsS top (step top l) xs ∧ DfsS defs (step top l) := step_dfs defs top hT hTop hl h

/-- `Solver::next` run to exhaustion on a depth-first stream delivers exactly the reference list, in order. -/
theorem C05_next (defs : K → St → St × Goal St K) (top : Goal St K → St → Strm St K) (hT : TopOK top)
    (hTop : ∀ g a, DfsG defs g → DfsS defs (top g a)) {s : Strm St K} {xs : List St}
    (hs : DfsS defs s) (h : AnsS top s xs) :
    ∃ n, drainF top n s = some xs ∧ runF top n s = xs := by
  obtain ⟨n, hn⟩ := drain_dfs defs top hT hTop hs h
  exact ⟨n, hn, drain_run top n s xs hn⟩

/-- Prolog order: whenever the textbook semantics of a depth-first goal terminates with the list `xs`
    (at any unfolding depth `n`), the engine delivers exactly `xs`, in that order, and then stops — at
    every solver nesting level `M`, including recursion through relation calls. -/
theorem C05_prolog (defs : K → St → St × Goal St K) (pf M n : Nat) (g : Goal St K) (a : St) (xs : List St)
    (hD : DfsDefs defs) (hg : DfsG defs g) (h : evalRef defs n g a = some xs) :
    ∃ k, drainF (solveAt defs pf (M + 1)) k (solveAt defs pf (M + 1) g a) = some xs ∧
         runF (solveAt defs pf (M + 1)) k (solveAt defs pf (M + 1) g a) = xs := by
  have hA := ref_dfs defs pf M hD n g a xs hg h M
  exact C05_next defs _ (topOK_solveAt defs pf M) (fun g a hg => solveAt_dfs defs hD pf (M + 1) g a hg)
    (solveAt_dfs defs hD pf (M + 1) g a hg) hA

/-- Disjunction: all answers of the first clause, in their own order, precede every answer of the rest. -/
theorem C05_disj_order (defs : K → St → St × Goal St K) (top : Goal St K → St → Strm St K) (pf : Nat)
    (A B : Goal St K) (a : St) (xs ys : List St)
    (hA : AnsS top (start defs top pf A a) xs) (hB : AnsS top (start defs top pf B a) ys) :
    AnsS top (start defs top pf (.altD A B) a) (xs ++ ys) := altD_union defs top pf A B a xs ys hA hB

/-- Conjunction: the reference list of `g1, g2` is the concatenation, over the answers of `g1` in
    order, of the answers of `g2` from each: all answers extending the first answer of `g1` precede
    those extending its second answer. -/
theorem C05_conj_order (defs : K → St → St × Goal St K) (n : Nat) (g1 g2 : Goal St K) (a : St) (xs : List St)
    (h1 : evalRef defs n g1 a = some xs) :
    evalRef defs (n + 1) (.conjD g1 g2) a = flatMapM (evalRef defs n g2) xs := by
  simp [evalRef, h1]

/-! Non-vacuity: a concrete depth-first disjunction-in-conjunction over `Nat` states. -/
section Examples
private def defs0 : Unit → Nat → Nat × Goal Nat Unit := fun _ a => (a, .fail)
private def g0 : Goal Nat Unit :=
  .conjD (.altD (.atom fun a => some (a + 1)) (.altD (.atom fun a => some (a + 2)) .fail))
         (.altD (.atom fun a => some (a * 10)) (.altD (.atom fun a => some (a * 10 + 1)) .fail))
example : evalRef defs0 10 g0 0 = some [10, 11, 20, 21] := by decide
example : runF (solveAt defs0 5 3) 40 (solveAt defs0 5 3 g0 0) = [10, 11, 20, 21] := by decide
example : DfsG defs0 g0 := by
  unfold g0; repeat' constructor
end Examples

end Pv
