/-
  C02, decision: the `==` / `!=` solver DECIDES its constraints.  Posting any list of equalities and disequalities
  succeeds exactly when they have a solution — and then they have a GROUND one (an answer always has ground
  instances: the universe is infinite, every unbound variable can take a number of its own) — and fails exactly
  when they have none.  With `C02_invariant_ok` (the state describes exactly the solutions) this is soundness and
  completeness in the strongest sense.
-/
import PvModel.Props.C02
import PvModel.Proofs.DiseqNF
namespace Pv

/-- NORMAL FORM: in every state reached by posting `==` / `!=` atoms (any order, any hash-iteration order) every
    stored disequality contains a pair `(x, t)` with `x` unbound, `t` normal under the substitution and `x` not in
    `t`: `run_constraints` re-normalises every stored disequality after each unification -/
theorem C02_normal_form (ord : Order) (ho : OrderOK ord) (n : Nat) (as : List TAtom) (st : State)
    (h : postAll ord (State.empty n) as = .ok st) :
    ∀ q ∈ st.store, ∀ ps, q.2 = .diseq ps →
      ∃ p ∈ ps, st.σ p.1 = .var p.1 ∧ apply st.σ p.2 = p.2 ∧ Term.occurs p.1 p.2 = false := by
  intro q hq ps he
  have hd := postAll_dnf ho as (State.empty n) st (good_empty n) (fun _ hq0 => by simp [State.empty] at hq0) h
  rcases hd q hq ps he with f | g
  · exact f.elim
  · exact g

/-- AN ANSWER IS NEVER VACUOUS: a successful run ends in a state that describes a ground valuation, and that
    valuation satisfies every posted atom -/
theorem C02_satisfiable (ord : Order) (ho : OrderOK ord) (n : Nat) (as : List TAtom) (st : State)
    (h : postAll ord (State.empty n) as = .ok st) :
    ∃ γ : Subst, (∀ t : Term, (apply γ t).vars = []) ∧ StateSem γ st ∧ ∀ a ∈ as, a.Sat γ := by
  have hg := (postAll_ok ord ho _ _ as (good_empty n) h).1
  have hd := postAll_dnf ho as (State.empty n) st (good_empty n) (fun _ hq0 => by simp [State.empty] at hq0) h
  obtain ⟨γ, hsem, hgr⟩ := dnf_sat hg.1 hd
  exact ⟨γ, hgr, hsem, (C02_invariant_ok ord ho n as st h γ).1 hsem⟩

/-- DECISION: unless the model's unification fuel runs out, posting the atoms succeeds if and only if they have a
    solution (and fails if and only if they have none) -/
theorem C02_decides (ord : Order) (ho : OrderOK ord) (n : Nat) (as : List TAtom)
    (hf : postAll ord (State.empty n) as ≠ .fuel) :
    ((∃ st, postAll ord (State.empty n) as = .ok st) ↔ ∃ γ : Subst, ∀ a ∈ as, a.Sat γ) ∧
    (postAll ord (State.empty n) as = .fail ↔ ¬ ∃ γ : Subst, ∀ a ∈ as, a.Sat γ) := by
  have hsat : (∃ st, postAll ord (State.empty n) as = .ok st) → ∃ γ : Subst, ∀ a ∈ as, a.Sat γ := fun ⟨st, h⟩ => by
    obtain ⟨γ, _, _, hs⟩ := C02_satisfiable ord ho n as st h
    exact ⟨γ, hs⟩
  have hfail : postAll ord (State.empty n) as = .fail → ¬ ∃ γ : Subst, ∀ a ∈ as, a.Sat γ := fun h ⟨γ, hγ⟩ =>
    C02_invariant_fail ord ho n as h γ hγ
  cases hr : postAll ord (State.empty n) as with
  | ok st =>
    refine ⟨⟨fun _ => hsat ⟨st, hr⟩, fun _ => ⟨st, rfl⟩⟩, ⟨(fun h => by cases h), fun hn => absurd (hsat ⟨st, hr⟩) hn⟩⟩
  | fail =>
    refine ⟨⟨(fun ⟨st, h⟩ => by cases h), fun hs => absurd hs (hfail hr)⟩, ⟨fun _ => hfail hr, fun _ => rfl⟩⟩
  | fuel => exact absurd hr hf
  | panic s =>
    exact absurd hr (postAll_no_panic_of_good ord ho (State.empty n) as (good_empty n) s)

section Examples
open Term
/-- non-vacuity: `x != y, [x, z] != [1, 2], y == 1` succeeds; `x != y` has become `x != 1` and the second disequality is kept or subsumed -/
private def pd : List TAtom :=
  [.neq (.var 0) (.var 1), .neq (.cons (.var 0) (.cons (.var 2) .nil)) (.cons (num 1) (.cons (num 2) .nil)), .eq (.var 1) (num 1)]
example : (match postAll Order.default (State.empty 3) pd with | .ok st => st.store.length | _ => 99) = 1 := by decide
end Examples

end Pv
