/-
  C02, decision: the `==` / `!=` solver DECIDES its constraints.  Posting any list of equalities and disequalities
  succeeds exactly when they have a solution — and then they have a GROUND one (an answer always has ground
  instances: the universe is infinite, every unbound variable can take a number of its own) — and fails exactly
  when they have none.  With `C02_invariant_ok` (the state describes exactly the solutions) this is soundness and
  completeness in the strongest sense.
-/
import PvModel.Props.C02
import PvModel.Proofs.DiseqNF
namespace Pv

/-- NORMAL FORM: in every state reached by posting `==` / `!=` atoms (any order, any hash-iteration order) every
    stored disequality is non-empty and EVERY one of its pairs `(x, t)` has `x` unbound, `t` normal under the
    substitution and `x` not in `t`: `run_constraints` re-normalises every stored disequality after each unification -/
theorem C02_normal_form (ord : Order) (ho : OrderOK ord) (n : Nat) (as : List TAtom) (st : State)
    (h : postAll ord (State.empty n) as = .ok st) :
    ∀ q ∈ st.store, ∀ ps, q.2 = .diseq ps →
      ps ≠ [] ∧ ∀ p ∈ ps, st.σ p.1 = .var p.1 ∧ apply st.σ p.2 = p.2 ∧ Term.occurs p.1 p.2 = false := by
  intro q hq ps he
  have hd := postAll_dnf ho as (State.empty n) st (good_empty n) (fun _ hq0 => by simp [State.empty] at hq0) h
  rcases hd q hq ps he with f | g
  · exact f.elim
  · exact g

/-- AN ANSWER IS NEVER VACUOUS: a successful run ends in a state that describes a ground valuation, and that
    valuation satisfies every posted atom -/
theorem C02_satisfiable (ord : Order) (ho : OrderOK ord) (n : Nat) (as : List TAtom) (st : State)
    (h : postAll ord (State.empty n) as = .ok st) :
    ∃ γ : Subst, (∀ t : Term, (apply γ t).vars = []) ∧ StateSem γ st ∧ ∀ a ∈ as, a.Sat γ := by
  have hg := (postAll_ok ord ho _ _ as (good_empty n) h).1
  have hd := postAll_dnf ho as (State.empty n) st (good_empty n) (fun _ hq0 => by simp [State.empty] at hq0) h
  obtain ⟨γ, hsem, hgr⟩ := dnf_sat hg.1 hd
  exact ⟨γ, hgr, hsem, (C02_invariant_ok ord ho n as st h γ).1 hsem⟩

/-- DECISION: unless the model's unification fuel runs out, posting the atoms succeeds if and only if they have a
    solution (and fails if and only if they have none) -/
theorem C02_decides (ord : Order) (ho : OrderOK ord) (n : Nat) (as : List TAtom)
    (hf : postAll ord (State.empty n) as ≠ .fuel) :
    ((∃ st, postAll ord (State.empty n) as = .ok st) ↔ ∃ γ : Subst, ∀ a ∈ as, a.Sat γ) ∧
    (postAll ord (State.empty n) as = .fail ↔ ¬ ∃ γ : Subst, ∀ a ∈ as, a.Sat γ) := by
  have hsat : (∃ st, postAll ord (State.empty n) as = .ok st) → ∃ γ : Subst, ∀ a ∈ as, a.Sat γ := fun ⟨st, h⟩ => by
    obtain ⟨γ, _, _, hs⟩ := C02_satisfiable ord ho n as st h
    exact ⟨γ, hs⟩
  have hfail : postAll ord (State.empty n) as = .fail → ¬ ∃ γ : Subst, ∀ a ∈ as, a.Sat γ := fun h ⟨γ, hγ⟩ =>
    C02_invariant_fail ord ho n as h γ hγ
  cases hr : postAll ord (State.empty n) as with
  | ok st =>
    refine ⟨⟨fun _ => hsat ⟨st, hr⟩, fun _ => ⟨st, rfl⟩⟩, ⟨(fun h => by cases h), fun hn => absurd (hsat ⟨st, hr⟩) hn⟩⟩
  | fail =>
    refine ⟨⟨(fun ⟨st, h⟩ => by cases h), fun hs => absurd hs (hfail hr)⟩, ⟨fun _ => hfail hr, fun _ => rfl⟩⟩
  | fuel => exact absurd hr hf
  | panic s =>
    exact absurd hr (postAll_no_panic_of_good ord ho (State.empty n) as (good_empty n) s)

/-- PROJECTION ONTO THE QUERY VARIABLES (the semantic core of purification): in a state reached by posting `==` / `!=`
    atoms, let `V` be any set of variables (the variables of the walked query term) and `θ` any assignment under
    which every stored disequality that mentions only variables of `V` holds.  Then `θ` extends to a valuation γ the
    state describes — so γ satisfies EVERY posted atom — with γ = θ on the unbound variables of `V`.
    Disequalities that mention a hidden variable may therefore be dropped from the reported answer: they never
    exclude an instance of the answer term (each hidden variable can take a number of its own). -/
theorem C02_projection (ord : Order) (ho : OrderOK ord) (n : Nat) (as : List TAtom) (st : State)
    (h : postAll ord (State.empty n) as = .ok st) (V : List Nat) (θ : Subst)
    (hvis : ∀ q ∈ st.store, ∀ ps, q.2 = .diseq ps → (∀ y ∈ diseqVars ps, y ∈ V) → DiseqHolds θ ps) :
    ∃ γ : Subst, (∀ a ∈ as, a.Sat γ) ∧ ∀ y ∈ V, st.σ y = .var y → γ y = θ y := by
  have hg := (postAll_ok ord ho _ _ as (good_empty n) h).1
  have hd := postAll_dnf ho as (State.empty n) st (good_empty n) (fun _ hq0 => by simp [State.empty] at hq0) h
  obtain ⟨γ, hsem, hag⟩ := dnf_project hg.1 hd V θ hvis
  exact ⟨γ, (C02_invariant_ok ord ho n as st h γ).1 hsem, hag⟩

theorem normal_vars {σ : Subst} : ∀ (u : Term), apply σ u = u → ∀ y ∈ u.vars, σ y = .var y
  | .var z, h, y, hy => by
    simp only [Term.vars, List.mem_singleton] at hy
    subst hy
    simpa [apply] using h
  | .val _, _, y, hy => by simp [Term.vars] at hy
  | .nil, _, y, hy => by simp [Term.vars] at hy
  | .cons a b, h, y, hy => by
    simp only [apply, Term.cons.injEq] at h
    simp only [Term.vars, List.mem_append] at hy
    rcases hy with hy | hy
    · exact normal_vars a h.1 y hy
    · exact normal_vars b h.2 y hy
  | .comp g a, h, y, hy => by
    simp only [apply, Term.comp.injEq, true_and] at h
    simp only [Term.vars] at hy
    exact normal_vars a h y hy

/-- ANSWER INSTANCES: for a state reached by posting `==` / `!=` atoms and any list `qs` of query terms, the
    tuples `qs` takes under the SOLUTIONS of the atoms are exactly the instances of the walked query terms
    `walk*(qs)` under the assignments that satisfy the stored disequalities over the variables of those walked
    terms — the (semantic) answer: walked terms plus the disequalities that mention only their variables.
    (The reported answer is this up to the injective renaming of those variables to `_` variables — `C03_names` —
    and the removal of subsumed disequalities.) -/
theorem C02_answer_instances (ord : Order) (ho : OrderOK ord) (n : Nat) (as : List TAtom) (st : State)
    (h : postAll ord (State.empty n) as = .ok st) (qs ts : List Term) :
    (∃ γ : Subst, (∀ a ∈ as, a.Sat γ) ∧ ts = qs.map (apply γ)) ↔
    (∃ θ : Subst,
      (∀ q ∈ st.store, ∀ ps, q.2 = .diseq ps →
        (∀ y ∈ diseqVars ps, y ∈ qs.flatMap fun q => (apply st.σ q).vars) → DiseqHolds θ ps) ∧
      ts = qs.map fun q => apply θ (apply st.σ q)) := by
  have hg := (postAll_ok ord ho _ _ as (good_empty n) h).1
  constructor
  · rintro ⟨γ, hsat, rfl⟩
    have hsem := (C02_invariant_ok ord ho n as st h γ).2 hsat
    refine ⟨γ, fun q hq ps he _ => hsem.2 q hq ps he, ?_⟩
    exact List.map_congr_left fun q _ => (hsem.1 q).symm
  · rintro ⟨θ, hvis, rfl⟩
    obtain ⟨γ, hsat, hag⟩ := C02_projection ord ho n as st h _ θ hvis
    refine ⟨γ, hsat, ?_⟩
    have hsem := (C02_invariant_ok ord ho n as st h γ).2 hsat
    refine List.map_congr_left fun q hq => ?_
    rw [← hsem.1 q]
    symm
    refine apply_agree fun y hy => ?_
    have hyV : y ∈ qs.flatMap fun q => (apply st.σ q).vars := List.mem_flatMap.2 ⟨q, hq, hy⟩
    exact hag y hyV (normal_vars _ (apply_apply_solved hg.1 q) y hy)

section Examples
open Term
/-- non-vacuity: `x != y, [x, z] != [1, 2], y == 1` succeeds; `x != y` has become `x != 1` and the second disequality is kept or subsumed -/
private def pd : List TAtom :=
  [.neq (.var 0) (.var 1), .neq (.cons (.var 0) (.cons (.var 2) .nil)) (.cons (num 1) (.cons (num 2) .nil)), .eq (.var 1) (num 1)]
example : (match postAll Order.default (State.empty 3) pd with | .ok st => st.store.length | _ => 99) = 1 := by decide
/-- non-vacuity of `C02_projection`: `q != [h], q == [x]` leaves `x != h` with `h` hidden; with `V = {x}` no stored
    disequality is visible, so every value of `x` is an instance of the answer -/
private def pp : List TAtom := [.neq (.var 0) (.cons (.var 2) .nil), .eq (.var 0) (.cons (.var 1) .nil)]
example : (match postAll Order.default (State.empty 3) pp with
    | .ok st => st.store.map (fun q => match q.2 with | .diseq ps => diseqVars ps | _ => []) | _ => []) = [[1, 2]] := by decide
end Examples

end Pv
