/-
  C13 — Pattern matching has the documented match/matche/matcha/matchu meaning.

  Model: `SGoal.mtch t p body rest` and its translation in `elabG` (Model/Surface.lean), mirroring
  `PatternMatchOperator::to_tokens`: per arm alternative, the matched term is evaluated in the OUTER scope
  (`__term__`), every DISTINCT name of the pattern becomes one fresh variable local to the arm, `_` a new
  variable per occurrence, then `term == pattern` followed by the arm body; the arms are the clauses of a
  `conde` (`match`/`matche`), `conda` (`matcha`) or `condu` (`matchu`).
-/
import PvModel.Proofs.Surface
import PvModel.Proofs.SurfaceSem
import PvModel.Props.C08
namespace Pv
namespace Surface

/-- one arm = the clause `term == pattern, body` under the pattern's own variables; the arms form a disjunction -/
theorem C13_arm (env : Env) (t p : STerm) (body rest : SGoal) (n : Nat) :
    let rt := elabT env t n
    let env' := bindAll env p.names rt.2
    let rp := elabT env' p (rt.2 + p.names.length)
    let rb := elabG env' body rp.2
    elabG env (.mtch t p body rest) n =
      (.disj (.conj (.eq rt.1 rp.1) rb.1) (elabG env rest rb.2).1, (elabG env rest rb.2).2) := by
  simp only [elabG]

/-- a name repeated within one pattern denotes ONE variable -/
theorem C13_repeated (env : Env) (x : Name) (n : Nat) :
    (elabT (bindAll env (STerm.cons (.var x) (.var x)).names n) (.cons (.var x) (.var x)) (n + 1)).1
      = .cons (.var n) (.var n) := by
  simp [STerm.names, List.eraseDups_cons, bindAll, elabT, Env.bind]

/-- `_` matches anything without binding: each occurrence is a distinct new variable no one else mentions -/
theorem C13_wildcard (env : Env) (n : Nat) :
    elabT env (.cons .any .any) n = (.cons (.var n) (.var (n + 1)), n + 2) := by
  simp [elabT]

/-- a pattern variable named like the matched term's variable does NOT capture it: the term is taken in the outer scope -/
theorem C13_no_capture (env : Env) (x : Name) (n : Nat) :
    (elabG env (.mtch (.var x) (.cons (.var x) .any) .tt .ff) n).1
      = .disj (.conj (.eq (.var (env x)) (.cons (.var n) (.var (n + 1)))) .succ) .fail := by
  simp [elabG, elabT, STerm.names, List.eraseDups_cons, bindAll, Env.bind]

/-- pattern variables are local to their arm: the remaining arms are elaborated in the outer scope -/
theorem C13_arm_local (env : Env) (t p : STerm) (body rest : SGoal) (n : Nat) :
    ∃ k, (elabG env (.mtch t p body rest) n).2 = (elabG env rest k).2 ∧
         ∀ e1 e2, (elabG env (.mtch t p body rest) n).1 = .disj e1 e2 → e2 = (elabG env rest k).1 := by
  simp only [elabG]
  generalize elabT env t n = rt; obtain ⟨t', n1⟩ := rt
  generalize elabT (bindAll env p.names n1) p (n1 + p.names.length) = rp; obtain ⟨p', n2⟩ := rp
  generalize hb : elabG (bindAll env p.names n1) body n2 = rb; obtain ⟨b, n3⟩ := rb
  refine ⟨n3, rfl, fun e1 e2 h => ?_⟩
  simp only [EGoal.disj.injEq] at h
  exact h.2.symm

/-- THE DOCUMENTED MEANING OF `match`: under any valuation of the names in scope, `match t { p => body, rest… }`
    holds exactly when, for some values of the pattern's (distinct) names — local to the arm — `t` and `p`
    denote the same value and the body holds, or the remaining arms hold; and that is exactly when the
    elaborated disjunction of `t == p, body` clauses holds for some values of the allocated variables. -/
theorem C13_elab (t p : STerm) (body rest : SGoal) (env : Env) (γ0 : Valu) (n : Nat) (henv : ∀ x, env x < n) :
    ((∃ ρ' : NValu, (∀ y, y ∉ p.names → ρ' y = γ0 (env y)) ∧
        ∃ v, DenT (fun x => γ0 (env x)) t v ∧ DenT ρ' p v ∧ Den ρ' body) ∨ Den (fun x => γ0 (env x)) rest) ↔
    ∃ γ : Valu, (∀ w, w < n → γ w = γ0 w) ∧ SatE γ (elabG env (.mtch t p body rest) n).1 := by
  have := elab_sem (.mtch t p body rest) env γ0 n henv
  simpa only [Den] using this

/-- `matcha` / `matchu` apply the committed-choice rules of C08 to the same arms: they are `conda` / `condu`
    on the arm clauses (`Goal.condaOfClauses`, `Goal.conduOfClauses`), whose theorems are C08_conda … C08_onceo -/
theorem C13_commit {St K : Type} (f : Goal St K) (r : List (Goal St K)) (cs : List (List (Goal St K))) :
    Goal.condaOfClauses ((f :: r) :: cs) = .conda f (Goal.conjOfList r) (Goal.condaOfClauses cs) ∧
    Goal.conduOfClauses ((f :: r) :: cs) = .condu f (Goal.conjOfList r) (Goal.conduOfClauses cs) := ⟨rfl, rfl⟩

/-- COMPOUND PATTERNS are patterns like any other (the theorems above quantify over ALL surface terms, `comp`
    included): the compound pattern `P(x, _, x)` denotes a compound value of type `P` whose first and third field
    are the same value, the second anything — -/
theorem C13_compound_pattern (ρ : NValu) (g : Nat) (x : Name) (v : Term) :
    DenT ρ (.comp g (.cons (.var x) (.cons .any (.cons (.var x) .nil)))) v ↔
      ∃ w, v = .comp g (.cons (ρ x) (.cons w (.cons (ρ x) .nil))) := by
  constructor
  · intro h
    cases h with
    | comp h1 =>
      cases h1 with
      | cons ha hb =>
        cases ha
        cases hb with
        | cons hc hd =>
          cases hd with
          | cons he hf =>
            cases he; cases hf
            exact ⟨_, rfl⟩
  · rintro ⟨w, rfl⟩
    exact .comp (.cons (.var x) (.cons (.any w) (.cons (.var x) .nil)))

/-- — and its elaboration allocates ONE variable for the repeated name and one for the `_` -/
example : (elabT (bindAll (fun _ => 0) (STerm.comp 1 (.cons (.var 5) (.cons .any (.cons (.var 5) .nil)))).names 10)
    (.comp 1 (.cons (.var 5) (.cons .any (.cons (.var 5) .nil)))) 11) =
    (.comp 1 (.cons (.var 10) (.cons (.var 11) (.cons (.var 10) .nil))), 12) := by decide

end Surface
end Pv
