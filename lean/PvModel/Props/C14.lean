/-
  C14 — Surface syntax translates to the documented goals and terms.

  Model: `elabT` / `elabG` (Model/Surface.lean) mirror `TreeTerm::to_tokens` / `Clause::to_tokens`;
  `queryG` (Model/Goals.lean) mirrors `Query::to_tokens` (`fresh __query__`, `__query__ == [vars]`, body,
  `reify`), `mkAnswer` reports one term per query variable in declaration order.
-/
import PvModel.Proofs.Surface
import PvModel.Proofs.SurfaceSem
import PvModel.Props.C03
namespace Pv
namespace Surface

/-- literals, `[]`, lists and improper lists (cons cells), nested: the written term, with names looked up -/
theorem C14_term_shape (env : Env) (h t : STerm) (n : Nat) :
    elabT env (.cons h t) n =
      ((Term.cons (elabT env h n).1 (elabT env t (elabT env h n).2).1), (elabT env t (elabT env h n).2).2) ∧
    (∀ v, elabT env (.val v) n = (.val v, n)) ∧ elabT env .nil n = (.nil, n) ∧
    (∀ x, elabT env (.var x) n = (.var (env x), n)) := by
  refine ⟨?_, fun _ => rfl, rfl, fun _ => rfl⟩
  simp only [elabT]

/-- `==` is eq, `!=` is diseq, `true`/`false` succeed/fail, `[g, …]` a conjunction, `conde { … }` a
    disjunction, `|x| { … }` the body under a fresh variable -/
theorem C14_clause_shape (env : Env) (a b : STerm) (g1 g2 : SGoal) (x : Name) (n : Nat) :
    (∃ a' b', (elabG env (.eq a b) n).1 = .eq a' b') ∧
    (∃ a' b', (elabG env (.neq a b) n).1 = .neq a' b') ∧
    (elabG env .tt n).1 = .succ ∧ (elabG env .ff n).1 = .fail ∧
    (elabG env (.conj g1 g2) n).1 = .conj (elabG env g1 n).1 (elabG env g2 (elabG env g1 n).2).1 ∧
    (elabG env (.disj g1 g2) n).1 = .disj (elabG env g1 n).1 (elabG env g2 (elabG env g1 n).2).1 ∧
    (elabG env (.fresh x g1) n).1 = .fresh (elabG (env.bind x n) g1 (n + 1)).1 := by
  refine ⟨?_, ?_, rfl, rfl, ?_, ?_, ?_⟩ <;> simp only [elabG] <;> first | exact ⟨_, _, rfl⟩ | rfl

/-- query results are reported per query variable, in declaration order: the i-th reported term is the
    reification of the i-th declared variable -/
theorem C14_query_order (ord : Order) (qs : List Term) (st : State) (i : Nat) (q : Term) (h : qs[i]? = some q) :
    (mkAnswer ord qs st).terms[i]? = some (apply st.σ q) := by
  simp [mkAnswer, h]

/-- TERMS DENOTE THE WRITTEN TERM: under a valuation of the names in scope, a surface term (literals, `[]`,
    proper / improper / nested lists, variables, `_`) can denote the value `v` exactly when the elaborated
    term evaluates to `v` for some values of the fresh variables standing for its `_`s. -/
theorem C14_term (env : Env) (γ0 : Valu) (t : STerm) (n : Nat) (v : Term) (henv : ∀ x, env x < n) :
    DenT (fun x => γ0 (env x)) t v ↔
      ∃ γ : Valu, (∀ w, w < n → γ w = γ0 w) ∧ apply γ (elabT env t n).1 = v := elabT_sem env γ0 t n v henv

/-- EVERY CLAUSE DENOTES ITS DOCUMENTED GOAL: `==` "some common value", `!=` "two different values", `[..]` ∧,
    `conde` ∨, `|x| {..}` ∃ x, `true`/`false`, pattern-match arms — under any valuation of the names in
    scope, the documented meaning `Den` holds exactly when the elaborated goal holds for some values of the
    variables the elaboration allocates. -/
theorem C14_clause (g : SGoal) (env : Env) (γ0 : Valu) (n : Nat) (henv : ∀ x, env x < n) :
    Den (fun x => γ0 (env x)) g ↔ ∃ γ : Valu, (∀ w, w < n → γ w = γ0 w) ∧ SatE γ (elabG env g n).1 :=
  elab_sem g env γ0 n henv

section Examples
open Term
/-- `|x| { x == 1, q == [x | _] }` with `q ↦ id 0`: the premises of `C14_clause` are met and both sides hold for `q = [1]` -/
example : Den (fun _ => Term.cons (num 1) .nil)
    (.fresh 1 (.conj (.eq (.var 1) (.val (.num 1))) (.eq (.var 0) (.cons (.var 1) .any)))) := by
  refine ⟨num 1, ⟨num 1, ?_, ?_⟩, ⟨.cons (num 1) .nil, ?_, ?_⟩⟩
  · exact DenT.var 1
  · exact .val _
  · exact DenT.var 0
  · exact .cons (DenT.var 1) (.any _)
end Examples

end Surface
end Pv
