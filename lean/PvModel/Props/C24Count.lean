/-
  C24 — MULTIPLICITIES: "`member` yields one answer per matching position.  `member1` yields exactly one answer
  per distinct matching value."  (Proofs/RelCount.lean, Proofs/EvalR.lean)

  The answer LIST of the reference semantics `evalRef` (Prolog order, with multiplicities) is characterised; the
  interleaving engine delivers a permutation of it and terminates (C06_ref), the depth-first engine exactly it
  (C05_prolog).
-/
import PvModel.Proofs.RelCountApp
import PvModel.Proofs.RelCountSplit
import PvModel.Props.C06
namespace Pv
open Strm Goal State Term

/-- `member(x, l)`, any argument terms, from any state that determines the length `n` of `l` (`ListLen`), is good,
    says nothing about fresh variables (`RInv`) and has its disequalities in normal form (`DNF` — every state
    `==`/`!=` goals reach from the empty state): the engine terminates, and its answers are — as a multiset —
    exactly ONE STATE PER MATCHING POSITION: `ps` lists the positions `i < n` at which `x` can stand in `l` under
    some described valuation, in increasing order; the `i`-th answer of the reference list `ys` describes
    exactly the valuations of the start state that put `x` at position `ps[i]` (so a value occurring twice in
    `l` is answered twice).  Assumes no FUEL-poisoned answer (see Proofs/RelCount.lean). -/
theorem C24_member_one_per_position (ord : Order) (ho : OrderOK ord) (pf M : Nat) (d : Bool) (n : Nat) (x l : Term) (a : State)
    (bx : Below a.nextVar x) (bl : Below a.nextVar l) (hp : a.panic.isSome = false) (hi : RInv a) (hd : DNF a)
    (hlen : ListLen n l a)
    (hnf : ∀ b, Big (defs ord) (.call ⟨.member, [x, l], d⟩) a b → b.panic.isSome = false) :
    ∃ (ys : List State) (ps : List Nat) (k : Nat) (zs : List State),
      drainF (solveAt (defs ord) pf (M + 1)) k (solveAt (defs ord) pf (M + 1) (.call ⟨.member, [x, l], d⟩) a) = some zs ∧
      ys.Perm zs ∧ ps.Pairwise (· < ·) ∧
      (∀ i, i ∈ ps ↔ (i < n ∧ ∃ γ, StateSem γ a ∧ At x l i γ)) ∧
      Zip2 (fun b i => Describes a (At x l i) b) ys ps := by
  obtain ⟨ys, ps, ⟨m, hm⟩, pw, mem, z⟩ := member_count ho d n x l a bx bl hp hi hd hlen hnf
  obtain ⟨k, zs, hk, perm⟩ := C06_ref (defs ord) pf M m _ a ys hm
  exact ⟨ys, ps, k, zs, hk, perm, pw, mem, z⟩

/-- `member1(x, l)`: ONE STATE PER FIRST OCCURRENCE — `ps` lists the positions `i < n` at which `x` can stand in
    `l` with no earlier element equal to it, under some described valuation: one answer per distinct matching
    value, however often the value occurs -/
theorem C24_member1_one_per_value (ord : Order) (ho : OrderOK ord) (pf M : Nat) (d : Bool) (n : Nat) (x l : Term) (a : State)
    (bx : Below a.nextVar x) (bl : Below a.nextVar l) (hp : a.panic.isSome = false) (hi : RInv a) (hd : DNF a)
    (hlen : ListLen n l a)
    (hnf : ∀ b, Big (defs ord) (.call ⟨.member1, [x, l], d⟩) a b → b.panic.isSome = false) :
    ∃ (ys : List State) (ps : List Nat) (k : Nat) (zs : List State),
      drainF (solveAt (defs ord) pf (M + 1)) k (solveAt (defs ord) pf (M + 1) (.call ⟨.member1, [x, l], d⟩) a) = some zs ∧
      ys.Perm zs ∧ ps.Pairwise (· < ·) ∧
      (∀ i, i ∈ ps ↔ (i < n ∧ ∃ γ, StateSem γ a ∧ At1 x l i γ)) ∧
      Zip2 (fun b i => Describes a (At1 x l i) b) ys ps := by
  obtain ⟨ys, ps, ⟨m, hm⟩, pw, mem, z⟩ := member1_count ho d n x l a bx bl hp hi hd hlen hnf
  obtain ⟨k, zs, hk, perm⟩ := C06_ref (defs ord) pf M m _ a ys hm
  exact ⟨ys, ps, k, zs, hk, perm, pw, mem, z⟩

/-- `append(l, s, ls)` whose FIRST argument has a length the start state determines is a FUNCTION of it: the
    engine terminates with AT MOST ONE answer; that answer describes exactly the valuations of the start state
    under which `ls` is `l` followed by `s`; and there is no answer only when no described valuation satisfies
    that.  (Any terms for `s` and `ls`, bound or not; the other modes of `append` enumerate splits and are
    covered by `C24_append_complete`.) -/
theorem C24_append_functional (ord : Order) (ho : OrderOK ord) (pf M : Nat) (d : Bool) (n : Nat) (l s ls : Term) (a : State)
    (bl : Below a.nextVar l) (bs : Below a.nextVar s) (bls : Below a.nextVar ls)
    (hp : a.panic.isSome = false) (hi : RInv a) (hd : DNF a) (hlen : ListLen n l a)
    (hnf : ∀ b, Big (defs ord) (.call ⟨.append, [l, s, ls], d⟩) a b → b.panic.isSome = false) :
    ∃ (k : Nat) (zs : List State),
      drainF (solveAt (defs ord) pf (M + 1)) k (solveAt (defs ord) pf (M + 1) (.call ⟨.append, [l, s, ls], d⟩) a) = some zs ∧
      zs.length ≤ 1 ∧
      (∀ b ∈ zs, Describes a (fun γ => AppT (apply γ l) (apply γ s) (apply γ ls)) b) ∧
      (zs = [] → ∀ γ, StateSem γ a → ¬ AppT (apply γ l) (apply γ s) (apply γ ls)) := by
  obtain ⟨ys, ⟨m, hm⟩, hl, hdsc, hno⟩ := append_count ho d n l s ls a bl bs bls hp hi hd hlen hnf
  obtain ⟨k, zs, hk, perm⟩ := C06_ref (defs ord) pf M m _ a ys hm
  refine ⟨k, zs, hk, by rw [← perm.length_eq]; exact hl, fun b hb => hdsc b (perm.mem_iff.2 hb), fun hz => hno ?_⟩
  have := perm.length_eq
  rw [hz] at this
  exact List.eq_nil_of_length_eq_zero (by simpa using this)

/-- a strictly increasing list of positions `≤ n` has at most `n + 1` entries -/
theorem C24_increasing_bounded : ∀ (ps : List Nat) (m n : Nat), ps.Pairwise (· < ·) → (∀ i ∈ ps, m ≤ i ∧ i ≤ n) →
    ps.length ≤ n + 1 - m
  | [], _, _, _, _ => Nat.zero_le _
  | p :: ps, m, n, pw, hb => by
    have hp := hb p List.mem_cons_self
    have pw' := List.pairwise_cons.1 pw
    have ih := C24_increasing_bounded ps (p + 1) n pw'.2 (fun i hi => ⟨pw'.1 i hi, (hb i (List.mem_cons_of_mem _ hi)).2⟩)
    simp only [List.length_cons]
    omega

theorem C24_zip2_length {α β : Type} {R : α → β → Prop} : ∀ {as : List α} {bs : List β}, Zip2 R as bs → as.length = bs.length
  | _, _, .nil => rfl
  | _, _, .cons _ t => by simp only [List.length_cons, C24_zip2_length t]

/-- `append(l, s, ls)` IN ENUMERATING MODE — the THIRD argument has a length `n` the start state determines (`l`, `s`
    any terms, bound or not): the engine terminates, and its answers are — as a multiset — exactly ONE STATE PER
    SPLIT POSITION: `ps` lists the positions `i ≤ n` at which some described valuation splits `ls` into `l` (the
    first `i` elements) and `s`, in increasing order; the `i`-th answer of the reference list describes exactly the
    valuations of the start state that split at `ps[i]` (`SplitAt`; the position is determined by the valuation,
    `splitAt_unique`, so no ground split is answered twice); hence at most `n + 1` answers.
    Assumes no FUEL-poisoned answer (see Proofs/RelCount.lean). -/
theorem C24_append_one_per_split (ord : Order) (ho : OrderOK ord) (pf M : Nat) (d : Bool) (n : Nat) (l s ls : Term) (a : State)
    (bl : Below a.nextVar l) (bs : Below a.nextVar s) (bls : Below a.nextVar ls)
    (hp : a.panic.isSome = false) (hi : RInv a) (hd : DNF a) (hlen : ListLen n ls a)
    (hnf : ∀ b, Big (defs ord) (.call ⟨.append, [l, s, ls], d⟩) a b → b.panic.isSome = false) :
    ∃ (ys : List State) (ps : List Nat) (k : Nat) (zs : List State),
      drainF (solveAt (defs ord) pf (M + 1)) k (solveAt (defs ord) pf (M + 1) (.call ⟨.append, [l, s, ls], d⟩) a) = some zs ∧
      ys.Perm zs ∧ ps.Pairwise (· < ·) ∧
      (∀ i, i ∈ ps ↔ (i ≤ n ∧ ∃ γ, StateSem γ a ∧ SplitAt l s ls i γ)) ∧
      Zip2 (fun b i => Describes a (SplitAt l s ls i) b) ys ps ∧
      zs.length ≤ n + 1 := by
  obtain ⟨ys, ps, ⟨m, hm⟩, pw, mem, z⟩ := append_split_count ho d n l s ls a bl bs bls hp hi hd hlen hnf
  obtain ⟨k, zs, hk, perm⟩ := C06_ref (defs ord) pf M m _ a ys hm
  refine ⟨ys, ps, k, zs, hk, perm, pw, mem, z, ?_⟩
  rw [← perm.length_eq, C24_zip2_length z]
  exact C24_increasing_bounded ps 0 n pw (fun i hi => ⟨Nat.zero_le _, ((mem i).1 hi).1⟩)

/-- two answers of the enumerating mode never share a described valuation of the start state's variables: a
    valuation splits `ls` at one position only -/
theorem C24_append_splits_disjoint {l s ls : Term} {i j : Nat} {a b b' : State}
    (hb : Describes a (SplitAt l s ls i) b) (hb' : Describes a (SplitAt l s ls j) b') {γ : Subst}
    (h : StateSem γ b) (h' : StateSem γ b') : i = j :=
  splitAt_unique (hb.snd γ h).2 (hb'.snd γ h').2

/-- a literal list has its length in every state -/
theorem C24_listLen_literal (xs : List Term) (a : State) : ListLen xs.length (ofList xs) a := by
  intro γ _
  refine ⟨xs.map (apply γ), by simp, ?_⟩
  induction xs with
  | nil => rfl
  | cons y ys ih => simp only [ofList, apply, List.map_cons, ih]

/-- the empty state has the invariants the two theorems ask for -/
theorem C24_count_start (nv : Nat) : (State.empty nv).panic.isSome = false ∧ RInv (State.empty nv) ∧ DNF (State.empty nv) :=
  ⟨rfl, rinv_empty nv, fun q hq => nomatch hq⟩

section Examples
/-- non-vacuity: from the empty state, `member(x, [1, 2, 1])` has three answers and `member1(x, [1, 2, 1])` two,
    none poisoned -/
example : (evalRef (defs Order.default) 40 (.call ⟨.member, [.var 0, ofList [Term.num 1, Term.num 2, Term.num 1]], false⟩)
    (State.empty 1)).map (fun ys => ys.map fun s => (s.panic.isSome, apply s.σ (.var 0))) =
    some [(false, Term.num 1), (false, Term.num 2), (false, Term.num 1)] := by decide +kernel
example : (evalRef (defs Order.default) 40 (.call ⟨.member1, [.var 0, ofList [Term.num 1, Term.num 2, Term.num 1]], false⟩)
    (State.empty 1)).map (fun ys => ys.map fun s => (s.panic.isSome, apply s.σ (.var 0))) =
    some [(false, Term.num 1), (false, Term.num 2)] := by decide +kernel
example : (evalRef (defs Order.default) 40 (.call ⟨.append, [ofList [Term.num 1, Term.num 2], ofList [Term.num 3], .var 0], false⟩)
    (State.empty 1)).map (·.length) = some 1 := by decide +kernel
/-- enumerating mode: `append(x, y, [1, 2, 3])` has the four splits, in order of the length of `x`, none poisoned -/
example : (evalRef (defs Order.default) 60 (.call ⟨.append, [.var 0, .var 1, ofList [Term.num 1, Term.num 2, Term.num 3]], false⟩)
    (State.empty 2)).map (fun ys => ys.map fun s => (s.panic.isSome, apply s.σ (.var 0))) =
    some [(false, ofList []), (false, ofList [Term.num 1]), (false, ofList [Term.num 1, Term.num 2]),
      (false, ofList [Term.num 1, Term.num 2, Term.num 3])] := by decide +kernel
end Examples

end Pv
