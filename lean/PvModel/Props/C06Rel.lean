/-
  C06 — "the default interleaving search returns the same multiset of answers as depth-first search of the same
  program and as the reference semantics", FOR PROGRAMS WITH RELATION CALLS.
-/
import PvModel.Proofs.RelTwin
import PvModel.Props.C06
namespace Pv
open Strm Goal State Term

/-- a program of `==`, `!=`, conjunction, conde, fresh and library relation calls with a finite search tree
    (the reference semantics terminates with the list `xs`): the interleaving engine terminates with a PERMUTATION
    of `xs`; the same program written inside `dfs { }` (dfs conjunction, `cond`, the relations' depth-first
    variants) terminates with EXACTLY `xs`, in Prolog order; at every nesting level of the solver -/
theorem C06_rel_same_as_dfs (ord : Order) (pf M n nv : Nat) (p : RProg) (nd : p.NoDfs) (xs : List State)
    (h : evalRef (defs ord) n (p.goal ord) (State.empty nv) = some xs) :
    ∃ k k' ys,
      drainF (solveAt (defs ord) pf (M + 1)) k (solveAt (defs ord) pf (M + 1) (p.goal ord) (State.empty nv)) = some ys ∧
      drainF (solveAt (defs ord) pf (M + 1)) k' (solveAt (defs ord) pf (M + 1) (p.goalD ord) (State.empty nv)) = some xs ∧
      xs.Perm ys := by
  obtain ⟨k, ys, hk, perm⟩ := C06_ref (defs ord) pf M n _ _ xs h
  have h' : evalRef (defs ord) n (p.goalD ord) (State.empty nv) = some xs := by
    rw [← evalRef_twin n _ _ _ (RProg.twin ord p nd)]; exact h
  obtain ⟨k', hk'⟩ := dfs_exact pf M n (RProg.onlyD ord p) _ xs h'
  exact ⟨k, k', ys, hk, hk', perm⟩

/-- the two variants of every library relation have the same reference answers -/
theorem C06_rel_call_twin (ord : Order) (n : Nat) (r : Rel) (as : List Term) (a : State) :
    evalRef (defs ord) n (.call ⟨r, as, false⟩) a = evalRef (defs ord) n (.call ⟨r, as, true⟩) a :=
  evalRef_twin n _ _ a (.call r as)

section Examples
/-- non-vacuity: `member(x, [1, 2]), x != 1` has a finite search tree -/
private def prog06 : RProg := .conj (.call ⟨.member, [.var 0, ofList [Term.num 1, Term.num 2]], false⟩) (.atom (.neq (.var 0) (Term.num 1)))
example : prog06.NoDfs := ⟨rfl, trivial⟩
example : (evalRef (defs Order.default) 30 (prog06.goal Order.default) (State.empty 1)).map (·.length) = some 1 := by decide +kernel
end Examples

end Pv
