/-
  C16 — CLP(FD) answers satisfy every posted finite-domain constraint.

  Model: Model/State.lean mirrors src/relation/clpfd/*.rs and the FD part of src/state/mod.rs function by
  function (`processDomain`, `updateVarDomain`, `resolveStorable`, `excludeFromDomain`, `runConstraintsF`,
  `processExtensionFd`, one `run…` per propagator with the repaired re-run protocol).

  What is proved here (LOCAL theorems, for ALL states, operands, domains, iteration orders, fuel levels):
  ground-exactness of every arithmetic/ordering propagator, the membership test a bound operand gets
  against its domain, `ltfd = diseqfd ∧ ltefd`.  The GLOBAL invariant (every posted constraint is stored,
  in flight or entailed; no stored constraint is ground at an answer) through the re-entrant
  `run_constraints` is an OPEN obligation (named in the evidence); the end-to-end statement is carried by
  the correspondence (model = implementation on every generated program) and the brute-force oracle.
-/
import PvModel.Proofs.FDLocal
import PvModel.Proofs.FD
import PvModel.Model.Goals
import PvModel.Proofs.FDExact
import PvModel.Proofs.FDProgram
import PvModel.Proofs.Live
namespace Pv
open Term State

variable (rc : State → Res State) (ord : Order)

/-- With all three operands numbers `plusfd` succeeds, leaving the state as it is, exactly when
    `u + v = w`; otherwise it fails (so no answer can carry a violated ground `plusfd`). -/
theorem C16_ground_plus (k id : Nat) (st : State) (u v w : Term) (a b c : Int)
    (hu : IsNumAt st u a) (hv : IsNumAt st v b) (hw : IsNumAt st w c) :
    runCst rc ord k id (.plusfd u v w) st = if a + b = c then .ok st else .fail :=
  plusfd_ground rc ord k id st u v w a b c hu hv hw

theorem C16_ground_minus (k id : Nat) (st : State) (u v w : Term) (a b c : Int)
    (hu : IsNumAt st u a) (hv : IsNumAt st v b) (hw : IsNumAt st w c) :
    runCst rc ord k id (.minusfd u v w) st = if a - b = c then .ok st else .fail :=
  minusfd_ground rc ord k id st u v w a b c hu hv hw

theorem C16_ground_times (k id : Nat) (st : State) (u v w : Term) (a b c : Int)
    (hu : IsNumAt st u a) (hv : IsNumAt st v b) (hw : IsNumAt st w c) :
    runCst rc ord k id (.timesfd u v w) st = if a * b = c then .ok st else .fail :=
  timesfd_ground rc ord k id st u v w a b c hu hv hw

theorem C16_ground_lte (k id : Nat) (st : State) (u v : Term) (a b : Int)
    (hu : IsNumAt st u a) (hv : IsNumAt st v b) :
    runCst rc ord k id (.ltefd u v) st = if a ≤ b then .ok st else .fail :=
  ltefd_ground rc ord k id st u v a b hu hv

theorem C16_ground_diseq (k id : Nat) (st : State) (u v : Term) (a b : Int)
    (hu : IsNumAt st u a) (hv : IsNumAt st v b) :
    runCst rc ord k id (.diseqfd u v) st = if a = b then .fail else .ok st :=
  diseqfd_ground rc ord k id st u v a b hu hv

/-- `ltfd(u, v)` is the conjunction `diseqfd(u, v), ltefd(u, v)` -/
theorem C16_ltfd (u v : Term) :
    ltfdG ord u v = Goal.conjOfList [diseqfdG ord u v, ltefdG ord u v] := rfl

/-- A variable that is (or becomes) bound to a number is checked against the domain it is given:
    "each constrained variable gets an integer from its domain". -/
theorem C16_domain_check (st : State) (x : Term) (d : FD) (v : Int) (hx : IsNumAt st x v) :
    processDomain rc st x d = if d.contains v then .ok st else .fail := by
  unfold IsNumAt at hx
  simp only [processDomain, hx]

/-- a term bound to something that is not a number cannot be given a domain -/
theorem C16_domain_nonnum (st : State) (x : Term) (d : FD)
    (h1 : ∀ y, walk st.σ x ≠ .var y) (h2 : ∀ n, walk st.σ x ≠ .val (.num n)) :
    processDomain rc st x d = .fail := by
  unfold processDomain
  split
  · rename_i y h; exact absurd h (h1 y)
  · rename_i n h; exact absurd h (h2 n)
  · rfl

/-- A domain that shrinks to one value binds the variable to that value (and runs the constraints);
    a non-singleton domain is stored.  The bound value is a member of the domain. -/
theorem C16_singleton_binds (st : State) (x : Nat) (d : FD) (hd : FD.WF d) :
    (∀ n, d.singletonValue = some n →
        resolveStorable rc st x d = rc ({ st with σ := bindS x (Term.num n) st.σ }.dremove x) ∧ d.Mem n) ∧
    (d.singletonValue = none → resolveStorable rc st x d = .ok (st.dinsert x d)) := by
  refine ⟨fun n h => ⟨by simp only [resolveStorable, h], ?_⟩, fun h => by simp only [resolveStorable, h]⟩
  exact ((FD.singletonValue_spec d hd n).1 h n).2 rfl

/-! ### the global theorems (Proofs/FDGlobal, FDDistinct, FDRun, FDTop, FDExact): through the re-entrant
    propagation loop.  They are stated for BOTH modes of Spec/FDSem.lean (`[Mode]`): in the strict mode
    `FAtom.OK` excludes `distinctfd` and no panic site is reachable; in the lax mode `distinctfd` on a proper
    list term is allowed (`C16_distinctfd_*` below instantiate it). -/
section Global
variable [Mode]

/-- SOUNDNESS OF THE WHOLE MACHINE, every posting order, operand aliasing, domain sign and hash-iteration
    order: whatever valuation the state reached after posting a conjunction of `infd` / `ltefd` / `plusfd` /
    `minusfd` / `timesfd` / `diseqfd` / `==` / `!=` / CLP(Z) atoms still describes, it satisfies EVERY posted
    atom — each constrained variable is an integer of its domain and every constraint holds.
    (`FAtom.OK`: well-formed domains; `distinctfd` in the lax mode, on a proper list term.) -/
theorem C16_state_sound {ord : Order} (ho : OrderOK ord) (n : Nat) (as : List FAtom) (hok : ∀ a ∈ as, a.OK)
    (st' : State) (h : postAllF ord (State.empty n) as = .ok st') (γ : Subst) (hγ : Sem NoI γ st') :
    ∀ a ∈ as, a.Sat γ := (fd_exact_ok ho n as hok st' h γ).1 hγ

/-- … in particular an ANSWER state with nothing pending (every constraint discharged, every domain turned
    into a binding — what labelling leaves behind) satisfies every posted atom under its own substitution:
    the integers it reports are a solution. -/
theorem C16_answer_sound {ord : Order} (ho : OrderOK ord) (n : Nat) (as : List FAtom) (hok : ∀ a ∈ as, a.OK)
    (st' : State) (h : postAllF ord (State.empty n) as = .ok st') (hs : st'.store = []) (hd : st'.dstore = []) :
    ∀ a ∈ as, a.Sat st'.σ := fd_closed ho n as hok st' h hs hd

/-- one `c.run` of ANY propagator (`distinctfd` and its worker included, in the lax mode), at any re-run depth, over any nested
    `run_constraints` that keeps the solution set: the resulting state describes exactly the valuations of
    the state it started from that satisfy the constraint (`Ref`), and a failure refutes it -/
theorem C16_run_exact {rc : State → Res State} (hrc : RcOK rc) (hrs : RcSem rc) {ord : Order} (ho : OrderOK ord)
    (k i : Nat) (c : Cst) (st : State) (I : Nat → Prop) (hI : IOK I st) (w : WFS st) (f : Fr i st)
    (hd : c.isDiseq = false) (hok : CstOK c) :
    Ref I (fun γ => CstSem γ c) st (runCst rc ord k i c st) :=
  runCst_selfSem hrc hrs ho k I i c st hI w f hd hok

/-- `State::run_constraints` at every nesting depth keeps the described valuations exactly; a failure means
    the state described none -/
theorem C16_run_constraints_exact {ord : Order} (ho : OrderOK ord) (n : Nat) (st : State) (w : WFS st) (hi : Inv st) :
    Ref NoI (fun _ => True) st (runConstraintsF ord n st) :=
  runConstraintsF_sem ho n NoI st (iok_noI st) w hi


/-- PROGRAMS ON THE ENGINE (soundness): for every constraint program — atoms of the fragment combined by
    conjunction, `conde` and `fresh`, in any nesting — the interleaving search terminates, and every
    (unpoisoned) state it delivers describes exactly the solutions of ONE PATH of the program: whatever
    valuation such a state still describes satisfies every constraint posted along that path. -/
theorem C16_program_sound {ord : Order} (ho : OrderOK ord) (dfs : Call → State → State × G) (pf M nv : Nat)
    (p : FProg) (hok : p.OK) :
    ∃ k ys, drainF (solveAt dfs pf (M + 1)) k (solveAt dfs pf (M + 1) (p.goal ord) (State.empty nv)) = some ys ∧
      runF (solveAt dfs pf (M + 1)) k (solveAt dfs pf (M + 1) (p.goal ord) (State.empty nv)) = ys ∧
      ∀ s ∈ ys, s.panic = none → ∃ path ∈ p.paths, ∀ γ, Sem NoI γ s → ∀ a ∈ path, a.Sat γ := by
  obtain ⟨k, ys, h1, h2, h3, _⟩ := fd_program ho dfs pf M nv p hok
  exact ⟨k, ys, h1, h2, fun s hs hp => by
    obtain ⟨path, hpth, hsem⟩ := h3 s hs hp
    exact ⟨path, hpth, fun γ hγ => (hsem γ).1 hγ⟩⟩


end Global

/-! ### `distinctfd` (lax mode) -/

/-- SOUNDNESS WITH `distinctfd`: the same statement for programs that also post `distinctfd` on proper list
    terms (of variables, integers or anything else): whatever valuation the reached state still describes
    makes the elements of every such list pairwise different integers, and satisfies every other atom. -/
theorem C16_distinctfd_state_sound {ord : Order} (ho : OrderOK ord) (n : Nat) (as : List FAtom)
    (hok : ∀ a ∈ as, @FAtom.OK Mode.lax a)
    (st' : State) (h : postAllF ord (State.empty n) as = .ok st') (γ : Subst) (hγ : Sem NoI γ st') :
    ∀ a ∈ as, a.Sat γ := @C16_state_sound Mode.lax ord ho n as hok st' h γ hγ

/-- … and an answer state with nothing pending reports a solution -/
theorem C16_distinctfd_answer_sound {ord : Order} (ho : OrderOK ord) (n : Nat) (as : List FAtom)
    (hok : ∀ a ∈ as, @FAtom.OK Mode.lax a)
    (st' : State) (h : postAllF ord (State.empty n) as = .ok st') (hs : st'.store = []) (hd : st'.dstore = []) :
    ∀ a ∈ as, a.Sat st'.σ := @C16_answer_sound Mode.lax ord ho n as hok st' h hs hd

/-- the three panic sites of `distinctfd` (`Invalid constant constraint`, `Invalid value`, `Invalid LTerm`:
    a list element that is, or has become, something other than an integer) are the ONLY panic sites the
    state machine can reach, and it reaches them only when the posted atoms have NO solution: a panic never
    hides an answer -/
theorem C16_distinctfd_panic_is_failure {ord : Order} (ho : OrderOK ord) (n : Nat) (as : List FAtom)
    (hok : ∀ a ∈ as, @FAtom.OK Mode.lax a) (s : String) (h : postAllF ord (State.empty n) as = .panic s) :
    DP s ∧ ¬ ∃ γ, ∀ a ∈ as, a.Sat γ := (@fd_panic_refuted Mode.lax ord ho n as hok s h).2

/-- the meaning of `distinctfd` on a proper list: its elements denote pairwise different integers -/
theorem C16_distinctfd_meaning (γ : Subst) (l : List Term) :
    CstSem γ (.distinctfd (Term.ofList l)) ↔
      ((∀ e ∈ l, ∃ k, apply γ e = Term.num k) ∧ (l.map (apply γ)).Nodup) := by
  rw [cstSem_d1_iff]
  exact ⟨fun a => ⟨a.1, a.2.1⟩, fun a => ⟨a.1, a.2, fun _ _ _ _ h => nomatch h⟩⟩

/-! ### no stored propagator is ground (the repaired D11 behaviour, as an invariant; strict mode:
    the worker of `distinctfd` stays in the store for good) -/
section Strict
attribute [local instance] Mode.strict

/-- LIVENESS: in every state reached by posting atoms (any order, any hash-iteration order) no stored
    propagator has all its operands ground: a constraint whose operands have all become numbers — through
    its own propagation, a nested re-run, labelling or a unification — has been re-run, and so checked and
    discharged or refuted.  (`run_constraints` re-establishes this from ANY state: `runConstraintsF_live`.) -/
theorem C16_live {ord : Order} (ho : OrderOK ord) (n : Nat) (as : List FAtom) (hok : ∀ a ∈ as, a.OK)
    (st' : State) (h : postAllF ord (State.empty n) as = .ok st') :
    ∀ p ∈ st'.store, p.2.isDiseq = false → ∃ t ∈ operandsOf p.2, (walk st'.σ t).isNum = false := by
  intro p hp hd
  rcases fd_live ho n as hok st' h p hp hd with f | g
  · exact f.elim
  · exact g

/-- ANSWERS: a state reached by posting atoms (the program's and the labelling equalities) in which every
    operand of every stored propagator is a number, which holds no tree disequality and no domain, reports a
    SOLUTION: every posted atom holds under its own substitution.  (Liveness shows its constraint store is
    empty, exactness that an empty state describes its substitution.) -/
theorem C16_ground_answer_sound {ord : Order} (ho : OrderOK ord) (n : Nat) (as : List FAtom) (hok : ∀ a ∈ as, a.OK)
    (st' : State) (h : postAllF ord (State.empty n) as = .ok st')
    (hg : ∀ p ∈ st'.store, p.2.isDiseq = false → ∀ t ∈ operandsOf p.2, (walk st'.σ t).isNum = true)
    (hnd : ∀ p ∈ st'.store, p.2.isDiseq = false) (hd : st'.dstore = []) :
    ∀ a ∈ as, a.Sat st'.σ := by
  have hall := live_ground_closed (fd_live ho n as hok st' h) hg
  have hs : st'.store = [] := by
    cases hst : st'.store with
    | nil => rfl
    | cons p ps =>
      have hp : p ∈ st'.store := by rw [hst]; exact List.mem_cons_self ..
      have := hall p hp
      rw [hnd p hp] at this
      cases this
  exact fd_closed ho n as hok st' h hs hd

end Strict

section Examples
attribute [local instance] Mode.lax
/-- D11 witness (`x in 1..=3, plusfd(x,x,x)` has no answer), D12 witness (`x == 1, y == 1, distinctfd([x,y])`)
    and a satisfiable program, decided by the model's state operations -/
private def x : Term := .var 0
private def y : Term := .var 1
private def o : Order := Order.default
private def isFail : Res State → Bool
  | .fail => true
  | _ => false
private def isOk : Res State → Bool
  | .ok _ => true
  | _ => false
example : isFail ((domFd o (State.empty 1) x (.interval 1 3)).bind fun st => postCst o st (.plusfd x x x)) = true := by decide
example : isFail (((unify o (State.empty 2) x (num 1)).bind fun st => unify o st y (num 1)).bind fun st =>
    postCst o st (.distinctfd (.cons x (.cons y .nil)))) = true := by decide
example : isOk (((domFd o (State.empty 2) x (.interval 0 2)).bind fun st => domFd o st y (.interval 0 2)).bind fun st =>
    postCst o st (.ltefd x y)) = true := by decide
/-- non-vacuity of the global theorems: a program whose propagation re-enters `run_constraints`
    (x + y = z with z <= 2 narrows everything to singletons) meets `FAtom.OK`, succeeds, and ends with
    NOTHING pending (the hypotheses of `C16_answer_sound`) and the solution x = 1, y = 1, z = 2 -/
private def prog16 : List FAtom :=
  [.dom (.var 0) (.interval 1 2), .dom (.var 1) (.interval 1 2), .dom (.var 2) (.interval 0 9),
   .cst (.plusfd (.var 0) (.var 1) (.var 2)), .cst (.ltefd (.var 2) (num 2))]
example : ∀ a ∈ prog16, a.OK := by
  intro a ha
  simp only [prog16, List.mem_cons, List.not_mem_nil, or_false] at ha
  rcases ha with rfl | rfl | rfl | rfl | rfl <;> simp [FAtom.OK, FD.WF, CstOK]
example : (match postAllF Order.default (State.empty 3) prog16 with
    | .ok st => st.store.isEmpty && st.dstore.isEmpty && (st.σ 0 == num 1) && (st.σ 1 == num 1) && (st.σ 2 == num 2)
    | _ => false) = true := by decide
/-- non-vacuity of `C16_program_sound`: a program with a `conde` meets `FProg.OK` and has two paths -/
private def fprog16 : FProg :=
  .conj (.atom (.dom (.var 0) (.interval 0 3)))
    (.alt (.atom (.cst (.ltefd (.var 0) (num 1)))) (.fresh (.atom (.cst (.diseqfd (.var 0) (num 0))))))
example : fprog16.OK := by simp [fprog16, FProg.OK, FAtom.OK, FD.WF, CstOK]
example : fprog16.paths.length = 2 := by decide
/-- non-vacuity of the `distinctfd` theorems: x, y, z in 1..=3, all different, x <= 1 and z <= 2 meets `FAtom.OK`
    in the lax mode, succeeds, and propagation alone (exclusion of the collected constants from the remaining
    domains, twice re-entering `run_constraints`) finds the solution x = 1, y = 3, z = 2 with only the worker
    constraint left in the store -/
private def prog16d : List FAtom :=
  [.dom (.var 0) (.interval 1 3), .dom (.var 1) (.interval 1 3), .dom (.var 2) (.interval 1 3),
   .cst (.distinctfd (Term.ofList [.var 0, .var 1, .var 2])), .cst (.ltefd (.var 0) (num 1)), .cst (.ltefd (.var 2) (num 2))]
example : ∀ a ∈ prog16d, a.OK := by
  intro a ha
  simp only [prog16d, List.mem_cons, List.not_mem_nil, or_false] at ha
  rcases ha with rfl | rfl | rfl | rfl | rfl | rfl <;> simp [FAtom.OK, FD.WF, CstOK, Mode.lax]
  exact ⟨trivial, [Term.var 0, Term.var 1, Term.var 2], rfl⟩
example : (match postAllF Order.default (State.empty 3) prog16d with
    | .ok st => (st.σ 0 == num 1) && (st.σ 1 == num 3) && (st.σ 2 == num 2) && st.dstore.isEmpty && st.store.length == 1
    | _ => false) = true := by decide
/-- … and a list element bound to a non-integer reaches a panic site, in a program without solution -/
example : (match postAllF Order.default (State.empty 2)
      [.eq (.var 0) (.cons (num 1) .nil), .cst (.distinctfd (Term.ofList [.var 0, .var 1]))] with
    | .panic s => s == "distinctfd-term"
    | _ => false) = true := by decide
end Examples

end Pv
