/-
  C18 — FiniteDomain operations implement set semantics.

  Property theorems about `PvModel/Model/FD.lean` (the model of `src/state/fd.rs`).
  Every theorem quantifies over ALL well-formed domains (both representations, any size,
  any bounds) and all integers.  Helper lemmas live in `PvModel/Proofs/FD.lean`.
-/
import PvModel.Model.FD
import PvModel.Proofs.FD

namespace Pv.FD

/-- iteration enumerates exactly the denoted set … -/
theorem C18_iter_mem (d : FD) (h : WF d) (x : Int) : x ∈ d.iter ↔ d.Mem x :=
  iter_mem d h x

/-- … in strictly increasing order (so each element exactly once), and `rev` is its reverse. -/
theorem C18_iter_sorted (d : FD) (h : WF d) : StrictSorted d.iter := iter_sorted d h

theorem C18_iter_rev (d : FD) : d.iterRev = d.iter.reverse := rfl

/-- `From<Vec>`: any non-empty vector (unsorted, with duplicates) gives a well-formed domain
    denoting exactly the vector's elements. -/
theorem C18_from_vec (v : List Int) (hv : v ≠ []) :
    ∃ d, ofVec? v = some d ∧ WF d ∧ ∀ x, d.Mem x ↔ x ∈ v := ofVec_spec v hv

/-- the empty vector is rejected (Rust: panic "Cannot construct empty finite domain") -/
theorem C18_from_vec_empty : ofVec? [] = none := rfl

theorem C18_intersect_some (a b c : FD) (ha : WF a) (hb : WF b) (h : intersect a b = some c) :
    WF c ∧ ∀ x, c.Mem x ↔ (a.Mem x ∧ b.Mem x) := intersect_some a b c ha hb h

theorem C18_intersect_none (a b : FD) (ha : WF a) (hb : WF b) (h : intersect a b = none) :
    ∀ x, ¬ (a.Mem x ∧ b.Mem x) := intersect_none a b ha hb h

theorem C18_diff_some (a b c : FD) (ha : WF a) (hb : WF b) (h : diff a b = some c) :
    WF c ∧ ∀ x, c.Mem x ↔ (a.Mem x ∧ ¬ b.Mem x) := diff_some a b c ha hb h

theorem C18_diff_none (a b : FD) (ha : WF a) (hb : WF b) (h : diff a b = none) :
    ∀ x, a.Mem x → b.Mem x := diff_none a b ha hb h

theorem C18_is_disjoint (a b : FD) (ha : WF a) (hb : WF b) :
    ∃ r, isDisjoint a b = some r ∧ (r = true ↔ ∀ x, ¬ (a.Mem x ∧ b.Mem x)) :=
  isDisjoint_spec a b ha hb

theorem C18_contains (d : FD) (x : Int) : d.contains x = true ↔ d.Mem x := contains_spec d x

theorem C18_min (d : FD) (h : WF d) :
    ∃ m, d.min? = some m ∧ d.Mem m ∧ ∀ x, d.Mem x → m ≤ x := min_spec d h

theorem C18_max (d : FD) (h : WF d) :
    ∃ m, d.max? = some m ∧ d.Mem m ∧ ∀ x, d.Mem x → x ≤ m := max_spec d h

/-- `is_singleton` holds exactly when the set has exactly one element. -/
theorem C18_singleton (d : FD) (h : WF d) :
    d.isSingleton = true ↔ ∃ x, d.Mem x ∧ ∀ y, d.Mem y → y = x := isSingleton_spec d h

theorem C18_singleton_value (d : FD) (h : WF d) (v : Int) :
    d.singletonValue = some v ↔ ∀ y, d.Mem y ↔ y = v := singletonValue_spec d h v

/-- `==` is extensional set equality, across representations. -/
theorem C18_eq (a b : FD) (ha : WF a) (hb : WF b) :
    beq a b = true ↔ ∀ x, a.Mem x ↔ b.Mem x := beq_spec a b ha hb

/-- `copy_before p`: the prefix of the enumeration before the first element satisfying `p`
    (general predicate), `None` exactly when that prefix is empty. -/
theorem C18_copy_before (d : FD) (h : WF d) (p : Int → Bool) :
    (∀ c, copyBefore d p = some c → WF c ∧ c.iter = d.iter.takeWhile (fun u => !p u)) ∧
    (copyBefore d p = none ↔ d.iter.takeWhile (fun u => !p u) = []) := copyBefore_spec d h p

/-- `drop_before p`: the suffix from the first element satisfying `p`. -/
theorem C18_drop_before (d : FD) (h : WF d) (p : Int → Bool) :
    (∀ c, dropBefore d p = some c → WF c ∧ c.iter = d.iter.dropWhile (fun u => !p u)) ∧
    (dropBefore d p = none ↔ d.iter.dropWhile (fun u => !p u) = []) := dropBefore_spec d h p

/-- For upward-closed predicates (all thresholds `> k`, `>= k` the propagators use) the prefix is
    the subset where `p` is false and the suffix the subset where `p` is true. -/
theorem C18_copy_before_mono (d c : FD) (h : WF d) (p : Int → Bool)
    (hp : ∀ x y, p x = true → x ≤ y → p y = true) (hc : copyBefore d p = some c) :
    ∀ x, c.Mem x ↔ (d.Mem x ∧ p x = false) := copyBefore_mono d c h p hp hc

theorem C18_drop_before_mono (d c : FD) (h : WF d) (p : Int → Bool)
    (hp : ∀ x y, p x = true → x ≤ y → p y = true) (hc : dropBefore d p = some c) :
    ∀ x, c.Mem x ↔ (d.Mem x ∧ p x = true) := dropBefore_mono d c h p hp hc

/-- `wfB` decides `WF` (used by the driver to reject malformed case lines). -/
theorem C18_wfB (d : FD) : wfB d = true ↔ WF d := wfB_spec d

/-! Non-vacuity: concrete well-formed domains in both representations meet the hypotheses,
    and the operations produce non-trivial results on them. -/
example : WF (interval (-2) 3) ∧ WF (sparse [-4, -1, 0, 7]) := by
  refine ⟨by simp [WF], by simp [WF, StrictSorted]⟩
example : intersect (interval (-2) 3) (sparse [-4, -1, 0, 7]) = some (sparse [-1, 0]) := by decide
example : diff (interval (-2) 1) (sparse [-4, -1, 0, 7]) = some (sparse [-2, 1]) := by decide
example : ofVec? [3, 1, 3, -2, 1] = some (sparse [-2, 1, 3]) := by decide
example : beq (interval 1 3) (sparse [1, 2, 3]) = true ∧ beq (interval 1 3) (interval 1 5) = false := by
  decide

end Pv.FD
