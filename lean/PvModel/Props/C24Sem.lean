/-
  C24 — the library list relations implement their documented relations: DECLARATIVE SOUNDNESS ON THE ENGINE, in
  every argument mode (arguments are arbitrary terms: ground, partial, fresh; the start state is any good
  state — whatever `==`/`!=` goals ran before).

  `C24_engine_is_bigstep` (Proofs/BigStep.lean): the states in the engine's stream are exactly the big-step
  answers (relation calls unfold their body), for every goal without committed choice, at every nesting level.
  `C24_sound` (Proofs/RelSem.lean): every such state for a call of member / member1 / append / rember /
  permute / distinct describes only valuations under which the arguments are in the relation's specification
  (`RelSem`: the inductive predicates `MemT`, `Mem1T`, `AppT`, `RemT`, `PermT`, `DistT` on terms).
  `C24_*_spec` (Proofs/RelSpec.lean): what the specifications say in terms of `List` functions.
-/
import PvModel.Proofs.RelSpec
import PvModel.Proofs.RelComplete
namespace Pv
open Strm Goal State Term

/-- ENGINE = BIG-STEP SEMANTICS, relation calls included -/
theorem C24_engine_is_bigstep (ord : Order) (pf M j : Nat) (g : G) (hg : Plain g) (a b : State) :
    MemS (solveAt (defs ord) pf (M + 1)) b (solveAt (defs ord) pf j g a) ↔ Big (defs ord) g a b :=
  mem_iff_big (defs_plain ord) pf M j hg a b

/-- SOUNDNESS, all six relations, all argument modes, interleaving and depth-first variant, every nesting
    level, every hash-iteration order: a state the engine holds for the call is good and describes only
    valuations of the start state under which the arguments are in the documented relation -/
theorem C24_sound (ord : Order) (ho : OrderOK ord) (pf M j : Nat) (c : Call) (a b : State)
    (h : MemS (solveAt (defs ord) pf (M + 1)) b (solveAt (defs ord) pf j (.call c) a))
    (hp : b.panic.isSome = false) (hg : Good a) : Good b ∧ ∀ γ, StateSem γ b → StateSem γ a ∧ RelSem c γ :=
  rel_sound ord ho pf M j c a b h hp hg

/-- `append(l, s, ls)`: in every answer, `l` is a proper list and `ls` is `l` followed by `s` -/
theorem C24_append_sound (ord : Order) (ho : OrderOK ord) (pf M j : Nat) (l s ls : Term) (d : Bool) (a b : State)
    (h : MemS (solveAt (defs ord) pf (M + 1)) b (solveAt (defs ord) pf j (.call ⟨.append, [l, s, ls], d⟩) a))
    (hp : b.panic.isSome = false) (hg : Good a) (γ : Subst) (hγ : StateSem γ b) :
    ∃ xs, apply γ l = ofList xs ∧ apply γ ls = improperOfList xs (apply γ s) :=
  (appT_iff _ _ _).1 ((C24_sound ord ho pf M j _ a b h hp hg).2 γ hγ).2

/-- `member(x, l)`: in every answer, `x` stands at some position of `l` -/
theorem C24_member_sound (ord : Order) (ho : OrderOK ord) (pf M j : Nat) (x l : Term) (d : Bool) (a b : State)
    (h : MemS (solveAt (defs ord) pf (M + 1)) b (solveAt (defs ord) pf j (.call ⟨.member, [x, l], d⟩) a))
    (hp : b.panic.isSome = false) (hg : Good a) (γ : Subst) (hγ : StateSem γ b) :
    ∃ pre rest, apply γ l = improperOfList pre (.cons (apply γ x) rest) :=
  (memT_iff _ _).1 ((C24_sound ord ho pf M j _ a b h hp hg).2 γ hγ).2

/-- `member1(x, l)`: in every answer, `x` stands in `l` at a position before which it does not occur — and
    there is exactly one such position -/
theorem C24_member1_sound (ord : Order) (ho : OrderOK ord) (pf M j : Nat) (x l : Term) (d : Bool) (a b : State)
    (h : MemS (solveAt (defs ord) pf (M + 1)) b (solveAt (defs ord) pf j (.call ⟨.member1, [x, l], d⟩) a))
    (hp : b.panic.isSome = false) (hg : Good a) (γ : Subst) (hγ : StateSem γ b) :
    ∃ pre rest, apply γ l = improperOfList pre (.cons (apply γ x) rest) ∧ apply γ x ∉ pre ∧
      ∀ pre' rest', apply γ l = improperOfList pre' (.cons (apply γ x) rest') → apply γ x ∉ pre' →
        pre' = pre ∧ rest' = rest := by
  obtain ⟨pre, rest, e, hn⟩ := (mem1T_iff _ _).1 ((C24_sound ord ho pf M j _ a b h hp hg).2 γ hγ).2
  exact ⟨pre, rest, e, hn, fun pre' rest' e' hn' => mem1T_unique _ pre' pre rest' rest hn' hn (e'.symm.trans e)⟩

/-- `rember(x, ls, out)` on a ground proper list: `out` is `ls` without the first occurrence of `x` -/
theorem C24_rember_sound (ord : Order) (ho : OrderOK ord) (pf M j : Nat) (x ls out : Term) (d : Bool) (a b : State)
    (h : MemS (solveAt (defs ord) pf (M + 1)) b (solveAt (defs ord) pf j (.call ⟨.rember, [x, ls, out], d⟩) a))
    (hp : b.panic.isSome = false) (hg : Good a) (γ : Subst) (hγ : StateSem γ b) (xs : List Term)
    (hl : apply γ ls = ofList xs) : apply γ out = ofList (xs.erase (apply γ x)) := by
  have := ((C24_sound ord ho pf M j _ a b h hp hg).2 γ hγ).2
  simp only [RelSem] at this
  rw [hl] at this
  exact (remT_ofList _ _ _).1 this

/-- `distinct(l)`: in every answer `l` is a proper list whose elements pairwise differ -/
theorem C24_distinct_sound (ord : Order) (ho : OrderOK ord) (pf M j : Nat) (l : Term) (d : Bool) (a b : State)
    (h : MemS (solveAt (defs ord) pf (M + 1)) b (solveAt (defs ord) pf j (.call ⟨.distinct, [l], d⟩) a))
    (hp : b.panic.isSome = false) (hg : Good a) (γ : Subst) (hγ : StateSem γ b) :
    ∃ xs : List Term, apply γ l = ofList xs ∧ xs.Nodup :=
  (distT_iff _).1 ((C24_sound ord ho pf M j _ a b h hp hg).2 γ hγ).2

/-- `permute(xl, yl)`: every answer satisfies the clause-level specification `PermT`; every permutation of a
    proper list satisfies it (`C24_permute_spec`), and so does — KNOWN FINDING D20 — `permute([1,2],[2])` -/
theorem C24_permute_sound (ord : Order) (ho : OrderOK ord) (pf M j : Nat) (xl yl : Term) (d : Bool) (a b : State)
    (h : MemS (solveAt (defs ord) pf (M + 1)) b (solveAt (defs ord) pf j (.call ⟨.permute, [xl, yl], d⟩) a))
    (hp : b.panic.isSome = false) (hg : Good a) (γ : Subst) (hγ : StateSem γ b) : PermT (apply γ xl) (apply γ yl) :=
  ((C24_sound ord ho pf M j _ a b h hp hg).2 γ hγ).2

theorem C24_permute_spec (xs ys : List Term) (h : xs.Perm ys) : PermT (ofList xs) (ofList ys) := permT_of_perm xs ys h
theorem C24_permute_D20 : PermT (ofList [Term.num 1, Term.num 2]) (ofList [Term.num 2]) := permT_sublist_witness

/-- the specifications on proper lists are the `List` functions -/
theorem C24_append_spec (xs ys : List Term) (r : Term) : AppT (ofList xs) (ofList ys) r ↔ r = ofList (xs ++ ys) :=
  appT_ofList xs ys r
theorem C24_member_spec (x : Term) (xs : List Term) : MemT x (ofList xs) ↔ x ∈ xs := memT_ofList x xs
theorem C24_member1_spec (x : Term) (xs : List Term) : Mem1T x (ofList xs) ↔ x ∈ xs := mem1T_ofList x xs
theorem C24_rember_spec (x : Term) (xs : List Term) (out : Term) : RemT x (ofList xs) out ↔ out = ofList (xs.erase x) :=
  remT_ofList x xs out
theorem C24_distinct_spec (l : Term) : DistT l ↔ ∃ xs : List Term, l = ofList xs ∧ xs.Nodup := distT_iff l

/-! ### completeness -/

/-- COMPLETENESS, all six relations, all argument modes: from a good unpoisoned state that says nothing about the
    variables at or above its counter (`RInv`: the empty state, and every state `==`/`!=` goals reach from it —
    `C24_invariant`), with argument terms below the counter: every valuation `γ` the state describes under which
    the arguments are in the documented relation is described — after extension to the fresh variables of the
    unfolding, i.e. up to `Agree a.nextVar` — by a state in the engine's stream for the call, at every nesting
    level, interleaving or depth-first variant, any hash order; or the model ran out of unification fuel, which
    leaves a FUEL-poisoned state in the stream. -/
theorem C24_complete (ord : Order) (ho : OrderOK ord) (pf M j : Nat) (c : Call) (a : State) (γ : Subst)
    (hb : ∀ t ∈ c.args, Below a.nextVar t) (hp : a.panic.isSome = false) (hi : RInv a) (hγ : StateSem γ a)
    (h : RelSem c γ) :
    ∃ b, MemS (solveAt (defs ord) pf (M + 1)) b (solveAt (defs ord) pf j (.call c) a) ∧
      (b.panic.isSome = true ∨ ∃ γ', Agree a.nextVar γ γ' ∧ StateSem γ' b) :=
  rel_complete ho pf M j c a γ hb hp hi hγ h

/-- the invariant: the empty state has it, `==`/`!=` over existing variables keep it (and the counter) -/
theorem C24_invariant (ord : Order) (ho : OrderOK ord) :
    (∀ n, RInv (State.empty n)) ∧
    (∀ (u v : Term) (a b : State), Below a.nextVar u → Below a.nextVar v → RInv a →
      (a.unify ord u v = .ok b ∨ a.disunify ord u v = .ok b) → RInv b ∧ b.nextVar = a.nextVar) :=
  ⟨rinv_empty, fun u v a b bu bv hi h => by
    rcases h with h | h
    · exact rinv_postAtom ho (.eq u v) ⟨bu, bv⟩ hi h
    · exact rinv_postAtom ho (.neq u v) ⟨bu, bv⟩ hi h⟩

/-- SOUND + COMPLETE = EXACT: for a call from such a state, the valuations described by the unpoisoned states of
    the engine's stream, seen on the variables below the counter, are exactly the valuations of the start state
    under which the arguments are in the relation (when no state of the stream is FUEL-poisoned) -/
theorem C24_exact (ord : Order) (ho : OrderOK ord) (pf M j : Nat) (c : Call) (a : State) (γ : Subst)
    (hb : ∀ t ∈ c.args, Below a.nextVar t) (hp : a.panic.isSome = false) (hi : RInv a) (hγ : StateSem γ a)
    (hnf : ∀ b, MemS (solveAt (defs ord) pf (M + 1)) b (solveAt (defs ord) pf j (.call c) a) → b.panic.isSome = false) :
    RelSem c γ ↔ ∃ b γ', MemS (solveAt (defs ord) pf (M + 1)) b (solveAt (defs ord) pf j (.call c) a) ∧
      Agree a.nextVar γ γ' ∧ StateSem γ' b := by
  constructor
  · intro h
    obtain ⟨b, hm, hb'⟩ := C24_complete ord ho pf M j c a γ hb hp hi hγ h
    rcases hb' with p | ⟨γ', hag, sb⟩
    · rw [hnf b hm] at p; cases p
    · exact ⟨b, γ', hm, hag, sb⟩
  · rintro ⟨b, γ', hm, hag, sb⟩
    have h1 := ((C24_sound ord ho pf M j c a b hm (hnf b hm) hi.1).2 γ' sb).2
    -- the relation only looks at the arguments, whose variables are below the counter
    obtain ⟨rel, args, d⟩ := c
    have ea : ∀ t ∈ args, apply γ t = apply γ' t := fun t ht => apply_of_agree (hb t ht) hag
    cases rel <;> rcases args with _ | ⟨a1, _ | ⟨a2, _ | ⟨a3, _ | ⟨a4, rest⟩⟩⟩⟩ <;> simp only [RelSem] at h1 ⊢ <;>
      first
        | exact h1
        | (rw [ea a1 (by simp)]; exact h1)
        | (rw [ea a1 (by simp), ea a2 (by simp)]; exact h1)
        | (rw [ea a1 (by simp), ea a2 (by simp), ea a3 (by simp)]; exact h1)

/-- `append`, list level: if under a described valuation `l` is the proper list `xs` and `ls` is `xs` followed
    by `s`, the stream holds a state describing it -/
theorem C24_append_complete (ord : Order) (ho : OrderOK ord) (pf M j : Nat) (l s ls : Term) (d : Bool) (a : State) (γ : Subst)
    (bl : Below a.nextVar l) (bs : Below a.nextVar s) (bls : Below a.nextVar ls) (hp : a.panic.isSome = false) (hi : RInv a)
    (hγ : StateSem γ a) (xs : List Term) (h1 : apply γ l = ofList xs) (h2 : apply γ ls = improperOfList xs (apply γ s)) :
    ∃ b, MemS (solveAt (defs ord) pf (M + 1)) b (solveAt (defs ord) pf j (.call ⟨.append, [l, s, ls], d⟩) a) ∧
      (b.panic.isSome = true ∨ ∃ γ', Agree a.nextVar γ γ' ∧ StateSem γ' b) :=
  C24_complete ord ho pf M j _ a γ
    (fun t ht => by
      simp only [List.mem_cons, List.not_mem_nil, or_false] at ht
      rcases ht with rfl | rfl | rfl <;> assumption)
    hp hi hγ ((appT_iff _ _ _).2 ⟨xs, h1, h2⟩)

/-- `member`, list level: if under a described valuation `x` is an element of the proper list `l` -/
theorem C24_member_complete (ord : Order) (ho : OrderOK ord) (pf M j : Nat) (x l : Term) (d : Bool) (a : State) (γ : Subst)
    (bx : Below a.nextVar x) (bl : Below a.nextVar l) (hp : a.panic.isSome = false) (hi : RInv a)
    (hγ : StateSem γ a) (xs : List Term) (h1 : apply γ l = ofList xs) (h2 : apply γ x ∈ xs) :
    ∃ b, MemS (solveAt (defs ord) pf (M + 1)) b (solveAt (defs ord) pf j (.call ⟨.member, [x, l], d⟩) a) ∧
      (b.panic.isSome = true ∨ ∃ γ', Agree a.nextVar γ γ' ∧ StateSem γ' b) :=
  C24_complete ord ho pf M j _ a γ
    (fun t ht => by
      simp only [List.mem_cons, List.not_mem_nil, or_false] at ht
      rcases ht with rfl | rfl <;> assumption)
    hp hi hγ (by simp only [RelSem]; rw [h1]; exact (memT_ofList _ _).2 h2)

/-- `permute`, list level: every permutation of a proper list is found -/
theorem C24_permute_complete (ord : Order) (ho : OrderOK ord) (pf M j : Nat) (xl yl : Term) (d : Bool) (a : State) (γ : Subst)
    (bx : Below a.nextVar xl) (by' : Below a.nextVar yl) (hp : a.panic.isSome = false) (hi : RInv a)
    (hγ : StateSem γ a) (xs ys : List Term) (h1 : apply γ xl = ofList xs) (h2 : apply γ yl = ofList ys) (h : xs.Perm ys) :
    ∃ b, MemS (solveAt (defs ord) pf (M + 1)) b (solveAt (defs ord) pf j (.call ⟨.permute, [xl, yl], d⟩) a) ∧
      (b.panic.isSome = true ∨ ∃ γ', Agree a.nextVar γ γ' ∧ StateSem γ' b) :=
  C24_complete ord ho pf M j _ a γ
    (fun t ht => by
      simp only [List.mem_cons, List.not_mem_nil, or_false] at ht
      rcases ht with rfl | rfl <;> assumption)
    hp hi hγ (by simp only [RelSem]; rw [h1, h2]; exact permT_of_perm xs ys h)

section Examples
/-- non-vacuity: `append([1], y, [1, 2])` from the empty state — the engine (interleaving, nesting level 2)
    terminates with one unpoisoned answer, and that answer binds `y` to `[2]` -/
example : (drainF (solveAt (defs Order.default) 5 2) 60
      (solveAt (defs Order.default) 5 2 (.call ⟨.append, [ofList [Term.num 1], .var 0, ofList [Term.num 1, Term.num 2]], false⟩)
        (State.empty 1))).map (fun ys => ys.map fun s => (s.panic.isSome, apply s.σ (.var 0))) =
    some [(false, ofList [Term.num 2])] := by decide
end Examples

end Pv
