/-
  C24 — the library list relations implement their documented relations: DECLARATIVE SOUNDNESS ON THE ENGINE, in
  every argument mode (arguments are arbitrary terms: ground, partial, fresh; the start state is any good
  state — whatever `==`/`!=` goals ran before).

  `C24_engine_is_bigstep` (Proofs/BigStep.lean): the states in the engine's stream are exactly the big-step
  answers (relation calls unfold their body), for every goal without committed choice, at every nesting level.
  `C24_sound` (Proofs/RelSem.lean): every such state for a call of member / member1 / append / rember /
  permute / distinct describes only valuations under which the arguments are in the relation's specification
  (`RelSem`: the inductive predicates `MemT`, `Mem1T`, `AppT`, `RemT`, `PermT`, `DistT` on terms).
  `C24_*_spec` (Proofs/RelSpec.lean): what the specifications say in terms of `List` functions.
-/
import PvModel.Proofs.RelSpec
namespace Pv
open Strm Goal State Term

/-- ENGINE = BIG-STEP SEMANTICS, relation calls included -/
theorem C24_engine_is_bigstep (ord : Order) (pf M j : Nat) (g : G) (hg : Plain g) (a b : State) :
    MemS (solveAt (defs ord) pf (M + 1)) b (solveAt (defs ord) pf j g a) ↔ Big (defs ord) g a b :=
  mem_iff_big (defs_plain ord) pf M j hg a b

/-- SOUNDNESS, all six relations, all argument modes, interleaving and depth-first variant, every nesting
    level, every hash-iteration order: a state the engine holds for the call is good and describes only
    valuations of the start state under which the arguments are in the documented relation -/
theorem C24_sound (ord : Order) (ho : OrderOK ord) (pf M j : Nat) (c : Call) (a b : State)
    (h : MemS (solveAt (defs ord) pf (M + 1)) b (solveAt (defs ord) pf j (.call c) a))
    (hp : b.panic.isSome = false) (hg : Good a) : Good b ∧ ∀ γ, StateSem γ b → StateSem γ a ∧ RelSem c γ :=
  rel_sound ord ho pf M j c a b h hp hg

/-- `append(l, s, ls)`: in every answer, `l` is a proper list and `ls` is `l` followed by `s` -/
theorem C24_append_sound (ord : Order) (ho : OrderOK ord) (pf M j : Nat) (l s ls : Term) (d : Bool) (a b : State)
    (h : MemS (solveAt (defs ord) pf (M + 1)) b (solveAt (defs ord) pf j (.call ⟨.append, [l, s, ls], d⟩) a))
    (hp : b.panic.isSome = false) (hg : Good a) (γ : Subst) (hγ : StateSem γ b) :
    ∃ xs, apply γ l = ofList xs ∧ apply γ ls = improperOfList xs (apply γ s) :=
  (appT_iff _ _ _).1 ((C24_sound ord ho pf M j _ a b h hp hg).2 γ hγ).2

/-- `member(x, l)`: in every answer, `x` stands at some position of `l` -/
theorem C24_member_sound (ord : Order) (ho : OrderOK ord) (pf M j : Nat) (x l : Term) (d : Bool) (a b : State)
    (h : MemS (solveAt (defs ord) pf (M + 1)) b (solveAt (defs ord) pf j (.call ⟨.member, [x, l], d⟩) a))
    (hp : b.panic.isSome = false) (hg : Good a) (γ : Subst) (hγ : StateSem γ b) :
    ∃ pre rest, apply γ l = improperOfList pre (.cons (apply γ x) rest) :=
  (memT_iff _ _).1 ((C24_sound ord ho pf M j _ a b h hp hg).2 γ hγ).2

/-- `member1(x, l)`: in every answer, `x` stands in `l` at a position before which it does not occur — and
    there is exactly one such position -/
theorem C24_member1_sound (ord : Order) (ho : OrderOK ord) (pf M j : Nat) (x l : Term) (d : Bool) (a b : State)
    (h : MemS (solveAt (defs ord) pf (M + 1)) b (solveAt (defs ord) pf j (.call ⟨.member1, [x, l], d⟩) a))
    (hp : b.panic.isSome = false) (hg : Good a) (γ : Subst) (hγ : StateSem γ b) :
    ∃ pre rest, apply γ l = improperOfList pre (.cons (apply γ x) rest) ∧ apply γ x ∉ pre ∧
      ∀ pre' rest', apply γ l = improperOfList pre' (.cons (apply γ x) rest') → apply γ x ∉ pre' →
        pre' = pre ∧ rest' = rest := by
  obtain ⟨pre, rest, e, hn⟩ := (mem1T_iff _ _).1 ((C24_sound ord ho pf M j _ a b h hp hg).2 γ hγ).2
  exact ⟨pre, rest, e, hn, fun pre' rest' e' hn' => mem1T_unique _ pre' pre rest' rest hn' hn (e'.symm.trans e)⟩

/-- `rember(x, ls, out)` on a ground proper list: `out` is `ls` without the first occurrence of `x` -/
theorem C24_rember_sound (ord : Order) (ho : OrderOK ord) (pf M j : Nat) (x ls out : Term) (d : Bool) (a b : State)
    (h : MemS (solveAt (defs ord) pf (M + 1)) b (solveAt (defs ord) pf j (.call ⟨.rember, [x, ls, out], d⟩) a))
    (hp : b.panic.isSome = false) (hg : Good a) (γ : Subst) (hγ : StateSem γ b) (xs : List Term)
    (hl : apply γ ls = ofList xs) : apply γ out = ofList (xs.erase (apply γ x)) := by
  have := ((C24_sound ord ho pf M j _ a b h hp hg).2 γ hγ).2
  simp only [RelSem] at this
  rw [hl] at this
  exact (remT_ofList _ _ _).1 this

/-- `distinct(l)`: in every answer `l` is a proper list whose elements pairwise differ -/
theorem C24_distinct_sound (ord : Order) (ho : OrderOK ord) (pf M j : Nat) (l : Term) (d : Bool) (a b : State)
    (h : MemS (solveAt (defs ord) pf (M + 1)) b (solveAt (defs ord) pf j (.call ⟨.distinct, [l], d⟩) a))
    (hp : b.panic.isSome = false) (hg : Good a) (γ : Subst) (hγ : StateSem γ b) :
    ∃ xs : List Term, apply γ l = ofList xs ∧ xs.Nodup :=
  (distT_iff _).1 ((C24_sound ord ho pf M j _ a b h hp hg).2 γ hγ).2

/-- `permute(xl, yl)`: every answer satisfies the clause-level specification `PermT`; every permutation of a
    proper list satisfies it (`C24_permute_spec`), and so does — KNOWN FINDING D20 — `permute([1,2],[2])` -/
theorem C24_permute_sound (ord : Order) (ho : OrderOK ord) (pf M j : Nat) (xl yl : Term) (d : Bool) (a b : State)
    (h : MemS (solveAt (defs ord) pf (M + 1)) b (solveAt (defs ord) pf j (.call ⟨.permute, [xl, yl], d⟩) a))
    (hp : b.panic.isSome = false) (hg : Good a) (γ : Subst) (hγ : StateSem γ b) : PermT (apply γ xl) (apply γ yl) :=
  ((C24_sound ord ho pf M j _ a b h hp hg).2 γ hγ).2

theorem C24_permute_spec (xs ys : List Term) (h : xs.Perm ys) : PermT (ofList xs) (ofList ys) := permT_of_perm xs ys h
theorem C24_permute_D20 : PermT (ofList [Term.num 1, Term.num 2]) (ofList [Term.num 2]) := permT_sublist_witness

/-- the specifications on proper lists are the `List` functions -/
theorem C24_append_spec (xs ys : List Term) (r : Term) : AppT (ofList xs) (ofList ys) r ↔ r = ofList (xs ++ ys) :=
  appT_ofList xs ys r
theorem C24_member_spec (x : Term) (xs : List Term) : MemT x (ofList xs) ↔ x ∈ xs := memT_ofList x xs
theorem C24_member1_spec (x : Term) (xs : List Term) : Mem1T x (ofList xs) ↔ x ∈ xs := mem1T_ofList x xs
theorem C24_rember_spec (x : Term) (xs : List Term) (out : Term) : RemT x (ofList xs) out ↔ out = ofList (xs.erase x) :=
  remT_ofList x xs out
theorem C24_distinct_spec (l : Term) : DistT l ↔ ∃ xs : List Term, l = ofList xs ∧ xs.Nodup := distT_iff l

section Examples
/-- non-vacuity: `append([1], y, [1, 2])` from the empty state — the engine (interleaving, nesting level 2)
    terminates with one unpoisoned answer, and that answer binds `y` to `[2]` -/
example : (drainF (solveAt (defs Order.default) 5 2) 60
      (solveAt (defs Order.default) 5 2 (.call ⟨.append, [ofList [Term.num 1], .var 0, ofList [Term.num 1, Term.num 2]], false⟩)
        (State.empty 1))).map (fun ys => ys.map fun s => (s.panic.isSome, apply s.σ (.var 0))) =
    some [(false, ofList [Term.num 2])] := by decide
end Examples

end Pv
