/-
  C03 — FOR THE WHOLE QUERY, ON THE ENGINE: every answer the engine delivers for a query `|q…| { p }` (`p` a program of `==` / `!=`
  atoms under conjunction, `conde` and `fresh`, run from the empty state) is the reified state of one path state `s`, and every
  variable of every REPORTED term is one of the `_` variables `reify` created for it: an index in
  `[s.nextVar, s.nextVar + #free variables of the walked query term)`.  No unreified variable, no name of a hidden variable, ever
  leaves the engine.  (`C03_closed`, `C03_closed_query` speak about `reifySubst`; this carries them to the states the engine
  really delivers: `C02_query_tree`, `reifyState_facts`, `postAll_unified`.)
-/
import PvModel.Props.C02Query
import PvModel.Props.C03
namespace Pv
open Strm Goal State Term

attribute [local instance] Mode.strict

theorem C03_query_answers_closed (ord : Order) (ho : OrderOK ord) (dfs : Call → State → State × G) (pf M n : Nat)
    (p : FProg) (hp : p.TreeOnly) (qv : Term) (qs : List Term) (s1 : State)
    (h1 : postAtom ord (State.empty n) (.eq qv (Term.ofList qs)) = .ok s1)
    (hnf : ∀ path ∈ p.paths, postAllF ord s1 path ≠ .fuel)
    (hsz : ∀ path ∈ p.paths, ∀ s, postAllF ord s1 path = .ok s → (apply s.σ qv).size ≤ forceFuel) :
    ∃ k zs, drainF (solveAt dfs (pf + 2) (M + 2)) k
        (solveAt dfs (pf + 2) (M + 2) (queryG ord qv qs [p.goal ord]) (State.empty n)) = some zs ∧
      ∀ z ∈ zs, ∃ s ∈ pathStates ord p s1, z = reifyState ord s qv ∧
        ∀ t ∈ (mkAnswer ord qs z).terms, ∀ y ∈ t.vars,
          s.nextVar ≤ y ∧ y < s.nextVar + (freeVars (apply s.σ qv)).length := by
  obtain ⟨k, zs, hk, pz⟩ := C02_query_tree ord ho dfs pf M n p hp qv qs s1 h1 hnf hsz
  refine ⟨k, zs, hk, fun z hz => ?_⟩
  obtain ⟨s, hs, rfl⟩ := List.mem_map.1 (pz.mem_iff.2 hz)
  refine ⟨s, hs, rfl, fun t ht y hy => ?_⟩
  obtain ⟨path, hpath, hr⟩ := (pathStates_tree ord ho n p hp qv qs s1 h1 hnf s).1 hs
  have e := postAllF_tree (ord := ord) path s1 (treeOnly_paths p hp path hpath)
  have hall : postAll ord (State.empty n) (.eq qv (Term.ofList qs) :: path.map tOf) = .ok s := by
    simp only [postAll, h1, Res.bind]; rw [← e]; exact hr
  have hg : Good s := (postAll_ok ord ho _ s _ (good_empty n) hall).1
  have hu := postAll_unified ho qv (Term.ofList qs) _ _ s (good_empty n) hall
  have hσ := (reifyState_facts ho hg (x := qv)).1
  rw [(C03_answer_shape ord qs (reifyState ord s qv)).1, hσ] at ht
  obtain ⟨q, hq, rfl⟩ := List.mem_map.1 ht
  refine C03_closed s.σ qv s.nextVar q (fun y' hy' => ?_) y hy
  rw [hu]
  exact C03_closed_query s.σ qs q hq y' hy'

end Pv
