/-
  C17, labelling: `force_ans` on a variable with a stored domain, run on the interleaving engine from ANY
  reachable state, delivers ONE state per value of the domain that is consistent with the state — the
  values pairwise different — and the state delivered for the value `v` describes EXACTLY the valuations of
  the labelled state with `x = v`.  So every solution the state describes is described by exactly one of the
  delivered states: labelling a variable neither loses nor duplicates a solution.
-/
import PvModel.Props.C17
import PvModel.Proofs.Label
namespace Pv
open State Term Goal FD

section
variable (dfs : Call → State → State × G)

/-- the textbook evaluation of a disjunction of atoms: the atoms' results, in order -/
theorem evalRef_alt_atoms : ∀ (fs : List (State → Option State)) (st : State),
    evalRef dfs (fs.length + 2) (Goal.altOfList (fs.map fun f => (.atom f : G))) st =
      some (fs.flatMap fun f => (f st).toList)
  | [], st => by simp [Goal.altOfList, evalRef]
  | f :: fs, st => by
    have ih := evalRef_alt_atoms fs st
    have e : (f :: fs).length + 2 = (fs.length + 2) + 1 := by simp
    rw [e]
    simp only [List.map_cons, Goal.altOfList, evalRef, ih, List.flatMap_cons]

theorem filterMap_pairs {α β : Type} (f : α → Option β) : ∀ l : List α,
    ((l.filterMap fun v => (f v).map fun s => (v, s)).map (·.2) = l.flatMap fun v => (f v).toList) ∧
    ((l.filterMap fun v => (f v).map fun s => (v, s)).map (·.1)).Sublist l
  | [] => ⟨rfl, List.Sublist.refl _⟩
  | a :: l => by
    obtain ⟨h1, h2⟩ := filterMap_pairs f l
    cases hfa : f a with
    | none =>
      simp only [List.filterMap_cons, hfa, Option.map_none, List.flatMap_cons, Option.toList_none, List.nil_append]
      exact ⟨h1, h2.cons a⟩
    | some s =>
      simp only [List.filterMap_cons, hfa, Option.map_some, List.map_cons, List.flatMap_cons, Option.toList_some,
        List.singleton_append]
      exact ⟨by rw [h1], h2.cons_cons a⟩

end

variable [Mode]

/-- LABELLING ONE VARIABLE, on the engine, from any well-formed unpoisoned state in which `x` is unbound and
    has the domain `d`: the search terminates and the delivered states are — up to order — the second
    components of a list of pairs (value, state) such that
    (1) the values form a sublist of the increasing enumeration of `d` (so they are PAIRWISE DIFFERENT);
    (2) the (unpoisoned) state delivered for `v` is well-formed and describes exactly the valuations of the
        labelled state in which `x` is `v`;
    (3) every valuation the labelled state describes has its value of `x` among the values.
    Hence each solution is described by exactly one delivered state. -/
theorem C17_label_exactly_once {ord : Order} (ho : OrderOK ord) (dfs : Call → State → State × G) (pf M n : Nat)
    (st : State) (w : WFS st) (hi : Inv st) (hp : st.panic = none)
    (x : Nat) (hx : st.σ x = .var x) (d : FD) (hd : st.dget x = some d) :
    ∃ k ys, ∃ pairs : List (Int × State),
      drainF (solveAt dfs pf (M + 1)) k (solveAt dfs pf (M + 1) (forceAns ord (n + 1) (.var x)) st) = some ys ∧
      ys.Perm (pairs.map (·.2)) ∧ (pairs.map (·.1)).Sublist d.iter ∧
      (∀ p ∈ pairs, p.2.panic = none →
        WFS p.2 ∧ Inv p.2 ∧ ∀ γ, Sem NoI γ p.2 ↔ (Sem NoI γ st ∧ NumAt γ (.var x) p.1)) ∧
      (∀ γ, Sem NoI γ st → ∃ p ∈ pairs, NumAt γ (.var x) p.1) := by
  let f : Int → State → Option State := fun v => liftRes fun s => s.unify ord (Term.num v) (.var x)
  let pairs : List (Int × State) := d.iter.filterMap fun v => (f v st).map fun s => (v, s)
  obtain ⟨hp2, hp1⟩ := filterMap_pairs (fun v => f v st) d.iter
  -- the goal unfolds to the disjunction of the equalities `k == x`
  have hgoal : evalRef dfs ((d.iter.map f).length + 2 + 1) (forceAns ord (n + 1) (.var x)) st = some (pairs.map (·.2)) := by
    have hw : walk st.σ (.var x) = .var x := hx
    simp only [forceAns, evalRef, id, hp, Option.isSome_none, Bool.false_eq_true, if_false, hw, hd]
    have hm : (d.iter.map fun k => eqG ord (Term.num k) (.var x)) = (d.iter.map f).map fun g => (.atom g : G) := by
      simp only [List.map_map]; rfl
    rw [hm, evalRef_alt_atoms dfs (d.iter.map f) st, hp2]
    simp only [List.flatMap_map]
  obtain ⟨zs, hz, pz⟩ := ref_perm dfs pf M _ _ _ _ hgoal M
  obtain ⟨k, ys, hdr, py⟩ := drain_perm _ (topOK_solveAt dfs pf M) hz
  refine ⟨k, ys, pairs, hdr, (pz.trans py).symm, hp1, fun p hpm hpp => ?_, fun γ hs => ?_⟩
  · -- the state delivered for the value p.1
    obtain ⟨v, _, hv⟩ := List.mem_filterMap.1 hpm
    have r := unify_sem (I := NoI) ho (iok_noI st) w hi (Term.num v) (.var x)
    simp only [f, liftRes, hp, Option.isSome_none, Bool.false_eq_true, if_false] at hv
    cases hu : st.unify ord (Term.num v) (.var x) with
    | ok s =>
      rw [hu] at hv r
      simp only [Option.map_some, Option.some.injEq] at hv
      subst hv
      refine ⟨r.1, r.2.1, fun γ => ?_⟩
      rw [r.2.2 γ]
      unfold NumAt
      exact ⟨fun a => ⟨a.1, a.2.symm⟩, fun a => ⟨a.1, a.2.symm⟩⟩
    | fail => rw [hu] at hv; simp at hv
    | fuel =>
      rw [hu] at hv
      simp only [Option.map_some, Option.some.injEq] at hv
      subst hv
      simp at hpp
    | panic site =>
      rw [hu] at hv
      simp only [Option.map_some, Option.some.injEq] at hv
      subst hv
      simp at hpp
  · -- every described valuation picks one of the values
    obtain ⟨v, hv, hvd⟩ := hs.2.2 (x, d) (dget_mem hd) (fun h => h)
    have hvi : v ∈ d.iter := (iter_mem d (w.dwf _ (dget_mem hd)) v).2 hvd
    have r := unify_sem (I := NoI) ho (iok_noI st) w hi (Term.num v) (.var x)
    have hne : f v st ≠ none := by
      simp only [f, liftRes, hp, Option.isSome_none, Bool.false_eq_true, if_false]
      cases hu : st.unify ord (Term.num v) (.var x) with
      | fail =>
        rw [hu] at r
        exact absurd ⟨hs, hv.symm⟩ (r γ)
      | _ => simp
    cases hfv : f v st with
    | none => exact absurd hfv hne
    | some s =>
      exact ⟨(v, s), List.mem_filterMap.2 ⟨v, hvi, by rw [hfv]; rfl⟩, hv⟩

/-- LABELLING THE QUERY TERM (`force_ans` on any term: variables with domains, lists, compounds with their fields,
    nested to any depth), on the engine, from any well-formed unpoisoned state: whenever the textbook evaluation
    finishes within its fuel, the interleaving search terminates, and — unless a delivered state is poisoned
    (the model's FUEL) — the delivered states PARTITION the valuations the labelled state describes:
    (1) each is well-formed and describes only valuations of the labelled state,
    (2) every valuation of the labelled state is described by one of them,
    (3) no two of them (at different positions of the answer list) describe a common valuation.
    Every solution is returned exactly once. -/
theorem C17_label_term_exactly_once {ord : Order} (ho : OrderOK ord) (dfs : Call → State → State × G) (pf M n N : Nat)
    (t : Term) (s : State) (w : WFS s) (hi : Inv s) (hp : s.panic = none) (zs : List State)
    (h : evalRef dfs N (forceAns ord n t) s = some zs) :
    ∃ k ys, drainF (solveAt dfs pf (M + 1)) k (solveAt dfs pf (M + 1) (forceAns ord n t) s) = some ys ∧
      ((∀ y ∈ ys, y.panic = none) →
        (∀ y ∈ ys, WFS y ∧ Inv y ∧ ∀ γ, Sem NoI γ y → Sem NoI γ s) ∧
        (∀ γ, Sem NoI γ s → ∃ y ∈ ys, Sem NoI γ y) ∧
        ys.Pairwise fun a b => ∀ γ, ¬ (Sem NoI γ a ∧ Sem NoI γ b)) := by
  obtain ⟨xs, hz, pz⟩ := ref_perm dfs pf M _ _ _ _ h M
  obtain ⟨k, ys, hdr, py⟩ := drain_perm _ (topOK_solveAt dfs pf M) hz
  refine ⟨k, ys, hdr, fun hall => ?_⟩
  have hp' : zs.Perm ys := pz.trans py
  have := ((forceAns_labelOK dfs ho n t).1 N s zs w hi hp h fun y hy => hall y (hp'.mem_iff.1 hy)).perm hp'
  exact this

theorem flatMapM_blocks {α β : Type} {f : α → Option (List β)} : ∀ {xs : List α} {zs : List β},
    flatMapM f xs = some zs →
    ∃ blocks : List (List β), zs = blocks.flatten ∧ blocks.length = xs.length ∧
      ∀ (i : Nat) (h1 : i < xs.length) (h2 : i < blocks.length), f xs[i] = some blocks[i]
  | [], zs, h => by
    simp only [flatMapM, Option.some.injEq] at h
    subst h
    exact ⟨[], rfl, rfl, fun i h1 _ => by simp at h1⟩
  | x :: xs, zs, h => by
    obtain ⟨ys, ws, h1, h2, rfl⟩ := flatMapM_cons_some' h
    obtain ⟨bs, e, hl, hb⟩ := flatMapM_blocks h2
    refine ⟨ys :: bs, by simp [e], by simp [hl], fun i hi1 hi2 => ?_⟩
    cases i with
    | zero => simpa using h1
    | succ i => simpa using hb i (by simpa using hi1) (by simpa using hi2)

/-- PROGRAM + LABELLING, end to end (textbook order): run a constraint program (atoms under conjunction, `conde`,
    fresh) and then label a term.  If no delivered state is poisoned (the model's FUEL), the delivered states come
    in consecutive blocks, one per state `x` the program delivers, such that `x` describes exactly the solutions
    of one PATH of the program and its block partitions them: every solution of that path is described by
    exactly one state of the block.  (Each solution is returned once per disjunction path it satisfies.) -/
theorem C17_program_labelled {ord : Order} (ho : OrderOK ord) (dfs : Call → State → State × G) (N n nv : Nat)
    (p : FProg) (hok : p.OK) (t : Term) (zs : List State)
    (h : evalRef dfs (N + 1) (.conj (p.goal ord) (forceAns ord n t)) (State.empty nv) = some zs)
    (hall : ∀ z ∈ zs, z.panic = none) :
    ∃ xs : List State, ∃ blocks : List (List State),
      evalRef dfs N (p.goal ord) (State.empty nv) = some xs ∧ zs = blocks.flatten ∧ blocks.length = xs.length ∧
      ∀ (i : Nat) (h1 : i < xs.length) (h2 : i < blocks.length),
        (∃ path ∈ p.paths, ∀ γ, Sem NoI γ xs[i] ↔ ∀ a ∈ path, a.Sat γ) ∧
        (∀ y ∈ blocks[i], ∀ γ, Sem NoI γ y → Sem NoI γ xs[i]) ∧
        (∀ γ, Sem NoI γ xs[i] → ∃ y ∈ blocks[i], Sem NoI γ y) ∧
        blocks[i].Pairwise fun a b => ∀ γ, ¬ (Sem NoI γ a ∧ Sem NoI γ b) := by
  simp only [evalRef] at h
  cases hx : evalRef dfs N (p.goal ord) (State.empty nv) with
  | none => rw [hx] at h; simp at h
  | some xs =>
    rw [hx] at h
    simp only at h
    have hlab := forceAns_labelOK dfs ho n t
    obtain ⟨blocks, e, hl, hb⟩ := flatMapM_blocks h
    -- no intermediate state is poisoned: labelling lets a poisoned state through
    have hxs : ∀ x ∈ xs, x.panic = none := fun x hxm => by
      cases hpx : x.panic with
      | none => rfl
      | some site =>
        obtain ⟨ys, ey⟩ := flatMapM_some_of_mem h x hxm
        have : x ∈ ys := hlab.2.1 N x ys (by rw [hpx]; simp) ey
        have := hall x ((flatMapM_mem h x).2 ⟨x, hxm, ys, ey, this⟩)
        rw [hpx] at this; cases this
    refine ⟨xs, blocks, rfl, e, hl, fun i h1 h2 => ?_⟩
    have hxm : xs[i] ∈ xs := List.getElem_mem h1
    obtain ⟨path, hpth, hpost⟩ :=
      evalRef_paths_sound ord dfs p N (State.empty nv) xs (inv_empty nv) hx xs[i] hxm (hxs _ hxm)
    have hokp := FProg.paths_ok p hok path hpth
    have r := postAllF_sem ho path (State.empty nv) (wfs_empty nv) (inv_empty nv) hokp
    rw [hpost] at r
    have hbi := hb i h1 h2
    have part := hlab.1 N xs[i] blocks[i] r.1 r.2.1 (hxs _ hxm) hbi fun y hy =>
      hall y ((flatMapM_mem h y).2 ⟨xs[i], hxm, blocks[i], hbi, hy⟩)
    exact ⟨⟨path, hpth, fd_exact_ok ho nv path hokp xs[i] hpost⟩,
      fun y hy γ hs => (part.1 y hy).2.2 γ hs, part.2.1, part.2.2⟩

section Examples
attribute [local instance] Mode.strict
/-- non-vacuity: after `x in {1, 2, 4}, x != 2` the state meets the hypotheses (x unbound with a domain), and
    labelling delivers the two states x = 1 and x = 4 -/
private def stL : Res State :=
  (domFd Order.default (State.empty 1) (.var 0) (.sparse [1, 2, 4])).bind fun s => postCst Order.default s (.diseqfd (.var 0) (Term.num 2))
example : (match stL with
    | .ok s => (s.σ 0 == Term.var 0) && (s.dget 0 == some (.sparse [1, 4])) && s.panic.isNone
    | _ => false) = true := by decide
/-- non-vacuity of `C17_label_term_exactly_once`: x, y in 1..=2 with x != y; labelling the list term [x, y] finishes
    on the textbook semantics with the two states x = 1, y = 2 and x = 2, y = 1, none of them poisoned -/
private def stL2 : Res State :=
  ((domFd Order.default (State.empty 2) (.var 0) (.interval 1 2)).bind fun s => domFd Order.default s (.var 1) (.interval 1 2)).bind
    fun s => postCst Order.default s (.diseqfd (.var 0) (.var 1))
example : (match stL2 with
    | .ok s => (match evalRef (fun _ st => (st, (Goal.fail : G))) 40 (forceAns Order.default 10 (Term.ofList [.var 0, .var 1])) s with
      | some zs => zs.map (fun z => (z.σ 0, z.σ 1, z.panic.isNone)) == [(Term.num 1, Term.num 2, true), (Term.num 2, Term.num 1, true)]
      | none => false)
    | _ => false) = true := by decide
end Examples

end Pv
