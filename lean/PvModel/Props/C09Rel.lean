/-
  C09 — DETERMINISTIC across hash seeds at the level of the whole answer SEQUENCE, for programs WITH RELATION CALLS.
-/
import PvModel.Proofs.TreeOrder2
import PvModel.Props.C09Sequence
namespace Pv
open Strm Goal State Term

/-- any program of `==`, `!=`, conjunction, `conde`, fresh and interleaving calls of member / member1 / append /
    rember / permute / distinct (any nesting; recursion with infinitely many answers included), any two
    iteration orders of the hash-based constraint store (two processes with different hash seeds), any nesting
    level of the solver: within ANY number `n` of engine steps the two runs deliver THE SAME NUMBER OF ANSWERS IN
    THE SAME ORDER, position by position with the same substitution (hence the same reified terms), the same
    described valuations (equivalent constraint sets) and the same fresh-variable counter — or one of the two
    runs exhausted the model's unification fuel, which leaves a FUEL-poisoned state in that run's stream. -/
theorem C09_sequence_order_free_rel {ord ord' : Order} (ho : OrderOK ord) (ho' : OrderOK ord') (pf M nv : Nat)
    (p : RProg) (w : p.WF nv) (hi : p.Inter) (n : Nat) :
    let xs := runF (solveAt (defs ord) pf (M + 1)) n (solveAt (defs ord) pf (M + 1) (p.goal ord) (State.empty nv))
    let xs' := runF (solveAt (defs ord') pf (M + 1)) n (solveAt (defs ord') pf (M + 1) (p.goal ord') (State.empty nv))
    (xs.length = xs'.length ∧ ∀ (i : Nat) (h : i < xs.length) (h' : i < xs'.length),
        xs[i].σ = xs'[i].σ ∧ xs[i].nextVar = xs'[i].nextVar ∧ ∀ γ, StateSem γ xs[i] ↔ StateSem γ xs'[i]) ∨
      ∃ s, s.panic.isSome = true ∧
        (MemS (solveAt (defs ord) pf (M + 1)) s (solveAt (defs ord) pf (M + 1) (p.goal ord) (State.empty nv)) ∨
         MemS (solveAt (defs ord') pf (M + 1)) s (solveAt (defs ord') pf (M + 1) (p.goal ord') (State.empty nv))) := by
  intro xs xs'
  rcases rel_sequence_order_free ho ho' pf M nv p w hi n with pw | b
  · exact .inl ⟨pw.length, fun i h h' => ⟨(pw.get i h h').tr.sig, (pw.get i h h').nv, (pw.get i h h').tr.sem⟩⟩
  · exact .inr b

section Examples
/-- non-vacuity: `x != 1, append(y, z, [1, 2]), member(x, y)` -/
private def prog09r : RProg :=
  .conj (.atom (.neq (.var 0) (Term.num 1)))
    (.conj (.call ⟨.append, [.var 1, .var 2, ofList [Term.num 1, Term.num 2]], false⟩) (.call ⟨.member, [.var 0, .var 1], false⟩))
example : prog09r.Inter := ⟨trivial, rfl, rfl⟩
example : prog09r.WF 3 := by
  refine ⟨⟨?_, ?_⟩, ⟨trivial, fun t ht => ?_⟩, ⟨trivial, fun t ht => ?_⟩⟩
  · exact below_var (by omega)
  · intro y hy; simp [Term.vars, Term.num] at hy
  · simp only [List.mem_cons, List.not_mem_nil, or_false] at ht
    rcases ht with rfl | rfl | rfl <;> intro y hy <;> simp [Term.vars, ofList, Term.num] at hy <;> omega
  · simp only [List.mem_cons, List.not_mem_nil, or_false] at ht
    rcases ht with rfl | rfl <;> intro y hy <;> simp [Term.vars] at hy <;> omega
end Examples

end Pv
