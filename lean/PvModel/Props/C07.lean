/-
  C07 — Interleaving disjunction is fair and productive.

  Model: `Stream::mplus` (argument swap), `bind`, `pause`, `delay`, `step`, `Solver::next`; `Conde`, `Anyo`
  (`loop`), `always = loop { true }`, `never = loop { false }` (Model/Stream.lean).  Generic in the state type.
  `MemS top a s`: `a` is an answer of the possibly infinite, possibly diverging stream `s`;
  `runF top n s`: the answers `Solver::next` delivers within `n` engine steps.
-/
import PvModel.Proofs.Stream
import PvModel.Proofs.Always
namespace Pv
open Strm Goal

variable {St K : Type}

/-- FAIRNESS (full: disjunctions nested under conjunctions, `bind` included): every answer of an
    interleaving stream is delivered by `Solver::next` after finitely many steps — however many other
    branches produce infinitely many answers or diverge silently. -/
theorem C07_fair (defs : K → St → St × Goal St K) (top : Goal St K → St → Strm St K) (hT : TopOK top)
    (hTop : ∀ g a, BfsG defs g → BfsS defs (top g a)) {s : Strm St K} {a : St}
    (hs : BfsS defs s) (h : MemS top a s) : ∃ n, a ∈ runF top n s := fair defs top hT hTop hs h

/-- The property's statement for a disjunction: an answer that ONE branch (clause) delivers on its own
    after finitely many steps is delivered by the whole `conde { A, B }` after finitely many steps,
    whatever the other branch does. -/
theorem C07_branch (defs : K → St → St × Goal St K) (pf M : Nat) (A B : Goal St K) (a b : St)
    (hD : BfsDefs defs) (hA : BfsG defs A) (hB : BfsG defs B) :
    ((∃ n, b ∈ runF (solveAt defs pf (M + 1)) n (solveAt defs pf (M + 1) A a)) ∨
     (∃ n, b ∈ runF (solveAt defs pf (M + 1)) n (solveAt defs pf (M + 1) B a))) →
    ∃ m, b ∈ runF (solveAt defs pf (M + 1)) m (solveAt defs pf (M + 1) (.alt A B) a) := by
  intro h
  have hT := topOK_solveAt defs pf M
  have hTop : ∀ g a, BfsG defs g → BfsS defs (solveAt defs pf (M + 1) g a) :=
    fun g a hg => solveAt_bfs defs hD pf (M + 1) g a hg
  apply C07_fair defs _ hT hTop (solveAt_bfs defs hD pf (M + 1) _ a (.alt hA hB))
  show MemS _ b (Strm.mplus (start defs _ pf A a) (.delay (start defs _ pf B a)))
  rw [mem_mplus_iff]
  rcases h with ⟨n, hn⟩ | ⟨n, hn⟩
  · exact .inl (runF_sound _ hT n _ b hn)
  · exact .inr (memL_delay_iff.2 (runF_sound _ hT n _ b hn))

/-- Whole programs, RECURSIVE RELATIONS INCLUDED: when every relation body and the query are built from the
    interleaving operators (`BfsDefs` does not unfold calls, so a relation may call itself or any other),
    every answer of the program — every state the search tree contains — is delivered by `Solver::next`
    after finitely many steps, at every solver nesting level. -/
theorem C07_program (defs : K → St → St × Goal St K) (pf M : Nat) (hD : BfsDefs defs) (g : Goal St K) (a b : St)
    (hg : BfsG defs g) (h : MemS (solveAt defs pf (M + 1)) b (solveAt defs pf (M + 1) g a)) :
    ∃ n, b ∈ runF (solveAt defs pf (M + 1)) n (solveAt defs pf (M + 1) g a) :=
  C07_fair defs _ (topOK_solveAt defs pf M) (fun g a hg => solveAt_bfs defs hD pf (M + 1) g a hg)
    (solveAt_bfs defs hD pf (M + 1) g a hg) h

/-- `conde { never(), q == 1 }` yields its answer within 12 steps although the first clause diverges silently. -/
theorem C07_never (defs : K → St → St × Goal St K) (pf M : Nat) (f : St → Option St) (a b : St) (hf : f a = some b) :
    b ∈ runF (solveAt defs pf (M + 1)) 12
      (solveAt defs pf (M + 1) (condeOfClauses [[.anyo .fail], [.atom f]]) a) :=
  never_then_answer defs pf M f a b hf

/-- `conde { [always(), A], [always(), B] }` yields the answer of EACH clause infinitely often: after any
    number `n` of engine steps, both are delivered again within finitely many further steps
    (the stream is periodic with period 12 from step 3 on, and each period delivers both). -/
theorem C07_always (defs : K → St → St × Goal St K) (pf M : Nat) (f1 f2 : St → Option St) (a b1 b2 : St)
    (h1 : f1 a = some b1) (h2 : f2 a = some b2) (n : Nat) :
    (∃ m, b1 ∈ runF (solveAt defs pf (M + 1)) m
        (afterF (solveAt defs pf (M + 1)) n (solveAt defs pf (M + 1) (alwaysConde f1 f2) a))) ∧
    (∃ m, b2 ∈ runF (solveAt defs pf (M + 1)) m
        (afterF (solveAt defs pf (M + 1)) n (solveAt defs pf (M + 1) (alwaysConde f1 f2) a))) := by
  obtain ⟨hp, hb1, hb2⟩ := alwaysConde_period defs pf M f1 f2 a b1 b2 h1 h2
  exact ⟨periodic_again _ _ 3 12 (by omega) hp b1 hb1 n, periodic_again _ _ 3 12 (by omega) hp b2 hb2 n⟩

/-- what "delivered again after step n" means: a run of `n + m` steps is the run of `n` steps followed by
    the run of `m` steps on the stream that remains -/
theorem C07_run_split (top : Goal St K → St → Strm St K) (n m : Nat) (s : Strm St K) :
    runF top (n + m) s = runF top n s ++ runF top m (afterF top n s) := runF_add top n m s

/-- Not vacuous: under depth-first search the same shape of disjunction starves — a first clause that
    diverges silently prevents the second clause's answer for every number of steps. -/
theorem C07_dfs_unfair_witness (defs : K → St → St × Goal St K) (pf M : Nat) (k : K)
    (hk : ∀ a, defs k a = (a, .fresh (.call k))) (f : St → Option St) (a : St) (n : Nat) :
    runF (solveAt defs pf (M + 1)) n
      (solveAt defs pf (M + 1) (.altD (.fresh (.call k)) (.altD (.atom f) .fail)) a) = [] :=
  dfs_starves defs pf M k hk f a n

section Examples
private def defs0 : Unit → Nat → Nat × Goal Nat Unit := fun _ a => (a, .fresh (.call ()))
/-- a diverging relation call in the first clause, an answer in the second: delivered -/
example : 7 ∈ runF (solveAt defs0 5 3) 20
    (solveAt defs0 5 3 (condeOfClauses [[.call ()], [.atom fun _ => some 7]]) 0) := by decide
example : runF (solveAt defs0 5 3) 60 (solveAt defs0 5 3 (alwaysConde (fun a => some (a + 1)) (fun a => some (a + 2))) 0)
    = [1, 2, 1, 2, 1, 2, 1, 2, 1] := by decide
/-- the hypotheses of `C07_program` are met by a self-recursive relation with infinitely many answers
    (`nat(x) :- x = a ; fresh … nat(x+1)`): its body is interleaving, calls are not unfolded -/
private def defsR : Unit → Nat → Nat × Goal Nat Unit :=
  fun _ a => (a + 1, .alt (.atom fun a => some a) (.alt (.fresh (.call ())) .fail))
example : BfsDefs defsR := fun _ _ => .alt (.atom _) (.alt (.fresh .call) .fail)
example : runF (solveAt defsR 5 3) 40 (solveAt defsR 5 3 (.call ()) 0) = [1, 2, 3, 4, 5, 6, 7, 8, 9, 10] := by decide
end Examples

end Pv
