/-
  C12 — for/everyg is the conjunction of its body over the collection.

  Model: `Everyg::solve` builds `InferredConj::from_iter(coll.map(g))` and solves it: `Goal.conjOfIter`
  (folds left, so the conjunction is built in REVERSE collection order, `succeed` innermost).
-/
import PvModel.Proofs.Stream
import PvModel.Props.C04
namespace Pv
open Goal Strm

variable {St K : Type}

theorem conjOfIter_aux (gs : List (Goal St K)) (p : Goal St K) :
    gs.foldl (fun p g => mkConj g p) p = gs.reverse.foldr (fun g p => mkConj g p) p := by
  induction gs generalizing p with
  | nil => rfl
  | cons g gs ih =>
    rw [List.foldl_cons, ih, List.reverse_cons, List.foldr_append]
    rfl

theorem conjOfList_foldr (gs : List (Goal St K)) : conjOfList gs = gs.foldr (fun g p => mkConj g p) .succeed := by
  induction gs with
  | nil => rfl
  | cons g gs ih => rw [conjOfList, ih]; rfl

/-- `for x in coll { body }` IS the explicit conjunction of the bodies, taken in reverse collection order -/
theorem C12_def (gs : List (Goal St K)) : conjOfIter gs = conjOfList gs.reverse := by
  rw [conjOfIter, conjOfIter_aux, conjOfList_foldr]

/-- an empty collection succeeds exactly once, leaving the state as it is -/
theorem C12_empty (defs : K → St → St × Goal St K) (top : Goal St K → St → Strm St K) (pf : Nat) (a : St) :
    start defs top pf (conjOfIter ([] : List (Goal St K))) a = .unit a := by
  simp [conjOfIter, start]

/-- one element: the body itself (its answers, nothing else) -/
theorem C12_single (g : Goal St K) (hs : g.isSucceed = false) (hf : g.isFail = false) :
    conjOfIter [g] = .conj g .succeed := by
  show mkConj g .succeed = _
  unfold mkConj
  rw [hs, hf]
  rfl

/-- the same multiset of answers as the forward conjunction, for ==/!= bodies: the two differ only in the
    order of the conjuncts (C04_tree) -/
theorem C12_answers_tree (o1 o2 : Order) (h1 : OrderOK o1) (h2 : OrderOK o2) (n : Nat) (as : List TAtom) :
    (∀ s1 s2, postAll o1 (State.empty n) as = .ok s1 → postAll o2 (State.empty n) as.reverse = .ok s2 →
        ∀ γ : Subst, StateSem γ s1 ↔ StateSem γ s2) ∧
    (∀ s1, postAll o1 (State.empty n) as = .ok s1 → postAll o2 (State.empty n) as.reverse = .fail →
        ∀ γ : Subst, ¬ StateSem γ s1) ∧
    (postAll o1 (State.empty n) as = .fail → ∀ s2, postAll o2 (State.empty n) as.reverse = .ok s2 →
        ∀ γ : Subst, ¬ StateSem γ s2) :=
  C04_tree o1 o2 h1 h2 n as as.reverse (List.reverse_perm as).symm

/-- a conjunction of constraint programs (the bodies of a `for`, one per element), right-nested -/
def conjProg : List FProg → FProg
  | [] => .succeed
  | p :: ps => .conj p (conjProg ps)

/-- its solutions: the valuations that are solutions of EVERY body -/
theorem fsols_conjProg (ps : List FProg) (γ : Subst) : FSols (conjProg ps) γ ↔ ∀ p ∈ ps, FSols p γ := by
  induction ps with
  | nil =>
    simp only [conjProg, List.not_mem_nil, false_imp_iff, implies_true, iff_true]
    exact ⟨[], by simp [FProg.paths], fun _ h => nomatch h⟩
  | cons p ps ih =>
    have hc : FSols (.conj p (conjProg ps)) γ ↔ (FSols p γ ∧ FSols (conjProg ps) γ) := by
      unfold FSols
      simp only [FProg.paths, List.mem_flatMap, List.mem_map]
      constructor
      · rintro ⟨_, ⟨x, hx, y, hy, rfl⟩, h⟩
        exact ⟨⟨x, hx, fun c hc => h c (List.mem_append.2 (.inl hc))⟩, ⟨y, hy, fun c hc => h c (List.mem_append.2 (.inr hc))⟩⟩
      · rintro ⟨⟨x, hx, h1⟩, ⟨y, hy, h2⟩⟩
        exact ⟨x ++ y, ⟨x, hx, y, hy, rfl⟩, fun c hc => (List.mem_append.1 hc).elim (h1 c) (h2 c)⟩
    simp only [conjProg, hc, ih, List.mem_cons, forall_eq_or_imp]

/-- `for` over constraint bodies (any nesting of conjunction / conde / fresh inside each body): building the
    conjunction in REVERSE collection order (what `Everyg` does, `C12_def`) has exactly the solutions of the
    forward conjunction — and of any other order of the elements -/
theorem C12_order_irrelevant (ps qs : List FProg) (h : ps.Perm qs) (γ : Subst) :
    FSols (conjProg ps) γ ↔ FSols (conjProg qs) γ := by
  rw [fsols_conjProg, fsols_conjProg]
  exact ⟨fun a p hp => a p (h.mem_iff.2 hp), fun a p hp => a p (h.mem_iff.1 hp)⟩

theorem C12_reverse (ps : List FProg) (γ : Subst) : FSols (conjProg ps.reverse) γ ↔ FSols (conjProg ps) γ :=
  C12_order_irrelevant ps.reverse ps (List.reverse_perm ps) γ

end Pv
