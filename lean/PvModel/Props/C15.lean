/-
  C15 — Fresh variables are distinct and renaming-invariant.

  Model: Model/Surface.lean — the macro translation `elabG` with the variable counter that `VarID::new`
  is made explicit: every `|x| { }` binder, every distinct name of a pattern arm and every `_` takes the
  next id.  (Closure bodies are elaborated when the goal is solved: each unfolding of a relation draws new
  ids from the state's counter — `defs`/`relBody` in Model/Goals.lean — so different invocations never
  share variables.)  PARTIAL: the global `AtomicUsize` itself is trusted.
-/
import PvModel.Proofs.Surface
import PvModel.Model.Goals
namespace Pv
namespace Surface

/-- FRESH: elaborating any clause from counter `n` returns a counter `n' ≥ n`, and every variable of the
    result is the image of a name that was in scope or an id in `[n, n')` allocated by this elaboration:
    nothing outside the clause can already mention the variables it introduces. -/
theorem C15_fresh (g : SGoal) (env : Env) (n : Nat) (e : EGoal) (n' : Nat) (h : elabG env g n = (e, n')) :
    n ≤ n' ∧ ∀ v ∈ e.vars, (∃ x, v = env x) ∨ (n ≤ v ∧ v < n') := elabG_scope g env n e n' h

/-- … so when the names in scope map below the counter, everything the clause mentions is below the new counter -/
theorem C15_below (g : SGoal) (env : Env) (n : Nat) (e : EGoal) (n' : Nat) (h : elabG env g n = (e, n'))
    (henv : ∀ x, env x < n) : ∀ v ∈ e.vars, v < n' := by
  obtain ⟨hle, hs⟩ := elabG_scope g env n e n' h
  intro v hv
  rcases hs v hv with ⟨x, rfl⟩ | ⟨_, h2⟩
  · exact Nat.lt_of_lt_of_le (henv x) hle
  · exact h2

/-- same-named binders in nested scopes are different variables; the inner one shadows the outer one -/
theorem C15_shadow (env : Env) (x : Name) (n : Nat) :
    (elabG env (.fresh x (.fresh x (.eq (.var x) (.var x)))) n).1
      = .fresh (.fresh (.eq (.var (n + 1)) (.var (n + 1)))) := by
  simp [elabG, elabT, Env.bind]

/-- same-named binders in sibling scopes (two clauses, two arms) are different variables -/
theorem C15_siblings (env : Env) (x : Name) (n : Nat) :
    (elabG env (.disj (.fresh x (.eq (.var x) .nil)) (.fresh x (.eq (.var x) .nil))) n).1
      = .disj (.fresh (.eq (.var n) .nil)) (.fresh (.eq (.var (n + 1)) .nil)) := by
  simp [elabG, elabT, Env.bind]

/-- RENAMING-INVARIANT: consistently renaming a bound variable (to a name that occurs nowhere in the
    clause) gives LITERALLY the same elaborated goal and the same counter — the elaborated goal contains
    variable ids, no names — hence the same answers. -/
theorem C15_alpha (g : SGoal) (env : Env) (x z : Name) (n : Nat) (hz : z ∉ g.allNames) :
    elabG env (.fresh z (g.rename x z)) n = elabG env (.fresh x g) n := by
  simp only [elabG]
  rw [elabG_rename g env x z n (n + 1) hz]

/-- … for pattern variables of a match arm too (renaming a pattern variable together with its uses in
    the arm body is renaming under the binder; stated for the body) -/
theorem C15_alpha_body (g : SGoal) (env : Env) (x z : Name) (k n : Nat) (hz : z ∉ g.allNames) :
    elabG (env.bind z k) (g.rename x z) n = elabG (env.bind x k) g n := elabG_rename g env x z k n hz

/-- different invocations of a relation: each call of a library relation draws its pattern variables from
    the state's counter, which it advances — two unfoldings never share a variable -/
theorem C15_invocations (ord : Order) (c : Call) (st : State) :
    (defs ord c st).1.nextVar = st.nextVar + (relBody ord c st.nextVar).1 := by
  simp only [defs]

section Examples
example : (elabG (fun _ => 0) (.mtch (.var 7) (.cons (.var 7) (.cons (.var 7) .any)) (.eq (.var 7) .nil) .ff) 1).1
    = .disj (.conj (.eq (.var 0) (.cons (.var 1) (.cons (.var 1) (.var 2)))) (.eq (.var 1) .nil)) .fail := by decide
end Examples

end Surface
end Pv
