/-
  C16 — "dstore: variable → FiniteDomain; BOUND VARIABLES MUST NOT KEEP A DOMAIN" (the state invariant the property is
  anchored in, src/state/mod.rs `State::dstore`).  Proofs/Tight.lean: through the whole re-entrant machine — propagators,
  nested `run_constraints`, `resolve_storable_domain`, `process_extension_fd` — no step leaves the domain of a variable it
  binds in the store.  Strict mode (no `distinctfd`); the atoms post no CLP(Z) constraint: `plusz`/`timesz` bind their
  operand with `smap.extend` and never look at the domain store (src/relation/clpz/plusz.rs), so a program that puts a
  finite domain AND a CLP(Z) constraint on the same variable can leave a stale entry — outside C16 (and C19) as stated,
  recorded in DESIGN.md.
-/
import PvModel.Proofs.Tight
namespace Pv
open State Term FD

section Strict
attribute [local instance] Mode.strict

/-- in every state reached by posting `infd` / `ltefd` / `plusfd` / `minusfd` / `timesfd` / `diseqfd` / `==` / `!=` atoms
    (any order, any aliasing, any hash-iteration order) every key of the domain store is an UNBOUND variable -/
theorem C16_domain_keys_unbound {ord : Order} (ho : OrderOK ord) (n : Nat) (as : List FAtom) (hok : ∀ a ∈ as, a.OK)
    (hnz : ∀ a ∈ as, a.NoZ) (st' : State) (h : postAllF ord (State.empty n) as = .ok st') :
    ∀ x d, st'.dget x = some d → st'.σ x = .var x := by
  intro x d hd
  exact ((fd_dk ho n as hok hnz st' h).1 x (by rw [hd]; rfl)).elim id (fun f => f.elim)

/-- `run_constraints`, at every nesting depth, from any well-formed state without CLP(Z) constraints: it leaves no new
    stale entry, creates no key and stores no propagator that was not stored -/
theorem C16_run_constraints_tight {ord : Order} (ho : OrderOK ord) (n : Nat) (st st' : State) (w : WFS st) (hi : Inv st)
    (hz : NoZ st) (h : runConstraintsF ord n st = .ok st') :
    (∀ y, (st'.dget y).isSome → st'.σ y ≠ .var y → (st.dget y).isSome ∧ st.σ y ≠ .var y) ∧
    (∀ y, (st'.dget y).isSome → (st.dget y).isSome) ∧
    (∀ p ∈ st'.store, p.2.isDiseq = false → ∃ q ∈ st.store, q.2 = p.2) := by
  have t := runConstraintsF_tight ho n st st' w hi hz h
  exact ⟨t.stale, t.mono, fun p hp hd => (t.sub p hp hd).elim id (fun f => f.elim)⟩

/-! Non-vacuity: `x in 1..3, y in 2..2, x == y` — the unification binds `x` to `y`, `process_extension_fd` moves the
    domain over and removes `x`'s entry; `y`'s singleton domain turned into a binding: the store is empty. -/
example : (match postAllF Order.default (State.empty 2)
      [.dom (.var 0) (.interval 1 3), .dom (.var 1) (.interval 2 2), .eq (.var 0) (.var 1)] with
    | .ok st => st.dstore.length == 0 && st.σ 0 == Term.num 2
    | _ => false) = true := by decide +kernel

end Strict
end Pv
