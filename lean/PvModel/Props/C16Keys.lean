/-
  C16 — "dstore: variable → FiniteDomain; BOUND VARIABLES MUST NOT KEEP A DOMAIN" (the state invariant the property is
  anchored in, src/state/mod.rs `State::dstore`).  Proofs/Tight.lean: through the whole re-entrant machine — propagators,
  nested `run_constraints`, `resolve_storable_domain`, `process_extension_fd` — no step leaves the domain of a variable it
  binds in the store.  Strict mode (no `distinctfd`); the atoms post no CLP(Z) constraint: `plusz`/`timesz` bind their
  operand with `smap.extend` and never look at the domain store (src/relation/clpz/plusz.rs), so a program that puts a
  finite domain AND a CLP(Z) constraint on the same variable can leave a stale entry — outside C16 (and C19) as stated,
  recorded in DESIGN.md.
-/
import PvModel.Proofs.Labelled
namespace Pv
open State Term FD

section Strict
attribute [local instance] Mode.strict

/-- in every state reached by posting `infd` / `ltefd` / `plusfd` / `minusfd` / `timesfd` / `diseqfd` / `==` / `!=` atoms
    (any order, any aliasing, any hash-iteration order) every key of the domain store is an UNBOUND variable -/
theorem C16_domain_keys_unbound {ord : Order} (ho : OrderOK ord) (n : Nat) (as : List FAtom) (hok : ∀ a ∈ as, a.OK)
    (hnz : ∀ a ∈ as, a.NoZ) (st' : State) (h : postAllF ord (State.empty n) as = .ok st') :
    ∀ x d, st'.dget x = some d → st'.σ x = .var x := by
  intro x d hd
  exact ((fd_dk ho n as hok hnz st' h).1 x (by rw [hd]; rfl)).elim id (fun f => f.elim)

/-- `run_constraints`, at every nesting depth, from any well-formed state without CLP(Z) constraints: it leaves no new
    stale entry, creates no key and stores no propagator that was not stored -/
theorem C16_run_constraints_tight {ord : Order} (ho : OrderOK ord) (n : Nat) (st st' : State) (w : WFS st) (hi : Inv st)
    (hz : NoZ st) (h : runConstraintsF ord n st = .ok st') :
    (∀ y, (st'.dget y).isSome → st'.σ y ≠ .var y → (st.dget y).isSome ∧ st.σ y ≠ .var y) ∧
    (∀ y, (st'.dget y).isSome → (st.dget y).isSome) ∧
    (∀ p ∈ st'.store, p.2.isDiseq = false → ∃ q ∈ st.store, q.2 = p.2) := by
  have t := runConstraintsF_tight ho n st st' w hi hz h
  exact ⟨t.stale, t.mono, fun p hp hd => (t.sub p hp hd).elim id (fun f => f.elim)⟩

/-- THE LABELLED ANSWER IS A SOLUTION (Proofs/Labelled.lean) — C16's statement for the states labelling leaves: post any atoms,
    then any labelling equalities `k == x` (the ones `force_ans` posts for the query term and `enforce_constraints_fd` for the
    remaining domain variables).  If before labelling every operand of every stored propagator was a number or a variable
    with a domain (`verify_all_bound` + the documented operand kinds) and after it every variable that had a domain is
    bound, then the domain store is EMPTY and NO PROPAGATOR is stored — the side conditions of `C16_ground_answer_sound`
    are theorems — and, when no tree disequality is stored, every posted atom and every labelling equality holds under the
    answer's own substitution: "each constrained variable is an integer from its domain; that integer assignment satisfies
    every posted finite-domain constraint". -/
theorem C16_labelled_answer_sound {ord : Order} (ho : OrderOK ord) (n : Nat) (as : List FAtom) (hok : ∀ a ∈ as, a.OK)
    (hnz : ∀ a ∈ as, a.NoZ) (ls : List (Int × Nat)) (st st' : State)
    (h1 : postAllF ord (State.empty n) as = .ok st) (hops : OpsOK st)
    (h2 : postAllF ord st (labelAtoms ls) = .ok st')
    (hall : ∀ y, (st.dget y).isSome → st'.σ y ≠ .var y) :
    st'.dstore = [] ∧ (∀ p ∈ st'.store, p.2.isDiseq = true) ∧
      (st'.store = [] → ∀ a ∈ as ++ labelAtoms ls, a.Sat st'.σ) :=
  labelled_answer_sound ho n as hok hnz ls st st' h1 hops h2 hall

/-- one labelling step `k == x` from any well-formed state whose domain-store keys are unbound: the substitution grows,
    an unbound variable stays unbound (keeping its domain) or becomes a NUMBER, no key and no propagator is new, and the
    keys of the domain store are unbound again -/
theorem C16_label_step {ord : Order} (ho : OrderOK ord) (st st' : State) (w : WFS st) (hi : Inv st) (hz : NoZ st)
    (hdk : ∀ y, (st.dget y).isSome → st.σ y = .var y) (k : Int) (x : Nat)
    (h : unify ord st (Term.num k) (.var x) = .ok st') :
    (∀ y, (st'.dget y).isSome → st'.σ y = .var y) ∧
    (∀ y, st.σ y = .var y → st'.σ y = .var y ∨ ∃ m, st'.σ y = Term.num m) ∧
    (∀ y, (st'.dget y).isSome → (st.dget y).isSome) ∧
    (∀ p ∈ st'.store, p.2.isDiseq = false → ∃ q ∈ st.store, q.2 = p.2) := by
  obtain ⟨_, _, _, d', _, k', m', u', _⟩ := label_step ho w hi hz (fun y hy => .inl (hdk y hy)) k x h
  exact ⟨fun y hy => (d' y hy).elim id (fun f => f.elim), k'.numonly, m', fun p hp hd => (u' p hp hd).elim id (fun f => f.elim)⟩

/-! Non-vacuity of the labelled-answer theorem: `x, y in 1..3, x + y = z, z in 4..4` then `3 == x`: propagation binds `y`
    (and `z` was a singleton): nothing is pending. -/
example : (match postAllF Order.default (State.empty 3)
      [.dom (.var 0) (.interval 1 3), .dom (.var 1) (.interval 1 3), .dom (.var 2) (.interval 4 4), .cst (.plusfd (.var 0) (.var 1) (.var 2))] with
    | .ok st =>
      (match postAllF Order.default st (labelAtoms [(3, 0)]) with
       | .ok st' => st'.dstore.length == 0 && st'.store.length == 0 && st'.σ 1 == Term.num 1 && st.dstore.length == 2 && st.store.length == 1
       | _ => false)
    | _ => false) = true := by decide +kernel

/-! Non-vacuity: `x in 1..3, y in 2..2, x == y` — the unification binds `x` to `y`, `process_extension_fd` moves the
    domain over and removes `x`'s entry; `y`'s singleton domain turned into a binding: the store is empty. -/
example : (match postAllF Order.default (State.empty 2)
      [.dom (.var 0) (.interval 1 3), .dom (.var 1) (.interval 2 2), .eq (.var 0) (.var 1)] with
    | .ok st => st.dstore.length == 0 && st.σ 0 == Term.num 2
    | _ => false) = true := by decide +kernel

end Strict
end Pv
