/-
  C08 — Committed-choice operators keep exactly the committed answers.

  Model: `Solver::peek`, `Solver::trunc`, `Conda::solve`, `Condu::solve`, `onceo = condu { conj }`
  (Model/Stream.lean; `matcha`/`matchu` elaborate to the same operators on their arms).
  Generic in the state type.
-/
import PvModel.Proofs.Stream
import PvModel.Proofs.Always
namespace Pv
open Strm Goal

variable {St K : Type}

/-- `peek` only steps: it returns the head's stream after some `j ≤ n` SILENT steps (no answer was
    delivered, hence none dropped or duplicated), and that stream is mature. -/
theorem C08_peek (top : Goal St K → St → Strm St K) (n : Nat) (s s' : Strm St K) (h : peekF top n s = some s') :
    ∃ j, j ≤ n ∧ afterF top j s = s' ∧ runF top j s = [] ∧ s'.isMature = true := by
  induction n generalizing s with
  | zero =>
    cases s with
    | lazy l => simp [peekF] at h
    | empty => simp only [peekF, Option.some.injEq] at h; subst h; exact ⟨0, by simp [afterF, runF, isMature]⟩
    | unit b => simp only [peekF, Option.some.injEq] at h; subst h; exact ⟨0, by simp [afterF, runF, isMature]⟩
    | cons b l => simp only [peekF, Option.some.injEq] at h; subst h; exact ⟨0, by simp [afterF, runF, isMature]⟩
  | succ n ih =>
    cases s with
    | lazy l =>
      simp only [peekF] at h
      obtain ⟨j, hj, h1, h2, h3⟩ := ih _ h
      exact ⟨j + 1, by omega, by simpa [afterF] using h1, by simpa [runF] using h2, h3⟩
    | empty => simp only [peekF, Option.some.injEq] at h; subst h; exact ⟨0, by simp [afterF, runF, isMature]⟩
    | unit b => simp only [peekF, Option.some.injEq] at h; subst h; exact ⟨0, by simp [afterF, runF, isMature]⟩
    | cons b l => simp only [peekF, Option.some.injEq] at h; subst h; exact ⟨0, by simp [afterF, runF, isMature]⟩

/-- … so the SEQUENCE `Solver::next` produces from the peeked stream is the one it would have produced
    from the original stream. -/
theorem C08_peek_seq (top : Goal St K → St → Strm St K) (n : Nat) (s s' : Strm St K) (h : peekF top n s = some s') :
    ∃ j, j ≤ n ∧ ∀ m, runF top (j + m) s = runF top m s' := by
  obtain ⟨j, hj, h1, h2, _⟩ := C08_peek top n s s' h
  exact ⟨j, hj, fun m => by rw [runF_add, h1, h2, List.nil_append]⟩

/-- `trunc` keeps exactly the first answer `next` would return (engine order), or nothing if the stream is empty. -/
theorem C08_trunc (top : Goal St K → St → Strm St K) (n : Nat) (s : Strm St K) :
    (∀ a, truncF top n s = some (some a) → ∃ m s', nextF top m s = some (some (a, s'))) ∧
    (truncF top n s = some none → ∃ m, nextF top m s = some none) :=
  ⟨fun a h => truncF_first top n s a h, fun h => truncF_none top n s h⟩

/-- `conda`, definitional form (also for INFINITE heads): once `peek` of the head returns, the clause list
    is the head's own stream (every head answer, in order, each once — `C08_peek`) bound to the rest when
    the head has an answer, and otherwise exactly the remaining clauses.  Nothing of later clauses is mixed in. -/
theorem C08_conda (defs : K → St → St × Goal St K) (top : Goal St K → St → Strm St K) (pf : Nat)
    (f r nx : Goal St K) (a : St) (s' : Strm St K) (h : peekF top pf (start defs top pf f a) = some s') :
    start defs top pf (.conda f r nx) a =
      if s'.head?.isSome then Strm.bind s' r else start defs top pf nx a := by
  simp only [start, h]

/-- `conda` with a finite head: all head answers are kept (a permutation of the reference list, each once)
    and continued with the rest; an empty head passes to the next clause. -/
theorem C08_conda_commit (defs : K → St → St × Goal St K) (top : Goal St K → St → Strm St K) (pf : Nat)
    (hT : TopOK top) (f r nx : Goal St K) (a : St) (hs : List St) (hne : hs ≠ [])
    (hf : AnsS top (start defs top pf f a) hs) (hpf : peekF top pf (start defs top pf f a) ≠ none) :
    ∃ hs', hs.Perm hs' ∧
      ∀ zs, AnsB top r hs' zs → ∃ ws, AnsS top (start defs top pf (.conda f r nx) a) ws ∧ zs.Perm ws :=
  conda_commit defs top pf hT f r nx a hs hne hf hpf

theorem C08_conda_skip (defs : K → St → St × Goal St K) (top : Goal St K → St → Strm St K) (pf : Nat)
    (hT : TopOK top) (f r nx : Goal St K) (a : St)
    (hf : AnsS top (start defs top pf f a) []) (hpf : peekF top pf (start defs top pf f a) ≠ none) :
    start defs top pf (.conda f r nx) a = start defs top pf nx a := conda_skip defs top pf hT f r nx a hf hpf

/-- `condu`: exactly the first head answer in engine order is kept (also when it appears only after
    lazy steps, also for an infinite head), bound to the rest; no head answer passes to the next clause. -/
theorem C08_condu (defs : K → St → St × Goal St K) (top : Goal St K → St → Strm St K) (pf : Nat)
    (f r nx : Goal St K) (a : St) :
    (∀ b, truncF top pf (start defs top pf f a) = some (some b) →
        start defs top pf (.condu f r nx) a = Strm.bind (.unit b) r ∧
        ∃ m s', nextF top m (start defs top pf f a) = some (some (b, s'))) ∧
    (truncF top pf (start defs top pf f a) = some none →
        start defs top pf (.condu f r nx) a = start defs top pf nx a) :=
  ⟨fun b h => condu_commit defs top pf f r nx a b h, fun h => condu_skip defs top pf f r nx a h⟩

/-- `onceo { g }`: no answer if g has none, otherwise exactly one: g's first answer in engine order. -/
theorem C08_onceo (defs : K → St → St × Goal St K) (top : Goal St K → St → Strm St K) (pf : Nat)
    (gs : List (Goal St K)) (a : St) :
    (∀ b, truncF top pf (start defs top pf (conjOfList gs) a) = some (some b) →
        start defs top pf (Goal.onceo gs) a = .unit b ∧
        ∃ m s', nextF top m (start defs top pf (conjOfList gs) a) = some (some (b, s'))) ∧
    (truncF top pf (start defs top pf (conjOfList gs) a) = some none →
        start defs top pf (Goal.onceo gs) a = .empty) :=
  ⟨fun b h => ⟨(onceo_spec defs top pf gs a).1 b h, truncF_first top pf _ b h⟩, (onceo_spec defs top pf gs a).2⟩

section Examples
private def defs0 : Unit → Nat → Nat × Goal Nat Unit := fun _ a => (a, .fail)
private def two : Goal Nat Unit := .alt (.fresh (.atom fun a => some (a + 1))) (.alt (.atom fun a => some (a + 2)) .fail)
private def rest : Goal Nat Unit := .atom fun a => some (a * 10)
/-- conda keeps both head answers, condu only the first in engine order (here `2`, delivered before the lazily produced `1`) -/
example : runF (solveAt defs0 50 3) 40 (solveAt defs0 50 3 (.conda two rest (.atom fun _ => some 99)) 0) = [20, 10] := by decide
example : runF (solveAt defs0 50 3) 40 (solveAt defs0 50 3 (.condu two rest (.atom fun _ => some 99)) 0) = [20] := by decide
example : runF (solveAt defs0 50 3) 40 (solveAt defs0 50 3 (.conda .fail rest (.atom fun _ => some 99)) 0) = [99] := by decide
example : runF (solveAt defs0 50 3) 40 (solveAt defs0 50 3 (Goal.onceo [two]) 0) = [2] := by decide
end Examples

end Pv
