/-
  C11 — `project` sees the current value of projected variables in every branch.

  Model of the INTENDED semantics (`projectG`): when a state reaches `project |x..| { body }`, the body is
  the body text with every projected variable standing for `apply st.σ x` — the fully walked value in THAT
  state — and it is solved at once on that state (`Project::solve` walks*, then `self.body.solve`).  In the
  model this is a `dyn` goal: a function of the reaching state only, so every reaching state, in every
  branch, however late it is resumed, gets its own values.

  The IMPLEMENTATION realises this with one shared projection cell per variable that the first reaching
  state overwrites in place (an `unsafe` write); a second reaching state finds the cell already overwritten
  and panics (`src/lterm.rs:143`).  That is KNOWN FINDING D16: recorded, not repaired (the repair changes
  how `Project` receives its body — a per-solve closure — and is not a small patch).  The theorems below are
  about the intended semantics; `C11_once_partial` is the statement the implementation meets: programs in
  which at most one state reaches each project goal (checked by the correspondence), and the model/oracle
  pair reports any OTHER deviation (wrong value, different panic) as a new violation.
-/
import PvModel.Proofs.Stream
import PvModel.Model.Goals
namespace Pv
open Goal Strm

/-- `project |x..| { body }` with the body given as a function of the projected values -/
def projectG (xs : List Term) (body : List Term → G) : G :=
  .dyn id (fun st => body (xs.map (apply st.σ)))

/-- the body runs, at once, on the reaching state, with every projected variable standing for its fully
    walked value in THAT state -/
theorem C11_current_value (defs : Call → State → State × G) (top : G → State → Strm State Call) (pf : Nat)
    (xs : List Term) (body : List Term → G) (st : State) :
    start defs top pf (projectG xs body) st = start defs top pf (body (xs.map (apply st.σ))) st := by
  simp only [projectG, start, id]

/-- every state that reaches the goal gets ITS OWN values: two reaching states with different bindings
    start from bodies instantiated differently (nothing is shared between them) -/
theorem C11_every_state (defs : Call → State → State × G) (top : G → State → Strm State Call) (pf : Nat)
    (xs : List Term) (body : List Term → G) (s1 s2 : State) :
    start defs top pf (projectG xs body) s1 = start defs top pf (body (xs.map (apply s1.σ))) s1 ∧
    start defs top pf (projectG xs body) s2 = start defs top pf (body (xs.map (apply s2.σ))) s2 :=
  ⟨C11_current_value defs top pf xs body s1, C11_current_value defs top pf xs body s2⟩

/-- the projected value is the FULLY walked one: a variable nested inside the value that is bound in the
    reaching state is replaced by its binding (walk*, not walk) -/
theorem C11_walk_star (σ : Subst) (hs : Solved σ) (t : Term) : apply σ (apply σ t) = apply σ t := by
  induction t with
  | var x => exact hs x
  | val v => rfl
  | nil => rfl
  | cons h t ih1 ih2 => simp only [apply, ih1, ih2]
  | comp g a ih => simp only [apply, ih]

/-- resumed later: a paused project goal is stepped with the state it was paused with — the value it sees
    does not depend on what other branches did in between -/
theorem C11_resumed (defs : Call → State → State × G) (pf M : Nat) (xs : List Term) (body : List Term → G) (st : State) :
    step (solveAt defs pf (M + 1)) (.pause st (projectG xs body))
      = start defs (solveAt defs pf M) pf (body (xs.map (apply st.σ))) st := by
  simp only [step, solveAt, projectG, start, id]

/-- PARTIAL (what the implementation meets, D16): when the project goal is reached by one state, the
    answers are those of the body instantiated with that state's values -/
theorem C11_once_partial (defs : Call → State → State × G) (top : G → State → Strm State Call) (pf : Nat)
    (xs : List Term) (body : List Term → G) (st : State) (ys : List State)
    (h : AnsS top (start defs top pf (body (xs.map (apply st.σ))) st) ys) :
    AnsS top (start defs top pf (projectG xs body) st) ys := by
  rw [C11_current_value]; exact h

section Examples
open Term
private def o : Order := Order.default
/-- `x == [a, b], a == 2, b == 3, project |x| { isground(x), q == x }`: the body sees `[2, 3]` -/
example : (match (((State.unify o (State.empty 4) (.var 1) (.cons (.var 2) (.cons (.var 3) .nil))).bind fun st =>
      State.unify o st (.var 2) (num 2)).bind fun st => State.unify o st (.var 3) (num 3)) with
    | .ok st => apply st.σ (.var 1) == .cons (num 2) (.cons (num 3) .nil) | _ => false) = true := by decide
end Examples

end Pv
