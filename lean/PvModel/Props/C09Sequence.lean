/-
  C09 — DETERMINISTIC at the level of the whole answer SEQUENCE, for any two hash-iteration orders.
-/
import PvModel.Proofs.TreeOrder
namespace Pv
open Strm Goal

theorem Pointwise.length {St : Type} {R : St → St → Prop} : ∀ {l l' : List St}, Pointwise R l l' → l.length = l'.length
  | _, _, .nil => rfl
  | _, _, .cons _ h => by simp [Pointwise.length h]

theorem Pointwise.get {St : Type} {R : St → St → Prop} : ∀ {l l' : List St}, Pointwise R l l' →
    ∀ (i : Nat) (h : i < l.length) (h' : i < l'.length), R l[i] l'[i]
  | _, _, .cons r _, 0, _, _ => r
  | _, _, .cons _ t, i + 1, h, h' => Pointwise.get t i (by simpa using h) (by simpa using h')

/-- DETERMINISTIC ACROSS HASH SEEDS, SEQUENCE LEVEL: take any program of `==`, `!=`, conjunction, `conde` and
    fresh (any nesting, no literal `fail` goal) and any two iteration orders of the hash-based constraint store
    (`ord`, `ord'`: two processes with different hash seeds).  Run by the interleaving engine at any nesting
    level, the two runs deliver within any number `n` of engine steps THE SAME NUMBER OF ANSWERS IN THE SAME
    ORDER: position by position the two states have the same substitution (hence the same reified terms) and
    describe the same valuations (equivalent constraint sets) — or one of the two runs exhausted the MODEL's
    unification fuel, which leaves a poisoned state among that run's answers (the driver prints FUEL for it; the
    correspondence check treats FUEL as inconclusive). -/
theorem C09_sequence_order_free {ord ord' : Order} (ho : OrderOK ord) (ho' : OrderOK ord')
    (dfs dfs' : Call → State → State × G) (pf M nv : Nat) (p : FProg) (hp : p.TreeNF) (n : Nat) :
    let xs := runF (solveAt dfs pf (M + 1)) n (solveAt dfs pf (M + 1) (p.goal ord) (State.empty nv))
    let xs' := runF (solveAt dfs' pf (M + 1)) n (solveAt dfs' pf (M + 1) (p.goal ord') (State.empty nv))
    (xs.length = xs'.length ∧ ∀ (i : Nat) (h : i < xs.length) (h' : i < xs'.length),
        xs[i].σ = xs'[i].σ ∧ ∀ γ, StateSem γ xs[i] ↔ StateSem γ xs'[i]) ∨
      ∃ s, s.panic.isSome = true ∧
        (MemS (solveAt dfs pf (M + 1)) s (solveAt dfs pf (M + 1) (p.goal ord) (State.empty nv)) ∨
         MemS (solveAt dfs' pf (M + 1)) s (solveAt dfs' pf (M + 1) (p.goal ord') (State.empty nv))) := by
  intro xs xs'
  rcases tree_sequence_order_free ho ho' dfs dfs' pf M nv p hp n with pw | b
  · exact .inl ⟨pw.length, fun i h h' => ⟨(pw.get i h h').sig, (pw.get i h h').sem⟩⟩
  · exact .inr b

/-- the same for the complete answer lists of two terminating runs: same length, same order, same
    substitutions, same described valuations — unless a FUEL-poisoned state is in one of the lists -/
theorem C09_answers_order_free {ord ord' : Order} (ho : OrderOK ord) (ho' : OrderOK ord')
    (dfs dfs' : Call → State → State × G) (pf M nv : Nat) (p : FProg) (hp : p.TreeNF) (k k' : Nat) (ys ys' : List State)
    (h : drainF (solveAt dfs pf (M + 1)) k (solveAt dfs pf (M + 1) (p.goal ord) (State.empty nv)) = some ys)
    (h' : drainF (solveAt dfs' pf (M + 1)) k' (solveAt dfs' pf (M + 1) (p.goal ord') (State.empty nv)) = some ys') :
    (ys.length = ys'.length ∧ ∀ (i : Nat) (h : i < ys.length) (h' : i < ys'.length),
        ys[i].σ = ys'[i].σ ∧ ∀ γ, StateSem γ ys[i] ↔ StateSem γ ys'[i]) ∨
      ∃ s, s.panic.isSome = true ∧ (s ∈ ys ∨ s ∈ ys') := by
  rcases tree_answers_order_free ho ho' dfs dfs' pf M nv p hp k k' ys ys' h h' with pw | b
  · exact .inl ⟨pw.length, fun i h h' => ⟨(pw.get i h h').sig, (pw.get i h h').sem⟩⟩
  · exact .inr b

section Examples
/-- the reversed iteration order -/
private def ordRev : Order := { cs := List.reverse, ps := List.reverse, ds := List.reverse }
example : OrderOK ordRev := ⟨fun l => List.reverse_perm l, fun l => List.reverse_perm l, fun l => List.reverse_perm l⟩
example : OrderOK Order.default := ⟨fun l => .refl l, fun l => .refl l, fun l => .refl l⟩

/-- non-vacuity: `x != 1, y != 2, conde { x == 3 ; y == 4 ; [x, y] == [1, 5] }` holds two disequalities in the
    store when the clauses run, so the two orders visit them differently; both runs terminate with two
    unpoisoned answers -/
private def prog09 : FProg :=
  .conj (.atom (.neq (.var 0) (Term.num 1))) (.conj (.atom (.neq (.var 1) (Term.num 2)))
    (.alt (.atom (.eq (.var 0) (Term.num 3))) (.alt (.atom (.eq (.var 1) (Term.num 4)))
      (.atom (.eq (.cons (.var 0) (.cons (.var 1) .nil)) (.cons (Term.num 1) (.cons (Term.num 5) .nil)))))))
private def defs09 : Call → State → State × G := fun _ a => (a, .fail)
example : prog09.TreeNF := ⟨trivial, trivial, trivial, trivial, trivial⟩
example : (drainF (solveAt defs09 5 1) 40 (solveAt defs09 5 1 (prog09.goal Order.default) (State.empty 2))).map
    (fun ys => ys.map fun s => s.panic.isSome) = some [false, false] := by decide
example : (drainF (solveAt defs09 5 1) 40 (solveAt defs09 5 1 (prog09.goal ordRev) (State.empty 2))).map
    (fun ys => ys.map fun s => s.panic.isSome) = some [false, false] := by decide
end Examples

end Pv
