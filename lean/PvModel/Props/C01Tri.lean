/-
  C01 — the TRIANGULAR algorithm the code runs (Model/Triangular.lean: `SMap` as a list of bindings whose right-hand
  sides are only top-level walked, `walk` following chains, `occurs_check` and `walk_star` walking at every level,
  `unify_rec` case for case) REFINES the solved-form model `unifyF` about which the other C01 theorems are stated.
  (DESIGN.md 4.3 used to list "triangular vs. solved-form substitution" as modelled, tied by the correspondence only.)

  `absT τ` is the solved form `τ` stands for; `TriOK τ` the invariant of `unify_rec` (reachable: `C01_tri_reachable`,
  kept: `C01_tri_refines`).  All theorems: every `τ` with the invariant, all terms, all fuels.
-/
import PvModel.Proofs.Triangular
import PvModel.Props.C01
namespace Pv
open Term

/-- the empty substitution has the invariant and stands for the identity -/
theorem C01_tri_reachable : TriOK [] ∧ absT [] = Subst.id := ⟨.nil, rfl⟩

/-- `SMap::walk` terminates within `length + 1` lookups — there is no cyclic chain of bindings — and returns a term that
    is not a bound variable, has the meaning of the walked term, and is the term itself when that is not a variable -/
theorem C01_tri_walk (τ : TSub) (h : TriOK τ) (u : Term) :
    ∃ w, walkT (τ.length + 1) τ u = some w ∧ apply (absT τ) w = apply (absT τ) u ∧
      (∀ y, w = .var y → τ.get y = none) ∧ (u.isVar = false → w = u) := by
  obtain ⟨w, hw, sp⟩ := walkT_spec h u
  exact ⟨w, hw, sp.sem, sp.walked, sp.nonvar⟩

/-- `SMap::walk_star` terminates (fuel: the size of its result) and computes the solved form's `apply` — what an answer
    reports under the triangular substitution is what the model reports under the solved form -/
theorem C01_tri_walk_star (τ : TSub) (h : TriOK τ) (n : Nat) (t : Term) (hn : size (apply (absT τ) t) ≤ n) :
    walkStarT n τ t = some (apply (absT τ) t) := walkStarT_spec h n t hn

/-- `SMap::occurs_check(x, t)` terminates and is `x ∈ walk_star t`; with any fuel on which it answers, that is its answer -/
theorem C01_tri_occurs (τ : TSub) (h : TriOK τ) (x n : Nat) (t : Term) :
    (size (apply (absT τ) t) ≤ n → occursT n τ x t = some (occurs x (apply (absT τ) t))) ∧
    (∀ b, occursT n τ x t = some b → b = occurs x (apply (absT τ) t)) :=
  ⟨occursT_spec h x n t, fun b hb => occursT_sound h x n t b hb⟩

/-- REFINEMENT.  Whatever `unify_rec` answers on `τ`, the solved-form model answers on `absT τ`: failure for failure; on
    success the new triangular substitution is the old one with the new bindings in front, keeps the invariant, STANDS
    FOR the model's new solved form, and the extension lists correspond binding for binding (`extF`: the model stores
    the walk-starred right-hand side, the code the walked one). -/
theorem C01_tri_refines (k n : Nat) (τ eT : TSub) (eF : Ext1) (u v : Term) (h : TriOK τ)
    (r : Option (TSub × TSub)) (hr : unifyT k n τ eT u v = some r) :
    match r with
    | none => unifyF n (absT τ) eF u v = some none
    | some (τ', eT') => ∃ new, τ' = new ++ τ ∧ eT' = new ++ eT ∧ TriOK τ' ∧
        unifyF n (absT τ) eF u v = some (some (absT τ', extF new τ ++ eF)) := by
  have := unifyT_refines k n τ eT eF u v u v h rfl rfl r hr
  cases r with
  | none => exact this
  | some p => exact this

/-- … and it does answer: for some recursion fuel and every occurs-check fuel beyond some bound (so the refinement is
    never vacuous), and the answer does not depend on the occurs-check fuel -/
theorem C01_tri_terminates (τ eT : TSub) (u v : Term) (h : TriOK τ) :
    ∃ n K, ∀ k, K ≤ k → unifyT k n τ eT u v ≠ none := by
  obtain ⟨n, hn⟩ := unifyF_terminates (absT τ) [] u v h.solved
  cases hF : unifyF n (absT τ) [] u v with
  | none => exact absurd hF hn
  | some rF =>
    obtain ⟨K, hK⟩ := unifyT_progress n τ eT [] u v u v h rfl rfl rF hF
    exact ⟨n, K, hK⟩

theorem C01_tri_fuel_independent (k k' n : Nat) (τ e : TSub) (u v : Term) (h : TriOK τ) (r r' : Option (TSub × TSub))
    (h1 : unifyT k n τ e u v = some r) (h2 : unifyT k' n τ e u v = some r') : r = r' :=
  unifyT_indep k k' n τ e u v h r r' h1 h2

/-- the C01 theorems, read on the triangular algorithm: on success the substitution it builds stands for a solved form
    that extends the prior bindings, unifies the two terms and is most general among the unifiers consistent with the
    prior bindings -/
theorem C01_tri_sound_mgu (k n : Nat) (τ eT τ' eT' : TSub) (u v : Term) (h : TriOK τ)
    (hr : unifyT k n τ eT u v = some (some (τ', eT'))) :
    TriOK τ' ∧ Solved (absT τ') ∧ Ext (absT τ) (absT τ') ∧ Unifies (absT τ') u v ∧
      ∀ θ : Subst, Ext (absT τ) θ → Unifies θ u v → Ext (absT τ') θ := by
  obtain ⟨new, _, _, ok, hF⟩ := unifyT_refines k n τ eT [] u v u v h rfl rfl _ hr
  obtain ⟨s1, s2, s3⟩ := unifyF_sound n _ _ _ _ u v h.solved hF
  exact ⟨ok, s1, s2, s3, unifyF_mgu n _ _ _ _ u v h.solved hF⟩

/-- … and it fails only when no finite unifier consistent with the prior bindings exists -/
theorem C01_tri_fail_complete (k n : Nat) (τ eT : TSub) (u v : Term) (h : TriOK τ)
    (hr : unifyT k n τ eT u v = some none) : ¬ ∃ θ : Subst, Ext (absT τ) θ ∧ Unifies θ u v :=
  unifyF_fail n _ [] u v h.solved (unifyT_refines k n τ eT [] u v u v h rfl rfl _ hr)

/-! Non-vacuity: a reachable triangular substitution with a chain `x3 ↦ x0 ↦ [C7(x2) …]`, right-hand sides that are NOT
    walk-starred, and the occurs check through a chain. -/
section Examples
private def t1 : Term := .cons (.var 0) (.var 1)
private def t2 : Term := .cons (.comp 7 (.cons (.var 2) .nil)) (.cons (num 5) .nil)
example : (match unifyT 20 10 [] [] (.var 3) (.var 0) with
    | some (some (τ1, _)) =>
      (match unifyT 20 10 τ1 [] (.cons (.var 3) (.var 1)) t2 with
       | some (some (τ2, e2)) => e2.length == 2 && τ2.length == 3 && walkStarT 20 τ2 (.var 3) == some (.comp 7 (.cons (.var 2) .nil))
       | _ => false)
    | _ => false) = true := by decide
/-- the stored right-hand side keeps the bound variable `x0` unreplaced: triangular, not solved -/
example : (match unifyT 20 10 [(0, num 1)] [] (.var 1) (.cons (.var 0) .nil) with
    | some (some (τ', _)) => τ'.get 1 == some (.cons (.var 0) .nil) && walkStarT 20 τ' (.var 1) == some (.cons (num 1) .nil)
    | _ => false) = true := by decide
/-- occurs check through a chain of bindings -/
example : unifyT 20 10 [(1, .cons (.var 0) .nil)] [] (.var 0) (.comp 3 (.var 1)) = some none := by decide
example : TriOK [(1, .cons (.var 0) .nil), (0, num 1)] :=
  .cons (.cons .nil rfl (fun _ h => nomatch h) rfl) rfl (fun _ h => nomatch h) rfl
end Examples

end Pv
