-- Root of the `PvModel` library: executable model, specs, proofs and property theorems.
import PvModel.Model.FD
